(* Driver for the extracted C13 models.
   atom_model atom <file> : atom histories.  Lines:  N (new history) | I g hs | D g | R g obj | L id | X id | S g key | G id
                            an id operand is a literal or @k = result of op k of the current history.
                            Prints per op:  M <result> | <state dump>   and   S <result> <ok|nodomain>
   atom_model ht <file>   : handle-table monitor.  Lines: N | O k obj argsok ans | I k parent pk sub argsok ans
                            | U k id ans | L k id ans | P k1 id1 k2 id2 argsok ans     (ans = F or an integer).  Prints  V ok | V bad <code>
   atom_model fm <file>   : file machine.  Lines: N | o path acc | c fid | s fid w | e aid | q fid   (@k as above)
                            Prints  F fail | F ok v  [quiescent]                                                   *)
open Atom_model

let rec pos_of_int n = if n = 1 then XH else if n land 1 = 1 then XI (pos_of_int (n lsr 1)) else XO (pos_of_int (n lsr 1))
let z_of_int n = if n = 0 then Z0 else if n > 0 then Zpos (pos_of_int n) else Zneg (pos_of_int (-n))
let rec int_of_pos = function XH -> 1 | XI p -> 2 * int_of_pos p + 1 | XO p -> 2 * int_of_pos p
let int_of_z = function Z0 -> 0 | Zpos p -> int_of_pos p | Zneg p -> - (int_of_pos p)
let zs z = string_of_int (int_of_z z)

let toks line = List.filter (fun s -> s <> "") (String.split_on_char ' ' (String.trim line))

let dump (m : mstate) =
  let c e = zs e.cid ^ ":" ^ zs e.cobj in
  let gs = List.sort (fun (a, _) (b, _) -> compare (int_of_z a) (int_of_z b)) m.mgroups in
  let grp (g, gp) =
    let bs = List.filter (fun (_, b) -> b <> []) gp.gbk in
    let bs = List.sort (fun (a, _) (b, _) -> compare (int_of_z a) (int_of_z b)) bs in
    let b (loc, ns) = zs loc ^ ":" ^ String.concat "," (List.map (fun n -> zs n.nid ^ "=" ^ zs n.nobj) ns) in
    Printf.sprintf "g%s=%s,%s,%s,%s{%s}" (zs g) (zs gp.gcount) (zs gp.ghash) (zs gp.gatoms) (zs gp.gnext)
      (String.concat ";" (List.map b bs)) in
  Printf.sprintf "c %s %s %s %s | %s" (c m.mc0) (c m.mc1) (c m.mc2) (c m.mc3) (String.concat " " (List.map grp gs))

let run_atom ic =
  let m = ref m_init and s = ref s_init and res_m = ref [||] and res_s = ref [||] and dom = ref true in
  let reset () = m := m_init; s := s_init; res_m := [||]; res_s := [||]; dom := true in
  let operand res t = if String.length t > 0 && t.[0] = '@' then
      (let k = int_of_string (String.sub t 1 (String.length t - 1)) in
       if k < Array.length res then res.(k) else z_of_int (-1))
    else z_of_int (int_of_string t) in
  (try while true do
      let line = input_line ic in
      match toks line with
      | [] -> ()
      | ["N"] -> reset (); print_string "N\n"
      | t :: args ->
        let mk res = match t, args with
          | "I", [g; hs] -> Some (AInit (operand res g, operand res hs))
          | "D", [g] -> Some (ADestroy (operand res g))
          | "R", [g; o] -> Some (AReg (operand res g, operand res o))
          | "L", [id] -> Some (ALookup (operand res id))
          | "X", [id] -> Some (ARemove (operand res id))
          | "S", [g; k] -> Some (ASearch (operand res g, operand res k))
          | "G", [id] -> Some (AGroup (operand res id))
          | _ -> None in
        (match mk !res_m, mk !res_s with
         | Some om, Some os ->
           let (r, m1) = m_step om !m in
           m := m1; res_m := Array.append !res_m [| r |];
           if not (op_ok os !s) then dom := false;
           let (r2, s1) = s_step os !s in
           s := s1; res_s := Array.append !res_s [| r2 |];
           Printf.printf "M %s | %s\nS %s %s\n" (zs r) (dump m1) (zs r2) (if !dom then "ok" else "nodomain")
         | _ -> print_string "M badline\nS badline\n")
    done with End_of_file -> ())

let kind_of_int = function
  | 0 -> KFile | 1 -> KAid | 2 -> KBit | 3 -> KVg | 4 -> KVs | 5 -> KGr | 6 -> KRi | 7 -> KAn | 8 -> KAnn
  | 9 -> KSd | 10 -> KSds | _ -> KDim

let run_ht ic =
  let t = ref [] in
  let ans a = if a = "F" then AFail else AOk (z_of_int (int_of_string a)) in
  let z s = z_of_int (int_of_string s) and k s = kind_of_int (int_of_string s) in
  (try while true do
      let line = input_line ic in
      let call = match toks line with
        | ["N"] -> t := []; print_string "N\n"; None
        | ["O"; kk; obj; ok; a] -> Some (CRoot (k kk, z obj, ok = "1"), ans a)
        | ["I"; kk; par; pk; sub; ok; a] -> Some (CIssue (k kk, z par, k pk, z sub, ok = "1", z "0"), ans a)
        | ["I"; kk; par; pk; sub; ok; a; "W"] -> Some (CIssue (k kk, z par, k pk, z sub, ok = "1", z "1"), ans a)
        | ["U"; kk; id; a] -> Some (CUse (k kk, z id), ans a)
        | ["L"; kk; id; a] -> Some (CRelease (k kk, z id), ans a)
        | ["P"; k1; id1; k2; id2; ok; a] -> Some (CPair (k k1, z id1, k k2, z id2, ok = "1"), ans a)
        | [] -> None
        | _ -> print_string "V badline\n"; None in
      match call with
      | None -> ()
      | Some (c, a) ->
        let (v, t1) = h_step c a !t in
        t := t1;
        (match v with VOk -> print_string "V ok\n" | VBad code -> Printf.printf "V bad %s\n" (zs code))
    done with End_of_file -> ())

let run_fm ic =
  let st = ref f_init and res = ref [||] in
  let operand t = if String.length t > 0 && t.[0] = '@' then
      (let k = int_of_string (String.sub t 1 (String.length t - 1)) in
       if k < Array.length !res then !res.(k) else z_of_int (-1))
    else z_of_int (int_of_string t) in
  (try while true do
      let line = input_line ic in
      let op = match toks line with
        | ["N"] -> st := f_init; res := [||]; print_string "N\n"; None
        | ["o"; p; acc] -> Some (FOpen (operand p, operand acc))
        | ["c"; f] -> Some (FClose (operand f))
        | ["s"; f; w] -> Some (FStart (operand f, w = "1"))
        | ["e"; a] -> Some (FEnd (operand a))
        | ["q"; f] -> Some (FInq (operand f))
        | _ -> None in
      match op with
      | None -> ()
      | Some o ->
        let (r, s1) = f_step o !st in
        st := s1;
        let q = if f_quiescent s1 then " quiescent" else "" in
        (match r with
         | RFail -> res := Array.append !res [| z_of_int (-1) |]; Printf.printf "F fail%s\n" q
         | ROk v -> res := Array.append !res [| v |]; Printf.printf "F ok %s%s\n" (zs v) q)
    done with End_of_file -> ())

(* ct: table of open SD files.  Lines: N | o obj lim | c slot lim | r req lim ; prints  T <result> *)
let run_ct ic =
  let t = ref ct_init in
  (try while true do
      let line = input_line ic in
      match toks line with
      | ["N"] -> t := ct_init; print_string "N\n"
      | [k; a; lim] ->
        let op = match k with "o" -> Some (CTOpen (z_of_int (int_of_string a)))
                            | "c" -> Some (CTClose (z_of_int (int_of_string a)))
                            | "r" -> Some (CTReset (z_of_int (int_of_string a))) | _ -> None in
        (match op with
         | Some o -> let (r, t1) = ct_step (z_of_int (int_of_string lim)) o !t in
           t := t1; Printf.printf "T %s\n" (zs r)
         | None -> print_string "T badline\n")
      | [] -> ()
      | _ -> print_string "T badline\n"
    done with End_of_file -> ())

let () =
  let mode = if Array.length Sys.argv > 1 then Sys.argv.(1) else "atom" in
  let ic = if Array.length Sys.argv > 2 then open_in Sys.argv.(2) else stdin in
  match mode with
  | "atom" -> run_atom ic
  | "ht" -> run_ht ic
  | "fm" -> run_fm ic
  | "ct" -> run_ct ic
  | _ -> prerr_endline "unknown mode"; exit 2
