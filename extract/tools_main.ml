(* Driver for the extracted C19 specification (S) and model (M).
     tools_model ad   <cases>        nt n maxcnt lim relnum relden a.. b..   -> "M nd i.. ; S nd i.."
     tools_model hd   <pairs>        lines "desc1 desc2"                    -> "S exit ; M exit nfound ; T flags:name .. ; W count_with_one_sided_entries_counted"
     tools_model dump <desc>         -> per object "D name tok tok ..."  (integer objects; "D name unsupported" otherwise)
     tools_model imp  <cases>        lines "outbits textfile"               -> "M r d.. ; v.." | "M fail"
     tools_model pos  <cases>        lines "rank d.. k"                     -> "M p.. ; S p.."
   Description format: see harness/drive_c19.c. *)
open Tools_model

let rec pos_of_int n = if n = 1 then XH else if n land 1 = 1 then XI (pos_of_int (n lsr 1)) else XO (pos_of_int (n lsr 1))
let z_of_int n = if n = 0 then Z0 else if n > 0 then Zpos (pos_of_int n) else Zneg (pos_of_int (-n))
let rec int_of_pos = function XH -> 1 | XI p -> 2 * int_of_pos p + 1 | XO p -> 2 * int_of_pos p
let int_of_z = function Z0 -> 0 | Zpos p -> int_of_pos p | Zneg p -> - (int_of_pos p)
(* decimal strings may exceed 62 bits (uint64 patterns): go through a digit loop on Z *)
let z_of_string s =
  let neg = String.length s > 0 && s.[0] = '-' in
  let ten = z_of_int 10 in
  let acc = ref Z0 in
  String.iteri (fun i c -> if not (neg && i = 0) then acc := Z.add (Z.mul !acc ten) (z_of_int (Char.code c - 48))) s;
  if neg then Z.opp !acc else !acc
let string_of_chars l = String.concat "" (List.map (fun c -> String.make 1 (Char.chr (int_of_z c))) l)
let chars_of_string s = List.init (String.length s) (fun i -> z_of_int (Char.code s.[i]))
let zs l = String.concat " " (List.map (fun z -> string_of_chars (fmt_dec z)) l)

let toks line = List.filter (fun s -> s <> "") (String.split_on_char ' ' (String.trim line))
let read_lines path =
  let ic = open_in path in
  let rec go acc = match input_line ic with l -> go (l :: acc) | exception End_of_file -> close_in ic; List.rev acc in
  go []

let rec take n l = if n = 0 then ([], l) else match l with x :: r -> let (a, b) = take (n - 1) r in (x :: a, b) | [] -> ([], [])

let parse_attr t = match t with
  | name :: nt :: n :: rest -> { a_name = chars_of_string name; a_type = z_of_string nt;
                                 a_vals = List.map z_of_string (fst (take (int_of_string n) rest)) }
  | _ -> failwith "bad attribute line"

let parse_desc path : file =
  let gattrs = ref [] and objs = ref [] and nraster = ref 0 in
  let add_attr a = match !objs with
    | { o_name = nm; o_body = BSds (t, d, v, at) } :: r -> objs := { o_name = nm; o_body = BSds (t, d, v, at @ [a]) } :: r
    | _ -> failwith "A line without S" in
  List.iter (fun line -> match toks line with
    | "G" :: t -> gattrs := !gattrs @ [parse_attr t]
    | "A" :: t -> add_attr (parse_attr t)
    | "S" :: name :: nt :: rank :: rest ->
      let (dims, rest) = take (int_of_string rank) rest in
      (match rest with
       | n :: vals -> objs := { o_name = chars_of_string name;
                                o_body = BSds (z_of_string nt, List.map z_of_string dims,
                                               List.map z_of_string (fst (take (int_of_string n) vals)), []) } :: !objs
       | [] -> failwith "bad S")
    | "R" :: name :: nt :: nc :: xd :: yd :: n :: vals ->
      objs := { o_name = chars_of_string name;
                o_body = BGr (z_of_string nt, z_of_string nc, z_of_string xd, z_of_string yd,
                              List.map z_of_string (fst (take (int_of_string n) vals))) } :: !objs
    | "T" :: _owner :: _findex :: name :: nt :: n :: vals ->
      (* a Vdata / Vgroup attribute is stored as a lone Vdata of class Attr0.0 named like the attribute, with one
         record of one field VALUES: that is the object hdiff lists and compares *)
      objs := { o_name = chars_of_string name;
                o_body = BVd (z_of_int 1, [(chars_of_string "VALUES", (z_of_string nt, z_of_string n))],
                              List.map z_of_string (fst (take (int_of_string n) vals))) } :: !objs
    | ("V" | "N") :: name :: nrec :: nf :: rest ->
      let rec fields k l = if k = 0 then ([], l) else match l with
        | fn :: nt :: ord :: r -> let (fs, r') = fields (k - 1) r in ((chars_of_string fn, (z_of_string nt, z_of_string ord)) :: fs, r')
        | _ -> failwith "bad V" in
      let (fs, rest) = fields (int_of_string nf) rest in
      (match rest with
       | n :: vals -> objs := { o_name = chars_of_string name;
                                o_body = BVd (z_of_string nrec, fs, List.map z_of_string (fst (take (int_of_string n) vals))) } :: !objs
       | [] -> failwith "bad V")
    | "E" :: name :: _ -> objs := { o_name = chars_of_string name; o_body = BVg } :: !objs
    | "D" :: _il :: xd :: yd :: n :: vals ->
      objs := { o_name = chars_of_string (Printf.sprintf "Raster Image #%d" !nraster);
                o_body = BGr (z_of_int 3, z_of_int 3, z_of_string xd, z_of_string yd,
                              List.map z_of_string (fst (take (int_of_string n) vals))) } :: !objs;
      incr nraster
    | "B" :: xd :: yd :: n :: vals ->
      objs := { o_name = chars_of_string (Printf.sprintf "Raster Image #%d" !nraster);
                o_body = BGr (z_of_int 3, z_of_int 1, z_of_string xd, z_of_string yd,
                              List.map z_of_string (fst (take (int_of_string n) vals))) } :: !objs;
      incr nraster
    | [] -> ()
    | _ -> failwith ("bad line: " ^ line)) (read_lines path);
  { f_gattrs = !gattrs; f_objs = List.rev !objs }

(* hdiff_list enters lone objects in the order: Vgroups, GR images, SDSs, Vdatas *)
let list_order (f : file) : file =
  let k o = match o.o_body with BVg -> 0 | BGr _ -> 1 | BSds _ -> 2 | BVd _ -> 3 in
  { f with f_objs = List.stable_sort (fun a b -> compare (k a) (k b)) f.f_objs }

let mode_ad path =
  List.iter (fun line -> match toks line with
    | nt :: n :: maxc :: lim :: rn :: rd :: rest ->
      let n = int_of_string n in
      let (a, b) = take n (List.map z_of_string rest) in
      let rel = if int_of_string rd = 0 then None else Some (z_of_string rn, z_of_string rd) in
      let o = { o_lim = z_of_string lim; o_rel = rel; o_max = z_of_string maxc } in
      let (nd, pr) = array_diff_m (z_of_string nt) o a b in
      Printf.printf "M %s %s ; S %s %s\n" (zs [nd]) (zs pr) (zs [spec_count a b]) (zs (spec_diff_positions Z0 a b))
    | _ -> print_string "M badline ; S badline\n") (read_lines path)

let mode_hd path =
  List.iter (fun line -> match toks line with
    | [p1; p2] ->
      let f1 = list_order (parse_desc p1) and f2 = list_order (parse_desc p2) in
      let tbl = String.concat "|" (List.map (function
          | Both (a, _) -> "xx:" ^ string_of_chars a.o_name
          | Only1 a -> "x-:" ^ string_of_chars a.o_name
          | Only2 a -> "-x:" ^ string_of_chars a.o_name) (cmatch f1.f_objs f2.f_objs)) in
      let tags = String.concat "|" (List.map2 (fun t o -> string_of_chars (fmt_dec t) ^ ":" ^ string_of_chars o.o_name)
                                     (table_tags f1.f_objs) f1.f_objs) in
      Printf.printf "S %s ; M %s %s ; T %s ; W %s ; G %s\n" (zs [spec_exit f1 f2]) (zs [hdiff_tab_exit_m f1 f2]) (zs [hdiff_tab_m f1 f2]) tbl
        (zs [match_wanted f1.f_objs f2.f_objs]) tags
    | _ -> print_string "S badline ; M badline\n") (read_lines path)

let opt_toks f l = String.concat " " (List.map (fun v -> match f v with Some t -> string_of_chars t | None -> "?") l)
let mode_dump path =
  let f = parse_desc path in
  List.iter (fun o ->
    let name = string_of_chars o.o_name in
    match o.o_body with
    | BSds (nt, dims, vals, _) ->
      (match dump_sds_m dims vals with
       | Some vs -> Printf.printf "D %s %s\n" name (opt_toks (hdp_print nt) vs)
       | None -> Printf.printf "D %s walkfail\n" name)
    | BGr (nt, _, _, _, vals) -> Printf.printf "D %s %s\n" name (opt_toks (hdp_print nt) vals)
    | BVd (nrec, fs, vals) ->
      let per = List.concat (List.map (fun (_, (nt, ord)) -> List.init (int_of_z ord) (fun _ -> nt)) fs) in
      let rec go vals acc = match vals with [] -> List.rev acc | _ ->
        let (rcd, rest) = take (List.length per) vals in
        go rest (List.rev_append (List.map2 (fun nt v -> match hdp_print nt v with Some t -> string_of_chars t | None -> "?") per rcd) acc) in
      Printf.printf "D %s %s\n" name (String.concat " " (go vals []))
    | BVg -> ()) f.f_objs

let mode_imp path =
  List.iter (fun line -> match toks line with
    | [bits; file] ->
      let ic = open_in_bin file in
      let s = really_input_string ic (in_channel_length ic) in
      close_in ic;
      (match import_m (z_of_string bits) (chars_of_string s) with
       | Some (dims, vals) -> Printf.printf "M %d %s ; %s\n" (List.length dims) (zs dims) (zs vals)
       | None -> print_string "M fail\n")
    | _ -> print_string "M badline\n") (read_lines path)

let mode_pos path =
  List.iter (fun line -> match List.map z_of_string (toks line) with
    | rank :: rest ->
      let (dims, r) = take (int_of_z rank) rest in
      (match r with
       | [k] -> Printf.printf "M %s ; S %s\n" (zs (print_pos_m dims k)) (zs (spec_index dims k))
       | _ -> print_string "M badline\n")
    | _ -> print_string "M badline\n") (read_lines path)

(* lines "nv vsize": record numbers dumpvd prints -> "M <count> <1 if they are 0..nv-1 in order> <first out-of-order position or -1>" *)
let mode_vdwalk path =
  List.iter (fun line -> match List.map z_of_string (toks line) with
    | [nv; vsize] ->
      (match dumpvd_m nv vsize with
       | Some l ->
         let rec chk i = function [] -> -1 | x :: r -> if int_of_z x = i then chk (i + 1) r else i in
         let bad = chk 0 l in
         Printf.printf "M %d %d %d\n" (List.length l) (if bad < 0 && List.length l = int_of_z nv then 1 else 0) bad
       | None -> print_string "M nofinish\n")
    | _ -> print_string "M badline\n") (read_lines path)

(* lines "name,name|f f f|f f" (chosen field names, then the field names of each Vdata in file order)
   -> "M i i|i" : the field indices hdp uses for each Vdata (fields_walk) *)
let mode_vdsel path =
  List.iter (fun line -> match String.split_on_char '|' line with
    | chosen :: vds ->
      let names s sep = List.map chars_of_string (List.filter (fun x -> x <> "") (String.split_on_char sep (String.trim s))) in
      let res = fields_walk [] (List.map (fun v -> names v ' ') vds) (names chosen ',') in
      print_string ("M " ^ String.concat "|" (List.map zs res) ^ "\n")
    | _ -> print_string "M badline\n") (read_lines path)

let () =
  match Sys.argv with
  | [| _; "ad"; p |] -> mode_ad p
  | [| _; "hd"; p |] -> mode_hd p
  | [| _; "dump"; p |] -> mode_dump p
  | [| _; "imp"; p |] -> mode_imp p
  | [| _; "pos"; p |] -> mode_pos p
  | [| _; "vdwalk"; p |] -> mode_vdwalk p
  | [| _; "vdsel"; p |] -> mode_vdsel p
  | _ -> prerr_endline "usage: tools_model ad|hd|dump|imp|pos <file>"; exit 2
