(* Driver for the extracted C05 specification / models.  Reads the same case lines as harness/drive_comp.c
   (see there) and prints, per line,   S tok|tok|...   in the harness's token syntax:
     n<k> count/SUCCEED, f FAIL, b<hex> bytes, z<orig> size, x<hex> expected contents, v<value> bits, ? not compared. *)
open Comp_model

let rec pos_of_int n = if n = 1 then XH else if n land 1 = 1 then XI (pos_of_int (n lsr 1)) else XO (pos_of_int (n lsr 1))
let z_of_int n = if n = 0 then Z0 else if n > 0 then Zpos (pos_of_int n) else Zneg (pos_of_int (-n))
let rec int_of_pos = function XH -> 1 | XI p -> 2 * int_of_pos p + 1 | XO p -> 2 * int_of_pos p
let int_of_z = function Z0 -> 0 | Zpos p -> int_of_pos p | Zneg p -> - (int_of_pos p)

let rec firstn_z n l = if n <= 0 then [] else match l with [] -> [] | x :: t -> x :: firstn_z (n - 1) t

let hex l =
  let b = Buffer.create (2 * List.length l) in
  List.iter (fun z -> Buffer.add_string b (Printf.sprintf "%02x" (int_of_z z land 255))) l;
  Buffer.contents b

let toks = ref [||]
let ti = ref 0
let next () = let t = !toks.(!ti) in incr ti; t
let nexti () = int_of_string (next ())
let have () = !ti < Array.length !toks

let nt_size nt = match nt land 4095 with 3 | 4 | 20 | 21 -> 1 | 22 | 23 -> 2 | 24 | 25 | 5 -> 4 | 26 | 27 | 6 -> 8 | _ -> 0

let coder_of c p =
  match c with
  | 0 -> Some CNone
  | 1 -> Some CRle
  | 3 -> if p.(0) >= 1 then Some (CSkphuff (z_of_int p.(0))) else None
  | 4 -> if p.(0) >= 0 && p.(0) <= 9 then Some (CDeflate (z_of_int p.(0))) else None
  | 2 -> let sz = nt_size p.(0) in
         if sz > 0 && nbit_params_ok (z_of_int sz) (z_of_int p.(3)) (z_of_int p.(4)) && (p.(1) = 0 || p.(1) = 1) && (p.(2) = 0 || p.(2) = 1)
         then Some (CNbit (z_of_int sz, z_of_int p.(3), z_of_int p.(4), p.(1) = 1, p.(2) = 1)) else None
  | _ -> None

let read_ops () =
  let n = nexti () in
  let rec go k acc =
    if k = 0 then List.rev acc else
    let t = next () in
    let o = match t with
      | "W" -> let n = nexti () in let bs = List.init n (fun _ -> z_of_int (nexti ())) in OWrite bs
      | "S" -> OSeek (Z0, z_of_int (nexti ()))
      | "SC" -> OSeek (z_of_int 1, z_of_int (nexti ()))
      | "SE" -> OSeek (z_of_int 2, z_of_int (nexti ()))
      | "T" -> OTell | "Q" -> OInq
      | "R" -> ORead (z_of_int (nexti ()))
      | "E" -> OEnd | "OR" -> OStartRead | "OW" -> OStartWrite | "C" -> OReopen | "Z" -> OSize | "X" -> ORaw
      | _ -> failwith ("op " ^ t) in
    go (k - 1) (o :: acc) in
  go n []

let show_res o r =
  match r, o with
  | RNoDomain, _ -> "?"
  | RFail, _ -> "f"
  | RN n, OSize -> "z" ^ string_of_int (int_of_z n)
  | RPair (a, b), _ -> "q" ^ string_of_int (int_of_z a) ^ "," ^ string_of_int (int_of_z b)
  | RN n, _ -> "n" ^ string_of_int (int_of_z n)
  | RBytes l, ORaw -> "x" ^ hex l
  | RBytes l, _ -> "b" ^ hex l

let case_element () =
  let c = nexti () in
  let p = Array.init 5 (fun _ -> nexti ()) in
  let ops = read_ops () in
  match coder_of c p with
  | None -> "S ?" ^ String.concat "" (List.map (fun _ -> "|?") ops)
  | Some cd ->
    let rs = s_run cd elt_empty ops in
    "S n0" ^ String.concat "" (List.map2 (fun o r -> "|" ^ show_res o r) ops rs)

let inject_bytes = ref []
let read_inject () =
  let n = nexti () in
  inject_bytes := List.init n (fun _ -> nexti ())

let case_bits () =
  let n = nexti () in
  let ops = List.init n (fun _ ->
    match next () with
    | "w" -> let c = nexti () in let v = nexti () in BWrite (z_of_int c, z_of_int v)
    | "r" -> BRead (z_of_int (nexti ()))
    | "s" -> let a = nexti () in let b = nexti () in BSeek (z_of_int a, z_of_int b)
    | "e" -> BEnd (z_of_int (nexti ()))
    | "or" -> BStartRead | "ow" -> BStartWrite | "x" -> BStartRead
    | t -> failwith ("bitop " ^ t)) in
  let init = match !inject_bytes with
    | [] -> bitelt_new
    | bs -> { b_bits = List.concat (List.map (fun b -> List.init 8 (fun i -> (b lsr (7 - i)) land 1 = 1)) bs);
              b_pos = Z0; b_writing = false } in
  let rs = b_run init ops in
  "S n0" ^ String.concat "" (List.map2 (fun o r ->
    match r, o with
    | RNoDomain, _ -> "|?"
    | RN v, BRead _ -> "|v" ^ string_of_int (int_of_z v)
    | RN v, _ -> "|n" ^ string_of_int (int_of_z v)
    | _ -> "|?") ops rs)

(* V coder p1..p5 nbytes datahex rawhex : model-level verification of one element's stored form.
   prints  M dec=<hex|fail|na> enc=<hex|na> hdr=<hex>   where
     dec = the raw stream decoded by the extracted Coq decoder (nbytes bytes),
     enc = the stream the model encoder produces for the data (one write session),
     hdr = the description record the model writes for length nbytes / comp_ref given *)
let unhex h = List.init (String.length h / 2) (fun i -> z_of_int (int_of_string ("0x" ^ String.sub h (2 * i) 2)))
let optstr = function None -> "fail" | Some l -> "h" ^ hex l

let case_verify () =
  let c = nexti () in
  let p = Array.init 5 (fun _ -> nexti ()) in
  let n = nexti () in
  let cref = nexti () in
  let data = let h = next () in if h = "-" then [] else unhex h in
  let raw = let h = next () in if h = "-" then [] else unhex h in
  let zn = z_of_int n in
  let pl = Array.to_list (Array.map z_of_int p) in
  let hdr = hex (hdr_record zn (z_of_int cref) Z0 (z_of_int c) pl) in
  let dec, enc = match c with
    | 0 -> optstr (Some (firstn_z n raw)), "h" ^ hex data
    | 1 -> optstr (rle_decode_all raw zn), "h" ^ hex (rle_write_session [data])
    | 2 -> let sz = nt_size p.(0) in
           let cfg = { nb_size = z_of_int sz; nb_off = z_of_int p.(3); nb_len = z_of_int p.(4); nb_sign = (p.(1) = 1); nb_fill = (p.(2) = 1) } in
           optstr (nbit_decode cfg raw (z_of_int (n / sz))), "h" ^ hex (nbit_encode cfg data)
    | 3 -> optstr (skp_decode (z_of_int p.(0)) raw zn),
           (* the list-based splay model costs ~1 ms per symbol: on long elements only the decoder (format check) runs *)
           (if n > 6000 then "na" else "h" ^ hex (skp_encode (z_of_int p.(0)) data))
    | _ -> "na", "na" in
  "M dec=" ^ dec ^ " enc=" ^ enc ^ " hdr=" ^ hdr

(* header cases: H coder p1..p5 -> the bytes HCPencode_header must produce and what decoding them gives back;
   D n bytes -> decoding of arbitrary bytes *)
let show_dec (m, c, ps) =
  let ps = List.map int_of_z ps in
  let rec pad l k = if k = 0 then [] else (match l with [] -> 0 :: pad [] (k - 1) | x :: t -> x :: pad t (k - 1)) in
  "d" ^ String.concat "," (List.map string_of_int (int_of_z m :: int_of_z c :: pad ps 5))
let case_header () =
  let c = nexti () in
  let p = List.init 5 (fun _ -> z_of_int (nexti ())) in
  let bytes = hdr_encode Z0 (z_of_int c) p in
  let ((m, cc), ps) = hdr_decode bytes in
  "S n" ^ string_of_int (int_of_z (hdr_query_len (z_of_int c))) ^ "|b" ^ hex bytes ^ "|" ^ show_dec (m, cc, ps)
let case_hdecode () =
  let n = nexti () in
  let bytes = List.init n (fun _ -> z_of_int (nexti ())) in
  let ((m, cc), ps) = hdr_decode (bytes @ List.init 40 (fun _ -> Z0)) in
  "S " ^ show_dec (m, cc, ps)

(* bit cases on the model: sequential write phase, flush, read phases (seeks only while reading) *)
let case_bits_model () =
  let n = nexti () in
  let injected = !inject_bytes <> [] in
  let w = ref (if injected then None else Some bitw_init)
  and bytes = ref (List.map z_of_int !inject_bytes) and rd = ref None and bb = ref None and out = Buffer.create 256 in
  let supported = ref true in
  Buffer.add_string out "M n0";
  for _ = 1 to n do
    let t = next () in
    let tok =
      if not !supported then (ignore (match t with "w" -> ignore (nexti ()); nexti () | "r" | "e" -> nexti () | "s" -> ignore (nexti ()); nexti () | _ -> 0); "?")
      else match t with
      | "w" -> let c = nexti () in let v = nexti () in
               (match !w with Some s when !rd = None -> w := Some (bw_write s (z_of_int c) (z_of_int v)); "n" ^ string_of_int c
                            | _ -> supported := false; "?")
      | "e" -> ignore (nexti ());
               (match !w with Some s -> bytes := bw_flush s; w := None | None -> ()); rd := None; bb := None; "n0"
      | "or" -> (* injected elements run on the block-buffer model (CompBitbufModel), written ones on the byte-stream model *)
               if injected then bb := Some (bb_start !bytes) else rd := Some (bitr_init !bytes); "n0"
      | "r" -> let c = nexti () in
               (match !bb, !rd with
                | Some s, _ -> let (s', v) = bb_readbits !bytes s (z_of_int c) in bb := Some s'; "v" ^ string_of_int (int_of_z v)
                | None, Some s -> (match br_read s (z_of_int c) with
                             | Some (s', v) -> rd := Some s'; "v" ^ string_of_int (int_of_z v)
                             | None -> supported := false; "?")
                | None, None -> supported := false; "?")
      | "s" -> let a = nexti () in let b = nexti () in
               (match !bb, !rd with
                | Some s, _ -> (match bb_seek !bytes s (z_of_int a) (z_of_int b) with
                                | Some s' -> bb := Some s'; "n0" | None -> supported := false; "?")
                | None, Some _ -> (match br_seek !bytes (z_of_int a) (z_of_int b) with
                             | Some s' -> rd := Some s'; "n0" | None -> supported := false; "?")
                | None, None -> supported := false; "?")
      | "x" -> "x," ^ hex !bytes
      | _ -> supported := false; "?" in
    Buffer.add_string out ("|" ^ tok)
  done;
  Buffer.contents out

let () =
  let ic = if Array.length Sys.argv > 1 then open_in Sys.argv.(1) else stdin in
  (try
    while true do
      let line = input_line ic in
      toks := Array.of_list (List.filter (fun s -> s <> "") (String.split_on_char ' ' line));
      ti := 0;
      if have () then begin
        let out = (try (match next () with
          | "E" -> case_element ()
          | "B" -> inject_bytes := [];
                   let save = !ti in let a = case_bits () in ti := save; a ^ "\n" ^ case_bits_model ()
          | "BI" -> read_inject ();
                   let save = !ti in let a = case_bits () in ti := save;
                   let m = a ^ "\n" ^ case_bits_model () in inject_bytes := []; m
          | "V" -> case_verify ()
          | "H" -> case_header ()
          | "D" -> case_hdecode ()
          | _ -> "S skip") with e -> "S error " ^ Printexc.to_string e) in
        print_string (out ^ "\n")
      end
    done
  with End_of_file -> ())
