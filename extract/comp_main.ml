(* Driver for the extracted C05 specification / models.  Reads the same case lines as harness/drive_comp.c
   (see there) and prints, per line,   S tok|tok|...   in the harness's token syntax:
     n<k> count/SUCCEED, f FAIL, b<hex> bytes, z<orig> size, x<hex> expected contents, v<value> bits, ? not compared. *)
open Comp_model

let rec pos_of_int n = if n = 1 then XH else if n land 1 = 1 then XI (pos_of_int (n lsr 1)) else XO (pos_of_int (n lsr 1))
let z_of_int n = if n = 0 then Z0 else if n > 0 then Zpos (pos_of_int n) else Zneg (pos_of_int (-n))
let rec int_of_pos = function XH -> 1 | XI p -> 2 * int_of_pos p + 1 | XO p -> 2 * int_of_pos p
let int_of_z = function Z0 -> 0 | Zpos p -> int_of_pos p | Zneg p -> - (int_of_pos p)

let hex l =
  let b = Buffer.create (2 * List.length l) in
  List.iter (fun z -> Buffer.add_string b (Printf.sprintf "%02x" (int_of_z z land 255))) l;
  Buffer.contents b

let toks = ref [||]
let ti = ref 0
let next () = let t = !toks.(!ti) in incr ti; t
let nexti () = int_of_string (next ())
let have () = !ti < Array.length !toks

let nt_size nt = match nt land 4095 with 3 | 4 | 20 | 21 -> 1 | 22 | 23 -> 2 | 24 | 25 | 5 -> 4 | 26 | 27 | 6 -> 8 | _ -> 0

let coder_of c p =
  match c with
  | 0 -> Some CNone
  | 1 -> Some CRle
  | 3 -> if p.(0) >= 1 then Some (CSkphuff (z_of_int p.(0))) else None
  | 4 -> if p.(0) >= 0 && p.(0) <= 9 then Some (CDeflate (z_of_int p.(0))) else None
  | 2 -> let sz = nt_size p.(0) in
         if sz > 0 && nbit_params_ok (z_of_int sz) (z_of_int p.(3)) (z_of_int p.(4)) && (p.(1) = 0 || p.(1) = 1) && (p.(2) = 0 || p.(2) = 1)
         then Some (CNbit (z_of_int sz, z_of_int p.(3), z_of_int p.(4), p.(1) = 1, p.(2) = 1)) else None
  | _ -> None

let read_ops () =
  let n = nexti () in
  let rec go k acc =
    if k = 0 then List.rev acc else
    let t = next () in
    let o = match t with
      | "W" -> let n = nexti () in let bs = List.init n (fun _ -> z_of_int (nexti ())) in OWrite bs
      | "S" -> OSeek (z_of_int (nexti ()))
      | "R" -> ORead (z_of_int (nexti ()))
      | "E" -> OEnd | "OR" -> OStartRead | "OW" -> OStartWrite | "C" -> OReopen | "Z" -> OSize | "X" -> ORaw
      | _ -> failwith ("op " ^ t) in
    go (k - 1) (o :: acc) in
  go n []

let show_res o r =
  match r, o with
  | RNoDomain, _ -> "?"
  | RFail, _ -> "f"
  | RN n, OSize -> "z" ^ string_of_int (int_of_z n)
  | RN n, _ -> "n" ^ string_of_int (int_of_z n)
  | RBytes l, ORaw -> "x" ^ hex l
  | RBytes l, _ -> "b" ^ hex l

let case_element () =
  let c = nexti () in
  let p = Array.init 5 (fun _ -> nexti ()) in
  let ops = read_ops () in
  match coder_of c p with
  | None -> "S ?" ^ String.concat "" (List.map (fun _ -> "|?") ops)
  | Some cd ->
    let rs = s_run cd elt_empty ops in
    "S n0" ^ String.concat "" (List.map2 (fun o r -> "|" ^ show_res o r) ops rs)

let case_bits () =
  let n = nexti () in
  let ops = List.init n (fun _ ->
    match next () with
    | "w" -> let c = nexti () in let v = nexti () in BWrite (z_of_int c, z_of_int v)
    | "r" -> BRead (z_of_int (nexti ()))
    | "s" -> let a = nexti () in let b = nexti () in BSeek (z_of_int a, z_of_int b)
    | "e" -> BEnd (z_of_int (nexti ()))
    | "or" -> BStartRead | "ow" -> BStartWrite | "x" -> BStartRead
    | t -> failwith ("bitop " ^ t)) in
  let rs = b_run bitelt_new ops in
  "S n0" ^ String.concat "" (List.map2 (fun o r ->
    match r, o with
    | RNoDomain, _ -> "|?"
    | RN v, BRead _ -> "|v" ^ string_of_int (int_of_z v)
    | RN v, _ -> "|n" ^ string_of_int (int_of_z v)
    | _ -> "|?") ops rs)

let () =
  let ic = if Array.length Sys.argv > 1 then open_in Sys.argv.(1) else stdin in
  (try
    while true do
      let line = input_line ic in
      toks := Array.of_list (List.filter (fun s -> s <> "") (String.split_on_char ' ' line));
      ti := 0;
      if have () then begin
        let out = (try (match next () with
          | "E" -> case_element ()
          | "B" -> case_bits ()
          | _ -> "S skip") with e -> "S error " ^ Printexc.to_string e) in
        print_string (out ^ "\n")
      end
    done
  with End_of_file -> ())
