(* Driver for the extracted C07 implementation model (coq/VSModel.v): reads the call records printed by
   harness/drive_vs.c (DRIVE_VS_TRACE=1, lines "MC <ln> <call>", here without the prefix) and prints for each the
   result in the format of the harness's "MR" lines. *)
open Vs_model

let rec pos_of_int n = if n = 1 then XH else if n land 1 = 1 then XI (pos_of_int (n lsr 1)) else XO (pos_of_int (n lsr 1))
let z n = if n = 0 then Z0 else if n > 0 then Zpos (pos_of_int n) else Zneg (pos_of_int (-n))
let rec int_of_pos = function XH -> 1 | XI p -> 2 * int_of_pos p + 1 | XO p -> 2 * int_of_pos p
let iz = function Z0 -> 0 | Zpos p -> int_of_pos p | Zneg p -> - (int_of_pos p)
let rec nat_of_int n = if n <= 0 then O else S (nat_of_int (n - 1))

let ztab = Array.init 256 z
let hexval c = match c with '0'..'9' -> Char.code c - 48 | 'a'..'f' -> Char.code c - 87 | 'A'..'F' -> Char.code c - 55 | _ -> 0
let unhex s =
  if s = "-" then [] else begin
    let n = String.length s / 2 in
    let r = ref [] in
    for i = n - 1 downto 0 do r := ztab.(hexval s.[2 * i] * 16 + hexval s.[2 * i + 1]) :: !r done; !r
  end
let hex l =
  if l = [] then "-" else begin
    let b = Buffer.create 1024 in
    List.iter (fun x -> Buffer.add_string b (Printf.sprintf "%02x" (iz x land 255))) l;
    Buffer.contents b
  end
let name_of s = List.init (String.length s) (fun i -> ztab.(Char.code s.[i]))
let str_of_name l = String.concat "" (List.map (fun c -> String.make 1 (Char.chr (iz c land 255))) l)
let names_of s = if s = "-" then [] else List.map name_of (String.split_on_char ',' s)
let soi = string_of_int

(* "<n>:<a,b,..;a,b,..>" -> list of int lists *)
let body s = match String.index_opt s ':' with Some k -> String.sub s (k + 1) (String.length s - k - 1) | None -> s
let rows s = let b = body s in if b = "-" || b = "" then [] else List.map (String.split_on_char ',') (String.split_on_char ';' b)

let parse_usym s =
  List.map (fun r -> match r with
    | [n; t; i; o] -> { s_name = name_of n; s_type = z (int_of_string t); s_isize = z (int_of_string i); s_order = z (int_of_string o) }
    | _ -> failwith "usym") (rows s)
let show_usym l =
  soi (List.length l) ^ ":" ^ (if l = [] then "-" else
    String.concat ";" (List.map (fun s -> Printf.sprintf "%s,%d,%d,%d" (str_of_name s.s_name) (iz s.s_type) (iz s.s_isize) (iz s.s_order)) l))

let parse_wl ?(names = []) s ivsize =
  let rs = rows s in
  let fl = List.mapi (fun j r -> match List.map int_of_string r with
    | [t; i; e; o; off] -> { w_name = (try List.nth names j with _ -> []); w_type = z t; w_isize = z i; w_esize = z e; w_order = z o; w_off = z off }
    | _ -> failwith "wl") rs in
  { wl_fields = fl; wl_ivsize = z ivsize }
let ivsize_of_rows s = List.fold_left (fun a r -> a + int_of_string (List.nth r 1)) 0 (rows s)
let show_wl fl =
  soi (List.length fl) ^ ":" ^ (if fl = [] then "-" else
    String.concat ";" (List.map (fun f -> Printf.sprintf "%d,%d,%d,%d,%d" (iz f.w_type) (iz f.w_isize) (iz f.w_esize) (iz f.w_order) (iz f.w_off)) fl))
let show_names fl = if fl = [] then "-" else String.concat "," (List.map (fun f -> str_of_name f.w_name) fl)
let dash l = if l = [] then "-" else str_of_name l

let () =
  let ic = open_in Sys.argv.(1) in
  (try
    while true do
      let line = input_line ic in
      let toks = Array.of_list (List.filter (fun s -> s <> "") (String.split_on_char ' ' (String.trim line))) in
      let t k = if k < Array.length toks then toks.(k) else "" in
      let i k = try int_of_string (t k) with _ -> 0 in
      (try
        match t 0 with
        | "fdefine" ->
          (match m_fdefine (parse_usym (t 1)) (name_of (t 2)) (z (i 3)) (z (i 4)) with
           | None -> print_endline "-1"
           | Some u -> Printf.printf "0 %s\n" (show_usym u))
        | "setfields_w" ->
          (match m_setfields_w (parse_usym (t 1)) (names_of (t 2)) with
           | None -> print_endline "-1"
           | Some w -> Printf.printf "0 %s %d\n" (show_wl w.wl_fields) (iz w.wl_ivsize))
        | "setfields_r" ->
          (match m_setfields_r (names_of (body (t 1))) (names_of (t 2)) with
           | None -> print_endline "-1"
           | Some l -> Printf.printf "0 %d:%s\n" (List.length l) (String.concat "," (List.map (fun x -> soi (iz x)) l)))
        | "vsseek" ->
          (match m_vsseek (z (i 1)) (z (i 2)) (z (i 3)) with
           | None -> print_endline "-1"
           | Some off -> Printf.printf "%d s%d\n" (i 1) (iz off))
        | "vswrite" ->
          let w = parse_wl (t 7) (ivsize_of_rows (t 7)) in
          if t 8 = "-" then begin
            (match m_vswrite_lens_checked w (z (i 1)) (z (i 2)) (z (i 3)) (z (i 4)) with
             | None -> print_endline "-1"
             | Some (lens, vtb) ->
               let hs = iz w.wl_ivsize in
               let nv = max (i 6) (i 5 / hs + i 3) in
               Printf.printf "%d %d %d%s\n" (i 3) (iz vtb) nv (String.concat "" (List.map (fun l -> " w" ^ soi (iz l)) lens)))
          end else
            (match m_vswrite w (z (i 1)) (z (i 2)) (z (i 3)) (z (i 4)) (z (i 5)) (z (i 6)) (unhex (t 8)) with
             | None -> print_endline "-1"
             | Some r -> Printf.printf "%d %d %d%s\n" (i 3) (iz r.wr_vtb) (iz r.wr_nvert)
                           (String.concat "" (List.map (fun c -> " " ^ hex c) r.wr_chunks)))
        | "vsread" ->
          let w = parse_wl (t 5) (ivsize_of_rows (t 5)) in
          let rl = if body (t 6) = "-" then [] else List.map (fun x -> z (int_of_string x)) (String.split_on_char ',' (body (t 6))) in
          if t 7 = "-" then begin
            (match m_vsread_lens_checked w (z (i 1)) (z (i 2)) (z (i 3)) (z (i 4)) with
             | None -> print_endline "-1"
             | Some (lens, vtb) ->
               Printf.printf "%d %d%s\n" (i 3) (iz vtb) (String.concat "" (List.map (fun l -> " r" ^ soi (iz l)) lens)))
          end else
            (match m_vsread w rl (z (i 1)) (z (i 2)) (z (i 3)) (z (i 4)) (unhex (t 7)) with
             | None -> print_endline "-1"
             | Some ((vtb, _), buf) -> Printf.printf "%d %d %s\n" (i 3) (iz vtb) (hex buf))
        | "vpackvs" ->
          let names = names_of (t 5) in
          let w = parse_wl ~names (t 4) (i 3) in
          if i 12 <> 0 then print_endline "nomodel" else
          let h = { h_interlace = z (i 1); h_nvertices = z (i 2); h_ivsize = z (i 3); h_fields = w.wl_fields;
                    h_vsname = (if t 6 = "-" then [] else name_of (t 6)); h_vsclass = (if t 7 = "-" then [] else name_of (t 7));
                    h_extag = z (i 8); h_exref = z (i 9); h_version = z (i 10); h_more = z (i 11) } in
          Printf.printf "%s\n" (hex (m_vpackvs h))
        | "vsfexist" ->
          let fl = List.map (fun n -> { w_name = n; w_type = z 0; w_isize = z 0; w_esize = z 0; w_order = z 0; w_off = z 0 }) (names_of (body (t 1))) in
          Printf.printf "%d\n" (if m_vsfexist fl (names_of (t 2)) then 1 else (-1))
        | "vssizeof" ->
          let w = parse_wl ~names:(names_of (t 2)) (t 1) 0 in
          (match m_vssizeof w.wl_fields (Some (names_of (t 3))) with
           | None -> print_endline "-1"
           | Some z -> Printf.printf "%d\n" (iz z))
        | "setname" | "setclass" ->
          let cur = if t 1 = "-" then [] else name_of (t 1) and nw = if t 2 = "-" then [] else name_of (t 2) in
          let (st, fl) = (if t 0 = "setname" then m_setname else m_setclass) cur nw (i 3 <> 0) in
          Printf.printf "0 %s %d\n" (dash st) (if fl then 1 else 0)
        | "vunpackvs" ->
          (match m_vunpackvs (unhex (t 1)) with
           | None -> print_endline "-1"
           | Some h -> Printf.printf "%d %d %d %s %s %s %s %d %d %d %d\n" (iz h.h_interlace) (iz h.h_nvertices) (iz h.h_ivsize)
                         (show_wl h.h_fields) (show_names h.h_fields) (dash h.h_vsname) (dash h.h_vsclass)
                         (iz h.h_extag) (iz h.h_exref) (iz h.h_version) (iz h.h_more))
        | _ -> print_endline "nomodel"
      with Failure _ | Not_found | Invalid_argument _ -> print_endline "nomodel")
    done
  with End_of_file -> ())
