(* Driver for the extracted C20 specification S (LimitsSpec.step) and site models M (LimitsModel).
   Same history format as harness/drive_limits.c.  Output per input line:
     "<ln> S <ok v..|fail v..|unspec> ; M <ok v..|fail v..|nomodel>"      ("?" = value not specified) *)
open Limits_model

let rec pos_of_int n = if n = 1 then XH else if n land 1 = 1 then XI (pos_of_int (n lsr 1)) else XO (pos_of_int (n lsr 1))
let z n = if n = 0 then Z0 else if n > 0 then Zpos (pos_of_int n) else Zneg (pos_of_int (-n))
let rec int_of_pos = function XH -> 1 | XI p -> 2 * int_of_pos p + 1 | XO p -> 2 * int_of_pos p
let iz = function Z0 -> 0 | Zpos p -> int_of_pos p | Zneg p -> - (int_of_pos p)

let vals l = String.concat "" (List.map (function Some v -> " " ^ string_of_int (iz v) | None -> " ?") l)
let show = function
  | ROk l -> "ok" ^ vals l
  | RFail l -> "fail" ^ vals l
  | RUnspec -> "unspec"

let show_m (r, st) = match r with
  | Some v -> Printf.sprintf "ok %d %d" (iz v) (iz st)
  | None -> Printf.sprintf "fail %d" (iz st)

let () =
  let ic = open_in Sys.argv.(1) in
  let st = ref init in
  let ln = ref 0 in
  (try
    while true do
      let line = input_line ic in
      incr ln;
      let toks = List.filter (fun s -> s <> "") (String.split_on_char ' ' (String.trim line)) in
      let i k = int_of_string (List.nth toks k) in
      let zi k = z (i k) in
      let isw k = (try List.nth toks k = "w" with _ -> false) in
      let m = ref "nomodel" in
      let op = match toks with
        | [] -> None
        | "history" :: _ -> st := init; None
        | "hopen" :: _ -> Some (OHopen (zi 1))
        | "reserve" :: _ -> Some (OReserve (zi 1, zi 2, zi 3))
        | "put" :: _ -> Some (OPut (zi 1, zi 2, zi 3))
        | "get" :: _ -> Some (OGet (zi 1, zi 2))
        | "reopen" :: _ -> Some OReopen
        | "dds" :: _ -> Some ODds
        | "appendat" :: _ -> Some (OAppendAt (zi 1, zi 2, zi 3, zi 4))
        | "hlwrite" :: _ -> Some (OHlWrite (zi 1, zi 2, zi 3, zi 4, zi 5, zi 6))
        | "fillrefs" :: _ -> Some (OFillRefs (zi 1, zi 2, zi 3))
        | "newref" :: _ -> Some ONewRef
        | "tagnewref" :: _ -> Some (OTagNewRef (zi 1))
        | "vgnew" :: _ -> Some (OVgNew (zi 1))
        | "vgadd" :: _ -> Some (OVgAdd (zi 1, zi 2, zi 3, zi 4))
        | "vgn" :: _ -> Some (OVgN (zi 1))
        | "vgsetname" :: _ -> Some (OVgSetName (zi 1, zi 2))
        | "vgsetclass" :: _ -> Some (OVgSetClass (zi 1, zi 2))
        | "vgname" :: _ -> Some (OVgName (zi 1))
        | "vgclass" :: _ -> Some (OVgClass (zi 1))
        | "vgdetach" :: _ -> Some (OVgDetach (zi 1))
        | "vgattach" :: _ -> Some (OVgAttach (zi 1, zi 2, isw 3))
        | "vsnew" :: _ -> Some (OVsNew (zi 1))
        | "vsfdefine" :: _ -> Some (OVsFdefine (zi 1, zi 2, zi 3, zi 4, zi 5))
        | "vssetfields" :: _ ->
            let items = List.filter (fun s -> s <> "") (String.split_on_char ',' (List.nth toks 2)) in
            let item s =
              if s = "P" then (z (-1), z 0)
              else match String.split_on_char ':' s with
                | [a; b] -> (z (int_of_string a), z (int_of_string b))
                | _ -> (z (int_of_string s), z 0) in
            Some (OVsSetFields (zi 1, List.map item items))
        | "vswrite" :: _ -> Some (OVsWrite (zi 1, zi 2))
        | "vswritebig" :: _ -> Some (OVsWriteBig (zi 1, zi 2))
        | "vsseek" :: _ -> Some (OVsSeek (zi 1, zi 2))
        | "vsread" :: _ -> Some (OVsRead (zi 1, zi 2))
        | "vselts" :: _ -> Some (OVsElts (zi 1))
        | "vssetname" :: _ -> Some (OVsSetName (zi 1, zi 2))
        | "vssetclass" :: _ -> Some (OVsSetClass (zi 1, zi 2))
        | "vsname" :: _ -> Some (OVsName (zi 1))
        | "vsclass" :: _ -> Some (OVsClass (zi 1))
        | "vsfieldname" :: _ -> Some (OVsFieldName (zi 1, zi 2, zi 3, zi 4))
        | "vsdetach" :: _ -> Some (OVsDetach (zi 1))
        | "vsattach" :: _ -> Some (OVsAttach (zi 1, zi 2, isw 3))
        | "sdlimit" :: _ -> Some (OSdLimit (zi 1))
        | "sdstart" :: _ -> Some (OSdStart (zi 1))
        | "sdopen" :: _ -> Some (OSdOpen (zi 1))
        | "sdend" :: _ -> Some (OSdEnd (zi 1))
        | "sdcreate" :: _ -> Some (OSdCreate (zi 1, zi 2, zi 3))
        | "sdinfo" :: _ -> Some (OSdInfo (zi 1))
        | "sdname" :: _ -> Some (OSdName (zi 1, zi 2))
        | "sdmax" :: _ -> Some (OSdMax (zi 1))
        | "sdgetmax" :: _ -> Some OSdGetMax
        | "sdnopen" :: _ -> Some OSdNOpen
        | "fn_getdiskblock" :: _ -> m := show_m (m_getdiskblock (zi 1) (zi 2)); Some OOther
        | "fn_vinsertpair" :: _ -> m := show_m (m_vinsertpair (zi 1)); Some OOther
        | "fn_endoff" :: _ ->
            let nd = i 1 in
            let ndds = if nd < 1 then 1 else nd in
            let rec pairs k acc = if k >= nd then List.rev acc else pairs (k + 1) ((zi (2 + 2 * k), zi (3 + 2 * k)) :: acc) in
            m := Printf.sprintf "ok %d" (iz (m_endoff (z 4) (z ndds) (pairs 0 [])));
            Some OOther
        | _ -> Some OOther in
      (match op with
       | None -> Printf.printf "%d S history ; M history\n" !ln
       | Some o ->
           let (st', r) = step !st o in
           st := st';
           Printf.printf "%d S %s ; M %s\n" !ln (show r) !m)
    done
  with End_of_file -> ())
