(* Driver for the extracted C20 specification S (LimitsSpec.step) and site models M (LimitsModel).
   Same history format as harness/drive_limits.c.  Output per input line:
     "<ln> S <ok v..|fail v..|unspec> ; M <ok v..|fail v..|nomodel>"      ("?" = value not specified) *)
open Limits_model

let rec pos_of_int n = if n = 1 then XH else if n land 1 = 1 then XI (pos_of_int (n lsr 1)) else XO (pos_of_int (n lsr 1))
let z n = if n = 0 then Z0 else if n > 0 then Zpos (pos_of_int n) else Zneg (pos_of_int (-n))
let rec int_of_pos = function XH -> 1 | XI p -> 2 * int_of_pos p + 1 | XO p -> 2 * int_of_pos p
let iz = function Z0 -> 0 | Zpos p -> int_of_pos p | Zneg p -> - (int_of_pos p)

let vals l = String.concat "" (List.map (function Some v -> " " ^ string_of_int (iz v) | None -> " ?") l)
let show = function
  | ROk l -> "ok" ^ vals l
  | RFail l -> "fail" ^ vals l
  | RUnspec -> "unspec"

let show_m (r, st) = match r with
  | Some v -> Printf.sprintf "ok %d %d" (iz v) (iz st)
  | None -> Printf.sprintf "fail %d" (iz st)

let () =
  let ic = open_in Sys.argv.(1) in
  let st = ref init in
  let ln = ref 0 in
  (try
    while true do
      let line = input_line ic in
      incr ln;
      let toks = List.filter (fun s -> s <> "") (String.split_on_char ' ' (String.trim line)) in
      let i k = int_of_string (List.nth toks k) in
      let zi k = z (i k) in
      let isw k = (try List.nth toks k = "w" with _ -> false) in
      let m = ref "nomodel" in
      let op = match toks with
        | [] -> None
        | "history" :: _ -> st := init; None
        | "hopen" :: _ -> Some (OHopen (zi 1))
        | "reserve" :: _ -> Some (OReserve (zi 1, zi 2, zi 3))
        | "put" :: _ -> Some (OPut (zi 1, zi 2, zi 3))
        | "get" :: _ -> Some (OGet (zi 1, zi 2))
        | "reopen" :: _ -> Some OReopen
        | "dds" :: _ -> Some ODds
        | "appendat" :: _ -> Some (OAppendAt (zi 1, zi 2, zi 3, zi 4))
        | "hlwrite" :: _ -> Some (OHlWrite (zi 1, zi 2, zi 3, zi 4, zi 5, zi 6))
        | "fillrefs" :: _ -> Some (OFillRefs (zi 1, zi 2, zi 3))
        | "newref" :: _ -> Some ONewRef
        | "tagnewref" :: _ -> Some (OTagNewRef (zi 1))
        | "vgnew" :: _ -> Some (OVgNew (zi 1))
        | "vgadd" :: _ -> Some (OVgAdd (zi 1, zi 2, zi 3, zi 4))
        | "vgn" :: _ -> Some (OVgN (zi 1))
        | "vgsetname" :: _ -> Some (OVgSetName (zi 1, zi 2))
        | "vgsetclass" :: _ -> Some (OVgSetClass (zi 1, zi 2))
        | "vgname" :: _ -> Some (OVgName (zi 1))
        | "vgclass" :: _ -> Some (OVgClass (zi 1))
        | "vgdetach" :: _ -> Some (OVgDetach (zi 1))
        | "vgattach" :: _ -> Some (OVgAttach (zi 1, zi 2, isw 3))
        | "vsnew" :: _ -> Some (OVsNew (zi 1))
        | "vsfdefine" :: _ -> Some (OVsFdefine (zi 1, zi 2, zi 3, zi 4, zi 5))
        | "vssetfields" :: _ ->
            let items = List.filter (fun s -> s <> "") (String.split_on_char ',' (List.nth toks 2)) in
            let item s =
              if s = "P" then (z (-1), z 0)
              else match String.split_on_char ':' s with
                | [a; b] -> (z (int_of_string a), z (int_of_string b))
                | _ -> (z (int_of_string s), z 0) in
            Some (OVsSetFields (zi 1, List.map item items))
        | "vswrite" :: _ -> Some (OVsWrite (zi 1, zi 2))
        | "vswritebig" :: _ -> Some (OVsWriteBig (zi 1, zi 2))
        | "vsseek" :: _ -> Some (OVsSeek (zi 1, zi 2))
        | "vsread" :: _ -> Some (OVsRead (zi 1, zi 2))
        | "vselts" :: _ -> Some (OVsElts (zi 1))
        | "vssetname" :: _ -> Some (OVsSetName (zi 1, zi 2))
        | "vssetclass" :: _ -> Some (OVsSetClass (zi 1, zi 2))
        | "vsname" :: _ -> Some (OVsName (zi 1))
        | "vsclass" :: _ -> Some (OVsClass (zi 1))
        | "vsfieldname" :: _ -> Some (OVsFieldName (zi 1, zi 2, zi 3, zi 4))
        | "vsdetach" :: _ -> Some (OVsDetach (zi 1))
        | "vsattach" :: _ -> Some (OVsAttach (zi 1, zi 2, isw 3))
        | "sdlimit" :: _ -> Some (OSdLimit (zi 1))
        | "sdstart" :: _ -> Some (OSdStart (zi 1))
        | "sdopen" :: _ -> Some (OSdOpen (zi 1))
        | "sdend" :: _ -> Some (OSdEnd (zi 1))
        | "sdcreate" :: _ -> Some (OSdCreate (zi 1, zi 2, zi 3))
        | "sdinfo" :: _ -> Some (OSdInfo (zi 1))
        | "sdname" :: _ -> Some (OSdName (zi 1, zi 2))
        | "sdmax" :: _ -> Some (OSdMax (zi 1))
        | "sdgetmax" :: _ -> Some OSdGetMax
        | "sdnopen" :: _ -> Some OSdNOpen
        | "sdattr" :: _ -> Some (OSdAttr (zi 1, zi 2, zi 3, zi 4, zi 5))
        | "sdattrinfo" :: _ -> Some (OSdAttrInfo (zi 1, zi 2, zi 3))
        | "grattr2" :: _ -> Some (OGrAttr2 (zi 1, zi 2, zi 3))
        | "vgattr2" :: _ -> Some (OVgAttr2 (zi 1, zi 2, zi 3, zi 4))
        | "vsattr2" :: _ -> Some (OVsAttr2 (zi 1, zi 2, zi 3, zi 4))
        | "sdfill" :: _ -> Some (OSdFill (zi 1, zi 2))
        | "sdattrfill" :: _ -> Some (OSdAttrFill (zi 1, zi 2, zi 3))
        | "lonevs" :: _ -> Some (OLoneVs (zi 1))
        | "lonevg" :: _ -> Some (OLoneVg (zi 1))
        | "hlhole" :: _ -> Some (OHlHole (zi 1, zi 2, zi 3))
        | "seekat" :: _ -> Some (OSeekAt (zi 1, zi 2, zi 3, zi 4, zi 5, zi 6))
        | "chunkfill" :: _ -> Some (OChunkFill (zi 1, zi 2, zi 3))
        | "fn_vshdrlen" :: _ ->
            let ((_, v), _) = !st in
            (match (try List.nth_opt v.vss (i 1) with _ -> None) with
             | Some s when s.s_stored -> m := Printf.sprintf "ok %d" (iz (m_vpackvs_size s.s_fnames s.s_name s.s_class))
             | _ -> ());
            Some OOther
        | "fn_getdiskblock" :: _ -> m := show_m (m_getdiskblock (zi 1) (zi 2)); Some OOther
        | "fn_vinsertpair" :: _ -> m := show_m (m_vinsertpair (zi 1)); Some OOther
        | "fn_endoff" :: _ ->
            let nd = i 1 in
            let ndds = if nd < 1 then 1 else nd in
            let rec pairs k acc = if k >= nd then List.rev acc else pairs (k + 1) ((zi (2 + 2 * k), zi (3 + 2 * k)) :: acc) in
            m := Printf.sprintf "ok %d" (iz (m_endoff (z 4) (z ndds) (pairs 0 [])));
            Some OOther
        | _ -> Some OOther in
      (* site models applied to the arguments the specification state supplies (the bookkeeping between the sites
         is S's; the decision and the arithmetic are M's) *)
      let ((h, v), d) = !st in
      let okf b = if b then "ok" else "fail" in
      (match op with
       | Some (OReserve (tag, rf, len)) | Some (OPut (tag, rf, len)) when h.h_known && iz len > 0 ->
           let blk hh = (match m_getdiskblock hh.h_eof len with
                         | (Some _, e) -> Printf.sprintf "ok %d" (iz e)
                         | (None, e) -> Printf.sprintf "fail %d" (iz e)) in
           (match find_elem h tag rf with
            | Some e when iz e.e_len >= 0 -> ()
            | Some _ -> m := blk h
            | None -> (match alloc_dd h with
                       | None -> m := Printf.sprintf "fail %d" (iz h.h_eof)
                       | Some h1 -> m := blk h1))
       | Some (OAppendAt (tag, rf, pos, n)) when h.h_known ->
           (match find_elem h tag rf with
            | Some e when iz e.e_len >= 0 ->
                (match m_hwrite true pos n e.e_off e.e_len h.h_eof with
                 | HwOk (p, l, e') -> m := Printf.sprintf "ok %d %d %d %d" (iz n) (iz p) (iz l) (iz e')
                 | HwFail -> m := Printf.sprintf "fail %d %d %d" (iz pos) (iz e.e_len) (iz h.h_eof)
                 | HwConvert -> ())
            | None when iz pos = 0 && iz n > 0 ->
                (* new element: a descriptor slot, then HPgetdiskblock(n) from Hwrite's Hsetlength *)
                (match alloc_dd h with
                 | None -> ()
                 | Some h1 ->
                     (match m_getdiskblock h1.h_eof n with
                      | (Some _, e) -> m := Printf.sprintf "ok %d %d %d %d" (iz n) (iz n) (iz n) (iz e)
                      | (None, e) -> m := Printf.sprintf "fail 0 -1 %d" (iz e)))
            | _ -> ())
       | Some (OSeekAt (tag, rf, app, origin, offset, pos0)) when h.h_known ->
           (match find_elem h tag rf with
            | Some e when iz e.e_len >= 0 && iz pos0 >= 0 && iz pos0 <= iz e.e_len ->
                (match m_hseek (iz app <> 0) origin offset pos0 e.e_len with
                 | Some p -> m := Printf.sprintf "ok %d" (iz p)
                 | None -> m := Printf.sprintf "fail %d" (iz pos0))
            | _ -> ())
       | Some (OChunkFill (_, _, k)) ->
           let r1 = m_chunk_ref (z (iz k + 1)) in
           let r2 = m_chunk_ref (z (iz k + (if r1 = None then 1 else 2))) in
           m := Printf.sprintf "ok %d" (if r1 <> None && r2 <> None then 1 else 0)
       | Some (OVgAdd (slot, _, _, n)) ->
           (match get_vg v slot with
            | Some (_, g) ->
                let cur = ref g.g_n and ns = ref 0 and last = ref None in
                for _ = 1 to iz n do
                  (match m_vinsertpair !cur with
                   | (Some r, c) -> incr ns; cur := c; last := Some r
                   | (None, c) -> cur := c; last := None)
                done;
                (match !last with
                 | Some r -> m := Printf.sprintf "ok %d %d" !ns (iz r)
                 | None -> m := Printf.sprintf "fail %d" !ns)
            | None -> ())
       | Some (OVgSetName (_, len)) -> m := okf (m_vsetname len <> None)
       | Some (OVgSetClass (_, len)) -> m := okf (m_vsetclass len <> None)
       | Some (OVsFdefine (_, _, _, ty, order)) -> m := okf (m_vsfdefine (ntsize ty) order <> None)
       | Some (OVsSetFields (slot, l)) ->
           (match get_vs v slot with
            | Some (_, s) when s.s_w && iz s.s_nf = 0 && iz s.s_nrec = 0 ->
                let look (idx, _) =
                  if iz idx = -1 then Some None
                  else (match List.filter (fun dd -> iz dd.f_idx = iz idx) s.s_defs with
                        | dd :: _ -> Some (Some (dd.f_order, dd.f_tsz))
                        | [] -> None) in
                let fs = List.map look l in
                if List.for_all (fun x -> x <> None) fs then begin
                  let fs' = List.map (function Some x -> x | None -> None) fs in
                  match m_vssetfields fs' with
                  | (true, (n, iv)) -> m := Printf.sprintf "ok %d %d" (iz n) (iz iv)
                  | (false, (n, iv)) -> m := Printf.sprintf "fail %d %d" (iz n) (iz iv)
                end
            | _ -> ())
       | Some (OVsSeek (slot, p)) ->
           (match get_vs v slot with
            | Some (_, s) when s.s_w && iz s.s_nf > 0 && s.s_aid ->
                (match m_vsseek s.s_iv p with Some _ -> m := Printf.sprintf "ok %d" (iz p) | None -> m := "fail")
            | _ -> ())
       | Some (OVsWriteBig (slot, n)) ->
           (match get_vs v slot with
            | Some (_, s) when iz s.s_nf > 0 -> (match m_vswrite_total s.s_iv n with None -> m := "fail" | Some _ -> ())
            | _ -> ())
       | Some ONewRef when iz h.h_maxref >= 0 ->
           (match m_newref_next h.h_maxref with Some r -> m := Printf.sprintf "ok %d" (iz r) | None -> ())
       | Some (OSdAttr (k, obj, a, nt, count)) when iz (ntsize nt) > 0 ->
           (* SDsetattr's own guard, then the two count limits on the way: a new coordinate variable, a new attribute *)
           let nsets = (match file_get d k with Some l -> List.length l | None -> 0) in
           let isnew = (file_get d (attr_key k obj a) = None) in
           m := okf (m_sdsetattr (ntsize nt) count
                     && not (sd_needs_coordvar d k obj && truth (coordvar_too_many_vars (z nsets)))
                     && not (isnew && truth (putattr_too_many (attr_count_of d k obj))))
       | Some (OGrAttr2 (nt, c1, c2)) when iz (ntsize nt) > 0 ->
           let r1 = m_grsetattr (ntsize nt) c1 and r2 = m_grsetattr (ntsize nt) c2 in
           m := Printf.sprintf "ok %d %d %d" (if r1 then 1 else 0) (if r2 then 1 else 0)
                  (if r2 then iz c2 else if r1 then iz c1 else -1)
       | Some (OSdCreate (k, nlen, rank)) ->
           let nsets = (match file_get d k with Some l -> List.length l | None -> 0) in
           m := okf (m_sdcreate_ok rank nlen && not (truth (sdcreate_too_many_vars (z nsets))))
       | Some (OSdMax n) when iz d.d_size <> 0 ->
           let slots = resize d.d_slots (let rec nat_of k = if k <= 0 then O else S (nat_of (k - 1)) in nat_of (iz d.d_size)) in
           let (r, _) = m_reset_maxopen n d.d_sys (d_open_count d) slots in
           m := (if iz r < 0 then "fail" else Printf.sprintf "ok %d" (iz r))
       | _ -> ());
      (match op with
       | None -> Printf.printf "%d S history ; M history\n" !ln
       | Some o ->
           let (st', r) = step !st o in
           st := st';
           Printf.printf "%d S %s ; M %s\n" !ln (show r) !m)
    done
  with End_of_file -> ())
