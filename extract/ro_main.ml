(* Driver for the extracted C14 specification (coq/ROSpec.v, a monitor over the observed trace).
   usage: ro_spec <history-file> <library-output-file>
   Both files have one line per operation (the library output as printed by harness/drive_ro.c:
   "<ln> <ok|fail|na> w=<bytes>,<calls>,<creates> ..", "<ln> check same|..", "<ln> dump w=.. n=<k> <record hashes>").
   Prints per line:  "<ln> ok"  or  "<ln> VIOLATION <codes>"  (codes of ROSpec.clause_code), "<ln> history" at
   history boundaries, "<ln> crash" is passed through as a violation of its own (code 9). *)
open Ro_spec

let rec pos_of_int n = if n = 1 then XH else if n land 1 = 1 then XI (pos_of_int (n lsr 1)) else XO (pos_of_int (n lsr 1))
let z n = if n = 0 then Z0 else if n > 0 then Zpos (pos_of_int n) else Zneg (pos_of_int (-n))
let rec int_of_pos = function XH -> 1 | XI p -> 2 * int_of_pos p + 1 | XO p -> 2 * int_of_pos p
let iz = function Z0 -> 0 | Zpos p -> int_of_pos p | Zneg p -> - (int_of_pos p)

(* OCaml string -> Coq string (String (Ascii (b0..b7), rest)) *)
let coq_string (s : Stdlib.String.t) =
  let n = String.length s in
  let rec go i = if i >= n then EmptyString else
    let c = Char.code s.[i] in
    let b k = (c lsr k) land 1 = 1 in
    String (Ascii (b 0, b 1, b 2, b 3, b 4, b 5, b 6, b 7), go (i + 1)) in
  go 0

let num_of_tok t = match int_of_string_opt t with Some v -> v | None -> if t = "w" || t = "W" then 1 else 0

let read_lines f = let ic = open_in f in let l = ref [] in
  (try while true do l := input_line ic :: !l done with End_of_file -> ()); close_in ic; List.rev !l

let () =
  let hist = read_lines Sys.argv.(1) in
  let out = read_lines Sys.argv.(2) in
  (* index library output by line number *)
  let tbl = Hashtbl.create 1024 in
  List.iter (fun l -> match String.index_opt l ' ' with
    | Some i -> (match int_of_string_opt (String.sub l 0 i) with
                 | Some n -> let rest = String.sub l (i + 1) (String.length l - i - 1) in
                             let is_pre = String.length rest >= 4 && String.sub rest 0 4 = "pre " in
                             if not is_pre && not (Hashtbl.mem tbl n) then Hashtbl.add tbl n rest
                 | None -> ())
    | None -> ()) out;
  let dumps = Hashtbl.create 16 in
  (* inquiry stability: (kind, slot) -> epoch, bumped by every call that (re)binds or releases the slot;
     (op, kind, slot, epoch, other args) -> first answer *)
  let epochs = Hashtbl.create 16 and answers = Hashtbl.create 64 in
  let readers = ref 0 in   (* calls so far that are neither refused-able mutators nor inquiries: they may legitimately change what a handle shows *)
  let kind_of name = match name with
    | "vsinfo" | "vsattach" | "vsattachn" | "vsdetach" -> Some "vs"
    | "vinfo" | "vattach" | "vattachn" | "vdetach" -> Some "vg"
    | "sdinfo" | "sdreaddata" | "sdselect" | "sdcreate" | "sdendaccess" -> Some "sds"
    | "grinfo" | "grreadimage" | "grreadlut" | "grselect" | "grcreate" | "grendaccess" -> Some "ri"
    | "inquire" | "startaccess" | "startread" | "startwrite" | "endaccess" | "hlcreate" | "hxcreate" | "hccreate" | "hmccreate" -> Some "aid"
    | "sdfileinfo" | "sdstart" | "sdend" -> Some "sd"
    | "grfileinfo" | "grstart" | "grend" -> Some "gr"
    | _ -> None in
  (* inquiries, and whole-object reads (their result class and content hash): what a handle shows must not change across
     refused requests *)
  let is_inquiry name = List.mem name ["vsinfo"; "vinfo"; "sdinfo"; "grinfo"; "inquire"; "sdfileinfo"; "grfileinfo"; "grreadimage"; "sdreaddata"; "grreadlut"] in
  let st = ref init in
  let dead = ref false in
  List.iteri (fun i line ->
    let ln = i + 1 in
    let toks = List.filter (fun s -> s <> "") (String.split_on_char ' ' (String.trim line)) in
    match toks with
    | [] -> Printf.printf "%d skip\n" ln
    | "history" :: _ -> st := init; dead := false; Hashtbl.reset dumps; Hashtbl.reset epochs; Hashtbl.reset answers; Printf.printf "%d history\n" ln
    | t :: _ when t.[0] = '#' -> Printf.printf "%d skip\n" ln
    | name :: args ->
      if !dead then Printf.printf "%d dead\n" ln else
      let r = try Hashtbl.find tbl ln with Not_found -> "missing" in
      let rt = List.filter (fun s -> s <> "") (String.split_on_char ' ' r) in
      let wfield = List.find_opt (fun s -> String.length s > 2 && String.sub s 0 2 = "w=") rt in
      let (wb, wc, wcr) = match wfield with
        | Some s -> (match List.map int_of_string (String.split_on_char ',' (String.sub s 2 (String.length s - 2))) with
                     | [a; b; c] -> (a, b, c) | _ -> (0, 0, 0))
        | None -> (0, 0, 0) in
      (match rt with
       | "crash" :: _ | "missing" :: _ -> dead := true; Printf.printf "%d VIOLATION 9\n" ln
       | "unknown-op" :: _ -> Printf.printf "%d VIOLATION 8\n" ln
       | _ ->
         let rc = match rt with "ok" :: _ -> ROk | "fail" :: _ -> RFail | "na" :: _ -> RNa | _ -> ROk in
         let aux = match rt with
           | "check" :: rest -> if rest = ["same"] then 1 else 0
           | "dump" :: rest ->
             (* record hashes: "<all>" and "view=<interface-level records>"; baseline = first dump of the history.
                aux = 1: every baseline record is still there; 3: every baseline VIEW record is; 0: neither *)
             let split_h s = List.filter (fun x -> x <> "") (String.split_on_char ',' s) in
             let is_view t = Stdlib.String.length t >= 5 && Stdlib.String.sub t 0 5 = "view=" in
             let vh = match List.find_opt is_view rest with Some t -> split_h (Stdlib.String.sub t 5 (Stdlib.String.length t - 5)) | None -> [] in
             let ah = match List.filter (fun t -> not (is_view t) && not (Stdlib.String.contains t '=')) rest with t :: _ -> split_h t | [] -> [] in
             if Hashtbl.length dumps = 0 then begin
               Hashtbl.add dumps "#baseline" 0;
               List.iter (fun h -> Hashtbl.replace dumps ("a" ^ h) 1) ah; List.iter (fun h -> Hashtbl.replace dumps ("v" ^ h) 1) vh; 1 end
             else begin
               let cur = Hashtbl.create 64 in
               List.iter (fun h -> Hashtbl.replace cur ("a" ^ h) 1) ah; List.iter (fun h -> Hashtbl.replace cur ("v" ^ h) 1) vh;
               let all_ok = ref true and view_ok = ref true in
               Hashtbl.iter (fun h _ -> if h <> "#baseline" && not (Hashtbl.mem cur h) then
                                          (if h.[0] = 'v' then view_ok := false else all_ok := false)) dumps;
               if !all_ok && !view_ok then 1 else if !view_ok then 3 else 0 end
           | _ ->
             (match kind_of name, args with
              | Some k, slot :: _ ->
                let ep = try Hashtbl.find epochs (k, slot) with Not_found -> 0 in
                if is_inquiry name then begin
                  match rt with
                  | ("ok" | "fail") :: _ ->
                    let ans = rt in
                    let ans = List.filter (fun s -> not (Stdlib.String.length s > 2 && Stdlib.String.sub s 0 2 = "w=")) ans in
                    let key = (name, k, slot, ep) in
                    let is_read = List.mem name ["grreadimage"; "sdreaddata"; "grreadlut"] in
                    let verdict = (match Hashtbl.find_opt answers key with
                     | Some (a0, r0) when r0 = !readers -> if a0 = ans then 1 else 2   (* only mutators / inquiries in between *)
                     | _ -> 1) in
                    (* a whole-object read is itself a reading call (it may derive state): it ends the interval of the others *)
                    if is_read then incr readers;
                    Hashtbl.replace answers key (ans, !readers); verdict
                  | _ -> 0
                end else begin
                  (match rt with "na" :: _ -> () | _ -> if not (is_mutator (coq_string name) (List.map (fun t -> z (num_of_tok t)) args)) then incr readers);
                  (match rt with "na" :: _ -> () | _ ->
                     Hashtbl.replace epochs (k, slot) (ep + 1);
                     (* closing an interface releases everything selected through it *)
                     if List.mem name ["sdend"; "grend"; "sdstart"; "grstart"] then begin Hashtbl.reset epochs; Hashtbl.reset answers end); 0 end
              | _ -> if name = "closeall" || name = "hclose" || name = "hopen" || name = "vend" || name = "vstart" then begin
                       Hashtbl.reset epochs; Hashtbl.reset answers end;
                     (match rt with "na" :: _ -> () | _ -> if not (is_mutator (coq_string name) (List.map (fun t -> z (num_of_tok t)) args)) then incr readers);
                     0) in
         let ev = { e_name = coq_string name; e_args = List.map (fun t -> z (num_of_tok t)) args; e_rc = rc;
                    e_wbytes = z wb; e_wcalls = z wc; e_wcreates = z wcr; e_aux = z aux } in
         let (s', v) = step !st ev in
         st := s';
         if v = [] then Printf.printf "%d ok\n" ln
         else Printf.printf "%d VIOLATION %s\n" ln (String.concat "," (List.map (fun c -> string_of_int (iz (clause_code c))) v)))
  ) hist
