(* Driver for the extracted C11 specification (coq/ANSpec.v).  Input: the history format of harness/drive_an.c,
   where the lines of ref-allocating / ref-choosing operations (create, createf, select, gettagref, dfputlabel, dfputdesc,
   dfaddfid, dfaddfds, dffidlen, dffdslen, dffid, dffds) carry one extra trailing token: the ref the library chose (0 when it failed).
   Lines "file N" switch between up to three independent files (one specification state each).
   Output per line: "<ln> ok v.. alt/alt .." | "<ln> oneof v.." | "<ln> fail" | "<ln> unspec" | "<ln> badref" *)
open An_spec

let rec pos_of_int n = if n = 1 then XH else if n land 1 = 1 then XI (pos_of_int (n lsr 1)) else XO (pos_of_int (n lsr 1))
let z n = if n = 0 then Z0 else if n > 0 then Zpos (pos_of_int n) else Zneg (pos_of_int (-n))
let rec int_of_pos = function XH -> 1 | XI p -> 2 * int_of_pos p + 1 | XO p -> 2 * int_of_pos p
let iz = function Z0 -> 0 | Zpos p -> int_of_pos p | Zneg p -> - (int_of_pos p)

let unhex s =
  if s = "-" then [] else
  let n = String.length s / 2 in
  List.init n (fun i -> z (int_of_string ("0x" ^ String.sub s (2 * i) 2)))
let hex l = if l = [] then "-" else String.concat "" (List.map (fun b -> Printf.sprintf "%02x" (iz b land 255)) l)

let () =
  let ic = open_in Sys.argv.(1) in
  let sts = Array.make 3 xinit in
  let cur = ref 0 in
  let nfiles = ref 1 in
  let ln = ref 0 in
  (try
    while true do
      let line = input_line ic in
      incr ln;
      let toks = List.filter (fun s -> s <> "") (String.split_on_char ' ' (String.trim line)) in
      let i k = try int_of_string (List.nth toks k) with _ -> 0 in
      let zi k = z (i k) in
      let tx k = try unhex (List.nth toks k) with _ -> [] in
      let op = match toks with
        | [] -> None
        | "history" :: _ -> Array.fill sts 0 3 xinit; cur := 0; nfiles := 1; None
        | "start" :: _ -> Some OStart
        | "end" :: _ -> Some OEnd
        | "create" :: _ -> Some (OCreate (zi 1, zi 2, zi 3, zi 4, zi 5))
        | "createf" :: _ -> Some (OCreatef (zi 1, zi 2, zi 3))
        | "write" :: _ -> Some (OWrite (zi 1, tx 2))
        | "read" :: _ -> Some (ORead (zi 1, zi 2))
        | "len" :: _ -> Some (OLen (zi 1))
        | "select" :: _ -> Some (OSelect (zi 1, zi 2, zi 3, zi 4))
        | "selectall" :: _ -> Some (OSelectAll (zi 1))
        | "fileinfo" :: _ -> Some OFileInfo
        | "numann" :: _ -> Some (ONumann (zi 1, zi 2, zi 3))
        | "annlist" :: _ -> Some (OAnnlist (zi 1, zi 2, zi 3))
        | "tagref2id" :: _ -> Some (OTagref2id (zi 1, zi 2, zi 3))
        | "id2tagref" :: _ -> Some (OId2tagref (zi 1))
        | "endaccess" :: _ -> Some (OEndaccess (zi 1))
        | "ids" :: _ -> Some OIds
        | "dfputlabel" :: _ -> Some (ODfPut (z 0, zi 1, zi 2, tx 3, zi 4))
        | "dfputdesc" :: _ -> Some (ODfPut (z 1, zi 1, zi 2, tx 3, zi 4))
        | "dfgetlabel" :: _ -> Some (ODfGet (z 0, zi 1, zi 2, zi 3))
        | "dfgetdesc" :: _ -> Some (ODfGet (z 1, zi 1, zi 2, zi 3))
        | "dfgetlablen" :: _ -> Some (ODfGetLen (z 0, zi 1, zi 2))
        | "dfgetdesclen" :: _ -> Some (ODfGetLen (z 1, zi 1, zi 2))
        | "dfaddfid" :: _ -> Some (ODfAddF (z 0, tx 1, zi 2))
        | "dfaddfds" :: _ -> Some (ODfAddF (z 1, tx 1, zi 2))
        | "dfgetfids" :: _ -> Some (ODfGetFs (z 0))
        | "dfgetfdss" :: _ -> Some (ODfGetFs (z 1))
        | "dflablist" :: _ -> Some (ODfLablist (zi 1, zi 2))
        | _ -> None in
      let fb k = (i k) <> 0 in
      let op = match toks with
        | "gettagref" :: _ -> Some (XGetTagref (zi 1, zi 2, zi 3))
        | "dffidlen" :: _ -> Some (XFLen (z 0, fb 1, zi 2))
        | "dffdslen" :: _ -> Some (XFLen (z 1, fb 1, zi 2))
        | "dffid" :: _ -> Some (XFGet (z 0, fb 1, zi 2, zi 3))
        | "dffds" :: _ -> Some (XFGet (z 1, fb 1, zi 2, zi 3))
        | "restart" :: _ -> Some XRestart
        | "dflablist" :: _ when List.length toks >= 5 -> Some (XLablistPage (zi 1, zi 2, zi 3, zi 4))
        | _ -> (match op with Some o -> Some (XOp o) | None -> None) in
      match op with
      | None -> (match toks with "history" :: _ -> Printf.printf "%d history\n" !ln
                 | "names" :: rest -> nfiles := List.length rest; Printf.printf "%d skip\n" !ln
                 | "file" :: _ -> if i 1 >= 0 && i 1 < !nfiles then begin
                                    cur := i 1; Array.iteri (fun k x -> sts.(k) <- fst (xstep x XSwitch)) sts;
                                    Printf.printf "%d ok\n" !ln end
                                  else Printf.printf "%d fail\n" !ln
                 | _ -> Printf.printf "%d skip\n" !ln)
      | Some o ->
        let (s', r) = xstep sts.(!cur) o in
        sts.(!cur) <- s';
        (match r with
         | RFail -> Printf.printf "%d fail\n" !ln
         | RUnspec -> Printf.printf "%d unspec\n" !ln
         | RBad -> Printf.printf "%d badref\n" !ln
         | ROneOf vs -> Printf.printf "%d oneof%s\n" !ln (String.concat "" (List.map (fun v -> " " ^ string_of_int (iz v)) vs))
         | ROk (vals, bufs) ->
           Printf.printf "%d ok%s%s\n" !ln
             (String.concat "" (List.map (fun v -> " " ^ string_of_int (iz v)) vals))
             (String.concat "" (List.map (fun alts -> " " ^ String.concat "/" (List.map hex alts)) bufs)))
    done
  with End_of_file -> ())
