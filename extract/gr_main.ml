(* Driver for the extracted C09 model (M) and specification (S).  The call trace is printed for plain
   (not compressed, not chunked) images only: below a special element the lower layers issue calls of their own.  Reads the history language of
   harness/drive_gr.c; prints one line per operation:   <op> M <result>[ |<trace>] ; S <result>
   All computations on images are the extracted Coq functions; this file only parses, keeps the
   slot table and prints. *)
open Gr_model

let rec nat_of_int n = if n <= 0 then O else S (nat_of_int (n - 1))
let rec int_of_nat = function O -> 0 | S n -> 1 + int_of_nat n
let rec pos_of_int n = if n = 1 then XH else if n land 1 = 1 then XI (pos_of_int (n lsr 1)) else XO (pos_of_int (n lsr 1))
let z_of_int n = if n = 0 then Z0 else if n > 0 then Zpos (pos_of_int n) else Zneg (pos_of_int (-n))
let rec int_of_pos = function XH -> 1 | XI p -> 2 * int_of_pos p + 1 | XO p -> 2 * int_of_pos p
let int_of_z = function Z0 -> 0 | Zpos p -> int_of_pos p | Zneg p -> - (int_of_pos p)

let bytes_str l = String.concat "" (List.map (fun z -> " " ^ string_of_int (int_of_z z)) l)
let trace_str l =
  String.concat "" (List.map (function TS n -> " S" ^ string_of_int (int_of_nat n)
                                     | TW n -> " W" ^ string_of_int (int_of_nat n)
                                     | TR n -> " R" ^ string_of_int (int_of_nat n)) l)

let nslot = 6
let ms : mimg option array = Array.make nslot None
let ss : simg option array = Array.make nslot None
(* S leaves its domain (region outside the image ...): from then on S prints nodomain for that slot *)
let sdead = Array.make nslot false

let rec take n l = if n <= 0 then ([], l) else match l with [] -> ([], []) | x :: r -> let (a, b) = take (n - 1) r in (x :: a, b)

let out op m s = print_string (op ^ " M " ^ m ^ " ; S " ^ s ^ "\n")

let mk_rgn sx sy tx ty cx cy =
  { r_sx = nat_of_int sx; r_sy = nat_of_int sy; r_tx = nat_of_int tx; r_ty = nat_of_int ty;
    r_cx = nat_of_int cx; r_cy = nat_of_int cy }

let slot k = if k >= 0 && k < nslot then (match ms.(k), ss.(k) with Some m, Some s -> Some (m, s) | _ -> None) else None

let () =
  let ic = if Array.length Sys.argv > 1 then open_in Sys.argv.(1) else stdin in
  (try
    while true do
      let line = input_line ic in
      let toks = List.filter (fun s -> s <> "") (String.split_on_char ' ' line) in
      match toks with
      | [] -> ()
      | op :: rest ->
        let a = List.map int_of_string rest in
        (match op, a with
         | "H", [id] ->
           Array.fill ms 0 nslot None; Array.fill ss 0 nslot None; Array.fill sdead 0 nslot false;
           out "H" (string_of_int id) (string_of_int id)
         | "C", [k; x; y; nc; nt; il] ->
           if k < 0 || k >= nslot || ms.(k) <> None || x <= 0 || y <= 0 || nc < 1 || il < 0 then out "C" "fail" "fail"
           else (match il_of_code (nat_of_int il), mk_geom (nat_of_int x) (nat_of_int y) (nat_of_int nc) (z_of_int nt) with
               | Some i, Some g -> ms.(k) <- Some (m_create g i); ss.(k) <- Some (s_create g i); out "C" "ok" "ok"
               | None, _ -> out "C" "fail" "fail"
               | Some _, None -> out "C" "ok" "nodomain")
         | "F", k :: n :: bytes ->
           (match slot k with
            | Some (m, s) when n = int_of_nat (m.m_g.gnc) * int_of_nat (m.m_g.gcs) && List.length bytes = n ->
              let b = List.map z_of_int bytes in
              ms.(k) <- Some (m_setfill m b); ss.(k) <- Some (s_setfill s b); out "F" "ok" "ok"
            | _ -> out "F" "fail" "fail")
         | "A", [k] ->
           (match slot k with
            | Some (m, s) ->
              let f = function Some p -> "ok" ^ bytes_str (List.concat p) | None -> "none" in
              out "A" (f m.m_fill) (f s.s_fill)
            | None -> out "A" "fail" "fail")
         | "Z", [k; _; _] ->
           (match slot k with
            | Some (m, _) -> ms.(k) <- Some (m_setcomp m); out "Z" "ok" "ok"
            | None -> out "Z" "fail" "fail")
         | "K", [k; _; _; _; _] ->
           (match slot k with
            | Some (m, s) -> ms.(k) <- Some (m_setchunk m); ss.(k) <- Some (s_setchunk s); out "K" "ok" "ok"
            | None -> out "K" "fail" "fail")
         | "W", k :: sx :: sy :: tx :: ty :: cx :: cy :: n :: bytes ->
           (match slot k with
            | Some (m, s) when sx >= 0 && sy >= 0
                               && n = cx * cy * int_of_nat (m.m_g.gnc) * int_of_nat (m.m_g.gcs)
                               && List.length bytes = n ->
              let r = mk_rgn sx sy tx ty cx cy in
              let b = List.map z_of_int bytes in
              let mstr = (match m_writeimage m r b with
                  | Some (m', tr) -> ms.(k) <- Some m'; "ok |" ^ (if m.m_store = StPlain then trace_str tr else " -")
                  | None -> "fail |") in
              let sstr =
                if sdead.(k) then "nodomain"
                else if tx < 1 || ty < 1 || cx < 1 || cy < 1 then "fail"
                else (match s_writeimage s r b with
                    | Some s' -> ss.(k) <- Some s'; "ok"
                    | None -> sdead.(k) <- true; "nodomain") in
              out "W" mstr sstr
            | _ -> out "W" "fail |" "fail")
         | "I", [k; il] ->
           (match slot k, (if il >= 0 then il_of_code (nat_of_int il) else None) with
            | Some (m, s), Some i -> ms.(k) <- Some (m_reqil m i); ss.(k) <- Some (s_reqil s i); out "I" "ok" "ok"
            | _ -> out "I" "fail" "fail")
         | "J", [k; il] ->
           (match slot k, (if il >= 0 then il_of_code (nat_of_int il) else None) with
            | Some (m, s), Some i -> ms.(k) <- Some (m_reqlutil m i); ss.(k) <- Some (s_reqlutil s i); out "J" "ok" "ok"
            | _ -> out "J" "fail" "fail")
         | "R", [k; sx; sy; tx; ty; cx; cy] ->
           (match slot k with
            | Some (m, s) when sx >= 0 && sy >= 0 && cx > 0 && cy > 0 ->
              let r = mk_rgn sx sy tx ty cx cy in
              let mstr = (match m_readimage m r with
                  | Some (b, tr) -> "ok" ^ bytes_str b ^ " |" ^ (if m.m_store = StPlain then trace_str tr else " -")
                  | None -> "fail |") in
              let sstr =
                if sdead.(k) then "nodomain"
                else if tx < 1 || ty < 1 then "fail"
                else (match s_readimage s r with Some b -> "ok" ^ bytes_str b | None -> "nodomain") in
              out "R" mstr sstr
            | _ -> out "R" "fail |" "fail")
         | "G", [k] ->
           (match slot k with
            | Some (m, s) ->
              let f ((((nc, nt), il), x), y) =
                Printf.sprintf "ok %d %d %d %d %d" (int_of_nat nc) (int_of_z nt) (int_of_nat il) (int_of_nat x) (int_of_nat y) in
              out "G" (f (m_info m)) (f (s_info s))
            | None -> out "G" "fail" "fail")
         | "L", k :: nc :: nt :: il :: ne :: n :: bytes ->
           (match slot k with
            | Some (m, s) when nc >= 0 && il >= 0 && ne >= 0 && List.length bytes = n ->
              let b = List.map z_of_int bytes in
              let mstr = (match m_writelut m (nat_of_int nc) (z_of_int nt) (nat_of_int il) (nat_of_int ne) b with
                  | Some m' -> ms.(k) <- Some m'; "ok" | None -> "fail") in
              let sstr = (match s_writelut s (nat_of_int nc) (z_of_int nt) (nat_of_int il) (nat_of_int ne) b with
                  | Some s' -> ss.(k) <- Some s'; "ok" | None -> "fail") in
              out "L" mstr sstr
            | _ -> out "L" "fail" "fail")
         | "P", [k] ->
           (match slot k with
            | Some (m, s) ->
              let f = function Some b -> "ok 3 21 0 256" ^ bytes_str b | None -> "none 0 0 -1 0" in
              out "P" (f (m_readlut m)) (f (s_readlut s))
            | None -> out "P" "fail" "fail")
         | "E", [] ->
           for k = 0 to nslot - 1 do
             (match ms.(k) with Some m -> ms.(k) <- Some (m_reopen m) | None -> ());
             (match ss.(k) with Some s -> ss.(k) <- Some (s_reopen s) | None -> ())
           done;
           out "E" "ok" "ok"
         | "O", k :: w :: h :: nc :: ct :: n :: bytes ->
           if k < 0 || k >= nslot || ms.(k) <> None || w <= 0 || h <= 0 || (nc <> 1 && nc <> 3)
              || n <> w * h * nc || List.length bytes <> n then out "O" "fail" "fail"
           else begin
             let b = List.map z_of_int bytes in
             ms.(k) <- Some (m_legacy (nat_of_int w) (nat_of_int h) (nat_of_int nc) (nc = 1 && ct = 1) b);
             ss.(k) <- Some (s_legacy (nat_of_int w) (nat_of_int h) (nat_of_int nc) b);
             (* the session is closed and reopened around DFR8addimage / DF24addimage *)
             for j = 0 to nslot - 1 do
               if j <> k then begin
                 (match ms.(j) with Some m -> ms.(j) <- Some (m_reopen m) | None -> ());
                 (match ss.(j) with Some s -> ss.(j) <- Some (s_reopen s) | None -> ())
               end
             done;
             out "O" "ok" "ok"
           end
         | "X", k :: c0 :: c1 :: o0 :: o1 :: n :: bytes ->
           (match slot k with
            | Some (m, s) when c0 > 0 && c1 > 0 && o0 >= 0 && o1 >= 0 && List.length bytes = n && m.m_store = StChunk ->
              let b = List.map z_of_int bytes in
              let (a0, a1, b0, b1) = (nat_of_int c0, nat_of_int c1, nat_of_int o0, nat_of_int o1) in
              let sstr = if sdead.(k) then "nodomain" else
                  (match s_writechunk s a0 a1 b0 b1 b with
                   | Some s' -> ss.(k) <- Some s'; "ok" | None -> sdead.(k) <- true; "nodomain") in
              let mstr = (match m_writechunk m a0 a1 b0 b1 b with
                  | Some m' -> ms.(k) <- Some m'; "ok" | None -> "fail") in
              out "X" mstr sstr
            | _ -> out "X" "fail" "fail")
         | "Y", [k; c0; c1; o0; o1; _] ->
           (match slot k with
            | Some (m, s) when c0 > 0 && c1 > 0 && o0 >= 0 && o1 >= 0 && m.m_store = StChunk ->
              let (a0, a1, b0, b1) = (nat_of_int c0, nat_of_int c1, nat_of_int o0, nat_of_int o1) in
              let f = function Some b -> "ok" ^ bytes_str b | None -> "fail" in
              let sstr = if sdead.(k) then "nodomain" else
                  (match s_readchunk s a0 a1 b0 b1 with Some b -> "ok" ^ bytes_str b | None -> "nodomain") in
              out "Y" (f (m_readchunk m a0 a1 b0 b1)) sstr
            | _ -> out "Y" "fail" "fail")
         | "U", n :: bytes when List.length bytes = n ->
           let (dec, enc) = u_case (List.map z_of_int bytes) in
           out "U" ("ok" ^ bytes_str dec ^ " |" ^ bytes_str enc) ("ok" ^ bytes_str (List.map z_of_int bytes))
         | "D", [k] ->
           (match slot k with
            | Some (m, _) ->
              (match (if m.m_store = StRle8 then m_dump_rle m else m_dump m) with
               | Some b -> out "D" ("ok " ^ string_of_int (List.length b) ^ bytes_str b) "-"
               | None -> out "D" "none" "-")
            | None -> out "D" "fail" "-")
         | "V", inil :: outil :: x :: y :: nc :: nt :: n :: bytes ->
           (match (if inil >= 0 then il_of_code (nat_of_int inil) else None),
                  (if outil >= 0 then il_of_code (nat_of_int outil) else None), nt_size (z_of_int nt) with
            | Some i, Some o, Some cs when x >= 0 && y >= 0 && nc >= 1 && List.length bytes = n
                                          && n = x * y * nc * int_of_nat cs ->
              let b = List.map z_of_int bytes in
              let (nx, ny, nn) = (nat_of_int x, nat_of_int y, nat_of_int nc) in
              out "V" ("ok" ^ bytes_str (v_walk i o nx ny nn cs b)) ("ok" ^ bytes_str (v_spec i o nx ny nn cs b))
            | _ -> out "V" "fail" "fail")
         | _ -> out "?" "badline" "badline")
    done
  with End_of_file -> ())
