(* Driver for the extracted C08 specification / implementation model: same history format as harness/drive_vg.c,
   with every "@k" already replaced by the reference number the library chose and with that number appended to
   the creating operations (vgnew G REF, vsnew NAME CLASS N REF, vsnewempty NAME CLASS REF).
   usage: vgraph_model S|M <history-file>
   Output per line: "<ln> ok v.. [hex]" / "<ln> fail" / "<ln> unspec" / "<ln> nospec". *)
open Vg_c08

let rec pos_of_int n = if n = 1 then XH else if n land 1 = 1 then XI (pos_of_int (n lsr 1)) else XO (pos_of_int (n lsr 1))
let z n = if n = 0 then Z0 else if n > 0 then Zpos (pos_of_int n) else Zneg (pos_of_int (-n))
let rec int_of_pos = function XH -> 1 | XI p -> 2 * int_of_pos p + 1 | XO p -> 2 * int_of_pos p
let iz = function Z0 -> 0 | Zpos p -> int_of_pos p | Zneg p -> - (int_of_pos p)

let unhex s =
  if s = "-" then [] else
  let n = String.length s / 2 in
  List.init n (fun i -> z (int_of_string ("0x" ^ String.sub s (2 * i) 2)))

let hex l =
  if l = [] then "-" else
  String.concat "" (List.map (fun b -> Printf.sprintf "%02x" ((iz b) land 255)) l)

let parse toks =
  let i k = try int_of_string (List.nth toks k) with _ -> 0 in
  let zi k = z (i k) in
  let s k = try unhex (List.nth toks k) with _ -> [] in
  match toks with
  | "open" :: _ -> Some OOpen
  | "reopen" :: _ -> Some OReopen
  | "vgnew" :: _ -> Some (OVgNew (zi 1, zi 2))
  | "vgattach" :: _ -> Some (OVgAttach (zi 1, zi 2, (try (List.nth toks 3).[0] <> 'r' with _ -> true)))
  | "vgdetach" :: _ -> Some (OVgDetach (zi 1))
  | "setname" :: _ -> Some (OSetName (zi 1, s 2))
  | "setclass" :: _ -> Some (OSetClass (zi 1, s 2))
  | "addtagref" :: _ -> Some (OAddTagRef (zi 1, zi 2, zi 3))
  | "addmany" :: _ -> Some (OAddMany (zi 1, zi 2, zi 3, zi 4, zi 5))
  | "insertvg" :: _ -> Some (OInsertVg (zi 1, zi 2))
  | "insertvs" :: _ -> Some (OInsertVs (zi 1, zi 2))
  | "deltagref" :: _ -> Some (ODelTagRef (zi 1, zi 2, zi 3))
  | "vdelete" :: _ -> Some (OVDelete (zi 1))
  | "vsdelete" :: _ -> Some (OVSDelete (zi 1))
  | "vsnew" :: _ -> Some (OVsNew (zi 4, s 1, s 2, [unhex "66"]))
  | "vsnewempty" :: _ -> Some (OVsNew (zi 3, s 1, s 2, []))
  | "vsgetvdatasf" :: _ -> Some (OGetVdatasF (None, zi 1, zi 2))
  | "vsgetvdatasg" :: _ -> Some (OGetVdatasG (zi 1, None, zi 2, zi 3))
  | "vsofclassf" :: _ -> Some (OGetVdatasF (Some (s 1), zi 2, zi 3))
  | "vsofclassg" :: _ -> Some (OGetVdatasG (zi 1, Some (s 2), zi 3, zi 4))
  | "countvgroupsf" :: _ -> Some (OCountVgroupsF (zi 1))
  | "countvgroupsg" :: _ -> Some (OCountVgroupsG (zi 1, zi 2))
  | "vhmakegroup" :: _ ->
    let o k = match List.nth_opt toks k with Some "~" -> None | Some x -> Some (unhex x) | None -> None in
    let rec pairs = function t :: r :: rest -> (z (int_of_string t), z (int_of_string r)) :: pairs rest | _ -> [] in
    let rest = (match toks with _ :: _ :: _ :: _ :: r -> r | _ -> []) in
    Some (OVHMakeGroup (zi 3, o 1, o 2, pairs rest))
  | "ventries" :: _ -> Some (OVentries (zi 1))
  | "querytag" :: _ -> Some (OQueryTag (zi 1))
  | "gisinternal" :: _ -> Some (OGisInternal (zi 1))
  | "flocate" :: _ -> Some (OFlocate (zi 1, s 2))
  | "vsattach" :: _ -> Some (OVsAttach (zi 1, zi 2))
  | "vsdetach" :: _ -> Some (OVsDetach (zi 1))
  | "ntagrefs" :: _ -> Some (ONTagRefs (zi 1))
  | "gettagrefs" :: _ -> Some (OGetTagRefs (zi 1, zi 2))
  | "gettagref" :: _ -> Some (OGetTagRef (zi 1, zi 2))
  | "inqtagref" :: _ -> Some (OInqTagRef (zi 1, zi 2, zi 3))
  | "nrefs" :: _ -> Some (ONRefs (zi 1, zi 2))
  | "getname" :: _ -> Some (OGetName (zi 1))
  | "getclass" :: _ -> Some (OGetClass (zi 1))
  | "inquire" :: _ -> Some (OInquire (zi 1))
  | "queryref" :: _ -> Some (OQueryRef (zi 1))
  | "isvg" :: _ -> Some (OIsVg (zi 1, zi 2))
  | "isvs" :: _ -> Some (OIsVs (zi 1, zi 2))
  | "lone" :: _ -> Some (OLone (zi 1))
  | "vslone" :: _ -> Some (OVSLone (zi 1))
  | "getid" :: _ -> Some (OGetId (zi 1))
  | "vsgetid" :: _ -> Some (OVSGetId (zi 1))
  | "iter" :: _ -> Some OIter
  | "vsiter" :: _ -> Some OVSIter
  | "find" :: _ -> Some (OFind (s 1))
  | "findclass" :: _ -> Some (OFindClass (s 1))
  | "vsfind" :: _ -> Some (OVSFind (s 1))
  | "vsfindclass" :: _ -> Some (OVSFindClass (s 1))
  | "getvgroupsf" :: _ -> Some (OGetVgroupsF (zi 1, zi 2))
  | "getvgroupsg" :: _ -> Some (OGetVgroupsG (zi 1, zi 2, zi 3))
  | "getnext" :: _ -> Some (OGetNext (zi 1, zi 2))
  | "msize" :: _ -> Some (OMsize (zi 1))
  | "rawvg" :: _ -> Some (ORawVg (zi 1))
  | "putraw" :: _ -> Some (OPutRaw (zi 1, s 2))
  | _ -> None

let print_res ln r =
  match r with
  | RFail -> Printf.printf "%d fail\n" ln
  | RUnspec -> Printf.printf "%d unspec\n" ln
  | RNoSpec -> Printf.printf "%d nospec\n" ln
  | ROk (vals, bytes) ->
    Printf.printf "%d ok%s%s\n" ln
      (String.concat "" (List.map (fun v -> " " ^ string_of_int (iz v)) vals))
      (match bytes with None -> "" | Some b -> " " ^ hex b)

let run_with (type st) (init : st) (step : st -> op -> st * res) file =
  let ic = open_in file in
  let st = ref init in
  let ln = ref 0 in
  (try
    while true do
      let line = input_line ic in
      incr ln;
      let toks = List.filter (fun s -> s <> "") (String.split_on_char ' ' (String.trim line)) in
      match toks with
      | [] -> Printf.printf "%d skip\n" !ln
      | "history" :: _ -> st := init; Printf.printf "%d history\n" !ln
      | t :: _ when t.[0] = '#' -> Printf.printf "%d skip\n" !ln
      | _ ->
        (match parse toks with
         | None -> Printf.printf "%d skip\n" !ln
         | Some o -> let (s', r) = step !st o in st := s'; print_res !ln r)
    done
  with End_of_file -> ())

let () =
  match Sys.argv.(1) with
  | "S" -> run_with init step Sys.argv.(2)
  | "M" -> run_with minit mstep Sys.argv.(2)
  | _ -> prerr_endline "usage: vgraph_model S|M file"; exit 2
