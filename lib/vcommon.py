"""Shared machinery of the hdf4 verification framework (see DESIGN.md section 2.3).

Every check goes through the same pipeline:
  hash /repo working tree -> (re)build static sanitised libs out of tree ->
  regenerate coq/gen/Gen_*.v from the sources -> make the Coq project ->
  re-run Properties_<id>.v (captures Print Assumptions) -> build extracted
  OCaml model drivers -> compile C harnesses -> per-property correspondence ->
  evidence / VIOLATION protocol.
"""
import fcntl
import glob
import hashlib
import json
import os
import random
import re
import shutil
import subprocess
import sys
import time

VERIF = os.path.dirname(os.path.dirname(os.path.abspath(__file__)))
REPO = os.environ.get("VERIF_REPO", "/repo")
SCRATCH = os.environ.get("VERIF_SCRATCH", "/var/tmp/hdf4-verif")
GUARD = "HDF4_VERIF"
NCPU = os.cpu_count() or 4

SAN_FLAGS = ("-O1 -g -fno-omit-frame-pointer -fsanitize=address "
             "-fsanitize=bounds,null,return,unreachable,vla-bound,integer-divide-by-zero "
             "-fno-sanitize-recover=all")
HASH_DIRS = ["hdf", "mfhdf", "config", "CMakeLists.txt", "CMakeFilters.cmake",
             "CMakeInstallation.cmake", "UserMacros.cmake"]
FORBIDDEN = re.compile(r"\b(Admitted|admit|Axiom|Axioms|Parameter|Parameters|Conjecture|Conjectures|"
                       r"Unset\s+Guard|bypass_check|Admit\s+Obligations|Unset\s+Universe\s+Checking|"
                       r"Unset\s+Positivity)\b|-type-in-type|-impredicative-set")


def log(*a):
    print("[verif]", *a, file=sys.stderr, flush=True)


def sh(cmd, cwd=None, timeout=None, env=None, check=False, input=None):
    """Run a command, return (rc, stdout+stderr text)."""
    e = dict(os.environ)
    if env:
        e.update(env)
    try:
        p = subprocess.run(cmd, cwd=cwd, shell=isinstance(cmd, str), stdout=subprocess.PIPE,
                           stderr=subprocess.STDOUT, timeout=timeout, env=e, input=input)
        out = p.stdout.decode("utf-8", "replace") if isinstance(p.stdout, bytes) else p.stdout
        rc = p.returncode
    except subprocess.TimeoutExpired as ex:
        out = (ex.stdout or b"").decode("utf-8", "replace") + "\n[timeout]"
        rc = 124
    if check and rc != 0:
        raise RuntimeError("command failed (%d): %s\n%s" % (rc, cmd, out[-4000:]))
    return rc, out


class Lock:
    def __init__(self, path):
        self.path = path

    def __enter__(self):
        os.makedirs(os.path.dirname(self.path), exist_ok=True)
        self.f = open(self.path, "w")
        fcntl.flock(self.f, fcntl.LOCK_EX)
        return self

    def __exit__(self, *a):
        fcntl.flock(self.f, fcntl.LOCK_UN)
        self.f.close()


# --------------------------------------------------------------------------
# /repo hashing and building
# --------------------------------------------------------------------------

def repo_hash():
    rc, out = sh(["git", "-C", REPO, "ls-files", "-co", "--exclude-standard", "--"] + HASH_DIRS)
    files = sorted(set(l for l in out.splitlines() if l and not l.startswith("_build")))
    h = hashlib.sha256()
    for f in files:
        p = os.path.join(REPO, f)
        try:
            with open(p, "rb") as fh:
                d = fh.read()
        except (FileNotFoundError, IsADirectoryError):
            continue
        h.update(f.encode() + b"\0" + hashlib.sha256(d).digest())
    return h.hexdigest()[:16]


def _prune_builds(keep_hash, variant):
    """Keep scratch small: drop builds of other tree states that are older than 2 hours, and never keep more
    than 30 (several checks / builders may share the scratch area concurrently)."""
    try:
        ents = [os.path.join(SCRATCH, d) for d in os.listdir(SCRATCH) if d.startswith("b-")]
    except FileNotFoundError:
        return
    ents = [d for d in ents if os.path.isdir(d) and not os.path.basename(d).startswith("b-" + keep_hash)]
    ents.sort(key=lambda d: os.path.getmtime(d), reverse=True)
    now = time.time()
    for i, d in enumerate(ents):
        if i >= 30 or now - os.path.getmtime(d) > 7200:
            shutil.rmtree(d, ignore_errors=True)
            try:
                for v in ("asan", "plain"):
                    os.unlink(os.path.join(SCRATCH, "lock-%s" % os.path.basename(d)[2:]))
            except OSError:
                pass


def build_repo(variant="asan"):
    """Out-of-tree static build of /repo's *current working tree*.  Returns the build dir.
    variant: 'asan' (sanitised, default for harnesses) or 'plain' (-O2, for volume runs)."""
    h = repo_hash()
    bdir = os.path.join(SCRATCH, "b-%s-%s" % (h, variant))
    os.makedirs(SCRATCH, exist_ok=True)
    with Lock(os.path.join(SCRATCH, "lock-%s-%s" % (h, variant))):
        stamp = os.path.join(bdir, ".verif-built")
        if os.path.exists(stamp):
            os.utime(bdir, None)
            return bdir, h
        _prune_builds(h, variant)
        shutil.rmtree(bdir, ignore_errors=True)
        os.makedirs(bdir)
        flags = SAN_FLAGS if variant == "asan" else "-O2 -g"
        flags += " -D%s -Wno-error -w" % GUARD
        t0 = time.time()
        cmd = ["cmake", "-G", "Ninja", "-S", REPO, "-B", bdir, "-DCMAKE_BUILD_TYPE=None",
               "-DBUILD_SHARED_LIBS=OFF", "-DBUILD_STATIC_LIBS=ON", "-DBUILD_TESTING=OFF",
               "-DHDF4_BUILD_EXAMPLES=OFF", "-DHDF4_BUILD_TOOLS=ON", "-DHDF4_BUILD_UTILS=OFF",
               "-DHDF4_BUILD_FORTRAN=OFF", "-DHDF4_BUILD_JAVA=OFF", "-DHDF4_ENABLE_SZIP_SUPPORT=OFF",
               "-DHDF4_BUILD_STATIC_TOOLS=ON",
               "-DCMAKE_C_FLAGS=" + flags, "-DCMAKE_EXE_LINKER_FLAGS=" + (
                   "-fsanitize=address -fsanitize=undefined" if variant == "asan" else "")]
        rc, out = sh(cmd, timeout=600)
        if rc != 0:
            raise BuildError("cmake configure of /repo failed:\n" + out[-3000:])
        rc, out = sh(["cmake", "--build", bdir, "-j", str(NCPU)], timeout=1800)
        if rc != 0:
            raise BuildError("build of /repo failed:\n" + out[-6000:])
        open(stamp, "w").write("%s %.1fs\n" % (h, time.time() - t0))
        log("built /repo (%s, %s) in %.1fs -> %s" % (h, variant, time.time() - t0, bdir))
    return bdir, h


class BuildError(Exception):
    pass


def find_lib(bdir, stem):
    c = glob.glob(os.path.join(bdir, "bin", "lib%s*.a" % stem))
    if not c:
        c = glob.glob(os.path.join(bdir, "**", "lib%s*.a" % stem), recursive=True)
    if not c:
        raise BuildError("static library %s not found under %s" % (stem, bdir))
    return sorted(c, key=len)[0]


def find_tool(bdir, name):
    for p in (os.path.join(bdir, "bin", name),):
        if os.path.exists(p):
            return p
    c = glob.glob(os.path.join(bdir, "**", name), recursive=True)
    c = [x for x in c if os.access(x, os.X_OK) and os.path.isfile(x)]
    if not c:
        raise BuildError("tool %s not found under %s" % (name, bdir))
    return c[0]


def compile_harness(bdir, name, sources, wraps=(), variant="asan", extra=()):
    """Compile harness/<sources> against the fresh static libs.  Output lives in the build dir."""
    hdir = os.path.join(bdir, "harness")
    os.makedirs(hdir, exist_ok=True)
    srcs = [s if os.path.isabs(s) else os.path.join(VERIF, "harness", s) for s in sources]
    deps = srcs + sorted(glob.glob(os.path.join(VERIF, "harness", "*.h")))
    # the build directory is shared by every copy of /verif that looks at the same library tree: key the binary by
    # the content of its sources, so that two copies with different harness versions never pick up each other's binary
    h = hashlib.sha256()
    for d in deps:
        with open(d, "rb") as fh:
            h.update(fh.read())
    h.update(repr((sorted(wraps), variant, sorted(extra))).encode())
    out = os.path.join(hdir, "%s-%s" % (name, h.hexdigest()[:12]))
    if os.path.exists(out):
        return out
    flags = (SAN_FLAGS if variant == "asan" else "-O2 -g").split()
    inc = ["-I" + os.path.join(REPO, "hdf", "src"), "-I" + os.path.join(REPO, "mfhdf", "src"),
           "-I" + os.path.join(REPO, "mfhdf", "hdiff"), "-I" + os.path.join(REPO, "mfhdf", "hrepack"),
           "-I" + bdir, "-I" + os.path.join(bdir, "hdf", "src"), "-I" + os.path.join(bdir, "mfhdf", "src"),
           "-I" + os.path.join(VERIF, "harness")]
    cmd = (["gcc"] + flags + ["-w", "-D" + GUARD, "-DHAVE_NETCDF"] + inc + list(extra) + ["-o", out + ".tmp"] + srcs +
           ["-Wl,--wrap=%s" % w for w in wraps] +
           [find_lib(bdir, "mfhdf"), find_lib(bdir, "hdf"), "-lz", "-ljpeg", "-lm"])
    with Lock(os.path.join(hdir, ".lock-" + name)):
        rc, o = sh(cmd, timeout=600)
        if rc != 0:
            raise BuildError("harness %s failed to compile:\n%s" % (name, o[-6000:]))
        os.replace(out + ".tmp", out)
    return out


HARNESS_ENV = {"ASAN_OPTIONS": "detect_leaks=0:abort_on_error=0:exitcode=97:allocator_may_return_null=1",
               "UBSAN_OPTIONS": "print_stacktrace=1:halt_on_error=1:exitcode=98"}


# --------------------------------------------------------------------------
# Coq side
# --------------------------------------------------------------------------

COQ = os.path.join(VERIF, "coq")


def gen_consts(incs=()):
    """Run the translator: C headers/tables/macros of the *current* /repo -> coq/gen/Gen_*.v.
    Files are only rewritten when their content changes (keeps make incremental)."""
    rc, out = sh([sys.executable, os.path.join(VERIF, "gen", "gen_consts.py"), REPO, os.path.join(COQ, "gen")] + list(incs),
                 timeout=120)
    if rc != 0:
        raise BuildError("translator gen_consts.py failed:\n" + out[-3000:])
    return out


def write_coqproject():
    vs = sorted(glob.glob(os.path.join(COQ, "*.v")) + glob.glob(os.path.join(COQ, "gen", "*.v")))
    txt = "-Q . H4\n" + "\n".join(os.path.relpath(v, COQ) for v in vs) + "\n"
    p = os.path.join(COQ, "_CoqProject")
    old = open(p).read() if os.path.exists(p) else ""
    if old != txt:
        open(p, "w").write(txt)
        return True
    return False


def coq_make(targets=None, timeout=3000):
    """Full .vo build (never -vos). Returns (ok, log)."""
    with Lock(os.path.join(COQ, ".lock")):
        os.makedirs(os.path.join(VERIF, "extract", "gen"), exist_ok=True)
        changed = write_coqproject()
        mk = os.path.join(COQ, "Makefile.coq")
        if changed or not os.path.exists(mk):
            sh(["coq_makefile", "-f", "_CoqProject", "-o", "Makefile.coq"], cwd=COQ, check=True)
        cmd = ["make", "-f", "Makefile.coq", "-k", "-j", str(NCPU)]
        if targets:
            cmd += targets
        rc, out = sh(cmd, cwd=COQ, timeout=timeout, env={"TIMED": ""})
        return rc == 0, out


def coq_deps(vfile):
    """Transitive H4 dependencies (as .v basenames relative to coq/) of a .v file."""
    rc, out = sh(["coqdep", "-Q", ".", "H4"] + [os.path.relpath(p, COQ) for p in
                 sorted(glob.glob(os.path.join(COQ, "*.v")) + glob.glob(os.path.join(COQ, "gen", "*.v")))], cwd=COQ)
    dep = {}
    for line in out.splitlines():
        if ":" not in line:
            continue
        lhs, rhs = line.split(":", 1)
        tgt = [t for t in lhs.split() if t.endswith(".vo")]
        if not tgt:
            continue
        src = tgt[0][:-1]
        dep[src] = [d[:-1] for d in rhs.split() if d.endswith(".vo")]
    seen, todo = [], [vfile]
    while todo:
        v = todo.pop()
        if v in seen:
            continue
        seen.append(v)
        todo += dep.get(v, [])
    return seen


def forbidden_scan():
    bad = []
    for v in glob.glob(os.path.join(COQ, "**", "*.v"), recursive=True):
        txt = strip_coq_comments(open(v, errors="replace").read())
        for i, line in enumerate(txt.splitlines(), 1):
            if FORBIDDEN.search(line):
                bad.append("%s:%d: %s" % (os.path.relpath(v, VERIF), i, line.strip()[:120]))
    return bad


def count_obligations(vfiles):
    """Number of Qed/Defined-closed statements in the given files (measured, by text scan with comments removed)."""
    n = 0
    for v in vfiles:
        p = os.path.join(COQ, v)
        if not os.path.exists(p):
            continue
        txt = strip_coq_comments(open(p, errors="replace").read())
        n += len(re.findall(r"\bQed\s*\.", txt))
    return n


def strip_coq_comments(src):
    """remove (* ... *) comments the way Coq's lexer sees them: they nest, and string literals (also inside
    comments) hide comment delimiters -- generated files quote C text such as "(*var)->type" """
    out, depth, i, n = [], 0, 0, len(src)
    while i < n:
        c = src[i]
        if c == '"':
            j = i + 1
            while j < n:
                if src[j] == '"':
                    if j + 1 < n and src[j + 1] == '"':
                        j += 2
                        continue
                    break
                j += 1
            if not depth:
                out.append(src[i:j + 1])
            i = j + 1
        elif src[i:i + 2] == "(*":
            depth += 1
            i += 2
        elif src[i:i + 2] == "*)" and depth:
            depth -= 1
            i += 2
        else:
            if not depth:
                out.append(c)
            i += 1
    return "".join(out)


def run_properties_file(pid, timeout=900):
    """Always re-run coqc on Properties_<id>.v; returns (ok, output, theorems, assumptions)."""
    v = "Properties_%s.v" % pid
    if not os.path.exists(os.path.join(COQ, v)):
        return False, "missing " + v, [], {}
    with Lock(os.path.join(COQ, ".lock")):
        rc, out = sh(["coqc", "-Q", ".", "H4", v], cwd=COQ, timeout=timeout)
    txt = strip_coq_comments(open(os.path.join(COQ, v)).read())
    thms = re.findall(r"\b(?:Theorem|Lemma|Corollary)\s+([A-Za-z0-9_']+)", txt)
    # Parse Print Assumptions output blocks
    assum = {}
    pa = re.findall(r"Print\s+Assumptions\s+([A-Za-z0-9_']+)", txt)
    blocks = re.split(r"(?m)^(?=Closed under the global context|Axioms:)", out)
    blocks = [b.strip() for b in blocks if b.startswith("Closed under") or b.startswith("Axioms:")]
    for name, b in zip(pa, blocks):
        assum[name] = "closed" if b.startswith("Closed") else " ".join(b.split())
    if len(pa) != len(blocks):
        assum["_note"] = "Print Assumptions count mismatch: %d requested, %d reported" % (len(pa), len(blocks))
    return rc == 0, out, thms, assum


def build_model(name, mains, gens, timeout=300):
    """Compile an extracted model driver: extract/gen/<g>.ml(i) for g in gens + extract/<mains> -> extract/bin/<name>."""
    ex = os.path.join(VERIF, "extract")
    os.makedirs(os.path.join(ex, "bin"), exist_ok=True)
    out = os.path.join(ex, "bin", name)
    srcs = []
    for g in gens:
        mli = os.path.join(ex, "gen", g + ".mli")
        ml = os.path.join(ex, "gen", g + ".ml")
        if not os.path.exists(ml):
            raise BuildError("extracted file missing: %s (Coq extraction did not run)" % ml)
        srcs += [mli, ml]
    srcs += [os.path.join(ex, m) for m in mains]
    if os.path.exists(out) and all(os.path.getmtime(out) > os.path.getmtime(s) for s in srcs):
        return out
    with Lock(os.path.join(ex, "bin", ".lock-" + name)):
        tmp = os.path.join(ex, "bin", ".obj-" + name)
        shutil.rmtree(tmp, ignore_errors=True)
        os.makedirs(tmp)
        loc = []
        for s in srcs:
            shutil.copy(s, tmp)
            loc.append(os.path.basename(s))
        rc, o = sh(["ocamlfind", "ocamlopt", "-O3", "-w", "-a", "-package", "str,unix", "-linkpkg"] + loc +
                   ["-o", out + ".tmp"], cwd=tmp, timeout=timeout)
        if rc != 0:
            rc, o = sh(["ocamlfind", "ocamlopt", "-w", "-a", "-package", "str,unix", "-linkpkg"] + loc +
                       ["-o", out + ".tmp"], cwd=tmp, timeout=timeout)
        if rc != 0:
            raise BuildError("OCaml build of %s failed:\n%s" % (name, o[-4000:]))
        os.replace(out + ".tmp", out)
        shutil.rmtree(tmp, ignore_errors=True)
    return out


# --------------------------------------------------------------------------
# Known findings
# --------------------------------------------------------------------------

def load_known_findings():
    """known_findings.json plus per-property fragments known_findings.d/*.json (same shape)."""
    out = {"findings": [], "fixed": []}
    ps = [os.path.join(VERIF, "known_findings.json")] + sorted(glob.glob(os.path.join(VERIF, "known_findings.d", "*.json")))
    for p in ps:
        if os.path.exists(p):
            d = json.load(open(p))
            out["findings"] += d.get("findings", [])
            out["fixed"] += d.get("fixed", [])
    return out


# --------------------------------------------------------------------------
# Check context
# --------------------------------------------------------------------------

class Ctx:
    def __init__(self, pid, tier, seed, clean=True):
        self.pid = pid
        self.tier = tier
        self.seed = seed
        self.rng = random.Random(seed)
        self.t0 = time.time()
        self.violations = []      # list of dict(replay=path, found=bool, what=str)
        self.known_hits = []
        self.coverage = {"evaluations": 0, "distinct_nontrivial": 0, "samples": [], "rule": "",
                         "correspondence": {}}
        self.assumptions = []
        self.trusted = []
        self.proof = {"ok": False, "log": "", "theorems": [], "assumptions": {}, "obligations": 0,
                      "discharged": 0, "broken": []}
        self.bdir = None
        self.hash = None
        self._distinct = set()
        self.kf = load_known_findings()
        os.makedirs(os.path.join(VERIF, "evidence", "replay"), exist_ok=True)
        for old in (glob.glob(os.path.join(VERIF, "evidence", "replay", pid + "-*")) if clean else []):
            os.unlink(old)

    # ---- building -------------------------------------------------------
    def build(self, variant="asan"):
        bdir, h = build_repo(variant)
        if variant == "asan":
            self.bdir, self.hash = bdir, h
        return bdir

    def harness(self, name, sources, wraps=(), variant="asan", extra=()):
        bdir = self.build(variant)
        return compile_harness(bdir, name, sources, wraps, variant, extra)

    def tool(self, name, variant="asan"):
        return find_tool(self.build(variant), name)

    def model(self, name, mains, gens):
        return build_model(name, mains, gens)

    def prove(self):
        """Steps 3-4 of the pipeline. Never raises on a broken proof: records it."""
        gen_consts([self.bdir])
        bad = forbidden_scan()
        ok, out = coq_make()
        self.proof["log"] = out[-8000:]
        pv = "Properties_%s.v" % self.pid
        deps = coq_deps(pv)
        broken = []
        for d in deps:
            if not os.path.exists(os.path.join(COQ, d + "o")) or \
               os.path.getmtime(os.path.join(COQ, d + "o")) < os.path.getmtime(os.path.join(COQ, d)):
                broken.append(d)
        pok, pout, thms, assum = run_properties_file(self.pid)
        if not pok and pv not in broken:
            broken.append(pv)
        errs = re.findall(r'File "\./([^"]+)", line (\d+).*?\n(?:.*\n)*?Error:\s*((?:.*\n){1,4})', out)
        self.proof.update(ok=(not broken and pok and not bad), theorems=thms, assumptions=assum,
                          broken=broken, forbidden=bad, deps=deps,
                          errors=[{"file": f, "line": int(l), "msg": " ".join(m.split())[:300]} for f, l, m in errs][:10],
                          properties_output=pout[-3000:])
        if self.tier == "thorough" and self.proof["ok"]:
            # independent re-check of the compiled files and everything they depend on
            with Lock(os.path.join(COQ, ".lock")):
                rc, out = sh(["coqchk", "-silent", "-o", "-Q", ".", "H4", "H4.Properties_%s" % self.pid], cwd=COQ,
                             timeout=3000)
            self.proof["coqchk"] = {"rc": rc, "tail": out[-2500:]}
            if rc == 124:
                self.proof["coqchk"]["note"] = "coqchk did not finish within 3000 s; recorded, not counted as a failure"
            elif rc != 0:
                self.proof["ok"] = False
                self.proof["broken"].append("coqchk H4.Properties_%s" % self.pid)
        n = count_obligations(deps)
        self.proof["obligations"] = n
        self.proof["discharged"] = n - count_obligations(broken) if not bad else 0
        return self.proof["ok"]

    # ---- recording ------------------------------------------------------
    def case(self, key, nontrivial=True, sample=None):
        """Record one explored case; key identifies distinctness."""
        self.coverage["evaluations"] += 1
        if nontrivial:
            k = hashlib.sha1(repr(key).encode()).digest()[:10]
            if k not in self._distinct:
                self._distinct.add(k)
        if sample is not None and len(self.coverage["samples"]) < 6:
            self.coverage["samples"].append(sample)

    def corr(self, name, **kw):
        self.coverage["correspondence"].setdefault(name, {}).update(kw)

    def replay_path(self, suffix="hist"):
        n = len(self.violations) + 1
        return os.path.join(VERIF, "evidence", "replay", "%s-%d.%s" % (self.pid, n, suffix))

    def match_known(self, signature):
        """signature: free-text tag computed by the check from the failing input; a finding matches when its
        'match' string equals it."""
        for f in self.kf.get("findings", []):
            if f.get("property") == self.pid and f.get("match") == signature:
                return f
        return None

    def violation(self, what, replay_text, found=True, signature=None, suffix="hist"):
        if signature is not None:
            f = self.match_known(signature)
            if f is not None:
                if signature not in [k["match"] for k in self.known_hits]:
                    self.known_hits.append(f)
                    print("KNOWN-FINDING: property=%s %s" % (self.pid, f["what"]), flush=True)
                return
        p = self.replay_path(suffix)
        with open(p, "w") as fh:
            fh.write(replay_text if replay_text.endswith("\n") else replay_text + "\n")
        self.violations.append({"replay": p, "found": found, "what": what})
        print("VIOLATION property=%s replay=%s%s" % (self.pid, p, "" if found else " no-failing-input-found"),
              flush=True)
        log("violation:", what)

    # ---- finishing ------------------------------------------------------
    def finish(self, rule, trusted, assumptions, explanation=None):
        # A broken proof obligation with no concrete failing input is still a violation.
        if not self.proof["ok"] and not any(v["found"] for v in self.violations):
            txt = ["# property %s: proof obligation(s) no longer check; no failing input found" % self.pid,
                   "broken files: " + ", ".join(self.proof.get("broken", [])),
                   "forbidden vernacular: " + "; ".join(self.proof.get("forbidden", []))]
            for e in self.proof.get("errors", []):
                txt.append("error: %s:%d %s" % (e["file"], e["line"], e["msg"]))
            txt.append("--- tail of Coq log ---")
            txt.append(self.proof.get("log", "")[-3000:])
            txt.append(self.proof.get("properties_output", "")[-1500:])
            if not any(not v["found"] for v in self.violations):
                self.violation("proof obligations broken: " + ", ".join(self.proof.get("broken", [])),
                               "\n".join(txt), found=False, suffix="txt")
        cov = self.coverage
        cov["distinct_nontrivial"] = len(self._distinct)
        cov["rule"] = rule
        cov["obligations"] = self.proof["obligations"]
        cov["discharged"] = self.proof["discharged"]
        cov["checker_cmd"] = ("make -C coq -f Makefile.coq -k -j%d (coqc 8.16.1, full .vo) && "
                              "coqc -Q . H4 Properties_%s.v" % (NCPU, self.pid))
        cov["trusted_base"] = trusted
        cov["theorems"] = self.proof["theorems"]
        cov["print_assumptions"] = self.proof["assumptions"]
        cov["proof_files"] = self.proof.get("deps", [])
        cov["repo_tree_hash"] = self.hash
        if "coqchk" in self.proof:
            cov["coqchk"] = self.proof["coqchk"]
        if explanation:
            cov["explanation"] = explanation
        if not cov["samples"]:
            cov["samples"] = ["(no correspondence cases run)"]
        ev = {"property_id": self.pid, "tier": self.tier, "seed": self.seed, "level": "proof",
              "coverage": cov, "assumptions": assumptions, "wall_s": round(time.time() - self.t0, 2),
              "violations": len(self.violations),
              "known_findings_hit": [k["match"] for k in self.known_hits]}
        os.makedirs(os.path.join(VERIF, "evidence"), exist_ok=True)
        p = os.path.join(VERIF, "evidence", "%s.json" % self.pid)
        with open(p + ".tmp", "w") as fh:
            json.dump(ev, fh, indent=1, sort_keys=True, default=str)
        os.replace(p + ".tmp", p)
        log("%s %s: proof ok=%s obligations=%d evaluations=%d distinct=%d violations=%d wall=%.1fs" % (
            self.pid, self.tier, self.proof["ok"], cov["obligations"], cov["evaluations"],
            cov["distinct_nontrivial"], len(self.violations), time.time() - self.t0))
        return 1 if self.violations else 0


# --------------------------------------------------------------------------
# small helpers for check modules
# --------------------------------------------------------------------------

def run_lines(exe, infile, timeout=600, env=None, args=()):
    e = dict(HARNESS_ENV)
    if env:
        e.update(env)
    rc, out = sh([exe] + list(args) + [infile], timeout=timeout, env=e)
    return rc, out.splitlines()


def first_diff(a, b):
    for i, (x, y) in enumerate(zip(a, b)):
        if x != y:
            return i
    if len(a) != len(b):
        return min(len(a), len(b))
    return None
