(** C17 -- a concrete session used by the non-vacuity Examples of Properties_C17.v: a 36-byte file (one DD block
    with ndds = 2: one 2-byte element and one NIL slot), and an append-only session of four new elements that
    fills the NIL slot and needs two new DD blocks. *)
From Coq Require Import ZArith List Bool Lia.
Require Import H4.gen.Gen_Crash H4.CrashSpec H4.CrashModel H4.CrashBytes H4.CrashProofs H4.CrashFlush.
Import ListNotations.
Local Open Scope Z_scope.

Definition ex_img : image :=
  [14; 3; 19; 1;  0; 2; 0; 0; 0; 0;
   0; 30; 0; 1; 0; 0; 0; 34; 0; 0; 0; 2;
   0; 1; 0; 0; 255; 255; 255; 255; 255; 255; 255; 255;
   171; 205].

Definition ex_ops : list op :=
  [OpPut 800 1 3 [1; 2; 3]; OpPut 800 2 2 [9; 9]; OpApp 801 1 [[5]; [6; 7]]; OpPut 802 1 1 [4]].

Definition ex_bl : list block := Eval vm_compute in match parse_file ex_img with Some b => b | None => [] end.
Definition ex_fr : frec := Eval vm_compute in
  match load ex_img true with Some f => f | None => mkfrec [] 0 true false false 0 end.
Definition ex_run : frec * wlog := Eval vm_compute in run_ops ex_fr ex_ops.
Definition ex_fr1 : frec := fst ex_run.
Definition ex_pre : wlog := snd ex_run.
Definition ex_flush : wlog := Eval vm_compute in snd (sync ex_fr1).

(** disk/memory/mix triples at the start of the flush: old blocks as parsed, new blocks as created on disk *)
Fixpoint mk_T (D M : list block) : list tri :=
  match M with
  | [] => []
  | m :: M' =>
      match D with
      | d :: D' => mktri d m d :: mk_T D' M'
      | [] => let d := mkblock (b_off m) (b_ndds m) 0 (repeat nil_dd (Z.to_nat (b_ndds m))) in
              mktri d m d :: mk_T [] M'
      end
  end.

Definition ex_T : list tri := Eval vm_compute in mk_T ex_bl (map m_blk (f_blocks ex_fr1)).

Lemma ex_hyps_theorem1 :
  parse_file ex_img = Some ex_bl /\ load ex_img true = Some ex_fr /\ forallb op_ok ex_ops = true /\
  run_ops ex_fr ex_ops = (ex_fr1, ex_pre) /\ (length ex_pre = 9)%nat /\ old_end ex_bl = 36 /\
  wf_image ex_img = true.
Proof. vm_compute. repeat split; reflexivity. Qed.

Lemma ex_flush_shape : snd (sync ex_fr1) = ex_flush /\ (length ex_flush = 7)%nat /\
  (length (f_blocks ex_fr1) = 3)%nat.
Proof. vm_compute. repeat split; reflexivity. Qed.

(* concrete goals: first take Forall / Forall2 / conjunctions apart (no computation under binders), then compute
   each closed leaf *)
Ltac brk := repeat first [ apply Forall_nil | apply Forall_cons | apply Forall2_nil | apply Forall2_cons | split ].
Ltac leaf := solve [ reflexivity | exact I | intro; discriminate | left; leaf | right; leaf | split; leaf ].
Ltac crunch := brk; vm_compute; leaf.

Lemma ex_inv : Inv (apply_log ex_img ex_pre) ex_T.
Proof.
  constructor.
  - unfold ex_T, tri_ok, compat, mixrel, blk_in_range. cbn [t_d t_m t_x b_off b_ndds b_next b_dds]. crunch.
  - vm_compute. leaf.
  - vm_compute. reflexivity.
  - unfold ex_T. crunch.
  - unfold ex_T. cbn [map pdisj region t_d]. crunch.
  - vm_compute. reflexivity.
  - apply Nat.leb_le. vm_compute. reflexivity.
Qed.

Lemma ex_flush_state : flush_state ex_img ex_bl (apply_log ex_img ex_pre) ex_fr1 ex_T.
Proof.
  apply flush_state_intro.
  - vm_compute. reflexivity.
  - exact ex_inv.
  - exists (skipn 1 (map t_d ex_T)). vm_compute. reflexivity.
  - vm_compute. constructor.
  - intros d x Hin Hl Hh E. vm_compute in Hin. destruct Hin as [<-|[<-|[]]].
    + vm_compute in E. inversion E; subst. vm_compute. reflexivity.
    + vm_compute in Hl. discriminate.
  - vm_compute. reflexivity.
  - intros d b Hin Hl Hh Hb. vm_compute in Hin. destruct Hin as [<-|[<-|[]]]; [|vm_compute in Hl; discriminate].
    vm_compute in Hb. destruct Hb as [<-|[<-|[<-|[]]]]; vm_compute; leaf.
  - intros d Hin Hl Hh. vm_compute in Hin. destruct Hin as [<-|[<-|[]]]; [|vm_compute in Hl; discriminate].
    vm_compute. leaf.
  - unfold ex_T. cbn [map t_d]. crunch.
  - vm_compute. leaf.
Qed.
