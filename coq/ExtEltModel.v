(** C04 -- implementation model M of the external-element transfer routines of hdf/src/hextelt.c (HXPwrite, HXPread):
    the element's bytes live in the external file at [extern_offset, extern_offset + length); position update, the
    "has the element grown" test and the new length come from coq/gen/Gen_Chunk.v (regenerated from the source); the
    seek target posn + extern_offset is pinned by the generated call lists (ExtEltProofs.v).
    Total computable definitions only. *)
From Coq Require Import ZArith List Bool.
Require Import H4.gen.Gen_Chunk H4.ChunkModel.
Import ListNotations.
Local Open Scope Z_scope.

Definition xfile := Z -> Z.                       (* the external file, byte by byte *)
Record xelt := mkx { x_posn : Z; x_length : Z; x_offset : Z }.

(** fseek(posn + extern_offset); fwrite(data) *)
Fixpoint xfile_write (f : xfile) (at_ : Z) (data : list Z) : xfile :=
  match data with
  | [] => f
  | b :: r => xfile_write (fun k => if k =? at_ then b else f k) (at_ + 1) r
  end.

Definition hxp_write (x : xelt) (f : xfile) (data : list Z) : xelt * xfile :=
  let len := Z.of_nat (List.length data) in
  let f' := xfile_write f (x_posn x + x_offset x) data in
  let posn' := HXPwrite_q_access_rec_posn_0 (x_posn x) len in
  let length' := if truthy (HXPwrite_q_if_3 posn' (x_length x)) then HXPwrite_q_info_length_0 posn' else x_length x in
  (mkx posn' length' (x_offset x), f').

(** HXPread: length 0 or a read past the end is cut to what is left; FAIL (None) if nothing is left *)
Definition hxp_read (x : xelt) (f : xfile) (len : Z) : option (xelt * list Z) :=
  if truthy (HXPread_q_if_0 len) then None
  else
    let len1 := if truthy (HXPread_q_if_1 (x_posn x) (x_length x) len) then HXPread_q_length_0 (x_posn x) (x_length x) else len in
    if truthy (HXPread_q_if_2 len1) then None
    else Some (mkx (HXPread_q_access_rec_posn_0 (x_posn x) len1) (x_length x) (x_offset x),
               map (fun k => f (x_posn x + x_offset x + Z.of_nat k)) (seq 0 (Z.to_nat len1))).
