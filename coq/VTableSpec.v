(** C07 -- abstract specification S: a Vdata is a table of records.
    No proofs here.

    A schema is a list of fields (name, number type, order).  A field value is the list of
    order * width bytes the application sees in its own memory; a record is one value per field; a
    table is a list of records.  Reading a list of fields is projection.  The two buffer interlaces
    are two ways of laying a table out in a flat buffer:
      FULL_INTERLACE  record after record, inside a record field after field;
      NO_INTERLACE    field after field, inside a field record after record.

    The second half of the file is the history-level specification used as the oracle of the
    correspondence check (one step per public call).  [RUnspec] marks calls outside the property's
    domain (DESIGN.md section 5, C07 scope note; checks/C07.py ASSUMPTIONS): nothing is claimed about
    them or about anything later in the same history.  [RAny]: the call's result is not specified but the
    table is unchanged and the history goes on. *)
From Coq Require Import ZArith List Bool Arith.
Require Import H4.gen.Gen_VS.
Import ListNotations.

(* ------------------------------------------------------------------ *)
(** * The table *)

Record field := mkfield { f_name : list Z; f_type : Z; f_order : Z }.
Definition schema := list field.
Notation value := (list Z) (only parsing).
Notation record := (list (list Z)) (only parsing).
Notation table := (list (list (list Z))) (only parsing).

(** width in bytes of one component of a number type: the 10 base types in the three flavours
    standard / native / little-endian; anything else is not a field type *)
Definition nt_width (t : Z) : option Z :=
  let flav := Z.land t (Z.lnot DFNT_MASK) in
  if negb ((flav =? 0) || (flav =? DFNT_NATIVE) || (flav =? DFNT_LITEND))%Z then None else
  let b := Z.land t DFNT_MASK in
  if ((b =? DFNT_UCHAR8) || (b =? DFNT_CHAR8) || (b =? DFNT_INT8) || (b =? DFNT_UINT8))%Z then Some 1%Z
  else if ((b =? DFNT_INT16) || (b =? DFNT_UINT16))%Z then Some 2%Z
  else if ((b =? DFNT_INT32) || (b =? DFNT_UINT32) || (b =? DFNT_FLOAT32))%Z then Some 4%Z
  else if (b =? DFNT_FLOAT64)%Z then Some 8%Z else None.

(** size in bytes of a field value *)
Definition fsize (f : field) : nat :=
  match nt_width (f_type f) with Some w => Z.to_nat (f_order f * w) | None => 0 end.
Definition sizes (s : schema) : list nat := map fsize s.
Definition sum (l : list nat) : nat := fold_right Nat.add 0 l.

(** offsets of consecutive pieces of the given sizes, starting at [o] *)
Fixpoint offs_from (o : nat) (sz : list nat) : list nat :=
  match sz with [] => [] | s :: t => o :: offs_from (o + s) t end.

Definition slice (l : list Z) (off len : nat) : list Z := firstn len (skipn off l).

(** A flat buffer holding [n] records of fields of sizes [sz] is the table whose record i, field j is
    the slice at   i * recsize + off_j        (FULL_INTERLACE)
                   n * off_j + i * size_j     (NO_INTERLACE).       *)
Definition parse (full : bool) (sz : list nat) (n : nat) (buf : list Z) : table :=
  let rs := sum sz in
  map (fun i => map (fun os => slice buf (if full then i * rs + fst os else n * fst os + i * snd os) (snd os))
                    (combine (offs_from 0 sz) sz))
      (seq 0 n).

(** ... and a table of [nf]-field records is laid out in a flat buffer like this *)
Definition layout (full : bool) (nf : nat) (t : table) : list Z :=
  if full then concat (map (@concat Z) t)
  else concat (map (fun j => concat (map (fun r => nth j r []) t)) (seq 0 nf)).

(** projection on a list of field indices *)
Definition project (fl : list nat) (t : table) : table := map (fun r => map (fun j => nth j r []) fl) t.

(** records [pos, pos + n) *)
Definition rows (t : table) (pos n : nat) : table := firstn n (skipn pos t).

(** the read observable *)
Definition read_buf (full : bool) (fl : list nat) (t : table) (pos n : nat) : list Z :=
  layout full (length fl) (project fl (rows t pos n)).

(** the write effect: [n] records at [pos] (pos <= length t), growing the table when they reach past its end *)
Definition put_rows (t : table) (pos : nat) (new : table) : table :=
  firstn pos t ++ new ++ skipn (pos + length new) t.

(** VSfpack: the helper moves whole field values between per-field column buffers and a
    FULL_INTERLACE record buffer whose records consist of the fields [bsz] (sizes); [sel] lists the
    positions (in that buffer record) of the fields to move *)
Definition column (t : table) (j : nat) : list Z := concat (map (fun r => nth j r []) t).
Definition unpack_fields (bsz : list nat) (sel : list nat) (n : nat) (buf : list Z) : list (list Z) :=
  let t := parse true bsz n buf in map (column t) sel.
Fixpoint index_of (x : nat) (l : list nat) : option nat :=
  match l with [] => None | y :: t => if Nat.eqb x y then Some 0 else option_map S (index_of x t) end.
(** packing overwrites the selected fields of every record of the buffer and leaves the others alone *)
Definition pack_fields (bsz : list nat) (sel : list nat) (n : nat) (buf : list Z) (cols : list (list Z)) : list Z :=
  let t := parse true bsz n buf in
  layout true (length bsz)
    (map (fun ir => map (fun jv => match index_of (fst jv) sel with
                                  | Some c => slice (nth c cols []) (fst ir * nth (fst jv) bsz 0) (nth (fst jv) bsz 0)
                                  | None => snd jv end)
                        (combine (seq 0 (length bsz)) (snd ir)))
         (combine (seq 0 n) t)).

(* ------------------------------------------------------------------ *)
(** * Histories *)

Record att := mkatt {
  a_write : bool;                 (* attached with "w" *)
  a_pos : option nat;             (* current record; None after a failed read *)
  a_rl : option (list nat);       (* fields selected for reading by VSsetfields in this attachment *)
  a_wl : bool                     (* VSsetfields named the whole schema in order: writes are specified *)
}.

Record vd := mkvd {
  v_defs : list field;            (* VSfdefine'd in this attachment *)
  v_schema : option schema;
  v_full : bool;                  (* interlace of the table in the file *)
  v_tab : table;
  v_atts : list (Z * att);        (* current attachments: handle -> attachment *)
  v_mover : option Z;             (* the handle that positioned last (attach / seek / read / write) *)
  v_rlset : option Z;             (* the handle that selected fields last *)
  v_bad : bool;                   (* the vdata left the property's domain (e.g. detached without fields) *)
  v_name : list Z;                (* VSsetname / VSsetclass: kept with the table, cut at VSNAMELENMAX characters *)
  v_class : list Z
}.

(** Every attachment has its own current record (0 after VSattach) and its own field selection.  The library
    keeps ONE position and ONE selection per vdata, shared by all read attachments; the two views agree as long as
    an attachment relies on its position / selection only when it was the last one to set it.  Anything else is
    outside the domain ([view] hides the value, the operation then answers [RUnspec]). *)

Definition state := list (Z * vd).
Definition init : state := [].

Inductive op :=
| ONew (v : Z)
| ODefine (v : Z) (name : list Z) (type order : Z)
| OSetIl (v il : Z)
| OSetFields (v : Z) (names : list (list Z))
| OWrite (v n il : Z) (buf : list Z)
| OSeek (v p : Z)
| ORead (v n il : Z)
| ODetach (v : Z)
| OAttach (v : Z) (write : bool)
| OAttachTo (h v : Z) (write : bool)     (* a further attachment, handle h, of the vdata created as v *)
| OReopen
| OInquire (v : Z)
| OElts (v : Z)
| OSetName (v : Z) (name : list Z)
| OSetClass (v : Z) (name : list Z)
| OGetName (v : Z)
| OGetClass (v : Z)
| OSizeof (v : Z) (names : list (list Z))
| OFexist (v : Z) (names : list (list Z))
| OField (v idx : Z)
| ONFields (v : Z)
| OBlockSize (v n : Z)
| ONumBlocks (v n : Z)
| OPack (v n : Z) (bufflds flds : option (list (list Z))) (cols : list (list Z))
| OUnpack (v n : Z) (bufflds flds : option (list (list Z))) (buf : list Z).

(** result: integers, names, byte strings *)
Inductive res := RFail | RUnspec | RAny | ROk (vals : list Z) (names : list (list Z)) (bytes : list (list Z)).

Fixpoint lookup (k : Z) (s : state) : option vd :=
  match s with [] => None | (k', v) :: t => if (k =? k')%Z then Some v else lookup k t end.
Fixpoint remove (k : Z) (s : state) : state :=
  match s with [] => [] | (k', v) :: t => if (k =? k')%Z then remove k t else (k', v) :: remove k t end.
Definition set (k : Z) (v : vd) (s : state) : state := (k, v) :: remove k s.

Fixpoint name_eqb (a b : list Z) : bool :=
  match a, b with
  | [], [] => true
  | x :: a', y :: b' => (x =? y)%Z && name_eqb a' b'
  | _, _ => false
  end.

Fixpoint find_field (nm : list Z) (s : schema) : option nat :=
  match s with
  | [] => None
  | f :: t => if name_eqb nm (f_name f) then Some 0 else option_map S (find_field nm t)
  end.
Fixpoint get_field (nm : list Z) (s : schema) : option field :=
  match s with [] => None | f :: t => if name_eqb nm (f_name f) then Some f else get_field nm t end.

Fixpoint all_some {A} (l : list (option A)) : option (list A) :=
  match l with
  | [] => Some []
  | None :: _ => None
  | Some x :: t => option_map (cons x) (all_some t)
  end.

Fixpoint nodup_nat (l : list nat) : bool :=
  match l with [] => true | x :: t => negb (existsb (Nat.eqb x) t) && nodup_nat t end.
Fixpoint nodup_names (l : list (list Z)) : bool :=
  match l with [] => true | x :: t => negb (existsb (name_eqb x) t) && nodup_names t end.

(** names longer than FIELDNAMELENMAX are cut *)
Definition cut_name (nm : list Z) : list Z := firstn (Z.to_nat FIELDNAMELENMAX) nm.

(** the predefined fields every Vdata knows without VSfdefine (table rstab of vsfld.c, regenerated) *)
Definition reserved : schema := map (fun e => mkfield (fst (fst e)) (snd (fst e)) (snd e)) rstab.

Definition field_ok (f : field) : bool :=
  match nt_width (f_type f) with
  | Some w => ((1 <=? f_order f) && (f_order f <=? MAX_ORDER) && (f_order f * w <=? MAX_FIELD_SIZE))%Z
  | None => false
  end.

Definition zlen {A} (l : list A) : Z := Z.of_nat (length l).
Definition il_ok (il : Z) : bool := ((il =? FULL_INTERLACE) || (il =? NO_INTERLACE))%Z.
Definition il_full (il : Z) : bool := (il =? FULL_INTERLACE)%Z.
Definition il_code (full : bool) : Z := if full then FULL_INTERLACE else NO_INTERLACE.

(** a table stored field-major (file interlace NO_INTERLACE, more than one field) supports whole-table
    transfers from record 0 only (scope note) *)
Definition whole_only (d : vd) : bool :=
  negb (v_full d) && match v_schema d with Some s => (1 <? length s) | None => false end.

Fixpoint find_att (h : Z) (l : list (Z * att)) : option att :=
  match l with [] => None | (h', a) :: t => if (h =? h')%Z then Some a else find_att h t end.
Fixpoint del_att (h : Z) (l : list (Z * att)) : list (Z * att) :=
  match l with [] => [] | (h', a) :: t => if (h =? h')%Z then del_att h t else (h', a) :: del_att h t end.
Definition is_some_eq (h : Z) (o : option Z) : bool := match o with Some x => (x =? h)%Z | None => false end.

(** what attachment h may rely on *)
Definition view (d : vd) (h : Z) (a : att) : att :=
  mkatt (a_write a) (if is_some_eq h (v_mover d) then a_pos a else None)
        (if is_some_eq h (v_rlset d) then a_rl a else None) (a_wl a).

(** record the new state of attachment h; [moved]: it (re)positioned, [sel]: it selected fields *)
Definition store (d : vd) (h : Z) (a : att) (moved sel : bool) : vd :=
  mkvd (v_defs d) (v_schema d) (v_full d) (v_tab d) ((h, a) :: del_att h (v_atts d))
       (if moved then Some h else v_mover d) (if sel then Some h else v_rlset d) (v_bad d) (v_name d) (v_class d).
Definition with_data (d : vd) (defs : list field) (sch : option schema) (full : bool) (tab : table) (bad : bool) : vd :=
  mkvd defs sch full tab (v_atts d) (v_mover d) (v_rlset d) bad (v_name d) (v_class d).

Fixpoint find_h (h : Z) (s : state) : option (Z * vd * att) :=
  match s with
  | [] => None
  | (k, d) :: t => match find_att h (v_atts d) with Some a => Some (k, d, a) | None => find_h h t end
  end.

Definition with_att (s : state) (h : Z) (k : Z -> vd -> att -> state * res) : state * res :=
  match find_h h s with
  | None => (s, RFail)
  | Some (key, d, a) => if v_bad d then (s, RUnspec) else k key d (view d h a)
  end.

Definition has_writer (d : vd) : bool := existsb (fun p => a_write (snd p)) (v_atts d).
Definition handle_used (h : Z) (s : state) : bool :=
  match find_h h s with Some _ => true | None => match lookup h s with Some _ => true | None => false end end.

(** VSattach of an existing vdata: "w" needs the vdata to be unattached; "r" is refused while it is being written and
    needs records to read; a new attachment starts at record 0 with no fields selected *)
Definition attach_to (s : state) (h key : Z) (d : vd) (wr : bool) : state * res :=
  if v_bad d then (s, RUnspec) else
  match v_atts d, v_tab d with
  | _ :: _, _ => if wr || has_writer d then (s, RFail) else (set key (store d h (mkatt false (Some 0) None false) true false) s, ROk [] [] [])
  | [], [] => if wr then (set key (store d h (mkatt true (Some 0) None false) true false) s, ROk [] [] []) else (s, RUnspec)
  | [], _ :: _ => (set key (store d h (mkatt wr (Some 0) None false) true false) s, ROk [] [] [])
  end.

Fixpoint redefine (f : field) (defs : list field) : list field :=
  match defs with
  | [] => [f]
  | g :: t => if name_eqb (f_name f) (f_name g) then f :: t else g :: redefine f t
  end.

Definition names_to_idx (sch : schema) (names : list (list Z)) : option (list nat) :=
  all_some (map (fun nm => find_field (cut_name nm) sch) names).

Definition step (s : state) (o : op) : state * res :=
  match o with
  | ONew v =>
      match lookup v s with
      | Some _ => (s, RUnspec)
      | None => if handle_used v s then (s, RUnspec) else
                (set v (mkvd [] None true [] [(v, mkatt true (Some 0) None false)] (Some v) None false [] []) s, ROk [] [] [])
      end
  | ODefine v name t order =>
      with_att s v (fun key d a =>
        if negb (a_write a) then (s, RUnspec) else
        let f := mkfield (cut_name name) t order in
        if existsb (Z.eqb 44) name || match name with [] => true | _ => false end then (s, RFail) else
        if negb (field_ok f) then (s, RFail) else
        (* a name that is defined again gets the new definition *)
        (set key (with_data d (redefine f (v_defs d)) (v_schema d) (v_full d) (v_tab d) false) s, ROk [] [] []))
  | OSetIl v il =>
      with_att s v (fun key d a =>
        if negb (a_write a) then (s, RFail) else
        match v_tab d with
        | _ :: _ => (s, RFail)
        | [] => if il_ok il then (set key (with_data d (v_defs d) (v_schema d) (il_full il) [] false) s, ROk [] [] [])
                else (s, RFail)
        end)
  | OSetFields v names =>
      with_att s v (fun key d a =>
        match names with [] => (s, RFail) | _ =>
        if (VSFIELDMAX <? zlen names)%Z then (s, RFail) else
        match v_tab d, v_schema d with
        | [], None =>
            if negb (a_write a) then (s, RAny) else
            if negb (nodup_names (map cut_name names)) then (s, RUnspec) else
            match all_some (map (fun nm => get_field (cut_name nm) (v_defs d ++ reserved)) names) with
            | None => (s, RFail)
            | Some sch =>
                if (Z.of_nat (sum (sizes sch)) <=? MAX_FIELD_SIZE)%Z
                then (set key (store (with_data d (v_defs d) (Some sch) (v_full d) [] false) v
                                      (mkatt true (a_pos a) None true) false false) s, ROk [] [] [])
                else (s, RFail)
            end
        | [], Some _ => (s, RAny)
        | _ :: _, None => (s, RUnspec)
        | _ :: _, Some sch =>
            match names_to_idx sch names with
            | None => (set key (store d v (mkatt (a_write a) (a_pos a) None false) false true) s, RFail)
            | Some fl =>
                let whole := forallb (fun p => Nat.eqb (fst p) (snd p)) (combine fl (seq 0 (length sch)))
                             && Nat.eqb (length fl) (length sch) in
                (set key (store d v (mkatt (a_write a) (a_pos a) (Some fl) whole) false true) s, ROk [] [] [])
            end
        end end)
  | OWrite v n il buf =>
      with_att s v (fun key d a =>
        if (n <=? 0)%Z then (s, RFail) else
        if negb (a_write a) then (s, RFail) else
        match v_schema d with
        | None => (s, RFail)
        | Some sch =>
            if negb (il_ok il) then (s, RFail) else
            match a_pos a with
            | None => (s, RUnspec)
            | Some pos =>
                let n' := Z.to_nat n in
                let rs := sum (sizes sch) in
                if negb (a_wl a) || negb (Nat.eqb (length buf) (n' * rs)) || (length (v_tab d) <? pos)
                   || (2147483647 <? n * Z.of_nat rs)%Z then (s, RUnspec) else
                if whole_only d && negb (Nat.eqb pos 0 && (match v_tab d with [] => true | _ => Nat.eqb n' (length (v_tab d)) end))
                then (s, RUnspec) else
                let t' := put_rows (v_tab d) pos (parse (il_full il) (sizes sch) n' buf) in
                (set key (store (with_data d (v_defs d) (v_schema d) (v_full d) t' false) v
                                (mkatt true (Some (pos + n')) (a_rl a) (a_wl a)) true false) s, ROk [n] [] [])
            end
        end)
  | OSeek v p =>
      with_att s v (fun key d a =>
        if (p <? 0)%Z then (s, RFail) else
        match v_schema d with
        | None => (s, RFail)
        | Some _ =>
            let p' := Z.to_nat p in
            if (length (v_tab d) <? p') then (s, RUnspec) else
            if whole_only d && negb (Nat.eqb p' 0) then (s, RUnspec) else
            (set key (store d v (mkatt (a_write a) (Some p') (a_rl a) (a_wl a)) true false) s, ROk [p] [] [])
        end)
  | ORead v n il =>
      with_att s v (fun key d a =>
        match v_tab d, v_schema d with
        | [], _ => (s, RFail)
        | _, None => (s, RUnspec)
        | _ :: _, Some sch =>
            if negb (il_ok il) then (s, RFail) else
            if (n <=? 0)%Z then (s, RAny) else
            match a_rl a, a_pos a with
            | Some fl, Some pos =>
                let n' := Z.to_nat n in
                if negb (nodup_nat fl) then (s, RUnspec) else
                if (length (v_tab d) <? pos + n') then
                  (set key (store d v (mkatt (a_write a) None (a_rl a) (a_wl a)) true false) s, RFail) else
                if whole_only d && negb (Nat.eqb pos 0 && Nat.eqb n' (length (v_tab d))) then (s, RUnspec) else
                (set key (store d v (mkatt (a_write a) (Some (pos + n')) (a_rl a) (a_wl a)) true false) s,
                 ROk [n] [] [read_buf (il_full il) fl (v_tab d) pos n'])
            | _, _ => (s, RUnspec)
            end
        end)
  | ODetach v =>
      with_att s v (fun key d a =>
        let d' := mkvd (if a_write a then [] else v_defs d) (v_schema d) (v_full d) (v_tab d) (del_att v (v_atts d))
                       (v_mover d) (v_rlset d)
                       (match v_schema d with None => true | Some _ => false end) (v_name d) (v_class d) in
        (set key d' s, ROk [] [] []))
  | OAttach v wr =>
      match lookup v s with
      | None => (s, RUnspec)
      | Some d => match find_h v s with Some _ => (s, RUnspec) | None => attach_to s v v d wr end
      end
  | OAttachTo h v wr =>
      match lookup v s with
      | None => (s, RUnspec)
      | Some d => if handle_used h s then (s, RUnspec) else attach_to s h v d wr
      end
  | OReopen =>
      if existsb (fun p => match v_atts (snd p) with _ :: _ => true | [] => v_bad (snd p) end) s then (s, RUnspec)
      else (s, ROk [] [] [])
  | OInquire v =>
      with_att s v (fun key d a =>
        match v_schema d with
        | None => (s, RAny)
        | Some sch => (s, ROk [zlen (v_tab d); il_code (v_full d); Z.of_nat (sum (sizes sch)); zlen sch]
                              (map f_name sch) [])
        end)
  | OElts v => with_att s v (fun key d a => (s, ROk [zlen (v_tab d)] [] []))
  | OSetName v nm =>
      with_att s v (fun key d a =>
        if negb (a_write a) then (s, RFail) else
        (set key (mkvd (v_defs d) (v_schema d) (v_full d) (v_tab d) (v_atts d) (v_mover d) (v_rlset d) (v_bad d)
                       (firstn (Z.to_nat VSNAMELENMAX) nm) (v_class d)) s, ROk [] [] []))
  | OSetClass v nm =>
      with_att s v (fun key d a =>
        if negb (a_write a) then (s, RFail) else
        (set key (mkvd (v_defs d) (v_schema d) (v_full d) (v_tab d) (v_atts d) (v_mover d) (v_rlset d) (v_bad d)
                       (v_name d) (firstn (Z.to_nat VSNAMELENMAX) nm)) s, ROk [] [] []))
  | OGetName v => with_att s v (fun key d a => (s, ROk [] [v_name d] []))
  | OGetClass v => with_att s v (fun key d a => (s, ROk [] [v_class d] []))
  | OFexist v names =>
      with_att s v (fun key d a =>
        match v_schema d, names with
        | _, [] => (s, RFail)
        | None, _ => (s, RFail)
        | Some sch, _ =>
            if (VSFIELDMAX <? zlen names)%Z then (s, RFail) else
            match names_to_idx sch names with None => (s, RFail) | Some _ => (s, ROk [] [] []) end
        end)
  | OSizeof v names =>
      with_att s v (fun key d a =>
        match v_schema d, names with
        | None, _ => (s, RFail)
        | _, [] => (s, RFail)
        | Some sch, _ =>
            match names_to_idx sch names with
            | None => (s, RFail)
            | Some fl => (s, ROk [Z.of_nat (sum (map (fun j => nth j (sizes sch) 0) fl))] [] [])
            end
        end)
  | OField v idx =>
      with_att s v (fun key d a =>
        match v_schema d with
        | None => (s, RFail)
        | Some sch =>
            if ((idx <? 0) || (zlen sch <=? idx))%Z then (s, RFail) else
            match nth_error sch (Z.to_nat idx) with
            | None => (s, RUnspec)
            | Some f => (s, ROk [f_type f; Z.of_nat (fsize f); Z.of_nat (fsize f); f_order f] [f_name f] [])
            end
        end)
  | ONFields v =>
      with_att s v (fun key d a => (s, ROk [match v_schema d with Some sch => zlen sch | None => 0%Z end] [] []))
  | OBlockSize v n | ONumBlocks v n =>
      with_att s v (fun key d a => if (0 <? n)%Z then (s, ROk [] [] []) else (s, RFail))
  | OPack v n bufflds flds cols =>
      with_att s v (fun key d a =>
        match v_schema d with
        | None => (s, RUnspec)
        | Some sch =>
            let bf := match bufflds with None => Some (seq 0 (length sch)) | Some l => names_to_idx sch l end in
            match bf with
            | None => (s, RFail)
            | Some bfl =>
                let bsz := map (fun j => nth j (sizes sch) 0) bfl in
                let selo := match flds with
                            | None => Some (seq 0 (length bfl))
                            | Some l => match names_to_idx sch l with
                                        | None => None
                                        | Some fl => all_some (map (fun j => index_of j bfl) fl) end
                            end in
                match selo with
                | None => (s, RFail)
                | Some sel =>
                    let n' := Z.to_nat n in
                    if (n <=? 0)%Z || negb (nodup_nat bfl) || negb (nodup_nat sel) || negb (Nat.eqb (length cols) (length sel))
                       || negb (forallb (fun cs => Nat.eqb (length (fst cs)) (n' * nth (snd cs) bsz 0)) (combine cols sel))
                    then (s, RUnspec) else
                    (s, ROk [] [] [pack_fields bsz sel n' (repeat 0%Z (n' * sum bsz)) cols])
                end
            end
        end)
  | OUnpack v n bufflds flds buf =>
      with_att s v (fun key d a =>
        match v_schema d with
        | None => (s, RUnspec)
        | Some sch =>
            let bf := match bufflds with None => Some (seq 0 (length sch)) | Some l => names_to_idx sch l end in
            match bf with
            | None => (s, RFail)
            | Some bfl =>
                let bsz := map (fun j => nth j (sizes sch) 0) bfl in
                let selo := match flds with
                            | None => Some (seq 0 (length bfl))
                            | Some l => match names_to_idx sch l with
                                        | None => None
                                        | Some fl => all_some (map (fun j => index_of j bfl) fl) end
                            end in
                match selo with
                | None => (s, RFail)
                | Some sel =>
                    let n' := Z.to_nat n in
                    if (n <=? 0)%Z || negb (nodup_nat bfl) || negb (Nat.eqb (length buf) (n' * sum bsz)) then (s, RUnspec) else
                    (s, ROk [] [] (unpack_fields bsz sel n' buf))
                end
            end
        end)
  end.
