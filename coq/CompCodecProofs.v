(** C05 -- proofs about the codec models (CompCodecModel.v): header round trip, n-bit field extraction over its complete finite domain, first-symbol round trip of the skipping-Huffman tree. *)
From Coq Require Import ZArith List Bool Lia.
Require Import H4.gen.Gen_Comp H4.CompSpec H4.CompRleProofs H4.CompCodecModel.
From Coq Require Import String.
Import ListNotations.
Local Open Scope Z_scope.
Lemma land255 x : Z.land x 255 = x mod 256.
Proof. change 255 with (Z.ones 8). now rewrite Z.land_ones by lia. Qed.
Lemma be_bytes_2 v : be_bytes 2 v = [Z.land (Z.shiftr v 8) 255; Z.land (Z.shiftr v 0) 255].
Proof. reflexivity. Qed.
Lemma be_bytes_4 v : be_bytes 4 v = [Z.land (Z.shiftr v 24) 255; Z.land (Z.shiftr v 16) 255; Z.land (Z.shiftr v 8) 255; Z.land (Z.shiftr v 0) 255].
Proof. reflexivity. Qed.
Lemma be_value_2 a b : be_value [a; b] = a * 256 + b.
Proof. unfold be_value, be_value_acc. lia. Qed.
Lemma be_value_4 a b c d : be_value [a; b; c; d] = ((a * 256 + b) * 256 + c) * 256 + d.
Proof. unfold be_value, be_value_acc. lia. Qed.
Lemma be2_roundtrip v : 0 <= v < 65536 -> be_value (be_bytes 2 v) = v.
Proof.
  intros H. rewrite be_bytes_2, be_value_2.
  rewrite !land255, Z.shiftr_0_r. rewrite Z.shiftr_div_pow2 by lia. change (2 ^ 8) with 256.
  pose proof (Z.div_mod v 256). pose proof (Z.mod_pos_bound v 256).
  assert (v / 256 < 256) by (apply Z.div_lt_upper_bound; lia).
  assert (0 <= v / 256) by (apply Z.div_pos; lia).
  rewrite (Z.mod_small (v / 256) 256) by lia. lia.
Qed.
Lemma be4_roundtrip v : 0 <= v < 4294967296 -> be_value (be_bytes 4 v) = v.
Proof.
  intros H. rewrite be_bytes_4, be_value_4.
  rewrite !land255, Z.shiftr_0_r. rewrite !Z.shiftr_div_pow2 by lia.
  change (2 ^ 24) with 16777216. change (2 ^ 16) with 65536. change (2 ^ 8) with 256.
  assert (E1 : v / 65536 = v / 256 / 256) by (rewrite Z.div_div by lia; reflexivity).
  assert (E2 : v / 16777216 = v / 256 / 256 / 256) by (rewrite !Z.div_div by lia; reflexivity).
  rewrite E1, E2.
  set (a := v / 256). set (b := a / 256). set (c := b / 256).
  pose proof (Z.div_mod v 256). pose proof (Z.div_mod a 256). pose proof (Z.div_mod b 256).
  pose proof (Z.mod_pos_bound v 256). pose proof (Z.mod_pos_bound a 256). pose proof (Z.mod_pos_bound b 256).
  assert (0 <= c < 256).
  { subst c b a. split.
    - repeat (apply Z.div_pos; [|lia]). lia.
    - rewrite !Z.div_div by lia. apply Z.div_lt_upper_bound; lia. }
  rewrite (Z.mod_small c 256) by lia. fold a b c. lia.
Qed.
Lemma ztake2 (a b : Z) t : ztake 2 (a :: b :: t) = [a; b]. Proof. reflexivity. Qed.
Lemma zdrop2 (a b : Z) t : zdrop 2 (a :: b :: t) = t. Proof. reflexivity. Qed.
Lemma ztake4 (a b c d : Z) t : ztake 4 (a :: b :: c :: d :: t) = [a; b; c; d]. Proof. reflexivity. Qed.
Lemma zdrop4 (a b c d : Z) t : zdrop 4 (a :: b :: c :: d :: t) = t. Proof. reflexivity. Qed.

Definition params_ok (coder : Z) (p : list Z) : Prop :=
  (coder = COMP_CODE_NONE /\ p = []) \/ (coder = COMP_CODE_RLE /\ p = []) \/
  (coder = COMP_CODE_DEFLATE /\ exists l, p = [l] /\ 0 <= l < 65536) \/
  (coder = COMP_CODE_SKPHUFF /\ exists k, p = [k] /\ 0 <= k < 4294967296) \/
  (coder = COMP_CODE_NBIT /\ exists nt se fo sb bl, p = [nt; se; fo; sb; bl] /\ 0 <= nt < 4294967296 /\
     0 <= se < 65536 /\ 0 <= fo < 65536 /\ 0 <= sb < 4294967296 /\ 0 <= bl < 4294967296).

Lemma hdr_enc_deflate l : hdr_encode 0 4 [l] = be_bytes 2 0 ++ be_bytes 2 4 ++ be_bytes 2 (l mod 65536) ++ [].
Proof. reflexivity. Qed.
Lemma hdr_enc_skp k : hdr_encode 0 3 [k] = be_bytes 2 0 ++ be_bytes 2 3 ++ be_bytes 4 (k mod 4294967296) ++ be_bytes 4 (k mod 4294967296) ++ [].
Proof. reflexivity. Qed.
Lemma hdr_enc_nbit nt se fo sb bl : hdr_encode 0 2 [nt; se; fo; sb; bl] =
  be_bytes 2 0 ++ be_bytes 2 2 ++ be_bytes 4 (nt mod 4294967296) ++ be_bytes 2 (se mod 65536) ++ be_bytes 2 (fo mod 65536) ++
  be_bytes 4 (sb mod 4294967296) ++ be_bytes 4 (bl mod 4294967296) ++ [].
Proof. reflexivity. Qed.

Lemma hdr_dec_shape m0 m1 c0 c1 t : hdr_decode (m0 :: m1 :: c0 :: c1 :: t) =
  (be_value [m0; m1], be_value [c0; c1],
   firstn (hdr_param_count (be_value [c0; c1]))
     (hdr_get (match assocz (be_value [c0; c1]) hdr_decode_fields with Some f => f | None => [] end) t)).
Proof. reflexivity. Qed.

Lemma hdr_get_2 n t : hdr_get [(2, n)] t = [be_value (ztake 2 t)]. Proof. reflexivity. Qed.

Lemma hdr_roundtrip_lemma : forall coder p rest, params_ok coder p ->
  hdr_decode (hdr_encode COMP_MODEL_STDIO coder p ++ rest) = (COMP_MODEL_STDIO, coder, p) /\
  zlen (hdr_encode COMP_MODEL_STDIO coder p) = hdr_query_len coder.
Proof.
  intros coder p rest [[-> ->]|[[-> ->]|[[-> (l & -> & Hl)]|[[-> (k & -> & Hk)]|[-> (nt & se & fo & sb & bl & -> & H1 & H2 & H3 & H4 & H5)]]]]].
  - split; reflexivity.
  - split; reflexivity.
  - change COMP_MODEL_STDIO with 0. change COMP_CODE_DEFLATE with 4. rewrite hdr_enc_deflate.
    rewrite Z.mod_small by lia. split; [|reflexivity].
    rewrite !be_bytes_2. cbn [app]. rewrite hdr_dec_shape.
    change (be_value [Z.land (Z.shiftr 0 8) 255; Z.land (Z.shiftr 0 0) 255]) with 0.
    change (be_value [Z.land (Z.shiftr 4 8) 255; Z.land (Z.shiftr 4 0) 255]) with 4.
    change (assocz 4 hdr_decode_fields) with (Some [(2, "level"%string)]).
    change (hdr_param_count 4) with 1%nat.
    cbn [hdr_get]. rewrite ztake2. cbn [firstn]. rewrite <- be_bytes_2, be2_roundtrip by lia. reflexivity.
  - change COMP_MODEL_STDIO with 0. change COMP_CODE_SKPHUFF with 3. rewrite hdr_enc_skp.
    rewrite Z.mod_small by lia. split; [|reflexivity].
    rewrite !be_bytes_2, !be_bytes_4. cbn [app]. rewrite hdr_dec_shape.
    change (be_value [Z.land (Z.shiftr 0 8) 255; Z.land (Z.shiftr 0 0) 255]) with 0.
    change (be_value [Z.land (Z.shiftr 3 8) 255; Z.land (Z.shiftr 3 0) 255]) with 3.
    change (assocz 3 hdr_decode_fields) with (Some [(4, "skp_size"%string); (4, "comp_size"%string)]).
    change (hdr_param_count 3) with 1%nat.
    cbn [hdr_get]. rewrite ztake4. cbn [firstn]. rewrite <- be_bytes_4, be4_roundtrip by lia. reflexivity.
  - change COMP_MODEL_STDIO with 0. change COMP_CODE_NBIT with 2. rewrite hdr_enc_nbit.
    rewrite !Z.mod_small by lia. split; [|reflexivity].
    rewrite !be_bytes_2, !be_bytes_4. cbn [app]. rewrite hdr_dec_shape.
    change (be_value [Z.land (Z.shiftr 0 8) 255; Z.land (Z.shiftr 0 0) 255]) with 0.
    change (be_value [Z.land (Z.shiftr 2 8) 255; Z.land (Z.shiftr 2 0) 255]) with 2.
    change (assocz 2 hdr_decode_fields) with
      (Some [(4, "nbit_nt"%string); (2, "s_ext"%string); (2, "f_one"%string); (4, "m_off"%string); (4, "m_len"%string)]).
    change (hdr_param_count 2) with 5%nat.
    cbn [hdr_get]. repeat (rewrite ?ztake4, ?zdrop4, ?ztake2, ?zdrop2). cbn [firstn].
    rewrite <- !be_bytes_4, <- !be_bytes_2, !be4_roundtrip, !be2_roundtrip by lia. reflexivity.
Qed.

(** * n-bit: per-byte field extraction/insertion, complete finite domain (8 offsets x 8 lengths x 256 bytes x 2 fills) *)
Definition nbit_byte_mask (off len : Z) : Z := u8 (Z.shiftl (tab mask_arr8 len) (off - len + 1)).
Definition nbit_byte_case (off len b : Z) (fill : bool) : bool :=
  let mask := nbit_byte_mask off len in
  let m := if fill then Z.land 255 (u8 (Z.lnot mask)) else 0 in
  let field := Z.shiftr (Z.land b mask) (off - len + 1) in
  (* what the decoder rebuilds from the field it reads back *)
  (Z.lor m (Z.land mask (u8 (u32 (Z.shiftl field (off - len + 1))))) =? Z.lor m (Z.land b mask))
  && (0 <=? field) && (field <? 2 ^ len)
  && (Z.land field (tab maskl len) =? field).
Definition nbit_byte_sweep : bool :=
  forallb (fun off => forallb (fun len => if (1 <=? len) && (len <=? off + 1) then
     forallb (fun b => nbit_byte_case off len b true && nbit_byte_case off len b false) (zseq 256) else true)
     (zseq 9)) (zseq 8).
Lemma nbit_byte_sweep_ok : nbit_byte_sweep = true.
Proof. vm_compute. reflexivity. Qed.

Lemma nbit_byte_roundtrip_lemma : forall off len b fill,
  0 <= off < 8 -> 1 <= len <= off + 1 -> 0 <= b < 256 -> nbit_byte_case off len b fill = true.
Proof.
  intros off len b fill Ho Hl Hb. pose proof nbit_byte_sweep_ok as H. unfold nbit_byte_sweep in H.
  pose proof (zrange_forall _ 8 H off Ho) as K1. cbv beta in K1.
  assert (Hl9 : 0 <= len < 9) by lia.
  pose proof (zrange_forall _ 9 K1 len Hl9) as K2. cbv beta in K2.
  destruct (Z.leb_spec 1 len); [|lia]. destruct (Z.leb_spec len (off + 1)); [|lia]. cbn [andb] in K2.
  pose proof (zrange_forall _ 256 K2 b Hb) as K3. cbv beta in K3.
  apply andb_true_iff in K3. destruct fill; tauto.
Qed.

(** the mask table built by HCIcnbit_init is the big-endian byte image of the documented field mask, every entry
    is a per-byte field (offset, length, mask) of the shape above, and the lengths add up to bit_len:
    complete finite domain = every size in {1,2,4,8}, every start bit, every length *)
Definition nbit_cfg_case (size start len : Z) : bool :=
  let c := mk_nbit size start len false false in
  let mis := nbit_mask_info c in
  (zlen mis =? size)
  && forallb (fun '(mi, fm) => (mi_mask mi =? fm) &&
        ((mi_len mi =? 0) && (mi_mask mi =? 0) ||
         (1 <=? mi_len mi) && (mi_len mi <=? mi_off mi + 1) && (mi_off mi <? 8) && (0 <=? mi_off mi) &&
         (mi_mask mi =? nbit_byte_mask (mi_off mi) (mi_len mi))))
       (combine mis (be_bytes size (nbit_field_mask start len)))
  && (fold_right Z.add 0 (map mi_len mis) =? len).
Definition nbit_cfg_sweep : bool :=
  forallb (fun size => forallb (fun start => forallb (fun len =>
     if (1 <=? len) && (len <=? start + 1) then nbit_cfg_case size start len else true)
     (zseq (8 * size + 1))) (zseq (8 * size))) [1; 2; 4; 8].
Lemma nbit_cfg_sweep_ok : nbit_cfg_sweep = true.
Proof. vm_compute. reflexivity. Qed.

Lemma nbit_masks_lemma : forall size start len,
  In size [1; 2; 4; 8] -> 0 <= start < 8 * size -> 1 <= len <= start + 1 -> nbit_cfg_case size start len = true.
Proof.
  intros size start len Hs Hst Hl. pose proof nbit_cfg_sweep_ok as H. unfold nbit_cfg_sweep in H.
  rewrite forallb_forall in H. specialize (H size Hs).
  pose proof (zrange_forall _ (8 * size) H start Hst) as K1. cbv beta in K1.
  assert (Hl2 : 0 <= len < 8 * size + 1) by lia.
  pose proof (zrange_forall _ (8 * size + 1) K1 len Hl2) as K2. cbv beta in K2.
  destruct (Z.leb_spec 1 len); [|lia]. destruct (Z.leb_spec len (start + 1)); [|lia]. exact K2.
Qed.

(** * skipping Huffman: from the initial tree every symbol's code leads back to the symbol (complete domain: 256
    symbols), and encoder and decoder then hold the same tree *)
Definition skp_first_symbol_case (c : Z) : bool :=
  match skp_walk_down 600 tree_init ROOT (skp_code tree_init c ++ [true; false]) with
  | Some (p, rest) => (p =? c) && (zlen rest =? 2)
  | None => false
  end.
Lemma skp_first_symbol_sweep : forallb skp_first_symbol_case (zseq 256) = true.
Proof. vm_compute. reflexivity. Qed.
Lemma skp_first_symbol_lemma : forall c, 0 <= c < 256 -> skp_first_symbol_case c = true.
Proof. intros c H. exact (zrange_forall _ 256 skp_first_symbol_sweep c H). Qed.

(** lock-step: whenever the decoder's walk returns the symbol that was encoded, both sides perform the same
    splay on equal trees, so the lane trees stay equal (this is the step of the induction; what is missing for
    the full round trip is that the splay preserves "up is the inverse of left/right and every leaf is below
    ROOT", which makes the walk return the encoded symbol from every reachable tree) *)
Local Opaque skp_walk_down skp_code skp_splay.
Lemma skp_lockstep_lemma : forall trees pos b rest bits n,
  (forall suffix, skp_walk_down 600 (nth pos trees tree_init) ROOT (skp_code (nth pos trees tree_init) b ++ suffix)
                  = Some (b, suffix)) ->
  skp_decode_bits (S n) trees pos (skp_encode_bits trees pos (b :: rest) ++ bits) =
  match skp_decode_bits n (firstn pos trees ++ skp_splay (nth pos trees tree_init) b :: skipn (S pos) trees)
          (Nat.modulo (S pos) (List.length trees))
          (skp_encode_bits (firstn pos trees ++ skp_splay (nth pos trees tree_init) b :: skipn (S pos) trees)
             (Nat.modulo (S pos) (List.length trees)) rest ++ bits) with
  | None => None
  | Some r => Some (b :: r)
  end.
Proof.
  intros trees pos b rest bits n H. cbn [skp_decode_bits skp_encode_bits].
  rewrite <- app_assoc. rewrite H. reflexivity.
Qed.

(** * deflate: zlib is external; its correctness enters as a Section hypothesis *)
Section Deflate.
  Variable zdeflate : Z -> list Z -> list Z.          (* whole-stream deflate at a level *)
  Variable zinflate : list Z -> option (list Z).
  Hypothesis zlib_roundtrip : forall lvl s, zinflate (zdeflate lvl s) = Some s.
  (** cdeflate.c feeds the bytes of all Hwrite calls of a session to one deflate stream and finishes it at
      endaccess; the element then inflates to the concatenation of the calls, whatever the partition. *)
  Definition deflate_write_session (lvl : Z) (calls : list (list Z)) : list Z := zdeflate lvl (List.concat calls).
  Lemma deflate_roundtrip_lemma : forall lvl calls, 0 <= lvl <= 9 ->
    zinflate (deflate_write_session lvl calls) = Some (List.concat calls).
  Proof. intros. apply zlib_roundtrip. Qed.
End Deflate.

(** * position bookkeeping of hcomp.c (HCPseek origin handling, HCPread length rule; expressions regenerated) *)
Lemma seek_origin_lemma : forall origin off pos len, In origin [DF_START; DF_CURRENT; DF_END] ->
  seek_target origin off pos len = Some (hcp_seek_offset origin off pos len) /\
  (hcp_seek_rejects (hcp_seek_offset origin off pos len) = true <->
   match seek_target origin off pos len with Some t => t < 0 | None => True end).
Proof.
  intros origin off pos len [<-|[<-|[<-|[]]]]; unfold seek_target, hcp_seek_offset, hcp_seek_rejects, DF_START, DF_CURRENT, DF_END;
    cbn [Z.eqb Pos.eqb]; (split; [f_equal; ring | rewrite Z.ltb_lt; lia]).
Qed.

Lemma read_rule_lemma : forall n pos len, 0 <= pos <= len -> 0 <= n ->
  let k := if n =? 0 then len - pos else n in
  hcp_read_length n pos len = k /\ hcp_read_rejects n pos len = negb ((0 <=? k) && (pos + k <=? len)).
Proof.
  intros n pos len Hp Hn k. subst k. unfold hcp_read_length, hcp_read_rejects.
  destruct (Z.eqb_spec n 0) as [->|Hne]; split; try reflexivity.
  - destruct (Z.leb_spec 0 (len - pos)); [|lia]. destruct (Z.leb_spec (pos + (len - pos)) len); [reflexivity|lia].
  - destruct (Z.ltb_spec n 0); [lia|]. destruct (Z.leb_spec 0 n); [|lia]. cbn [orb andb].
    destruct (Z.ltb_spec len (pos + n)); destruct (Z.leb_spec (pos + n) len); try reflexivity; lia.
Qed.

(** * a seek to the current position never restarts a stream coder (tests regenerated from the three seek routines) *)
Lemma seek_restart_lemma : forall offset cur,
  (rle_seek_restarts offset cur <> 0 <-> offset < cur) /\
  (skp_seek_restarts offset cur <> 0 <-> offset < cur) /\
  (deflate_seek_restarts offset cur <> 0 <-> offset < cur).
Proof.
  intros offset cur. unfold rle_seek_restarts, skp_seek_restarts, deflate_seek_restarts.
  destruct (Z.ltb_spec offset cur); repeat split; intros; try lia; try discriminate.
Qed.

(** * Hbitwrite: the two copies of the buffer-full code are the same statements, and in them the block offset is
    advanced before the next block is pre-read and the file position is put back to it *)
Definition hbitwrite_block_ok (b : list string) : bool :=
  String.eqb (nth 4 b EmptyString) "bitfile_rec->block_offset += write_size" &&
  String.eqb (nth 5 b EmptyString) "if (bitfile_rec->max_offset > bitfile_rec->byte_offset)" &&
  String.eqb (nth 11 b EmptyString)
    "if (Hseek(bitfile_rec->acc_id, bitfile_rec->block_offset, DF_START) == FAIL) HRETURN_ERROR(DFE_SEEKERROR, FAIL)" &&
  (List.length b =? 12)%nat.
Lemma hbitwrite_full_blocks_lemma :
  hbitwrite_full_block_1 = hbitwrite_full_block_2 /\ hbitwrite_block_ok hbitwrite_full_block_1 = true.
Proof. split; vm_compute; reflexivity. Qed.
