(** C11 -- Annotations stay attached to their objects and keep their text.
    Property theorems only (each closed by [exact]/[apply] of a lemma of ANProofs.v / ANProofs2.v).

    M = ANModel.v: mfan.c (lazy per-type trees keyed by AN_CREATE_KEY, atoms, ANIcreate with the repaired ref
    choice, ANIwriteann with descriptor reuse, ANIreadann/ANIannlen, listing, id <-> tag/ref) and the DFAN
    directory of dfan.c, over the element layer's specification; constants, the key macros, ANIanncmp, the
    UINT16 codec, all type<->tag switches and the truncation / match conditions come from coq/gen/Gen_AN.v.
    S = ANSpec.v: the finite map (type, ref) |-> (target, text).
    "Reachable" = the library tables of ANY file [f] after ANY sequence of harness steps (every AN and DFAN call of
    the property's quantifier, on several files used alternately in one process: [GFile n] switches the file, the
    dfan.c statics are shared) whose annotation-type arguments are 0..3 ([gop_ok]; other values index
    file_rec->an_num[] out of bounds in C). *)
From Coq Require Import ZArith List Bool Lia.
Require Import H4.ANLang H4.gen.Gen_AN H4.ANSpec H4.ANModel H4.ANProofs H4.ANProofs2 H4.ANSim H4.ANSimD.
Import ListNotations.
Local Open Scope Z_scope.

(** every reachable state of the library tables satisfies the invariant [Inv] the theorems below start from *)
Definition reach_lib (names : Z -> list Z) (xs : list gop) (f : Z) : lstate := h_lib (g_files (grun (ginit names) xs) f).

Theorem an_reachable_invariant : forall names xs f, Forall gop_ok xs -> Inv (reach_lib names xs f).
Proof. intros names xs f H. exact (greachable_Inv xs (ginit names) (ginit_Inv names) H f). Qed.
Print Assumptions an_reachable_invariant.

(** payload: 4-byte target prefix (data annotations) + text; any bytes, embedded NULs included *)
Theorem an_payload_roundtrip : forall anntag ttag tref text,
  0 <= ttag < 65536 -> 0 <= tref < 65536 ->
  payload_text anntag (payload anntag ttag tref text) = text /\
  (is_data_tag anntag = true -> decode_target (payload anntag ttag tref text) = (ttag, tref)) /\
  zlen (payload anntag ttag tref text) = zlen text + (if is_data_tag anntag then 4 else 0).
Proof. exact payload_roundtrip_lemma. Qed.
Print Assumptions an_payload_roundtrip.

(** identifiers <-> stored tag/ref pairs, one-to-one, in every reachable state: two identifiers with the same
    tag/ref are the same identifier; ANtagref2id inverts ANid2tagref, and ANid2tagref inverts ANtagref2id.
    (Before the fix of ANIcreate this fails: see design.d/C11.md, defect 18.) *)
Theorem an_id_bijection : forall names xs f, Forall gop_ok xs ->
  let s := reach_lib names xs f in
  (forall id1 id2 tr, ANid2tagref s id1 = Some tr -> ANid2tagref s id2 = Some tr -> id1 = id2) /\
  (forall id g r, ANid2tagref s id = Some (g, r) -> ANtagref2id s g r = (s, id)) /\
  (forall g r s' id, 0 <= r < 65536 -> ANtagref2id s g r = (s', id) -> id <> FAILV -> ANid2tagref s' id = Some (g, r)).
Proof. intros names xs f H. exact (id_bijection_lemma _ (greachable_Inv xs (ginit names) (ginit_Inv names) H f)). Qed.
Print Assumptions an_id_bijection.

(** a new annotation never takes a ref that is in the tree (created, perhaps unwritten) or in the file *)
Theorem an_new_ref_fresh : forall s ty tag r, ANInewref s ty tag = r -> r <> 0 ->
  1 <= r <= MAX_REF /\
  ~ In r (tree_refs (match l_tree s ty with Some t => t | None => [] end)) /\
  ~ In r (map d_ref (of_tag tag (l_dds s))).
Proof. exact ANInewref_fresh. Qed.
Print Assumptions an_new_ref_fresh.

(** (re)writing one annotation: no identifier changes its tag/ref, no tree changes, the bytes of every other
    annotation are untouched, the written one holds its recorded target + the new text, and the directory
    order is kept (rewrite in place) or extended by one (first write) *)
Theorem an_rewrite_preserves_others : forall names xs f id text s' ok, Forall gop_ok xs ->
  let s := reach_lib names xs f in
  ANIwriteann s id text = (s', ok) ->
  (forall id', ANid2tagref s' id' = ANid2tagref s id') /\
  l_tree s' = l_tree s /\ l_num s' = l_num s /\
  (forall tag ref, ANid2tagref s id <> Some (tag, ref) -> hfind tag ref (l_dds s') = hfind tag ref (l_dds s)) /\
  (ok = true -> exists tag ref ty t e,
      ANid2tagref s id = Some (tag, ref) /\ l_tree s ty = Some t /\ In (AN_CREATE_KEY ty ref, e) t /\ e_id e = id /\
      hfind tag ref (l_dds s') = Some (mkdd tag ref (payload tag (e_elmtag e) (e_elmref e) text)) /\
      map (fun d => (d_tag d, d_ref d)) (l_dds s') =
        match hfind tag ref (l_dds s) with
        | Some _ => map (fun d => (d_tag d, d_ref d)) (l_dds s)
        | None => map (fun d => (d_tag d, d_ref d)) (l_dds s) ++ [(tag, ref)]
        end).
Proof.
  intros names xs f id text s' ok H s.
  exact (rewrite_preserves_lemma _ _ _ _ _ (greachable_Inv xs (ginit names) (ginit_Inv names) H f)).
Qed.
Print Assumptions an_rewrite_preserves_others.

(** The simulation relation [Sim h a] (ANSim.v): the specification state [a] -- the finite map -- represents the
    harness/library state [h]: the library tables satisfy [Inv] and the tree/file invariant [TF] (every loaded tree
    holds exactly the annotations of its tag in the file plus the ones created in this session), the keys of [a] are
    unique, [x] is in the map iff the annotation exists in [h] ([Repr]: written = a descriptor with that payload,
    pending = a tree entry without descriptor), the session flags agree, outside a session no tree is loaded, and
    every caller-side slot denotes the same annotation on both sides.
    [reach h a]: produced from the empty file by AN-interface calls inside the property's domain (the specification
    is fed the refs the library chose and answered neither [RUnspec] nor ran out of refs) and by DFAN calls. *)

(** listing is exact: in EVERY reachable state, ANannlist / ANnumann of an object tag/ref, ANfileinfo and
    ANselect(index) return what the specification's map says -- the same refs (as a permutation: the order is
    not part of the property), the same counts, a selected annotation that exists -- never more, never fewer;
    this includes states reached through DFAN calls and after any number of reopens. *)
Theorem an_list_exact : forall h a, reach h a ->
  (forall ty g r h' mr a' sr, tyok ty -> mstep h (OAnnlist ty g r) = (h', mr) -> step a (OAnnlist ty g r) = (a', sr) ->
     Sim h' a' /\ accepts sr mr /\ sr <> RUnspec) /\
  (forall ty g r h' mr a' sr, tyok ty -> mstep h (ONumann ty g r) = (h', mr) -> step a (ONumann ty g r) = (a', sr) ->
     Sim h' a' /\ accepts sr mr /\ sr <> RUnspec) /\
  (forall h' mr a' sr, mstep h OFileInfo = (h', mr) -> step a OFileInfo = (a', sr) ->
     Sim h' a' /\ accepts sr mr /\ sr <> RUnspec) /\
  (forall slot ty idx x0 h' mr a' sr, tyok ty -> mstep h (OSelect slot ty idx x0) = (h', mr) ->
     step a (OSelect slot ty idx (ref_of mr)) = (a', sr) -> Sim h' a' /\ accepts sr mr /\ sr <> RUnspec).
Proof. exact list_exact_lemma. Qed.
Print Assumptions an_list_exact.

(** the reachability relation is not empty-handed: every reachable pair is related, and a DFAN call always leaves a
    state that SOME specification state represents (so [reach_df] can fire) *)
Theorem an_reach_related : (forall h a, reach h a -> Sim h a) /\
  (forall h a o h' mr, Sim h a -> is_dfan o -> mstep h o = (h', mr) -> exists a', Sim h' a').
Proof. split; [exact reach_Sim | exact dfan_representable]. Qed.
Print Assumptions an_reach_related.

(** M-level facts about the trees used on the way (kept: they are what the tie to the file looks like) *)
Theorem an_tree_is_file : forall names xs f ty tag s' n, Forall gop_ok xs ->
     let s := reach_lib names xs f in
     atype2tag ty = Some tag -> l_num s ty = -1 -> ANIcreate_ann_tree s ty = (s', n) -> n <> FAILV ->
     n = hnumber tag (l_dds s) /\
     exists t, l_tree s' ty = Some t /\
       forall k, In k (tkeys t) <-> exists d, In d (l_dds s) /\ d_tag d = tag /\ k = AN_CREATE_KEY ty (d_ref d).
Proof.
  intros names xs f ty tag s' n H s.
  exact (create_tree_exact_lemma _ _ _ _ _ (greachable_Inv xs (ginit names) (ginit_Inv names) H f)).
Qed.
Print Assumptions an_tree_is_file.

(** THE REFINEMENT, for the whole operation language.  [SimD h a] = [Sim h a] plus the coherence of the cached DFAN
    directory: outside an AN session every used entry (annotation ref, object tag/ref) of DFANdir[kind] is an
    annotation of that kind in the file with that target, and every such annotation has an entry ([DirOK]).
    One step of the harness on ANY operation -- the fourteen AN calls and DFANputlabel/DFANputdesc (replace the
    annotation of THAT object, else allocate a fresh ref and append a directory entry), DFANgetlabel/DFANgetdesc and
    their length calls (one of the object's annotations, with the specification's buffer image), DFANaddfid/
    DFANaddfds, the DFANgetfid/DFANgetfds enumeration (all of them, in some order), DFANlablist (every object ref of
    the tag with one of its labels, truncated, or the empty string) -- and one step of ANSpec.step fed the ref the
    library chose yield related states and an accepted result, unless the specification puts the call outside the
    domain ([RUnspec]: empty text, NUL in a label, buffer too small, DFAN call while this file's AN session is open),
    the 16-bit ref space is exhausted (C20), or a file holds 400 or more file labels (the harness' loop bound).
    [full_run_sim] lifts it to histories; [gstep_sim]/[grun_sim] to several files used alternately in one process
    with pairwise different, NUL-free names shorter than DF_MAXFNLEN: each file refines its own map, and the cached
    directory always belongs to the file named last (or to a file whose AN session is open, where no DFAN call is
    in the domain), because DFANIopen drops it exactly when the name changes.
    Domain decisions made explicit by this proof: the harness calls DFANclear() when an AN session ends (without
    it the cached directory is stale after annotations were written through the AN interface); two different
    files under one name cannot be told apart by DFANIopen and are outside the domain. *)
Theorem an_refines_map :
  (forall h a o h' mr a' sr, SimD h a -> full_op o -> mstep h o = (h', mr) -> step a (fill_full o mr) = (a', sr) ->
     sr = RUnspec \/ exhausted sr mr \/ enum_capped a o \/ (SimD h' a' /\ accepts_full sr mr)) /\
  (forall ops h a, SimD h a -> Forall full_op ops -> run_ok_full h a ops) /\
  SimD hinit init /\
  (forall idx g A o g' mr a' sr, GSim idx g A -> full_op o -> gstep g o = (g', mr) ->
     step (A (g_cur g)) (fill_full o mr) = (a', sr) ->
     sr = RUnspec \/ exhausted sr mr \/ enum_capped (A (g_cur g)) o \/
     (GSim idx g' (upd A (g_cur g) a') /\ accepts_full sr mr)) /\
  (forall idx xs g A, GSim idx g A -> Forall (gop_full idx) xs -> grun_ok g A xs) /\
  (forall idx names, In 0 idx -> NamesOK idx names -> GSim idx (ginit names) (fun _ => init)).
Proof.
  split; [exact full_step_sim|]. split; [exact full_run_sim|]. split; [exact SimD_init|].
  split; [exact gstep_sim|]. split; [exact grun_sim | exact GSim_init].
Qed.
Print Assumptions an_refines_map.

(** the coherence invariant is established by a fresh DFANIlocate and kept by one that finds a directory; the result
    of DFANIlocate is an annotation of that object iff there is one *)
Theorem dfan_directory_coherent : forall s kind g r s' found, (kind = DFAN_LABEL \/ kind = DFAN_DESC) -> g <> 0 ->
  DirOK s -> (forall d, In d (l_dds s) -> 1 <= d_ref d <= MAX_REF) ->
  DFANIlocate s kind g r = (s', found) ->
  DirOK s' /\ l_dds s' = l_dds s /\ same_tables s s' /\
  (forall k, k <> kind -> l_dir s' k = l_dir s k) /\
  (found <> 0 -> exists d, In d (l_dds s) /\ d_tag d = dfan_tag kind /\ d_ref d = found /\ decode_target (d_data d) = (g, r)) /\
  (found = 0 -> forall d, In d (l_dds s) -> d_tag d = dfan_tag kind -> decode_target (d_data d) <> (g, r)) /\
  (found = 0 -> l_dir s' kind = None -> of_tag (dfan_tag kind) (l_dds s) = []) /\
  (l_dir s' kind = None \/ exists b, l_dir s' kind = Some b).
Proof. exact locate_spec. Qed.
Print Assumptions dfan_directory_coherent.

(** round 3: ANget_tagref(index) names the annotation ANselect(index) selects -- its tag/ref is what ANid2tagref gives
    for that identifier -- and that annotation exists and has the requested type.  (Which ANentry field ANget_tagref
    reports is regenerated from mfan.c: reporting the OBJECT's ref instead breaks this proof.) *)
Theorem an_get_tagref_names_selected : forall l idx ty l1 g r, Good l -> tyok ty -> ANget_tagref l idx ty = (l1, Some (g, r)) ->
  exists l2 id, ANselect l1 idx ty = (l2, id) /\ id <> FAILV /\ ANid2tagref l2 id = Some (g, r) /\ g = tag_of_type ty /\
                (exists x, Repr l2 x /\ a_key x = (ty, r)).
Proof. exact get_tagref_agrees. Qed.
Print Assumptions an_get_tagref_names_selected.

(** round 3: the harness' gettagref line (ANget_tagref, then ANid2tagref(ANselect(index))) simulates the
    specification's XGetTagref: same failure condition (index outside 0..count-1, no session), and on success both
    pairs are the tag/ref of one existing annotation of the requested type *)
Theorem an_get_tagref_refines : forall h a e ty idx h' mr x' sr, Sim h a -> tyok ty ->
  m_gettagref h ty idx = (h', mr) -> xstep (mkx a e) (XGetTagref ty idx (ref2 mr)) = (x', sr) ->
  Sim h' (x_st x') /\ accepts sr mr.
Proof. exact sim_gettagref. Qed.
Print Assumptions an_get_tagref_refines.

(** round 3: the two workers of the file-annotation enumeration, whose choice of static cell (Next_label_ref /
    Next_desc_ref, No_more_labels / No_more_descs), restart test, exhaustion test and start ref are regenerated from
    dfan.c, are exactly "one cursor and one end flag per kind, restarted by isfirst = 1"; [an_refines_map]'s
    enumeration lemmas go through this form, so a statement that touches the other kind's cursor, or a dropped
    restart, breaks the proofs. *)
Theorem dfan_enumeration_cursors : forall s kind isfirst, kind_ok kind -> (isfirst = false -> l_nextf s kind <> 0) ->
  DFANIgetfannlen s kind isfirst = getfannlen_simple s kind isfirst /\
  DFANIgetfann s kind isfirst = getfann_simple s kind isfirst.
Proof. intros s kind isfirst Hk Hn. split; [exact (getfannlen_eq s kind isfirst Hk Hn) | exact (getfann_eq s kind isfirst Hk Hn)]. Qed.
Print Assumptions dfan_enumeration_cursors.

(** round 4: DFANlablist pages through the refs of a tag -- the collecting loop of DFANIlablist (bound and store
    condition regenerated from dfan.c) delivers exactly the refs startpos .. startpos+listsize-1, for every list of
    refs, every listsize and every startpos >= 1 *)
Theorem dfan_lablist_pages : forall refs listsize startpos, 1 <= startpos ->
  lablist_collect refs 0 0 (zlen refs) listsize startpos = firstn (Z.to_nat listsize) (skipn (Z.to_nat (startpos - 1)) refs).
Proof. exact lablist_page_refs. Qed.
Print Assumptions dfan_lablist_pages.

(** round 4: ANend treats all four annotation types (the lists of types whose tree is freed and whose tree pointer /
    counter are re-initialised are regenerated from mfan.c) *)
Theorem an_end_resets_every_type :
  Permutation.Permutation ANend_freed_types [0; 1; 2; 3] /\ Permutation.Permutation ANend_tbbtdfree_types [0; 1; 2; 3] /\
  ANend_tree_reset_types = [AN_DATA_LABEL; AN_DATA_DESC; AN_FILE_LABEL; AN_FILE_DESC] /\
  ANend_num_reset_types = [AN_DATA_LABEL; AN_DATA_DESC; AN_FILE_LABEL; AN_FILE_DESC].
Proof. exact ANend_all_types. Qed.
Print Assumptions an_end_resets_every_type.

(** corollary kept from the earlier round: the AN interface alone needs no directory invariant *)
Theorem an_refines_map_an_interface :
  (forall h a o h' mr a' sr, Sim h a -> an_op o -> mstep h o = (h', mr) -> step a (fill o mr) = (a', sr) ->
     sr = RUnspec \/ exhausted sr mr \/ (Sim h' a' /\ accepts sr mr)) /\
  (forall ops h a, Sim h a -> Forall an_op ops -> run_ok h a ops) /\
  Sim hinit init.
Proof. split; [exact an_step_sim | split; [exact an_run_sim | exact Sim_init]]. Qed.
Print Assumptions an_refines_map_an_interface.

(** write, then read (M-level, any buffer size >= 1): exactly the specification's buffer image and the text length *)
Theorem an_write_then_read : forall names xs f id txt s' maxlen, Forall gop_ok xs ->
  let s := reach_lib names xs f in
  ANIwriteann s id txt = (s', true) -> 1 <= maxlen ->
  exists tag ref, ANid2tagref s id = Some (tag, ref) /\ ANid2tagref s' id = Some (tag, ref) /\
    ANIreadann s' id maxlen = Some (buffer_image (is_label_tag tag) txt maxlen) /\ ANIannlen s' id = zlen txt.
Proof.
  intros names xs f id txt s' maxlen H s.
  exact (write_then_read_lemma _ _ _ _ _ (greachable_Inv xs (ginit names) (ginit_Inv names) H f)).
Qed.
Print Assumptions an_write_then_read.

(** several files in one process: DFANIopen keeps the cached DFAN directory exactly when the file name is the one
    used last (names are C strings shorter than DF_MAXFNLEN; not in create mode).  The condition is regenerated
    from dfan.c: a prefix test, a shorter comparison length or a case-insensitive compare breaks this proof. *)
Theorem dfan_open_keeps_directory_iff_same_name : forall lastfile name mode,
  nonul lastfile -> nonul name -> strlen lastfile < DF_MAXFNLEN -> strlen name < DF_MAXFNLEN -> mode <> DFACC_CREATE ->
  (truth (DFANIopen_newfile lastfile name mode) = false <-> lastfile = name) /\
  (forall st, DFANIopen lastfile name mode st = if truth (DFANIopen_newfile lastfile name mode)
                                               then mkdf (fun _ => None) (s_lastref st) (s_nextf st) (s_nomore st) else st).
Proof. intros a b m H1 H2 H3 H4 H5. split; [exact (dfan_open_lemma a b m H1 H2 H3 H4 H5) | reflexivity]. Qed.
Print Assumptions dfan_open_keeps_directory_iff_same_name.

(** the regenerated pieces: keys are injective and invertible on type 0..32767 x ref 0..65535; the ten
    type<->tag switch statements of mfan.c agree with ANatype2tag *)
Theorem an_key_roundtrip : forall t r, 0 <= t < 32768 -> 0 <= r < 65536 ->
  AN_KEY2TYPE (AN_CREATE_KEY t r) = t /\ AN_KEY2REF (AN_CREATE_KEY t r) = r.
Proof. intros t r Ht Hr. split; [exact (key_type t r Ht Hr) | exact (key_ref t r Ht Hr)]. Qed.
Print Assumptions an_key_roundtrip.

Theorem an_switches_agree : forall ty,
  zassoc ty ANid2tagref_tag_switch = atype2tag ty /\ zassoc ty ANget_tagref_tag_switch = atype2tag ty /\
  zassoc ty ANIaddentry_ann_tag_switch = atype2tag ty /\ zassoc ty ANIcreate_ann_tree_ann_tag_switch = atype2tag ty /\
  zassoc ty ANIannlen_ann_tag_switch = atype2tag ty /\ zassoc ty ANIreadann_ann_tag_switch = atype2tag ty /\
  zassoc ty ANIwriteann_ann_tag_switch = atype2tag ty /\ zassoc ty ANIcreate_ann_tag_switch = atype2tag ty.
Proof. exact switches_agree. Qed.
Print Assumptions an_switches_agree.

(** Non-vacuity: a concrete history (two creates of one type before the first write -- the trigger of defect 18 --,
    a rewrite with a longer text, a reopen) meets the hypotheses, and the quantities the theorems speak about are
    the expected ones. *)
Definition demo_ops : list op :=
  [OStart; OCreate 0 0 700 1 0; OCreate 1 0 700 1 0; OCreatef 2 3 0; OWrite 1 [66; 0; 66]; OWrite 0 [65];
   OWrite 0 [65; 65; 65; 65]; OAnnlist 0 700 1; OEnd; OStart; OSelectAll 0].
Example demo_types_ok : Forall gop_ok (map GOp demo_ops).
Proof. repeat constructor; unfold tyok; simpl; auto with zarith. Qed.
Definition nm (c : Z) : list Z := [104; c].       (* file names "h0", "h1", .. *)
Example demo_two_files_share_the_directory_cache :
  (* label 700/1 in file 0, label 700/2 in file 1, then ask file 0 again: the name differs, the cache is dropped *)
  let g := grun (ginit (fun n => nm (48 + n)))
                [GOp (ODfPut 0 700 1 [65] 0); GFile 1; GOp (ODfPut 0 700 2 [66; 66] 0); GFile 0] in
  snd (gstep g (ODfGet 0 700 1 4)) = MOk [] [[65; 0; 238; 238]] /\ snd (gstep g (ODfGet 0 700 2 4)) = MFail /\
  truth (DFANIopen_newfile (nm 49) (nm 48) DFACC_READ) = true.
Proof. vm_compute. repeat split. Qed.
Example demo_prefix_names_are_different_files :
  truth (DFANIopen_newfile [120; 46; 104; 46; 98] [120; 46; 104] DFACC_RDWR) = true /\ nonul [120; 46; 104] /\
  truth (DFANIopen_newfile [120; 46; 104] [120; 46; 104] DFACC_RDWR) = false.
Proof. split; [vm_compute; reflexivity|]. split; [|vm_compute; reflexivity]. intros x [H|[H|[H|[]]]]; subst; discriminate. Qed.
Example demo_ids_distinct :
  let s := h_lib (mrun hinit [OStart; OCreate 0 0 700 1 0; OCreate 1 0 700 1 0]) in
  ANid2tagref s 0 = Some (104, 1) /\ ANid2tagref s 1 = Some (104, 2) /\ ANtagref2id s 104 2 = (s, 1).
Proof. vm_compute. repeat split. Qed.
Example demo_rewrite :
  let s := h_lib (mrun hinit [OStart; OCreate 0 0 700 1 0; OCreate 1 0 700 1 0; OWrite 1 [66; 0; 66]; OWrite 0 [65]]) in
  match ANIwriteann s 0 [65; 65; 65; 65] with
  | (s', ok) => ok = true /\ ANIreadann s' 0 3 = Some [65; 65; 0] /\ ANIannlen s' 0 = 4 /\
                ANIreadann s' 1 4 = Some [66; 0; 66; 0] /\
                map (fun d => (d_tag d, d_ref d)) (l_dds s') = [(104, 2); (104, 1)]
  end.
Proof. vm_compute. repeat split. Qed.
Example demo_listing_after_reopen :
  snd (mstep (mrun hinit demo_ops) (OAnnlist 0 700 1)) = MOk [2; 2; 1] [].
Proof. vm_compute. reflexivity. Qed.
Example demo_payload : decode_target (payload DFTAG_DIA 65535 258 [0; 7; 0]) = (65535, 258) /\
                       payload DFTAG_DIA 65535 258 [0; 7; 0] = [255; 255; 1; 2; 0; 7; 0].
Proof. vm_compute. split; reflexivity. Qed.

(** non-vacuity of the simulation theorems: a reachable pair after a session that created and wrote an annotation,
    the hypotheses of [an_run_sim] for a history with two creates before the first write, a rewrite and a reopen,
    and what model and specification answer to a listing there *)
Definition demo_an_ops : list op :=
  [OStart; OCreate 0 0 700 1 0; OCreate 1 0 700 1 0; OCreatef 2 3 0; OWrite 1 [66; 0; 66]; OWrite 0 [65];
   OWrite 0 [65; 65; 65; 65]; OAnnlist 0 700 1; OEnd; OStart; OFileInfo; OSelect 3 0 1 0; ORead 3 9].
Example demo_an_ops_ok : Forall an_op demo_an_ops.
Proof. repeat constructor; unfold tyok, u16; simpl; auto with zarith. Qed.
Example demo_run_ok : run_ok hinit init demo_an_ops.
Proof. exact (an_run_sim demo_an_ops hinit init Sim_init demo_an_ops_ok). Qed.
Example demo_reach : exists h a, reach h a /\ anns a = [mkann (0, 1) 700 1 (Some [65])] /\ h_sess h = true.
Proof.
  eexists. eexists. split.
  - eapply (reach_an _ _ (OWrite 0 [65])); [eapply (reach_an _ _ (OCreate 0 0 700 1 0)); [eapply (reach_an _ _ OStart); [exact reach_init | exact I | reflexivity | reflexivity | discriminate | intros [X _]; discriminate]
      | unfold an_op, u16; auto with zarith | reflexivity | reflexivity | discriminate | intros [X _]; discriminate]
      | exact I | reflexivity | reflexivity | discriminate | intros [X _]; discriminate].
  - split; reflexivity.
Qed.
Example demo_listing_model_vs_spec :
  let h := mrun hinit [OStart; OCreate 0 0 700 1 0; OCreate 1 0 700 1 0; OWrite 1 [66]] in
  snd (mstep h (OAnnlist 0 700 1)) = MOk [2; 2; 1] [] /\
  snd (step (fst (step (fst (step (fst (step (fst (step init OStart)) (OCreate 0 0 700 1 1))) (OCreate 1 0 700 1 2))) (OWrite 1 [66])))
            (OAnnlist 0 700 1)) = ROk [2; 1; 2] [].
Proof. vm_compute. split; reflexivity. Qed.

(** non-vacuity of [an_refines_map]: a history mixing both interfaces, and two files whose names are prefix-related *)
Definition demo_full_ops : list op :=
  [ODfPut 0 700 1 [65; 66] 0; ODfPut 1 700 1 [0; 1; 0] 0; ODfGet 0 700 1 8; ODfGetLen 1 700 1; ODfAddF 0 [70] 0; ODfGetFs 0;
   ODfLablist 700 16; OStart; OCreate 0 0 700 1 0; OWrite 0 [67]; OAnnlist 0 700 1; OEnd; ODfGet 0 700 1 8; ODfPut 0 700 1 [68; 68; 68] 0].
Ltac full_op_tac := first [ left; simpl; cbv [tyok u16]; intuition lia
                          | right; simpl; cbv [kind_ok u16 DFAN_LABEL DFAN_DESC]; intuition lia ].
Example demo_full_ops_ok : Forall full_op demo_full_ops.
Proof. repeat (constructor; [full_op_tac|]). constructor. Qed.
Example demo_full_run : run_ok_full hinit init demo_full_ops.
Proof. exact (full_run_sim demo_full_ops hinit init SimD_init demo_full_ops_ok). Qed.
Definition demo_names (n : Z) : list Z := if n =? 0 then [120; 46; 104; 46; 98] else [120; 46; 104].    (* "x.h.b", "x.h" *)
Example demo_names_ok : NamesOK [0; 1] demo_names.
Proof.
  split.
  - intros f f' [<-|[<-|[]]] [<-|[<-|[]]] E; try reflexivity; vm_compute in E; discriminate.
  - intros f [<-|[<-|[]]]; (split; [intros x Hx; simpl in Hx; repeat (destruct Hx as [<-|Hx]; [discriminate|]); contradiction | vm_compute; reflexivity]).
Qed.
Example demo_two_files_run :
  grun_ok (ginit demo_names) (fun _ => init)
    [GOp (ODfPut 0 700 1 [65] 0); GFile 1; GOp (ODfPut 0 700 2 [66] 0); GFile 0; GOp (ODfGet 0 700 1 4); GOp (ODfGet 0 700 2 4)].
Proof.
  apply (grun_sim [0; 1]); [apply GSim_init; [left; reflexivity | exact demo_names_ok]|].
  repeat (constructor; [first [full_op_tac | simpl; tauto]|]). constructor.
Qed.

(** non-vacuity (round 3): ANget_tagref on a data label whose own ref (2) differs from its object's ref (1), and an
    interleaved enumeration of two file labels and two file descriptions in the model *)
Example demo_get_tagref :
  let h := mrun hinit [OStart; OCreate 0 0 700 5 0; OWrite 0 [65]; OCreate 1 0 700 1 0; OWrite 1 [66]] in
  snd (m_gettagref h 0 0) = MOk [104; 2; 104; 2] [] /\ snd (m_gettagref h 0 1) = MOk [104; 1; 104; 1] [] /\ snd (m_gettagref h 0 2) = MFail.
Proof. vm_compute. repeat split. Qed.
Example demo_interleaved_enumeration :
  let g0 := grun (ginit (fun _ => [104])) [GOp (ODfAddF 0 [65] 0); GOp (ODfAddF 0 [66; 66] 0); GOp (ODfAddF 1 [0] 0); GOp (ODfAddF 1 [1; 1] 0)] in
  let '(g1, r1) := g_fann_len g0 0 true in let '(g2, r2) := g_fann_get g1 0 true 9 in
  let '(g3, r3) := g_fann_len g2 1 true in let '(g4, r4) := g_fann_get g3 1 true 9 in
  let '(g5, r5) := g_fann_len g4 0 false in let '(g6, r6) := g_fann_len g5 1 false in
  let '(g7, r7) := g_fann_get g6 0 false 2 in let '(g8, r8) := g_fann_len g7 0 false in
  r1 = MOk [1; 1] [] /\ r3 = MOk [1; 1] [] /\ r5 = MOk [2; 2] [] /\ r6 = MOk [2; 2] [] /\
  r7 = MOk [1; 2] [[66; 0]] /\ r8 = MFail.
Proof. vm_compute. repeat split. Qed.

(** non-vacuity (round 4): the second page of two refs out of four, and a session restarted on the open file *)
Example demo_lablist_page : lablist_collect [1; 2; 3; 5] 0 0 4 2 3 = [3; 5] /\ lablist_collect [1; 2; 3; 5] 0 0 4 1 4 = [5] /\
                            lablist_collect [1; 2] 0 0 2 1 2 = [2].
Proof. vm_compute. repeat split. Qed.
Example demo_restart_drops_unwritten :
  let g := grun (ginit (fun _ => [104])) [GOp OStart; GOp (OCreate 0 1 700 1 0)] in
  snd (gstep (fst (g_restart g)) (OSelectAll 1)) = MOk [0] [] /\ snd (gstep g (OSelectAll 1)) = MOk [1; 1] [].
Proof. vm_compute. split; reflexivity. Qed.
