(** C11 -- placeholder while the harness is brought up (replaced in step 3). *)
From Coq Require Import ZArith List Bool.
Require Import H4.ANSpec.
Import ListNotations.
Local Open Scope Z_scope.

Theorem spec_init_empty : anns init = [].
Proof. reflexivity. Qed.
Print Assumptions spec_init_empty.
