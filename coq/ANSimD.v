(** C11 -- the single-file DFAN interface against the specification: coherence of the cached annotation
    directory (dfan.c DFANdir[]) with the file, and the step simulation of the six DFAN operations. *)
From Coq Require Import ZArith List Bool Lia Permutation Sorted.
Require Import H4.ANLang H4.gen.Gen_AN H4.ANSpec H4.ANModel H4.ANProofs H4.ANProofs2 H4.ANSim.
Import ListNotations.
Local Open Scope Z_scope.

(* ================= 1. the coherence invariant of the cached directory ========================================= *)
(** every used entry (annotation ref, object tag/ref) of the directory of [kind] is an annotation of that kind in the
    file with that target, and every annotation of that kind in the file has an entry *)
Definition DirCoh (kind : Z) (blocks : list (list dirent)) (dds : list dd) : Prop :=
  (forall e, In e (concat blocks) -> de_annref e <> 0 ->
     exists d, In d dds /\ d_tag d = dfan_tag kind /\ d_ref d = de_annref e /\ decode_target (d_data d) = (de_tag e, de_ref e)) /\
  (forall d, In d dds -> d_tag d = dfan_tag kind ->
     exists e, In e (concat blocks) /\ de_annref e = d_ref d /\ (de_tag e, de_ref e) = decode_target (d_data d)).

Definition DirOK (l : lstate) : Prop :=
  forall kind blocks, (kind = DFAN_LABEL \/ kind = DFAN_DESC) -> l_dir l kind = Some blocks -> DirCoh kind blocks (l_dds l).

Lemma locate_match : forall a b g r, truth (DFANIlocate_match a b g r) = ((b =? r) && (a =? g)).
Proof. intros. unfold DFANIlocate_match, truth. destruct (b =? r); destruct (a =? g); reflexivity. Qed.

(** a fresh DFANIlocate establishes coherence; an existing coherent directory is kept *)
Lemma locate_spec : forall s kind g r s' found, (kind = DFAN_LABEL \/ kind = DFAN_DESC) -> g <> 0 ->
  DirOK s -> (forall d, In d (l_dds s) -> 1 <= d_ref d <= MAX_REF) ->
  DFANIlocate s kind g r = (s', found) ->
  DirOK s' /\ l_dds s' = l_dds s /\ same_tables s s' /\
  (forall k, k <> kind -> l_dir s' k = l_dir s k) /\
  (found <> 0 -> exists d, In d (l_dds s) /\ d_tag d = dfan_tag kind /\ d_ref d = found /\ decode_target (d_data d) = (g, r)) /\
  (found = 0 -> forall d, In d (l_dds s) -> d_tag d = dfan_tag kind -> decode_target (d_data d) <> (g, r)) /\
  (found = 0 -> l_dir s' kind = None -> of_tag (dfan_tag kind) (l_dds s) = []) /\
  (l_dir s' kind = None \/ exists b, l_dir s' kind = Some b).
Proof.
  intros s kind g r s' found Hk Hg HD Hrefs H. destruct (DFANIlocate_frame _ _ _ _ _ _ H) as [F Dd]. unfold DFANIlocate in H.
  set (anntag := dfan_tag kind) in *.
  assert (Hbuild : forall els, els = of_tag anntag (l_dds s) ->
            DirCoh kind [map (fun d => mkdirent (d_ref d) (fst (decode_target (d_data d))) (snd (decode_target (d_data d)))) els] (l_dds s)).
  { intros els ->. split.
    - intros e Hin Hnz. simpl in Hin. rewrite app_nil_r in Hin. apply in_map_iff in Hin. destruct Hin as [d [E Hd]]. subst e. simpl.
      apply of_tag_In in Hd. destruct Hd. exists d. split; [assumption|]. split; [assumption|]. split; [reflexivity|]. first [reflexivity | symmetry; apply surjective_pairing | apply surjective_pairing | destruct (decode_target (d_data d)); reflexivity].
    - intros d Hd Ht. eexists. split; [simpl; rewrite app_nil_r; apply in_map; unfold of_tag; apply filter_In; split; [exact Hd | apply Z.eqb_eq; exact Ht]|].
      simpl. split; [reflexivity | first [reflexivity | symmetry; apply surjective_pairing | apply surjective_pairing | destruct (decode_target (d_data d)); reflexivity]]. }
  assert (Hfind : forall blocks s1, l_dir s1 kind = Some blocks -> l_dds s1 = l_dds s -> DirCoh kind blocks (l_dds s) ->
     forall fd, (match find (fun e => negb (de_annref e =? 0) && truth (DFANIlocate_match (de_tag e) (de_ref e) g r)) (concat blocks) with
                 | Some e => (s1, de_annref e) | None => (s1, 0) end) = (s', fd) ->
     (fd <> 0 -> exists d, In d (l_dds s) /\ d_tag d = anntag /\ d_ref d = fd /\ decode_target (d_data d) = (g, r)) /\
     (fd = 0 -> forall d, In d (l_dds s) -> d_tag d = anntag -> decode_target (d_data d) <> (g, r))).
  { intros blocks s1 Hdir Hdd [C1 C2] fd Hm. destruct (find _ (concat blocks)) as [e|] eqn:Ef; inversion Hm; subst.
    - apply find_some in Ef. destruct Ef as [Hin Hp]. apply andb_true_iff in Hp. destruct Hp as [P1 P2].
      apply negb_true_iff in P1. apply Z.eqb_neq in P1. rewrite locate_match in P2. apply andb_true_iff in P2. destruct P2 as [P2 P3].
      apply Z.eqb_eq in P2. apply Z.eqb_eq in P3. split; [|intros X; contradiction].
      intros _. destruct (C1 e Hin P1) as [d [D1 [D2 [D3 D4]]]]. exists d. repeat split; auto. rewrite D4. congruence.
    - split; [intros X; exfalso; apply X; reflexivity|]. intros _ d Hd Ht Hdec.
      destruct (C2 d Hd Ht) as [e [E1 [E2 E3]]]. pose proof (find_none _ _ Ef e E1) as X. cbv beta in X. rewrite locate_match in X.
      rewrite Hdec in E3. inversion E3. subst. rewrite !Z.eqb_refl in X. simpl in X. rewrite andb_true_r in X.
      apply negb_false_iff in X. apply Z.eqb_eq in X. pose proof (Hrefs d Hd). lia. }
  rewrite (proj2 (Z.eqb_neq g 0) Hg) in H.
  destruct (l_dir s kind) as [blocks|] eqn:Ed.
  - simpl in H. rewrite Ed in H. destruct (Hfind blocks s Ed eq_refl (HD kind blocks Hk Ed) found H) as [A B].
    assert (s' = s) by (destruct (find _ _); inversion H; reflexivity). subst s'.
    split; [assumption|]. split; [reflexivity|]. split; [apply same_tables_refl|]. split; [auto|]. split; [assumption|]. split; [assumption|].
    split; [intros _ X; congruence | right; eauto].
  - destruct (zlen (of_tag anntag (l_dds s)) =? 0) eqn:Ez; cbv beta iota zeta in H; cbn [negb] in H; cbv beta iota zeta in H.
    + inversion H; subst s' found. apply Z.eqb_eq in Ez.
      assert (Hnil : of_tag anntag (l_dds s) = []) by (destruct (of_tag anntag (l_dds s)); [reflexivity | unfold zlen in Ez; simpl in Ez; lia]).
      split; [assumption|]. split; [reflexivity|]. split; [apply same_tables_refl|]. split; [auto|]. split; [intros X; exfalso; apply X; reflexivity|].
      split; [|split; [auto | left; assumption]].
      intros _ d Hd Ht. exfalso. assert (In d (of_tag anntag (l_dds s))) by (unfold of_tag; apply filter_In; split; [assumption | apply Z.eqb_eq; assumption]).
      rewrite Hnil in H0. contradiction.
    + set (blk := map (fun d => mkdirent (d_ref d) (fst (decode_target (d_data d))) (snd (decode_target (d_data d)))) (of_tag anntag (l_dds s))) in *.
      set (s1 := set_dir s kind (Some [blk])) in *.
      assert (Hd1 : l_dir s1 kind = Some [blk]) by (simpl; apply upd_same). rewrite Hd1 in H.
      destruct (Hfind [blk] s1 Hd1 eq_refl (Hbuild _ eq_refl) found H) as [A B].
      assert (s' = s1) by (destruct (find _ _); inversion H; reflexivity). subst s'.
      split.
      { intros k b Hk' Hb. destruct (Z.eq_dec k kind) as [->|N].
        - rewrite Hd1 in Hb. inversion Hb; subst b. apply (Hbuild _ eq_refl).
        - simpl in Hb. rewrite upd_other in Hb by assumption. apply (HD k b Hk' Hb). }
      split; [reflexivity|]. split; [repeat split|]. split; [intros k N; simpl; apply upd_other; assumption|].
      split; [assumption|]. split; [assumption|]. split; [intros _ X; congruence | right; eauto].
Qed.

(* ================= 2. what DFANIgetann leaves in the caller's buffer ========================================= *)
Definition dfan_len (lab : bool) (data : list Z) (maxlen : Z) : Z :=
  if lab then (if truth (DFANIgetann_label_trunc (zlen data - 4) maxlen) then maxlen - 1 else zlen data - 4)
  else (if truth (DFANIgetann_desc_trunc (zlen data - 4) maxlen) then maxlen else zlen data - 4).

Lemma dfan_image_spec : forall (lab : bool) data maxlen, 1 <= maxlen -> 4 <= zlen data ->
  (dfan_len lab data maxlen <? 0) = false /\
  (if lab then poke_at (if 0 <? dfan_len lab data maxlen
                        then poke (repeat FILL (Z.to_nat maxlen)) (firstn (Z.to_nat (dfan_len lab data maxlen)) (skipn 4 data))
                        else repeat FILL (Z.to_nat maxlen)) (dfan_len lab data maxlen) 0
   else (if 0 <? dfan_len lab data maxlen
         then poke (repeat FILL (Z.to_nat maxlen)) (firstn (Z.to_nat (dfan_len lab data maxlen)) (skipn 4 data))
         else repeat FILL (Z.to_nat maxlen))) = buffer_image lab (skipn 4 data) maxlen.
Proof.
  intros lab data maxlen Hm H4. set (txt := skipn 4 data).
  assert (Hlen : zlen data - 4 = zlen txt) by (unfold txt, zlen in *; rewrite skipn_length; lia).
  unfold dfan_len. rewrite Hlen. unfold DFANIgetann_label_trunc, DFANIgetann_desc_trunc. rewrite !truth_gt.
  unfold buffer_image, zlen in *.
  set (L := length txt) in *. set (m := Z.to_nat maxlen).
  assert (Em : maxlen = Z.of_nat m) by (unfold m; rewrite Z2Nat.id; lia).
  destruct lab.
  - destruct (maxlen - 1 <? Z.of_nat L) eqn:E.
    + apply Z.ltb_lt in E. rewrite Z.min_r by lia. split; [apply Z.ltb_ge; lia|].
      assert (En : maxlen - 1 = Z.of_nat (m - 1)) by lia. rewrite En.
      rewrite Nat2Z.id.
      rewrite image_desc by lia. rewrite image_label by lia.
      rewrite app_length, firstn_length_le by lia. simpl. repeat f_equal; lia.
    + apply Z.ltb_ge in E. rewrite Z.min_l by lia. split; [apply Z.ltb_ge; lia|].
      rewrite Nat2Z.id.
      rewrite image_desc by lia. rewrite image_label by lia.
      rewrite app_length, firstn_length_le by lia. simpl. repeat f_equal; lia.
  - destruct (maxlen <? Z.of_nat L) eqn:E.
    + apply Z.ltb_lt in E. rewrite Z.min_r by lia. split; [apply Z.ltb_ge; lia|].
      rewrite Em. rewrite Nat2Z.id.
      rewrite image_desc by lia. rewrite app_nil_r. rewrite firstn_length_le by lia. reflexivity.
    + apply Z.ltb_ge in E. rewrite Z.min_l by lia. split; [apply Z.ltb_ge; lia|].
      rewrite Nat2Z.id.
      rewrite image_desc by lia. rewrite app_nil_r. rewrite firstn_length_le by lia. reflexivity.
Qed.

Lemma DFANIgetann_found : forall s kind g r maxlen s1 found d,
  g <> 0 -> r <> 0 -> 1 <= maxlen -> DFANIlocate s kind g r = (s1, found) -> found <> 0 ->
  hfind (dfan_tag kind) found (l_dds s1) = Some d -> 4 <= zlen (d_data d) ->
  DFANIgetann s kind g r maxlen = (set_lastref s1 found, Some (buffer_image (kind =? DFAN_LABEL) (skipn 4 (d_data d)) maxlen)) /\
  DFANIgetannlen s kind g r = (set_lastref s1 found, zlen (skipn 4 (d_data d))).
Proof.
  intros s kind g r maxlen s1 found d Hg Hr Hm Hl Hf Hh H4.
  unfold DFANIgetann, DFANIgetannlen. rewrite (proj2 (Z.eqb_neq g 0) Hg), (proj2 (Z.eqb_neq r 0) Hr). cbn [orb]. rewrite Hl.
  rewrite (proj2 (Z.eqb_neq found 0) Hf). rewrite Hh.
  assert (E : zlen (d_data d) - 4 = zlen (skipn 4 (d_data d))) by (unfold zlen in *; rewrite skipn_length; lia).
  split; [|rewrite E; reflexivity].
  cbv zeta. destruct (kind =? DFAN_LABEL).
  - destruct (dfan_image_spec true (d_data d) maxlen Hm H4) as [A B]. unfold dfan_len in A, B. rewrite A, B. reflexivity.
  - destruct (dfan_image_spec false (d_data d) maxlen Hm H4) as [A B]. unfold dfan_len in A, B. rewrite A, B. reflexivity.
Qed.

(* ================= 3. the closed file (no AN session): the map is the list of descriptors ===================== *)
Lemma Sim_transfer : forall h a l1, Sim h a -> same_tables (h_lib h) l1 -> l_dds l1 = l_dds (h_lib h) -> Sim (hlib h l1) a.
Proof.
  intros h a l1 HS [F1 [F2 [F3 F4]]] Hd. constructor; simpl.
  - apply (Good_ext (h_lib h)); auto. apply (sim_good _ _ HS).
  - apply (sim_nodup _ _ HS).
  - intros x. rewrite (sim_repr _ _ HS). split; intros R; (eapply Repr_ext; [| |exact R]); congruence.
  - apply (sim_sess _ _ HS).
  - intros Hc. destruct (sim_closed _ _ HS Hc) as [C1 C2]. split; [intros ty; rewrite F1; apply C1 | rewrite F3; assumption].
  - intros slot. pose proof (sim_slots _ _ HS slot) as X. unfold ANid2tagref in *. rewrite F3. exact X.
Qed.

Lemma closed_repr_iff : forall l x, Good l -> (forall ty, l_tree l ty = None) -> (Repr l x <-> In x (map ann_of (l_dds l))).
Proof.
  intros l [[xt xr] xg xf xtx] [HI HT] Htr. rewrite in_map_iff. unfold Repr. cbn [a_key a_text a_ttag a_tref fst snd]. split.
  - intros [[T R] [[d [D1 [D2 [D3 [D4 D5]]]]]|[_ [_ [t [e [C _]]]]]]]; [|rewrite Htr in C; discriminate].
    exists d. split; [|assumption]. unfold ann_of. rewrite D2, ty_of_tag_of_type by assumption. rewrite <- D5. simpl. rewrite D3, D4, D2. reflexivity.
  - intros [d [E Hd]]. unfold ann_of in E. inversion E; subst xt xr xg xf xtx; clear E.
    destruct (tf_tags _ HT d Hd) as [ty [Ty Gy]]. rewrite Gy, ty_of_tag_of_type by assumption.
    split; [split; [assumption | apply (inv_refs _ HI d Hd)]|]. left. exists d. rewrite <- Gy.
    repeat split; auto. destruct (target_of ty d); reflexivity.
Qed.

Definition kind_ok (kind : Z) : Prop := kind = DFAN_LABEL \/ kind = DFAN_DESC.
Lemma kind_facts : forall kind, kind_ok kind ->
  tyok (dfan_kind_type kind) /\ dfan_tag kind = tag_of_type (dfan_kind_type kind) /\ is_data_type (dfan_kind_type kind) = true /\
  is_data_tag (dfan_tag kind) = true /\ is_label (dfan_kind_type kind) = (kind =? DFAN_LABEL) /\ ty_of (dfan_tag kind) = dfan_kind_type kind.
Proof. intros kind [-> | ->]; unfold tyok; repeat split; try reflexivity; try (cbv; intros X; discriminate X). Qed.

(** the annotation a data-annotation descriptor stands for *)
Definition dann (kind : Z) (d : dd) : ann :=
  mkann (dfan_kind_type kind, d_ref d) (fst (decode_target (d_data d))) (snd (decode_target (d_data d))) (Some (skipn 4 (d_data d))).

Lemma ann_of_dann : forall kind d, kind_ok kind -> d_tag d = dfan_tag kind -> ann_of d = dann kind d.
Proof.
  intros kind d Hk Ht. destruct (kind_facts kind Hk) as [_ [_ [F3 [F4 [_ F6]]]]]. unfold ann_of, dann, target_of, payload_text.
  rewrite Ht, F6, F3, F4. reflexivity.
Qed.

Lemma on_target_closed : forall h a kind g r, Sim h a -> h_sess h = false -> kind_ok kind ->
  forall x, In x (on_target (dfan_kind_type kind) g r (anns a)) <->
            exists d, In d (l_dds (h_lib h)) /\ d_tag d = dfan_tag kind /\ decode_target (d_data d) = (g, r) /\ x = dann kind d.
Proof.
  intros h a kind g r HS Hc Hk x. destruct (sim_closed _ _ HS Hc) as [C1 _]. pose proof (sim_good _ _ HS) as HG.
  destruct (kind_facts kind Hk) as [F1 [F2 [F3 [F4 [F5 F6]]]]].
  unfold on_target, of_type. rewrite !filter_In. rewrite (sim_repr _ _ HS), (closed_repr_iff _ _ HG C1), in_map_iff. split.
  - intros [[[d [E Hd]] Hty] Htg]. subst x. apply Z.eqb_eq in Hty. simpl in Hty.
    destruct (tf_tags _ (proj2 HG) d Hd) as [ty [Ty Gy]]. rewrite Gy, ty_of_tag_of_type in Hty by assumption. subst ty.
    assert (Ht : d_tag d = dfan_tag kind) by congruence. exists d. split; [assumption|]. split; [assumption|].
    rewrite (ann_of_dann kind d Hk Ht) in *. cbn [dann a_ttag a_tref] in Htg. apply andb_true_iff in Htg. destruct Htg as [G1 G2].
    apply Z.eqb_eq in G1. apply Z.eqb_eq in G2. split; [|reflexivity]. rewrite (surjective_pairing (decode_target (d_data d))). congruence.
  - intros [d [Hd [Ht [Hdec ->]]]]. rewrite <- (ann_of_dann kind d Hk Ht). split; [split; [exists d; auto|]|].
    + rewrite (ann_of_dann kind d Hk Ht). simpl. apply Z.eqb_refl.
    + rewrite (ann_of_dann kind d Hk Ht). cbn [dann a_ttag a_tref]. rewrite Hdec. cbn [fst snd]. rewrite !Z.eqb_refl. reflexivity.
Qed.

(* ================= 4. the relation with the directory, results, and the read-only DFAN calls ================= *)
Definition SimD (h : hstate) (a : state) : Prop := Sim h a /\ (h_sess h = false -> DirOK (h_lib h)).

(** results of the whole operation language: as [accepts], plus "one of" for the length calls and "up to order"
    for the enumeration of file labels / descriptions *)
Definition accepts_full (sr : res) (mr : mres) : Prop :=
  accepts sr mr \/
  (exists vs v, sr = ROneOf vs /\ mr = MOk [v] [] /\ In v vs) \/
  (exists n bs ts, sr = ROk [n] bs /\ mr = MOk [n] ts /\ Permutation (map (fun t => [t]) ts) bs).

Definition dfan_op (o : op) : Prop :=
  match o with
  | ODfPut kind g r _ _ => kind_ok kind /\ u16 g /\ u16 r
  | ODfGet kind _ _ _ | ODfGetLen kind _ _ | ODfAddF kind _ _ | ODfGetFs kind => kind_ok kind
  | ODfLablist _ _ => True
  | _ => False
  end.

Lemma DirOK_ext : forall l l', DirOK l -> l_dir l' = l_dir l -> l_dds l' = l_dds l -> DirOK l'.
Proof. intros l l' H Hd Hdd k b Hk Hb. rewrite Hd in Hb. rewrite Hdd. apply (H k b Hk Hb). Qed.

Lemma sim_dfget : forall h a kind g r maxlen h' mr a' sr, SimD h a -> kind_ok kind ->
  mstep h (ODfGet kind g r maxlen) = (h', mr) -> step a (ODfGet kind g r maxlen) = (a', sr) ->
  sr = RUnspec \/ (SimD h' a' /\ accepts_full sr mr).
Proof.
  intros h a kind g r maxlen h' mr a' sr [HS HD] Hk HM HSp. unfold mstep in HM. cbv beta iota zeta in HM. simpl in HSp.
  rewrite (sim_sess _ _ HS) in HSp. destruct (h_sess h) eqn:Es; [inversion HSp; left; reflexivity|]. specialize (HD eq_refl).
  pose proof (sim_good _ _ HS) as [HI HT].
  destruct ((g =? 0) || (r =? 0)) eqn:Ez.
  { unfold DFANIgetann in HM. rewrite Ez in HM. inversion HM; inversion HSp; subst. right. split; [|left; exact I].
    split; [destruct h; exact HS | intros _; exact HD]. }
  apply orb_false_iff in Ez. destruct Ez as [Eg Er]. apply Z.eqb_neq in Eg. apply Z.eqb_neq in Er.
  destruct (DFANIlocate (h_lib h) kind g r) as [s1 found] eqn:El.
  destruct (locate_spec _ _ _ _ _ _ Hk Eg HD (inv_refs _ HI) El) as [HD1 [Hdd [F [_ [Hf1 [Hf0 _]]]]]].
  pose proof (Sim_transfer h a s1 HS F Hdd) as HS1.
  destruct (Z.eq_dec found 0) as [E0|N0].
  - (* no annotation of that object *)
    assert (HM' : DFANIgetann (h_lib h) kind g r maxlen = (s1, None)).
    { unfold DFANIgetann. rewrite (proj2 (Z.eqb_neq g 0) Eg), (proj2 (Z.eqb_neq r 0) Er). cbn [orb]. rewrite El, E0. reflexivity. }
    rewrite HM' in HM. inversion HM; subst h' mr.
    assert (Hnil : on_target (dfan_kind_type kind) g r (anns a) = []).
    { destruct (on_target (dfan_kind_type kind) g r (anns a)) as [|x l] eqn:E; [reflexivity|]. exfalso.
      assert (Hin : In x (x :: l)) by (left; reflexivity). rewrite <- E in Hin.
      apply (on_target_closed h a kind g r HS Es Hk) in Hin. destruct Hin as [d [D1 [D2 [D3 _]]]]. apply (Hf0 E0 d D1 D2 D3). }
    rewrite Hnil in HSp. inversion HSp; subst. right. split; [split; [assumption | intros _; assumption] | left; exact I].
  - destruct (Hf1 N0) as [d [D1 [D2 [D3 D4]]]].
    assert (Hh : hfind (dfan_tag kind) found (l_dds s1) = Some d) by (rewrite Hdd; apply hfind_In; [apply (tf_nodup _ HT) | assumption | assumption | assumption]).
    destruct (kind_facts kind Hk) as [_ [_ [_ [F4 [F5 _]]]]].
    assert (H4 : 4 <= zlen (d_data d)) by (apply (tf_len _ HT d D1); rewrite D2; exact F4).
    assert (Hx : In (dann kind d) (on_target (dfan_kind_type kind) g r (anns a))).
    { apply (on_target_closed h a kind g r HS Es Hk). exists d. auto. }
    destruct (on_target (dfan_kind_type kind) g r (anns a)) as [|x0 l0] eqn:E; [contradiction|].
    destruct (maxlen <? 1) eqn:Em; [inversion HSp; left; reflexivity|]. apply Z.ltb_ge in Em.
    destruct (DFANIgetann_found _ _ _ _ maxlen _ _ d Eg Er Em El N0 Hh H4) as [R1 _]. rewrite R1 in HM.
    inversion HM; inversion HSp; subst h' mr a' sr. right. split.
    + split; [apply (Sim_transfer (hlib h s1) a (set_lastref s1 found) HS1); [repeat split | reflexivity] | intros _; apply (DirOK_ext s1); auto].
    + left. unfold accepts. split; [left; reflexivity|]. constructor; [|constructor].
      destruct Hx as [Ex|Hx]; [left; rewrite Ex; reflexivity | right; exact (in_map (fun a0 => buffer_image (kind =? DFAN_LABEL) (text_of a0) maxlen) _ _ Hx)].
Qed.

Lemma sim_dfgetlen : forall h a kind g r h' mr a' sr, SimD h a -> kind_ok kind ->
  mstep h (ODfGetLen kind g r) = (h', mr) -> step a (ODfGetLen kind g r) = (a', sr) ->
  sr = RUnspec \/ (SimD h' a' /\ accepts_full sr mr).
Proof.
  intros h a kind g r h' mr a' sr [HS HD] Hk HM HSp. unfold mstep in HM. cbv beta iota zeta in HM. simpl in HSp.
  rewrite (sim_sess _ _ HS) in HSp. destruct (h_sess h) eqn:Es; [inversion HSp; left; reflexivity|]. specialize (HD eq_refl).
  pose proof (sim_good _ _ HS) as [HI HT].
  destruct ((g =? 0) || (r =? 0)) eqn:Ez.
  { unfold DFANIgetannlen in HM. rewrite Ez in HM. simpl in HM. inversion HM; inversion HSp; subst. right. split; [|left; exact I].
    split; [destruct h; exact HS | intros _; exact HD]. }
  apply orb_false_iff in Ez. destruct Ez as [Eg Er]. apply Z.eqb_neq in Eg. apply Z.eqb_neq in Er.
  destruct (DFANIlocate (h_lib h) kind g r) as [s1 found] eqn:El.
  destruct (locate_spec _ _ _ _ _ _ Hk Eg HD (inv_refs _ HI) El) as [HD1 [Hdd [F [_ [Hf1 [Hf0 _]]]]]].
  pose proof (Sim_transfer h a s1 HS F Hdd) as HS1.
  destruct (Z.eq_dec found 0) as [E0|N0].
  - assert (HM' : DFANIgetannlen (h_lib h) kind g r = (s1, FAILV)).
    { unfold DFANIgetannlen. rewrite (proj2 (Z.eqb_neq g 0) Eg), (proj2 (Z.eqb_neq r 0) Er). cbn [orb]. rewrite El, E0. reflexivity. }
    rewrite HM' in HM. simpl in HM. inversion HM; subst h' mr.
    assert (Hnil : on_target (dfan_kind_type kind) g r (anns a) = []).
    { destruct (on_target (dfan_kind_type kind) g r (anns a)) as [|x l] eqn:E; [reflexivity|]. exfalso.
      assert (Hin : In x (x :: l)) by (left; reflexivity). rewrite <- E in Hin.
      apply (on_target_closed h a kind g r HS Es Hk) in Hin. destruct Hin as [d [D1 [D2 [D3 _]]]]. apply (Hf0 E0 d D1 D2 D3). }
    rewrite Hnil in HSp. inversion HSp; subst. right. split; [split; [assumption | intros _; assumption] | left; exact I].
  - destruct (Hf1 N0) as [d [D1 [D2 [D3 D4]]]].
    assert (Hh : hfind (dfan_tag kind) found (l_dds s1) = Some d) by (rewrite Hdd; apply hfind_In; [apply (tf_nodup _ HT) | assumption | assumption | assumption]).
    destruct (kind_facts kind Hk) as [_ [_ [_ [F4 [F5 _]]]]].
    assert (H4 : 4 <= zlen (d_data d)) by (apply (tf_len _ HT d D1); rewrite D2; exact F4).
    assert (Hx : In (dann kind d) (on_target (dfan_kind_type kind) g r (anns a))).
    { apply (on_target_closed h a kind g r HS Es Hk). exists d. auto. }
    destruct (on_target (dfan_kind_type kind) g r (anns a)) as [|x0 l0] eqn:E; [contradiction|].
    destruct (DFANIgetann_found _ _ _ _ 1 _ _ d Eg Er ltac:(lia) El N0 Hh H4) as [_ R2]. rewrite R2 in HM.
    assert (Hn : (zlen (skipn 4 (d_data d)) =? FAILV) = false) by (apply Z.eqb_neq; unfold zlen, FAILV; lia). rewrite Hn in HM.
    inversion HM; inversion HSp; subst h' mr a' sr. right. split.
    + split; [apply (Sim_transfer (hlib h s1) a (set_lastref s1 found) HS1); [repeat split | reflexivity] | intros _; apply (DirOK_ext s1); auto].
    + right. left. eexists _, _. split; [reflexivity|]. split; [reflexivity|].
      destruct Hx as [Ex|Hx]; [left; rewrite Ex; reflexivity | right; exact (in_map (fun a0 => zlen (text_of a0)) _ _ Hx)].
Qed.
