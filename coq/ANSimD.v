(** C11 -- the single-file DFAN interface against the specification: coherence of the cached annotation
    directory (dfan.c DFANdir[]) with the file, and the step simulation of the six DFAN operations. *)
From Coq Require Import ZArith List Bool Lia Permutation Sorted.
Require Import H4.ANLang H4.gen.Gen_AN H4.ANSpec H4.ANModel H4.ANProofs H4.ANProofs2 H4.ANSim.
Import ListNotations.
Local Open Scope Z_scope.

(* ================= 1. the coherence invariant of the cached directory ========================================= *)
(** every used entry (annotation ref, object tag/ref) of the directory of [kind] is an annotation of that kind in the
    file with that target, and every annotation of that kind in the file has an entry *)
Definition DirCoh (kind : Z) (blocks : list (list dirent)) (dds : list dd) : Prop :=
  (forall e, In e (concat blocks) -> de_annref e <> 0 ->
     exists d, In d dds /\ d_tag d = dfan_tag kind /\ d_ref d = de_annref e /\ decode_target (d_data d) = (de_tag e, de_ref e)) /\
  (forall d, In d dds -> d_tag d = dfan_tag kind ->
     exists e, In e (concat blocks) /\ de_annref e = d_ref d /\ (de_tag e, de_ref e) = decode_target (d_data d)).

Definition DirOK (l : lstate) : Prop :=
  forall kind blocks, (kind = DFAN_LABEL \/ kind = DFAN_DESC) -> l_dir l kind = Some blocks -> DirCoh kind blocks (l_dds l).

Lemma locate_match : forall a b g r, truth (DFANIlocate_match a b g r) = ((b =? r) && (a =? g)).
Proof. intros. unfold DFANIlocate_match, truth. destruct (b =? r); destruct (a =? g); reflexivity. Qed.

(** a fresh DFANIlocate establishes coherence; an existing coherent directory is kept *)
Lemma locate_spec : forall s kind g r s' found, (kind = DFAN_LABEL \/ kind = DFAN_DESC) -> g <> 0 ->
  DirOK s -> (forall d, In d (l_dds s) -> 1 <= d_ref d <= MAX_REF) ->
  DFANIlocate s kind g r = (s', found) ->
  DirOK s' /\ l_dds s' = l_dds s /\ same_tables s s' /\
  (forall k, k <> kind -> l_dir s' k = l_dir s k) /\
  (found <> 0 -> exists d, In d (l_dds s) /\ d_tag d = dfan_tag kind /\ d_ref d = found /\ decode_target (d_data d) = (g, r)) /\
  (found = 0 -> forall d, In d (l_dds s) -> d_tag d = dfan_tag kind -> decode_target (d_data d) <> (g, r)) /\
  (found = 0 -> l_dir s' kind = None -> of_tag (dfan_tag kind) (l_dds s) = []) /\
  (l_dir s' kind = None \/ exists b, l_dir s' kind = Some b).
Proof.
  intros s kind g r s' found Hk Hg HD Hrefs H. destruct (DFANIlocate_frame _ _ _ _ _ _ H) as [F Dd]. unfold DFANIlocate in H.
  set (anntag := dfan_tag kind) in *.
  assert (Hbuild : forall els, els = of_tag anntag (l_dds s) ->
            DirCoh kind [map (fun d => mkdirent (d_ref d) (fst (decode_target (d_data d))) (snd (decode_target (d_data d)))) els] (l_dds s)).
  { intros els ->. split.
    - intros e Hin Hnz. simpl in Hin. rewrite app_nil_r in Hin. apply in_map_iff in Hin. destruct Hin as [d [E Hd]]. subst e. simpl.
      apply of_tag_In in Hd. destruct Hd. exists d. split; [assumption|]. split; [assumption|]. split; [reflexivity|]. first [reflexivity | symmetry; apply surjective_pairing | apply surjective_pairing | destruct (decode_target (d_data d)); reflexivity].
    - intros d Hd Ht. eexists. split; [simpl; rewrite app_nil_r; apply in_map; unfold of_tag; apply filter_In; split; [exact Hd | apply Z.eqb_eq; exact Ht]|].
      simpl. split; [reflexivity | first [reflexivity | symmetry; apply surjective_pairing | apply surjective_pairing | destruct (decode_target (d_data d)); reflexivity]]. }
  assert (Hfind : forall blocks s1, l_dir s1 kind = Some blocks -> l_dds s1 = l_dds s -> DirCoh kind blocks (l_dds s) ->
     forall fd, (match find (fun e => negb (de_annref e =? 0) && truth (DFANIlocate_match (de_tag e) (de_ref e) g r)) (concat blocks) with
                 | Some e => (s1, de_annref e) | None => (s1, 0) end) = (s', fd) ->
     (fd <> 0 -> exists d, In d (l_dds s) /\ d_tag d = anntag /\ d_ref d = fd /\ decode_target (d_data d) = (g, r)) /\
     (fd = 0 -> forall d, In d (l_dds s) -> d_tag d = anntag -> decode_target (d_data d) <> (g, r))).
  { intros blocks s1 Hdir Hdd [C1 C2] fd Hm. destruct (find _ (concat blocks)) as [e|] eqn:Ef; inversion Hm; subst.
    - apply find_some in Ef. destruct Ef as [Hin Hp]. apply andb_true_iff in Hp. destruct Hp as [P1 P2].
      apply negb_true_iff in P1. apply Z.eqb_neq in P1. rewrite locate_match in P2. apply andb_true_iff in P2. destruct P2 as [P2 P3].
      apply Z.eqb_eq in P2. apply Z.eqb_eq in P3. split; [|intros X; contradiction].
      intros _. destruct (C1 e Hin P1) as [d [D1 [D2 [D3 D4]]]]. exists d. repeat split; auto. rewrite D4. congruence.
    - split; [intros X; exfalso; apply X; reflexivity|]. intros _ d Hd Ht Hdec.
      destruct (C2 d Hd Ht) as [e [E1 [E2 E3]]]. pose proof (find_none _ _ Ef e E1) as X. cbv beta in X. rewrite locate_match in X.
      rewrite Hdec in E3. inversion E3. subst. rewrite !Z.eqb_refl in X. simpl in X. rewrite andb_true_r in X.
      apply negb_false_iff in X. apply Z.eqb_eq in X. pose proof (Hrefs d Hd). lia. }
  rewrite (proj2 (Z.eqb_neq g 0) Hg) in H.
  destruct (l_dir s kind) as [blocks|] eqn:Ed.
  - simpl in H. rewrite Ed in H. destruct (Hfind blocks s Ed eq_refl (HD kind blocks Hk Ed) found H) as [A B].
    assert (s' = s) by (destruct (find _ _); inversion H; reflexivity). subst s'.
    split; [assumption|]. split; [reflexivity|]. split; [apply same_tables_refl|]. split; [auto|]. split; [assumption|]. split; [assumption|].
    split; [intros _ X; congruence | right; eauto].
  - destruct (zlen (of_tag anntag (l_dds s)) =? 0) eqn:Ez; cbv beta iota zeta in H; cbn [negb] in H; cbv beta iota zeta in H.
    + inversion H; subst s' found. apply Z.eqb_eq in Ez.
      assert (Hnil : of_tag anntag (l_dds s) = []) by (destruct (of_tag anntag (l_dds s)); [reflexivity | unfold zlen in Ez; simpl in Ez; lia]).
      split; [assumption|]. split; [reflexivity|]. split; [apply same_tables_refl|]. split; [auto|]. split; [intros X; exfalso; apply X; reflexivity|].
      split; [|split; [auto | left; assumption]].
      intros _ d Hd Ht. exfalso. assert (In d (of_tag anntag (l_dds s))) by (unfold of_tag; apply filter_In; split; [assumption | apply Z.eqb_eq; assumption]).
      rewrite Hnil in H0. contradiction.
    + set (blk := map (fun d => mkdirent (d_ref d) (fst (decode_target (d_data d))) (snd (decode_target (d_data d)))) (of_tag anntag (l_dds s))) in *.
      set (s1 := set_dir s kind (Some [blk])) in *.
      assert (Hd1 : l_dir s1 kind = Some [blk]) by (simpl; apply upd_same). rewrite Hd1 in H.
      destruct (Hfind [blk] s1 Hd1 eq_refl (Hbuild _ eq_refl) found H) as [A B].
      assert (s' = s1) by (destruct (find _ _); inversion H; reflexivity). subst s'.
      split.
      { intros k b Hk' Hb. destruct (Z.eq_dec k kind) as [->|N].
        - rewrite Hd1 in Hb. inversion Hb; subst b. apply (Hbuild _ eq_refl).
        - simpl in Hb. rewrite upd_other in Hb by assumption. apply (HD k b Hk' Hb). }
      split; [reflexivity|]. split; [repeat split|]. split; [intros k N; simpl; apply upd_other; assumption|].
      split; [assumption|]. split; [assumption|]. split; [intros _ X; congruence | right; eauto].
Qed.

(* ================= 2. what DFANIgetann leaves in the caller's buffer ========================================= *)
Definition dfan_len (lab : bool) (data : list Z) (maxlen : Z) : Z :=
  if lab then (if truth (DFANIgetann_label_trunc (zlen data - 4) maxlen) then maxlen - 1 else zlen data - 4)
  else (if truth (DFANIgetann_desc_trunc (zlen data - 4) maxlen) then maxlen else zlen data - 4).

Lemma dfan_image_spec : forall (lab : bool) data maxlen, 1 <= maxlen -> 4 <= zlen data ->
  (dfan_len lab data maxlen <? 0) = false /\
  (if lab then poke_at (if 0 <? dfan_len lab data maxlen
                        then poke (repeat FILL (Z.to_nat maxlen)) (firstn (Z.to_nat (dfan_len lab data maxlen)) (skipn 4 data))
                        else repeat FILL (Z.to_nat maxlen)) (dfan_len lab data maxlen) 0
   else (if 0 <? dfan_len lab data maxlen
         then poke (repeat FILL (Z.to_nat maxlen)) (firstn (Z.to_nat (dfan_len lab data maxlen)) (skipn 4 data))
         else repeat FILL (Z.to_nat maxlen))) = buffer_image lab (skipn 4 data) maxlen.
Proof.
  intros lab data maxlen Hm H4. set (txt := skipn 4 data).
  assert (Hlen : zlen data - 4 = zlen txt) by (unfold txt, zlen in *; rewrite skipn_length; lia).
  unfold dfan_len. rewrite Hlen. unfold DFANIgetann_label_trunc, DFANIgetann_desc_trunc. rewrite !truth_gt.
  unfold buffer_image, zlen in *.
  set (L := length txt) in *. set (m := Z.to_nat maxlen).
  assert (Em : maxlen = Z.of_nat m) by (unfold m; rewrite Z2Nat.id; lia).
  destruct lab.
  - destruct (maxlen - 1 <? Z.of_nat L) eqn:E.
    + apply Z.ltb_lt in E. rewrite Z.min_r by lia. split; [apply Z.ltb_ge; lia|].
      assert (En : maxlen - 1 = Z.of_nat (m - 1)) by lia. rewrite En.
      rewrite Nat2Z.id.
      rewrite image_desc by lia. rewrite image_label by lia.
      rewrite app_length, firstn_length_le by lia. simpl. repeat f_equal; lia.
    + apply Z.ltb_ge in E. rewrite Z.min_l by lia. split; [apply Z.ltb_ge; lia|].
      rewrite Nat2Z.id.
      rewrite image_desc by lia. rewrite image_label by lia.
      rewrite app_length, firstn_length_le by lia. simpl. repeat f_equal; lia.
  - destruct (maxlen <? Z.of_nat L) eqn:E.
    + apply Z.ltb_lt in E. rewrite Z.min_r by lia. split; [apply Z.ltb_ge; lia|].
      rewrite Em. rewrite Nat2Z.id.
      rewrite image_desc by lia. rewrite app_nil_r. rewrite firstn_length_le by lia. reflexivity.
    + apply Z.ltb_ge in E. rewrite Z.min_l by lia. split; [apply Z.ltb_ge; lia|].
      rewrite Nat2Z.id.
      rewrite image_desc by lia. rewrite app_nil_r. rewrite firstn_length_le by lia. reflexivity.
Qed.

Lemma DFANIgetann_found : forall s kind g r maxlen s1 found d,
  g <> 0 -> r <> 0 -> 1 <= maxlen -> DFANIlocate s kind g r = (s1, found) -> found <> 0 ->
  hfind (dfan_tag kind) found (l_dds s1) = Some d -> 4 <= zlen (d_data d) ->
  DFANIgetann s kind g r maxlen = (set_lastref s1 found, Some (buffer_image (kind =? DFAN_LABEL) (skipn 4 (d_data d)) maxlen)) /\
  DFANIgetannlen s kind g r = (set_lastref s1 found, zlen (skipn 4 (d_data d))).
Proof.
  intros s kind g r maxlen s1 found d Hg Hr Hm Hl Hf Hh H4.
  unfold DFANIgetann, DFANIgetannlen. rewrite (proj2 (Z.eqb_neq g 0) Hg), (proj2 (Z.eqb_neq r 0) Hr). cbn [orb]. rewrite Hl.
  rewrite (proj2 (Z.eqb_neq found 0) Hf). rewrite Hh.
  assert (E : zlen (d_data d) - 4 = zlen (skipn 4 (d_data d))) by (unfold zlen in *; rewrite skipn_length; lia).
  split; [|rewrite E; reflexivity].
  cbv zeta. destruct (kind =? DFAN_LABEL).
  - destruct (dfan_image_spec true (d_data d) maxlen Hm H4) as [A B]. unfold dfan_len in A, B. rewrite A, B. reflexivity.
  - destruct (dfan_image_spec false (d_data d) maxlen Hm H4) as [A B]. unfold dfan_len in A, B. rewrite A, B. reflexivity.
Qed.

(* ================= 3. the closed file (no AN session): the map is the list of descriptors ===================== *)
Lemma Sim_transfer : forall h a l1, Sim h a -> same_tables (h_lib h) l1 -> l_dds l1 = l_dds (h_lib h) -> Sim (hlib h l1) a.
Proof.
  intros h a l1 HS [F1 [F2 [F3 F4]]] Hd. constructor; simpl.
  - apply (Good_ext (h_lib h)); auto. apply (sim_good _ _ HS).
  - apply (sim_nodup _ _ HS).
  - intros x. rewrite (sim_repr _ _ HS). split; intros R; (eapply Repr_ext; [| |exact R]); congruence.
  - apply (sim_sess _ _ HS).
  - intros Hc. destruct (sim_closed _ _ HS Hc) as [C1 C2]. split; [intros ty; rewrite F1; apply C1 | rewrite F3; assumption].
  - intros slot. pose proof (sim_slots _ _ HS slot) as X. unfold ANid2tagref in *. rewrite F3. exact X.
Qed.

Lemma closed_repr_iff : forall l x, Good l -> (forall ty, l_tree l ty = None) -> (Repr l x <-> In x (map ann_of (l_dds l))).
Proof.
  intros l [[xt xr] xg xf xtx] [HI HT] Htr. rewrite in_map_iff. unfold Repr. cbn [a_key a_text a_ttag a_tref fst snd]. split.
  - intros [[T R] [[d [D1 [D2 [D3 [D4 D5]]]]]|[_ [_ [t [e [C _]]]]]]]; [|rewrite Htr in C; discriminate].
    exists d. split; [|assumption]. unfold ann_of. rewrite D2, ty_of_tag_of_type by assumption. rewrite <- D5. simpl. rewrite D3, D4, D2. reflexivity.
  - intros [d [E Hd]]. unfold ann_of in E. inversion E; subst xt xr xg xf xtx; clear E.
    destruct (tf_tags _ HT d Hd) as [ty [Ty Gy]]. rewrite Gy, ty_of_tag_of_type by assumption.
    split; [split; [assumption | apply (inv_refs _ HI d Hd)]|]. left. exists d. rewrite <- Gy.
    repeat split; auto. destruct (target_of ty d); reflexivity.
Qed.

Definition kind_ok (kind : Z) : Prop := kind = DFAN_LABEL \/ kind = DFAN_DESC.
Lemma kind_facts : forall kind, kind_ok kind ->
  tyok (dfan_kind_type kind) /\ dfan_tag kind = tag_of_type (dfan_kind_type kind) /\ is_data_type (dfan_kind_type kind) = true /\
  is_data_tag (dfan_tag kind) = true /\ is_label (dfan_kind_type kind) = (kind =? DFAN_LABEL) /\ ty_of (dfan_tag kind) = dfan_kind_type kind.
Proof. intros kind [-> | ->]; unfold tyok; repeat split; try reflexivity; try (cbv; intros X; discriminate X). Qed.

(** the annotation a data-annotation descriptor stands for *)
Definition dann (kind : Z) (d : dd) : ann :=
  mkann (dfan_kind_type kind, d_ref d) (fst (decode_target (d_data d))) (snd (decode_target (d_data d))) (Some (skipn 4 (d_data d))).

Lemma ann_of_dann : forall kind d, kind_ok kind -> d_tag d = dfan_tag kind -> ann_of d = dann kind d.
Proof.
  intros kind d Hk Ht. destruct (kind_facts kind Hk) as [_ [_ [F3 [F4 [_ F6]]]]]. unfold ann_of, dann, target_of, payload_text.
  rewrite Ht, F6, F3, F4. reflexivity.
Qed.

Lemma on_target_closed : forall h a kind g r, Sim h a -> h_sess h = false -> kind_ok kind ->
  forall x, In x (on_target (dfan_kind_type kind) g r (anns a)) <->
            exists d, In d (l_dds (h_lib h)) /\ d_tag d = dfan_tag kind /\ decode_target (d_data d) = (g, r) /\ x = dann kind d.
Proof.
  intros h a kind g r HS Hc Hk x. destruct (sim_closed _ _ HS Hc) as [C1 _]. pose proof (sim_good _ _ HS) as HG.
  destruct (kind_facts kind Hk) as [F1 [F2 [F3 [F4 [F5 F6]]]]].
  unfold on_target, of_type. rewrite !filter_In. rewrite (sim_repr _ _ HS), (closed_repr_iff _ _ HG C1), in_map_iff. split.
  - intros [[[d [E Hd]] Hty] Htg]. subst x. apply Z.eqb_eq in Hty. simpl in Hty.
    destruct (tf_tags _ (proj2 HG) d Hd) as [ty [Ty Gy]]. rewrite Gy, ty_of_tag_of_type in Hty by assumption. subst ty.
    assert (Ht : d_tag d = dfan_tag kind) by congruence. exists d. split; [assumption|]. split; [assumption|].
    rewrite (ann_of_dann kind d Hk Ht) in *. cbn [dann a_ttag a_tref] in Htg. apply andb_true_iff in Htg. destruct Htg as [G1 G2].
    apply Z.eqb_eq in G1. apply Z.eqb_eq in G2. split; [|reflexivity]. rewrite (surjective_pairing (decode_target (d_data d))). congruence.
  - intros [d [Hd [Ht [Hdec ->]]]]. rewrite <- (ann_of_dann kind d Hk Ht). split; [split; [exists d; auto|]|].
    + rewrite (ann_of_dann kind d Hk Ht). simpl. apply Z.eqb_refl.
    + rewrite (ann_of_dann kind d Hk Ht). cbn [dann a_ttag a_tref]. rewrite Hdec. cbn [fst snd]. rewrite !Z.eqb_refl. reflexivity.
Qed.

(* ================= 4. the relation with the directory, results, and the read-only DFAN calls ================= *)
Definition SimD (h : hstate) (a : state) : Prop := Sim h a /\ (h_sess h = false -> DirOK (h_lib h)).

(** results of the whole operation language: as [accepts], plus "one of" for the length calls and "up to order"
    for the enumeration of file labels / descriptions *)
Definition accepts_full (sr : res) (mr : mres) : Prop :=
  accepts sr mr \/
  (exists vs v, sr = ROneOf vs /\ mr = MOk [v] [] /\ In v vs) \/
  (exists n bs ts, sr = ROk [n] bs /\ mr = MOk [n] ts /\ Permutation (map (fun t => [t]) ts) bs).

Definition dfan_op (o : op) : Prop :=
  match o with
  | ODfPut kind g r _ _ => kind_ok kind /\ u16 g /\ u16 r
  | ODfGet kind _ _ _ | ODfGetLen kind _ _ | ODfAddF kind _ _ | ODfGetFs kind => kind_ok kind
  | ODfLablist _ _ => True
  | _ => False
  end.

Lemma DirOK_ext : forall l l', DirOK l -> l_dir l' = l_dir l -> l_dds l' = l_dds l -> DirOK l'.
Proof. intros l l' H Hd Hdd k b Hk Hb. rewrite Hd in Hb. rewrite Hdd. apply (H k b Hk Hb). Qed.

Lemma sim_dfget : forall h a kind g r maxlen h' mr a' sr, SimD h a -> kind_ok kind ->
  mstep h (ODfGet kind g r maxlen) = (h', mr) -> step a (ODfGet kind g r maxlen) = (a', sr) ->
  sr = RUnspec \/ (SimD h' a' /\ accepts_full sr mr).
Proof.
  intros h a kind g r maxlen h' mr a' sr [HS HD] Hk HM HSp. unfold mstep in HM. cbv beta iota zeta in HM. simpl in HSp.
  rewrite (sim_sess _ _ HS) in HSp. destruct (h_sess h) eqn:Es; [inversion HSp; left; reflexivity|]. specialize (HD eq_refl).
  pose proof (sim_good _ _ HS) as [HI HT].
  destruct ((g =? 0) || (r =? 0)) eqn:Ez.
  { unfold DFANIgetann in HM. rewrite Ez in HM. inversion HM; inversion HSp; subst. right. split; [|left; exact I].
    split; [destruct h; exact HS | intros _; exact HD]. }
  apply orb_false_iff in Ez. destruct Ez as [Eg Er]. apply Z.eqb_neq in Eg. apply Z.eqb_neq in Er.
  destruct (DFANIlocate (h_lib h) kind g r) as [s1 found] eqn:El.
  destruct (locate_spec _ _ _ _ _ _ Hk Eg HD (inv_refs _ HI) El) as [HD1 [Hdd [F [_ [Hf1 [Hf0 _]]]]]].
  pose proof (Sim_transfer h a s1 HS F Hdd) as HS1.
  destruct (Z.eq_dec found 0) as [E0|N0].
  - (* no annotation of that object *)
    assert (HM' : DFANIgetann (h_lib h) kind g r maxlen = (s1, None)).
    { unfold DFANIgetann. rewrite (proj2 (Z.eqb_neq g 0) Eg), (proj2 (Z.eqb_neq r 0) Er). cbn [orb]. rewrite El, E0. reflexivity. }
    rewrite HM' in HM. inversion HM; subst h' mr.
    assert (Hnil : on_target (dfan_kind_type kind) g r (anns a) = []).
    { destruct (on_target (dfan_kind_type kind) g r (anns a)) as [|x l] eqn:E; [reflexivity|]. exfalso.
      assert (Hin : In x (x :: l)) by (left; reflexivity). rewrite <- E in Hin.
      apply (on_target_closed h a kind g r HS Es Hk) in Hin. destruct Hin as [d [D1 [D2 [D3 _]]]]. apply (Hf0 E0 d D1 D2 D3). }
    rewrite Hnil in HSp. inversion HSp; subst. right. split; [split; [assumption | intros _; assumption] | left; exact I].
  - destruct (Hf1 N0) as [d [D1 [D2 [D3 D4]]]].
    assert (Hh : hfind (dfan_tag kind) found (l_dds s1) = Some d) by (rewrite Hdd; apply hfind_In; [apply (tf_nodup _ HT) | assumption | assumption | assumption]).
    destruct (kind_facts kind Hk) as [_ [_ [_ [F4 [F5 _]]]]].
    assert (H4 : 4 <= zlen (d_data d)) by (apply (tf_len _ HT d D1); rewrite D2; exact F4).
    assert (Hx : In (dann kind d) (on_target (dfan_kind_type kind) g r (anns a))).
    { apply (on_target_closed h a kind g r HS Es Hk). exists d. auto. }
    destruct (on_target (dfan_kind_type kind) g r (anns a)) as [|x0 l0] eqn:E; [contradiction|].
    destruct (maxlen <? 1) eqn:Em; [inversion HSp; left; reflexivity|]. apply Z.ltb_ge in Em.
    destruct (DFANIgetann_found _ _ _ _ maxlen _ _ d Eg Er Em El N0 Hh H4) as [R1 _]. rewrite R1 in HM.
    inversion HM; inversion HSp; subst h' mr a' sr. right. split.
    + split; [apply (Sim_transfer (hlib h s1) a (set_lastref s1 found) HS1); [repeat split | reflexivity] | intros _; apply (DirOK_ext s1); auto].
    + left. unfold accepts. split; [left; reflexivity|]. constructor; [|constructor].
      destruct Hx as [Ex|Hx]; [left; rewrite Ex; reflexivity | right; exact (in_map (fun a0 => buffer_image (kind =? DFAN_LABEL) (text_of a0) maxlen) _ _ Hx)].
Qed.

Lemma sim_dfgetlen : forall h a kind g r h' mr a' sr, SimD h a -> kind_ok kind ->
  mstep h (ODfGetLen kind g r) = (h', mr) -> step a (ODfGetLen kind g r) = (a', sr) ->
  sr = RUnspec \/ (SimD h' a' /\ accepts_full sr mr).
Proof.
  intros h a kind g r h' mr a' sr [HS HD] Hk HM HSp. unfold mstep in HM. cbv beta iota zeta in HM. simpl in HSp.
  rewrite (sim_sess _ _ HS) in HSp. destruct (h_sess h) eqn:Es; [inversion HSp; left; reflexivity|]. specialize (HD eq_refl).
  pose proof (sim_good _ _ HS) as [HI HT].
  destruct ((g =? 0) || (r =? 0)) eqn:Ez.
  { unfold DFANIgetannlen in HM. rewrite Ez in HM. simpl in HM. inversion HM; inversion HSp; subst. right. split; [|left; exact I].
    split; [destruct h; exact HS | intros _; exact HD]. }
  apply orb_false_iff in Ez. destruct Ez as [Eg Er]. apply Z.eqb_neq in Eg. apply Z.eqb_neq in Er.
  destruct (DFANIlocate (h_lib h) kind g r) as [s1 found] eqn:El.
  destruct (locate_spec _ _ _ _ _ _ Hk Eg HD (inv_refs _ HI) El) as [HD1 [Hdd [F [_ [Hf1 [Hf0 _]]]]]].
  pose proof (Sim_transfer h a s1 HS F Hdd) as HS1.
  destruct (Z.eq_dec found 0) as [E0|N0].
  - assert (HM' : DFANIgetannlen (h_lib h) kind g r = (s1, FAILV)).
    { unfold DFANIgetannlen. rewrite (proj2 (Z.eqb_neq g 0) Eg), (proj2 (Z.eqb_neq r 0) Er). cbn [orb]. rewrite El, E0. reflexivity. }
    rewrite HM' in HM. simpl in HM. inversion HM; subst h' mr.
    assert (Hnil : on_target (dfan_kind_type kind) g r (anns a) = []).
    { destruct (on_target (dfan_kind_type kind) g r (anns a)) as [|x l] eqn:E; [reflexivity|]. exfalso.
      assert (Hin : In x (x :: l)) by (left; reflexivity). rewrite <- E in Hin.
      apply (on_target_closed h a kind g r HS Es Hk) in Hin. destruct Hin as [d [D1 [D2 [D3 _]]]]. apply (Hf0 E0 d D1 D2 D3). }
    rewrite Hnil in HSp. inversion HSp; subst. right. split; [split; [assumption | intros _; assumption] | left; exact I].
  - destruct (Hf1 N0) as [d [D1 [D2 [D3 D4]]]].
    assert (Hh : hfind (dfan_tag kind) found (l_dds s1) = Some d) by (rewrite Hdd; apply hfind_In; [apply (tf_nodup _ HT) | assumption | assumption | assumption]).
    destruct (kind_facts kind Hk) as [_ [_ [_ [F4 [F5 _]]]]].
    assert (H4 : 4 <= zlen (d_data d)) by (apply (tf_len _ HT d D1); rewrite D2; exact F4).
    assert (Hx : In (dann kind d) (on_target (dfan_kind_type kind) g r (anns a))).
    { apply (on_target_closed h a kind g r HS Es Hk). exists d. auto. }
    destruct (on_target (dfan_kind_type kind) g r (anns a)) as [|x0 l0] eqn:E; [contradiction|].
    destruct (DFANIgetann_found _ _ _ _ 1 _ _ d Eg Er ltac:(lia) El N0 Hh H4) as [_ R2]. rewrite R2 in HM.
    assert (Hn : (zlen (skipn 4 (d_data d)) =? FAILV) = false) by (apply Z.eqb_neq; unfold zlen, FAILV; lia). rewrite Hn in HM.
    inversion HM; inversion HSp; subst h' mr a' sr. right. split.
    + split; [apply (Sim_transfer (hlib h s1) a (set_lastref s1 found) HS1); [repeat split | reflexivity] | intros _; apply (DirOK_ext s1); auto].
    + right. left. eexists _, _. split; [reflexivity|]. split; [reflexivity|].
      destruct Hx as [Ex|Hx]; [left; rewrite Ex; reflexivity | right; exact (in_map (fun a0 => zlen (text_of a0)) _ _ Hx)].
Qed.

(* ================= 5. DFANputlabel / DFANputdesc ============================================================== *)
Lemma hput_absent : forall tag ref data dds, hfind tag ref dds = None -> hput tag ref data dds = dds ++ [mkdd tag ref data].
Proof.
  induction dds as [|x t IH]; simpl; intros H; [reflexivity|]. unfold hfind in H. simpl in H.
  destruct (dd_is tag ref x); [discriminate|]. rewrite IH by exact H. reflexivity.
Qed.

Lemma decode_encode : forall g r txt, u16 g -> u16 r -> decode_target (encode_target g r ++ txt) = (g, r) /\ skipn 4 (encode_target g r ++ txt) = txt.
Proof.
  intros g r txt Hg Hr. split; [|reflexivity]. unfold decode_target, encode_target. simpl. rewrite !codec16 by assumption. reflexivity.
Qed.

Lemma fill_slot_spec : forall e blk blk', fill_slot e blk = Some blk' ->
  In e blk' /\ (forall x, In x blk -> de_annref x <> 0 -> In x blk') /\ (forall x, In x blk' -> x = e \/ In x blk).
Proof.
  induction blk as [|y t IH]; simpl; intros blk' H; [discriminate|].
  destruct (de_annref y =? 0) eqn:E.
  - inversion H; subst. apply Z.eqb_eq in E. split; [left; reflexivity|]. split.
    + intros x [->|Hx] N; [contradiction | right; assumption].
    + intros x [->|Hx]; [left; reflexivity | right; right; assumption].
  - destruct (fill_slot e t) as [t'|] eqn:Ef; [|discriminate]. inversion H; subst. destruct (IH t' eq_refl) as [A [B C]].
    split; [right; assumption|]. split.
    + intros x [->|Hx] N; [left; reflexivity | right; apply B; assumption].
    + intros x [->|Hx]; [right; left; reflexivity|]. destruct (C x Hx); [left; assumption | right; right; assumption].
Qed.

Lemma new_block_spec : forall e x, In x (new_block e) -> x = e \/ de_annref x = 0.
Proof.
  intros e x [->|H]; [left; reflexivity|]. right. apply repeat_spec in H. subst. reflexivity.
Qed.

Lemma add_to_last_spec : forall e blocks,
  In e (concat (add_to_last e blocks)) /\
  (forall x, In x (concat blocks) -> de_annref x <> 0 -> In x (concat (add_to_last e blocks))) /\
  (forall x, In x (concat (add_to_last e blocks)) -> x = e \/ In x (concat blocks) \/ de_annref x = 0).
Proof.
  intros e. induction blocks as [|b rest IH].
  - cbn [add_to_last concat]. rewrite app_nil_r. split; [left; reflexivity|]. split; [intros x []|]. intros x H. destruct (new_block_spec e x H); auto.
  - destruct rest as [|b2 rest2].
    + cbn [add_to_last concat]. destruct (fill_slot e b) as [b'|] eqn:Ef; cbn [concat]; rewrite ?app_nil_r.
      * destruct (fill_slot_spec e b b' Ef) as [A [B C]]. split; [assumption|]. split; [assumption|]. intros x Hx. destruct (C x Hx); auto.
      * split; [apply in_or_app; right; left; reflexivity|]. split; [intros x Hx _; apply in_or_app; left; assumption|].
        intros x Hx. apply in_app_or in Hx. destruct Hx as [Hx|Hx]; [auto|]. destruct (new_block_spec e x Hx); auto.
    + destruct IH as [A [B C]]. change (add_to_last e (b :: b2 :: rest2)) with (b :: add_to_last e (b2 :: rest2)).
      change (concat (b :: add_to_last e (b2 :: rest2))) with (b ++ concat (add_to_last e (b2 :: rest2))).
      change (concat (b :: b2 :: rest2)) with (b ++ concat (b2 :: rest2)).
      split; [apply in_or_app; right; assumption|]. split.
      * intros x Hx N. apply in_app_or in Hx. apply in_or_app. destruct Hx; [left; assumption | right; apply B; assumption].
      * intros x Hx. apply in_app_or in Hx. destruct Hx as [Hx|Hx]; [right; left; apply in_or_app; left; assumption|].
        destruct (C x Hx) as [X|[X|X]]; [auto | right; left; apply in_or_app; right; assumption | auto].
Qed.

Definition ref1 (mr : mres) : Z := match mr with MOk [r] _ => r | _ => 0 end.
Definition fill_full (o : op) (mr : mres) : op :=
  match o with
  | ODfPut k g r t _ => ODfPut k g r t (ref1 mr)
  | ODfAddF k t _ => ODfAddF k t (ref1 mr)
  | _ => fill o mr
  end.

Lemma other_kind_tag : forall k k', kind_ok k -> kind_ok k' -> k' <> k -> dfan_tag k' <> dfan_tag k.
Proof. intros k k' [-> | ->] [-> | ->] N; try contradiction; vm_compute; discriminate. Qed.

Lemma putann_eval : forall s kind g r txt s1 found, g <> 0 -> r <> 0 -> zlen txt <> 0 ->
  DFANIlocate s kind g r = (s1, found) ->
  let tag := dfan_tag kind in
  let annref := if found =? 0 then htagnewref tag (l_dds s1) else found in
  DFANIputann s kind g r txt =
    if annref =? 0 then (s1, false)
    else if negb (found =? 0) && match hfind tag annref (l_dds s1) with None => true | Some _ => false end then (s1, false)
    else let s2 := set_dds s1 (hput tag annref (encode_target g r ++ txt) (l_dds s1)) in
         (set_lastref (if found =? 0 then DFANIaddentry s2 kind annref g r else s2) annref, true).
Proof.
  intros s kind g r txt s1 found Hg Hr Ht Hl. unfold DFANIputann.
  rewrite (proj2 (Z.eqb_neq g 0) Hg), (proj2 (Z.eqb_neq r 0) Hr). cbn [orb]. rewrite Hl. cbv zeta.
  destruct (_ =? 0); [reflexivity|]. destruct (_ && _); [reflexivity|].
  rewrite (proj2 (Z.eqb_neq (zlen txt) 0) Ht). reflexivity.
Qed.

Lemma DirCoh_other : forall k blocks dds dds', DirCoh k blocks dds ->
  (forall d, d_tag d = dfan_tag k -> (In d dds' <-> In d dds)) -> DirCoh k blocks dds'.
Proof.
  intros k blocks dds dds' [A B] H. split.
  - intros e He N. destruct (A e He N) as [d [D1 [D2 D3]]]. exists d. split; [apply H; assumption | auto].
  - intros d Hd Ht. apply (B d); [apply H; assumption | assumption].
Qed.

Lemma sim_dfput : forall h a kind g r txt x0 h' mr a' sr, SimD h a -> kind_ok kind -> u16 g -> u16 r ->
  mstep h (ODfPut kind g r txt x0) = (h', mr) -> step a (ODfPut kind g r txt (ref1 mr)) = (a', sr) ->
  sr = RUnspec \/ exhausted sr mr \/ (SimD h' a' /\ accepts_full sr mr).
Proof.
  intros h a kind g r txt x0 h' mr a' sr [HS HD] Hk Hg16 Hr16 HM HSp. unfold mstep in HM. cbv beta iota zeta in HM. simpl in HSp.
  rewrite (sim_sess _ _ HS) in HSp. destruct (h_sess h) eqn:Es; [inversion HSp; left; reflexivity|]. specialize (HD eq_refl).
  pose proof (sim_good _ _ HS) as HG. pose proof HG as [HI HT]. destruct (sim_closed _ _ HS Es) as [C1 C2].
  destruct (kind_facts kind Hk) as [K1 [K2 [K3 [K4 [K5 K6]]]]]. set (t := dfan_kind_type kind) in *. set (tag := dfan_tag kind) in *.
  destruct ((g =? 0) || (r =? 0)) eqn:Ez.
  { unfold DFANIputann in HM. rewrite Ez in HM. inversion HM; inversion HSp; subst. right. right. split; [|left; exact I].
    split; [destruct h; exact HS | intros _; exact HD]. }
  apply orb_false_iff in Ez. destruct Ez as [Eg Er]. apply Z.eqb_neq in Eg. apply Z.eqb_neq in Er.
  destruct ((zlen txt =? 0) || ((kind =? DFAN_LABEL) && has_nul txt)) eqn:Et; [inversion HSp; left; reflexivity|].
  apply orb_false_iff in Et. destruct Et as [Et _]. apply Z.eqb_neq in Et.
  destruct (DFANIlocate (h_lib h) kind g r) as [s1 found] eqn:El.
  destruct (locate_spec _ _ _ _ _ _ Hk Eg HD (inv_refs _ HI) El) as [HD1 [Hdd [F [Hdiro [Hf1 [Hf0 [Hnone Hdirc]]]]]]].
  rewrite (putann_eval _ _ _ _ _ _ _ Eg Er Et El) in HM. cbv zeta in HM. fold tag in HM. rewrite Hdd in HM.
  destruct (decode_encode g r txt Hg16 Hr16) as [Hdec Hskip].
  assert (Hrepr : forall x, In x (anns a) <-> In x (map ann_of (l_dds (h_lib h)))).
  { intros x. rewrite (sim_repr _ _ HS). apply closed_repr_iff; assumption. }
  destruct (Z.eq_dec found 0) as [E0|N0].
  - (* the object has no annotation of this kind yet *)
    subst found. rewrite Z.eqb_refl in HM. cbn [negb andb] in HM.
    assert (Hnil : on_target t g r (anns a) = []).
    { destruct (on_target t g r (anns a)) as [|x l] eqn:E; [reflexivity|]. exfalso.
      assert (Hin : In x (x :: l)) by (left; reflexivity). rewrite <- E in Hin.
      apply (on_target_closed h a kind g r HS Es Hk) in Hin. destruct Hin as [d [D1 [D2 [D3 _]]]]. apply (Hf0 eq_refl d D1 D2 D3). }
    rewrite Hnil in HSp.
    remember (htagnewref tag (l_dds (h_lib h))) as annref eqn:Ea.
    destruct (annref =? 0) eqn:Ea0.
    { apply Z.eqb_eq in Ea0. inversion HM; subst h' mr. simpl in HSp. unfold fresh in HSp. simpl in HSp. inversion HSp; subst.
      right. left. split; reflexivity. }
    apply Z.eqb_neq in Ea0. destruct (htagnewref_range _ _ _ (eq_sym Ea) Ea0) as [Hrange Hnotin].
    assert (Hhf : hfind tag annref (l_dds (h_lib h)) = None) by (apply not_in_refs_hfind; assumption).
    set (nd := mkdd tag annref (encode_target g r ++ txt)) in *.
    set (s2 := set_dds s1 (hput tag annref (encode_target g r ++ txt) (l_dds (h_lib h)))) in *.
    set (s3 := DFANIaddentry s2 kind annref g r) in *.
    inversion HM; subst h' mr; clear HM. cbn [ref1 l_lastref set_lastref] in HSp.
    assert (Hfr : fresh t annref (anns a) = true).
    { unfold fresh. destruct Hrange as [R1 R2]. rewrite (proj2 (Z.leb_le _ _) R1), (proj2 (Z.leb_le _ _) R2). simpl.
      destruct (lookup (t, annref) (anns a)) as [x|] eqn:L; [|reflexivity]. exfalso. apply lookup_In in L. destruct L as [L1 L2].
      apply Hrepr in L1. apply in_map_iff in L1. destruct L1 as [d [E Hd]]. subst x. unfold ann_of in L2. simpl in L2. inversion L2.
      destruct (tf_tags _ HT d Hd) as [ty [Ty Gy]]. rewrite Gy, ty_of_tag_of_type in H0 by assumption. subst ty.
      apply Hnotin. rewrite <- H1. apply in_map. unfold of_tag. apply filter_In. split; [assumption | apply Z.eqb_eq; congruence]. }
    rewrite Hfr in HSp. inversion HSp; subst a' sr; clear HSp.
    assert (Hput : hput tag annref (encode_target g r ++ txt) (l_dds (h_lib h)) = l_dds (h_lib h) ++ [nd]) by (apply hput_absent; assumption).
    assert (Hann : ann_of nd = mkann (t, annref) g r (Some txt)).
    { rewrite (ann_of_dann kind nd Hk eq_refl). unfold dann, nd. cbn [d_data d_ref]. rewrite Hdec, Hskip. reflexivity. }
    assert (Htr3 : forall ty, l_tree s3 ty = None) by (intros ty; destruct F as [F1 _]; unfold s3, s2, DFANIaddentry; cbn [l_dds l_tree l_atoms l_num l_next l_dir set_lastref set_dir set_dds]; rewrite F1; apply C1).
    assert (HI3 : Inv (set_lastref s3 annref)).
    { apply (Inv_same_tables (h_lib h)); [assumption | destruct F as [F1 [F2 [F3 F4]]]; repeat split; assumption|].
      unfold s3, s2, DFANIaddentry; cbn [l_dds l_tree l_atoms l_num l_next l_dir set_lastref set_dir set_dds]. rewrite Hput. intros d Hd. apply in_app_or in Hd. destruct Hd as [Hd|[<-|[]]]; [apply (inv_refs _ HI); assumption | exact Hrange]. }
    assert (HT3 : TF (set_lastref s3 annref)).
    { apply (TF_hput_closed (h_lib h) _ tag annref (encode_target g r ++ txt)); auto. exists t. auto.
      intros _. unfold zlen, encode_target. rewrite app_length. cbn [length]. lia. }
    right. right. split; [|left; unfold accepts; split; [left; reflexivity | constructor]].
    split.
    + unfold add_ann. constructor; cbn [h_lib hlib h_sess h_slots anns slots sess].
      * split; assumption.
      * unfold keys. rewrite map_app. cbn [map a_key]. apply NoDup_app_one; [apply (sim_nodup _ _ HS)|]. apply lookup_None.
        unfold fresh in Hfr. destruct (lookup (t, annref) (anns a)); [rewrite andb_false_r in Hfr; discriminate | reflexivity].
      * intros x. rewrite in_app_iff. rewrite (closed_repr_iff (set_lastref s3 annref) x (conj HI3 HT3) Htr3). unfold s3, s2, DFANIaddentry; cbn [l_dds l_tree l_atoms l_num l_next l_dir set_lastref set_dir set_dds]. rewrite Hput, map_app, in_app_iff.
        cbn [map In]. rewrite Hann, Hrepr. split; [intros [X|[X|[]]]; auto | intros [X|[X|[]]]; auto].
      * first [apply (sim_sess _ _ HS) | symmetry; exact Es].
      * intros _. split; [exact Htr3 | destruct F as [_ [_ [F3 _]]]; cbn [h_lib hlib]; unfold s3, s2, DFANIaddentry; cbn [l_dds l_tree l_atoms l_num l_next l_dir set_lastref set_dir set_dds]; rewrite F3; exact C2].
      * intros slot. pose proof (sim_slots _ _ HS slot) as X. unfold ANid2tagref in *. cbn [h_lib hlib h_slots]. unfold s3, s2, DFANIaddentry; cbn [l_dds l_tree l_atoms l_num l_next l_dir set_lastref set_dir set_dds]. destruct F as [_ [_ [F3 _]]]. rewrite F3. exact X.
    + intros _ k b Hkk Hb. unfold s3, s2, DFANIaddentry in Hb; cbn [h_lib hlib l_dds l_dir set_lastref set_dir set_dds] in Hb. unfold s3, s2, DFANIaddentry; cbn [h_lib hlib l_dds l_tree l_atoms l_num l_next l_dir set_lastref set_dir set_dds]. rewrite Hput.
      destruct (Z.eq_dec k kind) as [->|N].
      * rewrite upd_same in Hb. inversion Hb; subst b; clear Hb.
        set (b0 := match l_dir s1 kind with Some b => b | None => [] end).
        destruct (add_to_last_spec (mkdirent annref g r) b0) as [A1 [A2 A3]].
        assert (Hc0 : DirCoh kind b0 (l_dds (h_lib h))).
        { unfold b0. destruct (l_dir s1 kind) as [bb|] eqn:Eb; [rewrite <- Hdd; apply (HD1 kind bb Hk Eb)|].
          split; [intros e []|]. intros d Hd Htg. exfalso. assert (X : of_tag (dfan_tag kind) (l_dds (h_lib h)) = []) by first [exact (Hnone eq_refl Eb) | exact (Hnone eq_refl eq_refl)].
          assert (Hin0 : In d (of_tag (dfan_tag kind) (l_dds (h_lib h)))) by (unfold of_tag; apply filter_In; split; [assumption | apply Z.eqb_eq; assumption]).
          rewrite X in Hin0. contradiction. }
        destruct Hc0 as [Ca Cb]. split.
        -- intros e He Nz. destruct (A3 e He) as [->|[X|X]]; [|destruct (Ca e X Nz) as [d [D1 D2]]; exists d; split; [apply in_or_app; left; assumption | assumption] | contradiction].
           exists nd. split; [apply in_or_app; right; left; reflexivity|]. unfold nd. cbn [d_tag d_ref d_data de_annref de_tag de_ref]. split; [reflexivity|]. split; [reflexivity | exact Hdec].
        -- intros d Hd Htg. apply in_app_or in Hd. destruct Hd as [Hd|[<-|[]]].
           ++ destruct (Cb d Hd Htg) as [e [E1 [E2 E3]]]. exists e. split; [apply A2; [assumption|]|auto]. rewrite E2. pose proof (inv_refs _ HI d Hd). lia.
           ++ exists (mkdirent annref g r). split; [assumption|]. cbn [d_tag d_ref d_data de_annref de_tag de_ref]. split; [reflexivity | symmetry; exact Hdec].
      * rewrite upd_other in Hb by assumption. rewrite Hdiro in Hb by assumption.
        apply (DirCoh_other k b (l_dds (h_lib h))); [apply (HD k b Hkk Hb)|].
        intros d Htg. rewrite in_app_iff. split; [intros [X|[<-|[]]]; [assumption|]|auto].
        exfalso. apply (other_kind_tag kind k Hk Hkk N). symmetry. exact Htg.
  - (* the object has an annotation: it is replaced *)
    destruct (Hf1 N0) as [d [D1 [D2 [D3 D4]]]].
    assert (Hh : hfind tag found (l_dds (h_lib h)) = Some d) by (apply hfind_In; [apply (tf_nodup _ HT) | assumption | assumption | assumption]).
    rewrite (proj2 (Z.eqb_neq found 0) N0) in HM. rewrite Hh in HM. cbn [negb andb] in HM. cbv beta iota in HM. rewrite ?(proj2 (Z.eqb_neq found 0) N0) in HM. cbv beta iota in HM.
    set (nd := mkdd tag found (encode_target g r ++ txt)) in *.
    set (s2 := set_dds s1 (hput tag found (encode_target g r ++ txt) (l_dds (h_lib h)))) in *.
    inversion HM; subst h' mr; clear HM. cbn [ref1 l_lastref set_lastref] in HSp.
    assert (Hx : In (dann kind d) (on_target t g r (anns a))) by (apply (on_target_closed h a kind g r HS Es Hk); exists d; auto).
    destruct (on_target t g r (anns a)) as [|x1 l1] eqn:Eo; [contradiction|].
    assert (Hex : (snd (a_key x1) =? found) || existsb (fun r0 => r0 =? found) (refs l1) = true).
    { destruct Hx as [Ex|Hx']; apply orb_true_iff; [left; rewrite Ex; unfold dann; cbn [a_key snd]; apply Z.eqb_eq; assumption|right].
      apply existsb_exists. exists found. split; [|apply Z.eqb_refl]. unfold refs. apply in_map_iff. exists (dann kind d).
      split; [unfold dann; cbn [a_key snd]; assumption | exact Hx']. }
    rewrite Hex in HSp. inversion HSp; subst a' sr; clear HSp.
    assert (Hdd' : forall d0, In d0 (hput tag found (encode_target g r ++ txt) (l_dds (h_lib h))) <-> d0 = nd \/ (In d0 (l_dds (h_lib h)) /\ ddkey d0 <> (tag, found))).
    { intros d0. apply hput_In. apply (tf_nodup _ HT). }
    assert (Hann : ann_of nd = mkann (t, found) g r (Some txt)).
    { rewrite (ann_of_dann kind nd Hk eq_refl). unfold dann, nd. cbn [d_data d_ref]. rewrite Hdec, Hskip. reflexivity. }
    assert (Hannd : ann_of d = mkann (t, found) g r (Some (skipn 4 (d_data d)))).
    { rewrite (ann_of_dann kind d Hk D2). unfold dann. rewrite D3, D4. reflexivity. }
    assert (Htr2 : forall ty, l_tree s2 ty = None) by (intros ty; destruct F as [F1 _]; unfold s2; cbn [l_dds l_tree l_atoms l_num l_next l_dir set_lastref set_dir set_dds]; rewrite F1; apply C1).
    assert (HI2 : Inv (set_lastref s2 found)).
    { apply (Inv_same_tables (h_lib h)); [assumption | destruct F as [F1 [F2 [F3 F4]]]; repeat split; assumption|].
      unfold s2; cbn [l_dds l_tree l_atoms l_num l_next l_dir set_lastref set_dir set_dds]. intros d0 Hd0. apply Hdd' in Hd0. destruct Hd0 as [->|[Hd0 _]]; [unfold nd; cbn [d_ref]; rewrite <- D3; apply (inv_refs _ HI d D1) | apply (inv_refs _ HI); assumption]. }
    assert (HT2 : TF (set_lastref s2 found)).
    { apply (TF_hput_closed (h_lib h) _ tag found (encode_target g r ++ txt)); auto. exists t. auto.
      intros _. unfold zlen, encode_target. rewrite app_length. cbn [length]. lia. }
    right. right. split; [|left; unfold accepts; split; [left; reflexivity | constructor]].
    split.
    + constructor; cbn [h_lib hlib h_sess h_slots anns slots sess].
      * split; assumption.
      * unfold keys. rewrite set_text_keys. apply (sim_nodup _ _ HS).
      * intros x. rewrite (set_text_In _ _ _ _ (sim_nodup _ _ HS)). rewrite (closed_repr_iff (set_lastref s2 found) x (conj HI2 HT2) Htr2). unfold s2; cbn [l_dds l_tree l_atoms l_num l_next l_dir set_lastref set_dir set_dds].
        rewrite in_map_iff. split.
        -- intros [[y [Y1 [Y2 ->]]]|[X1 X2]].
           ++ exists nd. split; [|apply Hdd'; left; reflexivity]. rewrite Hann.
              apply Hrepr in Y1. apply in_map_iff in Y1. destruct Y1 as [d0 [E0 Hd0]]. subst y.
              (* the annotation with key (t, found) is the one of d *)
              assert (d0 = d).
              { unfold ann_of in Y2. simpl in Y2. inversion Y2. destruct (tf_tags _ HT d0 Hd0) as [ty [Ty Gy]].
                rewrite Gy, ty_of_tag_of_type in H0 by assumption. subst ty.
                apply (NoDup_map_inj _ _ ddkey (l_dds (h_lib h))); [apply (tf_nodup _ HT) | assumption | assumption|]. unfold ddkey. rewrite Gy, H1, D2, D3. exact (f_equal (fun z => (z, found)) (eq_sym K2)). }
              subst d0. rewrite Hannd. reflexivity.
           ++ apply Hrepr in X1. apply in_map_iff in X1. destruct X1 as [d0 [E0 Hd0]]. exists d0. split; [assumption|]. apply Hdd'. right. split; [assumption|].
              intros Kd. apply X2. subst x. unfold ddkey in Kd. inversion Kd. rewrite (ann_of_dann kind d0 Hk H0). reflexivity.
        -- intros [d0 [E0 Hd0]]. apply Hdd' in Hd0. destruct Hd0 as [->|[Hd0 Kd]].
           ++ left. exists (ann_of d). split; [apply Hrepr; apply in_map; assumption|]. rewrite Hannd. split; [reflexivity|]. rewrite <- E0, Hann. reflexivity.
           ++ right. split; [apply Hrepr; rewrite <- E0; apply in_map; assumption|]. subst x. intros Kx. apply Kd.
              unfold ann_of in Kx. simpl in Kx. inversion Kx. destruct (tf_tags _ HT d0 Hd0) as [ty [Ty Gy]].
              rewrite Gy, ty_of_tag_of_type in H0 by assumption. subst ty. unfold ddkey. rewrite Gy, H1. exact (f_equal (fun z => (z, found)) (eq_sym K2)).
      * first [apply (sim_sess _ _ HS) | symmetry; exact Es].
      * intros _. split; [exact Htr2 | destruct F as [_ [_ [F3 _]]]; cbn [h_lib hlib]; unfold s2; cbn [l_dds l_tree l_atoms l_num l_next l_dir set_lastref set_dir set_dds]; rewrite F3; exact C2].
      * intros slot. pose proof (sim_slots _ _ HS slot) as X. unfold ANid2tagref in *. cbn [h_lib hlib h_slots]. unfold s2; cbn [l_dds l_tree l_atoms l_num l_next l_dir set_lastref set_dir set_dds]. destruct F as [_ [_ [F3 _]]]. rewrite F3. exact X.
    + intros _ k b Hkk Hb. unfold s2 in Hb; cbn [h_lib hlib l_dds l_dir set_lastref set_dir set_dds] in Hb. unfold s2; cbn [h_lib hlib l_dds l_tree l_atoms l_num l_next l_dir set_lastref set_dir set_dds].
      pose proof (HD1 k b Hkk Hb) as [Ca Cb]. rewrite Hdd in Ca, Cb. split.
      * intros e He Nz. destruct (Ca e He Nz) as [d0 [E1 [E2 [E3 E4]]]].
        destruct (Z.eq_dec (d_ref d0) found) as [Ef|Nf]; [destruct (Z.eq_dec k kind) as [->|Nk]|].
        -- assert (d0 = d) by (apply (NoDup_map_inj _ _ ddkey (l_dds (h_lib h))); [apply (tf_nodup _ HT) | assumption | assumption | unfold ddkey; congruence]).
           subst d0. exists nd. split; [apply Hdd'; left; reflexivity|]. unfold nd; cbn [d_tag d_ref d_data]. split; [reflexivity|]. split; [congruence|]. rewrite Hdec. rewrite <- E4. symmetry. exact D4.
        -- exists d0. split; [apply Hdd'; right; split; [assumption|]|auto]. unfold ddkey. intros X. inversion X as [[X1 X2]]. apply (other_kind_tag kind k Hk Hkk Nk). rewrite <- E2. exact X1.
        -- exists d0. split; [apply Hdd'; right; split; [assumption|]|auto]. unfold ddkey. intros X. inversion X. contradiction.
      * intros d0 Hd0 Htg. apply Hdd' in Hd0. destruct Hd0 as [->|[Hd0 Kd]].
        -- unfold nd in Htg; cbn [d_tag] in Htg. assert (k = kind). { destruct (Z.eq_dec k kind); [assumption|]. exfalso. apply (other_kind_tag kind k Hk Hkk n). symmetry. exact Htg. }
           subst k. destruct (Cb d D1 D2) as [e [E1 [E2 E3]]]. exists e. split; [assumption|]. unfold nd; cbn [d_tag d_ref d_data]. split; [congruence|]. rewrite Hdec. rewrite E3. exact D4.
        -- apply (Cb d0 Hd0 Htg).
Qed.

(* ================= 6. DFANaddfid / DFANaddfds ================================================================== *)
Lemma ftype_facts : forall kind, kind_ok kind ->
  let t := dfan_kind_ftype kind in let tag := (if kind =? DFAN_LABEL then DFTAG_FID else DFTAG_FD) in
  tyok t /\ tag = tag_of_type t /\ is_data_type t = false /\ is_data_tag tag = false /\ ty_of tag = t /\
  (forall k, kind_ok k -> dfan_tag k <> tag).
Proof.
  intros kind [-> | ->]; cbv zeta; unfold tyok; repeat split; try reflexivity; try (cbv; intros X; discriminate X);
  intros k [-> | ->]; vm_compute; discriminate.
Qed.

Lemma sim_dfaddf_S : forall h a kind txt x0 h' mr a' sr, Sim h a -> kind_ok kind ->
  mstep h (ODfAddF kind txt x0) = (h', mr) -> step a (ODfAddF kind txt (ref1 mr)) = (a', sr) ->
  sr = RUnspec \/ exhausted sr mr \/
  (Sim h' a' /\ accepts_full sr mr /\ l_dir (h_lib h') = l_dir (h_lib h) /\
   forall k d, kind_ok k -> d_tag d = dfan_tag k -> (In d (l_dds (h_lib h')) <-> In d (l_dds (h_lib h)))).
Proof.
  intros h a kind txt x0 h' mr a' sr HS Hk HM HSp. unfold mstep in HM. cbv beta iota zeta in HM. simpl in HSp.
  rewrite (sim_sess _ _ HS) in HSp. destruct (h_sess h) eqn:Es; [inversion HSp; left; reflexivity|].
  pose proof (sim_good _ _ HS) as HG. pose proof HG as [HI HT]. destruct (sim_closed _ _ HS Es) as [C1 C2].
  destruct (ftype_facts kind Hk) as [K1 [K2 [K3 [K4 [K5 K6]]]]]. set (t := dfan_kind_ftype kind) in *.
  set (tag := if kind =? DFAN_LABEL then DFTAG_FID else DFTAG_FD) in *.
  destruct ((zlen txt =? 0) || ((kind =? DFAN_LABEL) && has_nul txt)) eqn:Et; [inversion HSp; left; reflexivity|].
  apply orb_false_iff in Et. destruct Et as [Et _].
  assert (Hrepr : forall x, In x (anns a) <-> In x (map ann_of (l_dds (h_lib h)))).
  { intros x. rewrite (sim_repr _ _ HS). apply closed_repr_iff; assumption. }
  unfold DFANIaddfann in HM. fold tag in HM. remember (htagnewref tag (l_dds (h_lib h))) as annref eqn:Ea.
  destruct (annref =? 0) eqn:Ea0.
  { apply Z.eqb_eq in Ea0. inversion HM; subst h' mr. simpl in HSp. unfold fresh in HSp. simpl in HSp. inversion HSp; subst.
    right. left. split; reflexivity. }
  apply Z.eqb_neq in Ea0. destruct (htagnewref_range _ _ _ (eq_sym Ea) Ea0) as [Hrange Hnotin].
  rewrite Et in HM. inversion HM; subst h' mr; clear HM. cbn [ref1 l_lastref set_lastref] in HSp.
  assert (Hhf : hfind tag annref (l_dds (h_lib h)) = None) by (apply not_in_refs_hfind; assumption).
  set (nd := mkdd tag annref txt) in *.
  assert (Hfr : fresh t annref (anns a) = true).
  { unfold fresh. destruct Hrange as [R1 R2]. rewrite (proj2 (Z.leb_le _ _) R1), (proj2 (Z.leb_le _ _) R2). simpl.
    destruct (lookup (t, annref) (anns a)) as [x|] eqn:L; [|reflexivity]. exfalso. apply lookup_In in L. destruct L as [L1 L2].
    apply Hrepr in L1. apply in_map_iff in L1. destruct L1 as [d [E Hd]]. subst x. unfold ann_of in L2. simpl in L2. inversion L2.
    destruct (tf_tags _ HT d Hd) as [ty [Ty Gy]]. rewrite Gy, ty_of_tag_of_type in H0 by assumption. subst ty.
    apply Hnotin. rewrite <- H1. apply in_map. unfold of_tag. apply filter_In. split; [assumption|]. apply Z.eqb_eq. rewrite Gy. symmetry. exact K2. }
  rewrite Hfr in HSp. inversion HSp; subst a' sr; clear HSp.
  assert (Hput : hput tag annref txt (l_dds (h_lib h)) = l_dds (h_lib h) ++ [nd]) by (apply hput_absent; assumption).
  assert (Hann : ann_of nd = mkann (t, annref) (tag_of_type t) annref (Some txt)).
  { unfold ann_of, nd, target_of, payload_text. cbn [d_tag d_ref d_data]. rewrite K5, K3, K4. cbn [fst snd]. rewrite <- K2. reflexivity. }
  set (s2 := set_lastref (set_dds (h_lib h) (hput tag annref txt (l_dds (h_lib h)))) annref).
  assert (Htr2 : forall ty, l_tree s2 ty = None) by (intros ty; apply C1).
  assert (HI2 : Inv s2).
  { apply (Inv_same_tables (h_lib h)); [assumption | repeat split|]. unfold s2; cbn [l_dds set_lastref set_dds]. rewrite Hput.
    intros d Hd. apply in_app_or in Hd. destruct Hd as [Hd|[<-|[]]]; [apply (inv_refs _ HI); assumption | exact Hrange]. }
  assert (HT2 : TF s2).
  { apply (TF_hput_closed (h_lib h) _ tag annref txt); auto. exists t. auto. intros X. rewrite K4 in X. discriminate. }
  right. right. split; [|split; [left; unfold accepts; split; [left; reflexivity | constructor]|]].
  - unfold add_ann. constructor; cbn [h_lib hlib h_sess h_slots anns slots sess].
    + split; assumption.
    + unfold keys. rewrite map_app. cbn [map a_key]. apply NoDup_app_one; [apply (sim_nodup _ _ HS)|]. apply lookup_None.
      unfold fresh in Hfr. destruct (lookup (t, annref) (anns a)); [rewrite andb_false_r in Hfr; discriminate | reflexivity].
    + intros x. rewrite in_app_iff. rewrite (closed_repr_iff s2 x (conj HI2 HT2) Htr2). unfold s2; cbn [l_dds set_lastref set_dds]. rewrite Hput, map_app, in_app_iff.
      cbn [map In]. rewrite Hann, Hrepr. split; [intros [X|[X|[]]]; auto | intros [X|[X|[]]]; auto].
    + first [apply (sim_sess _ _ HS) | symmetry; exact Es].
    + intros _. split; [exact Htr2 | exact C2].
    + intros slot. apply (sim_slots _ _ HS slot).
  - split; [reflexivity|]. intros k d Hkk Htg. unfold s2. cbn [h_lib hlib l_dds set_lastref set_dds]. rewrite Hput.
    rewrite in_app_iff. split; [intros [X|[<-|[]]]; [assumption|]|auto].
    exfalso. apply (K6 k Hkk). symmetry. exact Htg.
Qed.

Lemma sim_dfaddf : forall h a kind txt x0 h' mr a' sr, SimD h a -> kind_ok kind ->
  mstep h (ODfAddF kind txt x0) = (h', mr) -> step a (ODfAddF kind txt (ref1 mr)) = (a', sr) ->
  sr = RUnspec \/ exhausted sr mr \/ (SimD h' a' /\ accepts_full sr mr).
Proof.
  intros h a kind txt x0 h' mr a' sr [HS HD] Hk HM HSp. unfold mstep in HM. cbv beta iota zeta in HM. simpl in HSp.
  rewrite (sim_sess _ _ HS) in HSp. destruct (h_sess h) eqn:Es; [inversion HSp; left; reflexivity|]. specialize (HD eq_refl).
  pose proof (sim_good _ _ HS) as HG. pose proof HG as [HI HT]. destruct (sim_closed _ _ HS Es) as [C1 C2].
  destruct (ftype_facts kind Hk) as [K1 [K2 [K3 [K4 [K5 K6]]]]]. set (t := dfan_kind_ftype kind) in *.
  set (tag := if kind =? DFAN_LABEL then DFTAG_FID else DFTAG_FD) in *.
  destruct ((zlen txt =? 0) || ((kind =? DFAN_LABEL) && has_nul txt)) eqn:Et; [inversion HSp; left; reflexivity|].
  apply orb_false_iff in Et. destruct Et as [Et _].
  assert (Hrepr : forall x, In x (anns a) <-> In x (map ann_of (l_dds (h_lib h)))).
  { intros x. rewrite (sim_repr _ _ HS). apply closed_repr_iff; assumption. }
  unfold DFANIaddfann in HM. fold tag in HM. remember (htagnewref tag (l_dds (h_lib h))) as annref eqn:Ea.
  destruct (annref =? 0) eqn:Ea0.
  { apply Z.eqb_eq in Ea0. inversion HM; subst h' mr. simpl in HSp. unfold fresh in HSp. simpl in HSp. inversion HSp; subst.
    right. left. split; reflexivity. }
  apply Z.eqb_neq in Ea0. destruct (htagnewref_range _ _ _ (eq_sym Ea) Ea0) as [Hrange Hnotin].
  rewrite Et in HM. inversion HM; subst h' mr; clear HM. cbn [ref1 l_lastref set_lastref] in HSp.
  assert (Hhf : hfind tag annref (l_dds (h_lib h)) = None) by (apply not_in_refs_hfind; assumption).
  set (nd := mkdd tag annref txt) in *.
  assert (Hfr : fresh t annref (anns a) = true).
  { unfold fresh. destruct Hrange as [R1 R2]. rewrite (proj2 (Z.leb_le _ _) R1), (proj2 (Z.leb_le _ _) R2). simpl.
    destruct (lookup (t, annref) (anns a)) as [x|] eqn:L; [|reflexivity]. exfalso. apply lookup_In in L. destruct L as [L1 L2].
    apply Hrepr in L1. apply in_map_iff in L1. destruct L1 as [d [E Hd]]. subst x. unfold ann_of in L2. simpl in L2. inversion L2.
    destruct (tf_tags _ HT d Hd) as [ty [Ty Gy]]. rewrite Gy, ty_of_tag_of_type in H0 by assumption. subst ty.
    apply Hnotin. rewrite <- H1. apply in_map. unfold of_tag. apply filter_In. split; [assumption|]. apply Z.eqb_eq. rewrite Gy. symmetry. exact K2. }
  rewrite Hfr in HSp. inversion HSp; subst a' sr; clear HSp.
  assert (Hput : hput tag annref txt (l_dds (h_lib h)) = l_dds (h_lib h) ++ [nd]) by (apply hput_absent; assumption).
  assert (Hann : ann_of nd = mkann (t, annref) (tag_of_type t) annref (Some txt)).
  { unfold ann_of, nd, target_of, payload_text. cbn [d_tag d_ref d_data]. rewrite K5, K3, K4. cbn [fst snd]. rewrite <- K2. reflexivity. }
  set (s2 := set_lastref (set_dds (h_lib h) (hput tag annref txt (l_dds (h_lib h)))) annref).
  assert (Htr2 : forall ty, l_tree s2 ty = None) by (intros ty; apply C1).
  assert (HI2 : Inv s2).
  { apply (Inv_same_tables (h_lib h)); [assumption | repeat split|]. unfold s2; cbn [l_dds set_lastref set_dds]. rewrite Hput.
    intros d Hd. apply in_app_or in Hd. destruct Hd as [Hd|[<-|[]]]; [apply (inv_refs _ HI); assumption | exact Hrange]. }
  assert (HT2 : TF s2).
  { apply (TF_hput_closed (h_lib h) _ tag annref txt); auto. exists t. auto. intros X. rewrite K4 in X. discriminate. }
  right. right. split; [|left; unfold accepts; split; [left; reflexivity | constructor]].
  split.
  - unfold add_ann. constructor; cbn [h_lib hlib h_sess h_slots anns slots sess].
    + split; assumption.
    + unfold keys. rewrite map_app. cbn [map a_key]. apply NoDup_app_one; [apply (sim_nodup _ _ HS)|]. apply lookup_None.
      unfold fresh in Hfr. destruct (lookup (t, annref) (anns a)); [rewrite andb_false_r in Hfr; discriminate | reflexivity].
    + intros x. rewrite in_app_iff. rewrite (closed_repr_iff s2 x (conj HI2 HT2) Htr2). unfold s2; cbn [l_dds set_lastref set_dds]. rewrite Hput, map_app, in_app_iff.
      cbn [map In]. rewrite Hann, Hrepr. split; [intros [X|[X|[]]]; auto | intros [X|[X|[]]]; auto].
    + first [apply (sim_sess _ _ HS) | symmetry; exact Es].
    + intros _. split; [exact Htr2 | exact C2].
    + intros slot. apply (sim_slots _ _ HS slot).
  - intros _ k b Hkk Hb. unfold s2 in *. cbn [h_lib hlib l_dir l_dds set_lastref set_dds] in *. rewrite Hput.
    apply (DirCoh_other k b (l_dds (h_lib h))); [apply (HD k b Hkk Hb)|].
    intros d Htg. rewrite in_app_iff. split; [intros [X|[<-|[]]]; [assumption|]|auto].
    exfalso. apply (K6 k Hkk). symmetry. exact Htg.
Qed.

(* ================= 7. DFANlablist ============================================================================ *)
Lemma filter_length_le' : forall A (f : A -> bool) l, (length (filter f l) <= length l)%nat.
Proof. induction l; simpl; [lia|]. destruct (f a); simpl; lia. Qed.

Lemma Forall2_map_in : forall A (f : A -> list (list Z)) (g : A -> list Z) l,
  (forall x, In x l -> In (g x) (f x)) -> Forall2 (fun alts b => In b alts) (map f l) (map g l).
Proof. induction l; simpl; intros H; constructor; auto. Qed.

Lemma locate0_spec : forall s kind s' r, kind_ok kind -> DirOK s -> l_dir s kind = None ->
  zlen (of_tag (dfan_tag kind) (l_dds s)) <> 0 -> DFANIlocate s kind 0 0 = (s', r) ->
  r = 1 /\ DirOK s' /\ l_dds s' = l_dds s /\ same_tables s s' /\ exists b, l_dir s' kind = Some b.
Proof.
  intros s kind s' r Hk HD Hn Hz H. destruct (DFANIlocate_frame _ _ _ _ _ _ H) as [F Dd]. unfold DFANIlocate in H. rewrite Hn in H.
  rewrite (proj2 (Z.eqb_neq _ 0) Hz) in H. cbv beta iota zeta in H. cbn [negb] in H. cbv beta iota in H. rewrite Z.eqb_refl in H.
  inversion H; subst s' r. split; [reflexivity|]. split; [|split; [reflexivity|split; [repeat split|]]].
  - intros k b Hkk Hb. destruct (Z.eq_dec k kind) as [->|N].
    + cbn [l_dir set_dir] in Hb. rewrite upd_same in Hb. inversion Hb; subst b. cbn [l_dds set_dir]. split.
      * intros e Hin Hnz. cbn [concat] in Hin. rewrite app_nil_r in Hin. apply in_map_iff in Hin. destruct Hin as [d [E Hd]]. subst e.
        apply of_tag_In in Hd. destruct Hd. exists d. split; [assumption|]. split; [assumption|]. split; [reflexivity|]. cbn [de_tag de_ref]. apply surjective_pairing.
      * intros d Hd Ht. eexists. split; [cbn [concat]; rewrite app_nil_r; apply in_map; unfold of_tag; apply filter_In; split; [exact Hd | apply Z.eqb_eq; exact Ht]|].
        cbn [de_annref de_tag de_ref]. split; [reflexivity | symmetry; apply surjective_pairing].
    + cbn [l_dir set_dir] in Hb. rewrite upd_other in Hb by assumption. apply (HD k b Hkk Hb).
  - eexists. cbn [l_dir set_dir]. apply upd_same.
Qed.

Definition ltrunc (maxlen : Z) (t : list Z) : list Z := firstn (Z.to_nat (maxlen - 1)) t.

Lemma label_for_spec : forall s tag r maxlen blocks, 1 <= maxlen -> tag <> 0 -> TF s -> (forall d, In d (l_dds s) -> 1 <= d_ref d <= MAX_REF) ->
  DirCoh DFAN_LABEL blocks (l_dds s) ->
  let good d := In d (l_dds s) /\ d_tag d = DFTAG_DIL /\ decode_target (d_data d) = (tag, r) in
  ((exists d, good d) -> exists d, good d /\ label_for s tag r maxlen blocks = ltrunc maxlen (skipn 4 (d_data d))) /\
  ((forall d, ~ good d) -> label_for s tag r maxlen blocks = []).
Proof.
  intros s tag r maxlen blocks Hm Htag HT Hrefs [Ca Cb] good. unfold label_for.
  set (f := fun acc e => if (de_tag e =? tag) && (de_ref e =? r)
                         then match hfind DFTAG_DIL (de_annref e) (l_dds s) with
                              | Some d => if 1 <? maxlen then firstn (Z.to_nat (maxlen - 1)) (skipn 4 (d_data d)) else []
                              | None => acc end else acc).
  set (T := fun acc => exists d, good d /\ acc = ltrunc maxlen (skipn 4 (d_data d))).
  assert (Htr : forall d, (if 1 <? maxlen then firstn (Z.to_nat (maxlen - 1)) (skipn 4 (d_data d)) else []) = ltrunc maxlen (skipn 4 (d_data d))).
  { intros d. unfold ltrunc. destruct (1 <? maxlen) eqn:E; [reflexivity|]. apply Z.ltb_ge in E. replace (maxlen - 1) with 0 by lia. reflexivity. }
  assert (Hstep : forall acc e, In e (concat blocks) -> (f acc e = acc \/ T (f acc e)) /\ (T acc -> T (f acc e))).
  { intros acc e He. unfold f. destruct ((de_tag e =? tag) && (de_ref e =? r)) eqn:Em; [|split; auto].
    apply andb_true_iff in Em. destruct Em as [E1 E2]. apply Z.eqb_eq in E1. apply Z.eqb_eq in E2.
    destruct (hfind DFTAG_DIL (de_annref e) (l_dds s)) as [d|] eqn:Eh; [|split; auto].
    apply hfind_some in Eh. destruct Eh as [D1 [D2 D3]].
    assert (Nz : de_annref e <> 0) by (pose proof (Hrefs d D1); lia).
    destruct (Ca e He Nz) as [d' [X1 [X2 [X3 X4]]]].
    assert (d' = d) by (apply (NoDup_map_inj _ _ ddkey (l_dds s)); [apply (tf_nodup _ HT) | assumption | assumption | unfold ddkey; rewrite X2, X3, D2, D3; reflexivity]).
    subst d'. assert (Tn : T (ltrunc maxlen (skipn 4 (d_data d)))) by (exists d; split; [split; [assumption | split; [assumption | rewrite X4; congruence]] | reflexivity]).
    rewrite Htr. split; [right; exact Tn | intros _; exact Tn]. }
  assert (Hgoodstep : forall acc e d, In e (concat blocks) -> good d -> de_annref e = d_ref d -> (de_tag e, de_ref e) = decode_target (d_data d) -> T (f acc e)).
  { intros acc e d He [G1 [G2 G3]] E1 E2. unfold f. rewrite G3 in E2. inversion E2. rewrite !Z.eqb_refl. cbn [andb].
    rewrite E1. rewrite (hfind_In DFTAG_DIL (d_ref d) (l_dds s) d (tf_nodup _ HT) G1 G2 eq_refl). rewrite Htr. exists d. split; [split; auto | reflexivity]. }
  assert (Hfold : forall L acc, incl L (concat blocks) ->
            (fold_left f L acc = acc \/ T (fold_left f L acc)) /\ (T acc -> T (fold_left f L acc)) /\
            (forall e d, In e L -> good d -> de_annref e = d_ref d -> (de_tag e, de_ref e) = decode_target (d_data d) -> T (fold_left f L acc))).
  { induction L as [|e L IH]; intros acc Hinc; simpl.
    - split; [left; reflexivity|]. split; [auto|]. intros e d [].
    - assert (He : In e (concat blocks)) by (apply Hinc; left; reflexivity).
      assert (Hinc' : incl L (concat blocks)) by (intros x Hx; apply Hinc; right; assumption).
      destruct (IH (f acc e) Hinc') as [I1 [I2 I3]]. destruct (Hstep acc e He) as [S1 S2]. split; [|split].
      + destruct I1 as [I1|I1]; [rewrite I1; destruct S1 as [S1|S1]; [left; assumption | right; assumption] | right; assumption].
      + intros Ta. apply I2. apply S2. assumption.
      + intros e0 d [<-|Hin] Gd E1 E2; [apply I2; eapply Hgoodstep; eassumption | eapply I3; eassumption]. }
  destruct (Hfold (concat blocks) [] (incl_refl _)) as [F1 [_ F3]]. split.
  - intros [d Gd]. destruct Gd as [G1 [G2 G3]]. destruct (Cb d G1 G2) as [e [E1 [E2 E3]]].
    destruct (F3 e d E1 (conj G1 (conj G2 G3)) E2 E3) as [d' [Gd' Eq]]. exists d'. split; [assumption | exact Eq].
  - intros Hno. destruct F1 as [F1|[d [Gd _]]]; [exact F1 | exfalso; apply (Hno d Gd)].
Qed.

Lemma sim_dflablist : forall h a tag maxlen h' mr a' sr, SimD h a ->
  mstep h (ODfLablist tag maxlen) = (h', mr) -> step a (ODfLablist tag maxlen) = (a', sr) ->
  sr = RUnspec \/ (SimD h' a' /\ accepts_full sr mr).
Proof.
  intros h a tag maxlen h' mr a' sr [HS HD] HM HSp. unfold mstep in HM. cbv beta iota zeta in HM. unfold step in HSp. cbv beta iota zeta in HSp.
  rewrite (sim_sess _ _ HS) in HSp. destruct (h_sess h) eqn:Es; [inversion HSp; left; reflexivity|]. specialize (HD eq_refl).
  pose proof (sim_good _ _ HS) as HG. pose proof HG as [HI HT].
  assert (Hkl : kind_ok DFAN_LABEL) by (left; reflexivity).
  unfold DFANIlablist in HM.
  destruct (tag =? 0) eqn:Etag.
  { inversion HM; inversion HSp; subst. right. split; [|left; exact I]. split; [destruct h; exact HS | intros _; exact HD]. }
  apply Z.eqb_neq in Etag.
  destruct (maxlen <? 1) eqn:Em; [inversion HSp; left; reflexivity|]. apply Z.ltb_ge in Em.
  set (orefs := map snd (filter (fun o => fst o =? tag) objects)) in *.
  assert (Hfirst : firstn 8 orefs = orefs).
  { apply firstn_all2. unfold orefs. rewrite map_length. pose proof (filter_length_le' _ (fun o => fst o =? tag) objects) as X.
    change (length objects) with 6%nat in X. lia. }
  rewrite Hfirst in HM.
  destruct (zlen orefs =? 0) eqn:Eo.
  { inversion HM; inversion HSp; subst. right. split; [|left; exact I]. split; [destruct h; exact HS | intros _; exact HD]. }
  (* what the specification allows for one object ref *)
  set (alts := fun r0 => match on_target AN_DATA_LABEL tag r0 (anns a) with
                         | [] => [[]] | l => map (fun a0 => firstn (Z.to_nat (maxlen - 1)) (text_of a0)) l end) in *.
  assert (Hont : forall r0 x, In x (on_target AN_DATA_LABEL tag r0 (anns a)) <->
            exists d, In d (l_dds (h_lib h)) /\ d_tag d = DFTAG_DIL /\ decode_target (d_data d) = (tag, r0) /\ x = dann DFAN_LABEL d).
  { intros r0 x. exact (on_target_closed h a DFAN_LABEL tag r0 HS Es Hkl x). }
  destruct (hnumber DFTAG_DIL (l_dds (h_lib h)) =? 0) eqn:Eh.
  - (* no label in the file at all *)
    apply Z.eqb_eq in Eh. inversion HM; inversion HSp; subst h' mr a' sr. right. split; [split; [destruct h; exact HS | intros _; exact HD]|].
    left. unfold accepts. split; [left; reflexivity|]. apply Forall2_map_in. intros r0 _. unfold alts.
    destruct (on_target AN_DATA_LABEL tag r0 (anns a)) as [|x l] eqn:E; [left; reflexivity|]. exfalso.
    assert (Hin : In x (x :: l)) by (left; reflexivity). rewrite <- E in Hin. destruct (proj1 (Hont r0 x) Hin) as [d [D1 [D2 _]]].
    unfold hnumber in Eh. assert (In d (of_tag DFTAG_DIL (l_dds (h_lib h)))) by (unfold of_tag; apply filter_In; split; [assumption | apply Z.eqb_eq; assumption]).
    destruct (of_tag DFTAG_DIL (l_dds (h_lib h))); [contradiction | unfold zlen in Eh; simpl in Eh; lia].
  - apply Z.eqb_neq in Eh.
    assert (Hloc : exists s1 blocks, (match l_dir (h_lib h) DFAN_LABEL with None => DFANIlocate (h_lib h) DFAN_LABEL 0 0 | Some _ => (h_lib h, 1) end) = (s1, 1) /\
                    DirOK s1 /\ l_dds s1 = l_dds (h_lib h) /\ same_tables (h_lib h) s1 /\ l_dir s1 DFAN_LABEL = Some blocks).
    { destruct (l_dir (h_lib h) DFAN_LABEL) as [b|] eqn:Ed.
      - exists (h_lib h), b. split; [reflexivity|]. split; [assumption|]. split; [reflexivity|]. split; [apply same_tables_refl | assumption].
      - destruct (DFANIlocate (h_lib h) DFAN_LABEL 0 0) as [s1 r1] eqn:El.
        destruct (locate0_spec _ _ _ _ Hkl HD Ed Eh El) as [-> [A [B [C [b D]]]]]. exists s1, b. auto. }
    destruct Hloc as [s1 [blocks [Hl [HD1 [Hdd [F Hdir]]]]]]. rewrite Hl in HM. cbv beta iota in HM. rewrite Hdir in HM.
    change (1 =? 0) with false in HM. cbv beta iota in HM.
    inversion HM; inversion HSp; subst h' mr a' sr. right. split.
    + split; [apply (Sim_transfer h a s1 HS F Hdd) | intros _; exact HD1].
    + left. unfold accepts. split; [left; reflexivity|]. apply Forall2_map_in. intros r0 _. unfold alts.
      assert (HT1 : TF s1) by (destruct F as [F1 [F2 [F3 F4]]]; apply (TF_ext (h_lib h)); auto).
      assert (Hr1 : forall d, In d (l_dds s1) -> 1 <= d_ref d <= MAX_REF) by (rewrite Hdd; apply (inv_refs _ HI)).
      pose proof (HD1 DFAN_LABEL blocks Hkl Hdir) as Hcoh.
      destruct (label_for_spec s1 tag r0 maxlen blocks Em Etag HT1 Hr1 Hcoh) as [L1 L2]. rewrite Hdd in L1, L2.
      destruct (on_target AN_DATA_LABEL tag r0 (anns a)) as [|x l] eqn:E.
      * rewrite L2; [left; reflexivity|]. intros d [G1 [G2 G3]].
        assert (Hin : In (dann DFAN_LABEL d) (on_target AN_DATA_LABEL tag r0 (anns a))) by (apply (proj2 (Hont r0 _)); exists d; auto).
        rewrite E in Hin. contradiction.
      * assert (Hin : In x (x :: l)) by (left; reflexivity). rewrite <- E in Hin. destruct (proj1 (Hont r0 x) Hin) as [d [D1 [D2 [D3 _]]]].
        destruct (L1 (ex_intro _ d (conj D1 (conj D2 D3)))) as [d' [[G1 [G2 G3]] Eq]]. rewrite Eq.
        assert (Hin' : In (dann DFAN_LABEL d') (on_target AN_DATA_LABEL tag r0 (anns a))) by (apply (proj2 (Hont r0 _)); exists d'; auto).
        rewrite E in Hin'. apply in_map_iff. exists (dann DFAN_LABEL d'). split; [reflexivity | exact Hin'].
Qed.

(* ================= 8. the enumeration of file labels / descriptions ============================================ *)
Lemma dd_after_spec : forall pre d post, NoDup (map d_ref (pre ++ d :: post)) -> dd_after (d_ref d) (pre ++ d :: post) = hd_error post.
Proof.
  induction pre as [|x pre IH]; simpl; intros d post ND.
  - rewrite Z.eqb_refl. reflexivity.
  - inversion ND as [|? ? Hn ND']; subst. destruct (d_ref x =? d_ref d) eqn:E; [|apply IH; assumption].
    apply Z.eqb_eq in E. exfalso. apply Hn. rewrite E. rewrite map_app. apply in_or_app. right. left. reflexivity.
Qed.

(** the enumeration functions in the form the proofs use: one cursor and one flag per kind, a restart on isfirst.
    [getfannlen_eq]/[getfann_eq] show that the model -- which takes the choice of the static cell, the restart test,
    the exhaustion test and the start ref from dfan.c (Gen_AN: FLEN_.., FGET_..) -- is exactly this; an edit of
    dfan.c that makes a statement use the other kind's cursor or flag, or drops a restart, breaks these two lemmas. *)
Definition fann_lookup (s : lstate) (kind : Z) (isfirst : bool) : option dd :=
  if isfirst then hd_error (of_tag (fann_tag kind) (l_dds s)) else hfind (fann_tag kind) (l_nextf s kind) (l_dds s).
Definition getfannlen_simple (s : lstate) (kind : Z) (isfirst : bool) : lstate * Z :=
  let s0 := if isfirst then set_enum s kind (l_nextf s kind) false else s in
  if negb isfirst && l_nomore s0 kind then (s0, FAILV) else
  match fann_lookup s0 kind isfirst with
  | None => (s0, FAILV)
  | Some d => (set_lastref (set_enum s0 kind (d_ref d) (l_nomore s0 kind)) (d_ref d), zlen (d_data d))
  end.
Definition getfann_simple (s : lstate) (kind : Z) (isfirst : bool) : lstate * option (list Z) :=
  let s0 := if isfirst then set_enum s kind (l_nextf s kind) false else s in
  if negb isfirst && l_nomore s0 kind then (s0, None) else
  match fann_lookup s0 kind isfirst with
  | None => (s0, None)
  | Some d =>
      let s1 := match dd_after (d_ref d) (of_tag (fann_tag kind) (l_dds s0)) with
                | None => set_enum s0 kind (l_nextf s0 kind) true
                | Some d' => set_enum s0 kind (d_ref d') (l_nomore s0 kind)
                end in
      (set_lastref s1 (d_ref d), Some (d_data d))
  end.

Lemma getfannlen_eq : forall s kind isfirst, kind_ok kind -> (isfirst = false -> l_nextf s kind <> 0) ->
  DFANIgetfannlen s kind isfirst = getfannlen_simple s kind isfirst.
Proof.
  intros s kind isfirst [-> | ->] Hn; destruct isfirst; unfold DFANIgetfannlen, getfannlen_simple, fann_lookup, fann_find, fann_tag;
  cbv delta [FLEN_restart FLEN_restart_label FLEN_exhausted FLEN_type_label FLEN_start_label FLEN_start_desc FLEN_write_label sel truth b2z DFAN_LABEL DFAN_DESC] beta;
  cbn [negb andb]; cbn; try reflexivity;
  (specialize (Hn eq_refl); cbv delta [DFAN_LABEL DFAN_DESC] in Hn; rewrite (proj2 (Z.eqb_neq _ _) Hn);
   match goal with |- context [l_nomore s ?k] => destruct (l_nomore s k) end; reflexivity).
Qed.

Lemma getfann_eq : forall s kind isfirst, kind_ok kind -> (isfirst = false -> l_nextf s kind <> 0) ->
  DFANIgetfann s kind isfirst = getfann_simple s kind isfirst.
Proof.
  intros s kind isfirst [-> | ->] Hn; destruct isfirst; unfold DFANIgetfann, getfann_simple, fann_lookup, fann_find, fann_tag;
  cbv delta [FGET_restart FGET_restart_label FGET_exhausted FGET_type_label FGET_start_label FGET_start_desc FGET_end_label FGET_next_label sel truth b2z DFAN_LABEL DFAN_DESC] beta;
  cbn [negb andb]; cbn; try reflexivity;
  (specialize (Hn eq_refl); cbv delta [DFAN_LABEL DFAN_DESC] in Hn; rewrite (proj2 (Z.eqb_neq _ _) Hn);
   match goal with |- context [l_nomore s ?k] => destruct (l_nomore s k) end; reflexivity).
Qed.

Lemma enum_round_simple : forall s kind (isfirst : bool) pre d post,
  NoDup (map ddkey (l_dds s)) -> of_tag (fann_tag kind) (l_dds s) = pre ++ d :: post ->
  ((isfirst = true /\ pre = []) \/ (isfirst = false /\ l_nextf s kind = d_ref d /\ l_nomore s kind = false)) ->
  exists s1 s2, getfannlen_simple s kind isfirst = (s1, zlen (d_data d)) /\ getfann_simple s1 kind isfirst = (s2, Some (d_data d)) /\
    l_dds s2 = l_dds s /\ l_nextf s1 kind = d_ref d /\
    match post with [] => l_nomore s2 kind = true | d' :: _ => l_nextf s2 kind = d_ref d' /\ l_nomore s2 kind = false end.
Proof.
  intros s kind isfirst pre d post ND Hels Hc.
  assert (Hd : In d (of_tag (fann_tag kind) (l_dds s))) by (rewrite Hels; apply in_or_app; right; left; reflexivity).
  apply of_tag_In in Hd. destruct Hd as [Hd Ht].
  pose proof (hfind_In _ _ _ d ND Hd Ht eq_refl) as Hf.
  assert (NDr : NoDup (map d_ref (pre ++ d :: post))) by (rewrite <- Hels; apply of_tag_refs_NoDup; assumption).
  pose proof (dd_after_spec pre d post NDr) as Ha. rewrite <- Hels in Ha.
  destruct Hc as [[-> ->]|[-> [Hn Hm]]].
  - (* isfirst *)
    simpl in Hels. rewrite Hels in Ha. unfold getfannlen_simple, getfann_simple, fann_lookup. cbn [negb andb l_dds set_enum set_lastref]. rewrite Hels. cbn [hd_error].
    destruct post as [|d' post']; (eexists; eexists; split; [reflexivity|]; split;
      [cbn [negb andb l_dds l_nomore l_nextf set_enum set_lastref]; rewrite ?Hels; cbn [hd_error]; rewrite Ha; cbn [hd_error]; reflexivity|];
      split; [reflexivity|]; split; [cbn [l_nextf set_enum set_lastref]; apply upd_same|]; cbn [l_nomore l_nextf set_enum set_lastref]; rewrite ?upd_same; auto).
  - unfold getfannlen_simple, getfann_simple, fann_lookup. cbn [negb andb]. rewrite Hm, Hn, Hf. cbn [andb].
    destruct post as [|d' post']; (eexists; eexists; split; [reflexivity|]; split;
      [cbn [l_nomore l_nextf l_dds set_enum set_lastref]; rewrite !upd_same, Hf; cbn [andb]; rewrite Ha; cbn [hd_error]; reflexivity|];
      split; [reflexivity|]; split; [cbn [l_nextf set_enum set_lastref]; apply upd_same|]; cbn [l_nomore l_nextf set_enum set_lastref]; rewrite ?upd_same; auto).
Qed.

Lemma enum_round : forall s kind (isfirst : bool) pre d post, kind_ok kind -> (forall x, In x (l_dds s) -> 1 <= d_ref x) ->
  NoDup (map ddkey (l_dds s)) -> of_tag (fann_tag kind) (l_dds s) = pre ++ d :: post ->
  ((isfirst = true /\ pre = []) \/ (isfirst = false /\ l_nextf s kind = d_ref d /\ l_nomore s kind = false)) ->
  exists s1 s2, DFANIgetfannlen s kind isfirst = (s1, zlen (d_data d)) /\ DFANIgetfann s1 kind isfirst = (s2, Some (d_data d)) /\
    l_dds s2 = l_dds s /\
    match post with [] => l_nomore s2 kind = true | d' :: _ => l_nextf s2 kind = d_ref d' /\ l_nomore s2 kind = false end.
Proof.
  intros s kind isfirst pre d post Hk Hrefs ND Hels Hc.
  assert (Hd : 1 <= d_ref d).
  { apply Hrefs. assert (X : In d (of_tag (fann_tag kind) (l_dds s))) by (rewrite Hels; apply in_or_app; right; left; reflexivity).
    apply of_tag_In in X. tauto. }
  destruct (enum_round_simple s kind isfirst pre d post ND Hels Hc) as [s1 [s2 [R1 [R2 [A [B C]]]]]].
  exists s1, s2. split; [|split; [|split; assumption]].
  - rewrite getfannlen_eq; [exact R1 | assumption|]. intros ->. destruct Hc as [[X _]|[_ [X _]]]; [discriminate | rewrite X; lia].
  - rewrite getfann_eq; [exact R2 | assumption|]. intros _. rewrite B. lia.
Qed.

Lemma exhausted_fails : forall s kind, kind_ok kind -> l_nomore s kind = true -> DFANIgetfannlen s kind false = (s, FAILV).
Proof.
  intros s kind [-> | ->] Hm; unfold DFANIgetfannlen;
  cbv delta [FLEN_restart FLEN_restart_label FLEN_exhausted FLEN_type_label FLEN_start_label FLEN_start_desc FLEN_write_label sel truth b2z DFAN_LABEL DFAN_DESC] beta;
  cbn [negb andb]; cbn; cbv delta [DFAN_LABEL DFAN_DESC] in Hm; rewrite Hm; reflexivity.
Qed.

Lemma enum_from : forall post fuel s kind isfirst pre d, kind_ok kind -> (forall x, In x (l_dds s) -> 1 <= d_ref x) ->
  NoDup (map ddkey (l_dds s)) -> of_tag (fann_tag kind) (l_dds s) = pre ++ d :: post ->
  ((isfirst = true /\ pre = []) \/ (isfirst = false /\ l_nextf s kind = d_ref d /\ l_nomore s kind = false)) ->
  (length post < fuel)%nat ->
  exists s', enum_fann fuel s kind isfirst = (s', Some (map d_data (d :: post))) /\ l_dds s' = l_dds s /\ same_tables s s'.
Proof.
  induction post as [|d' post IH]; intros fuel s kind isfirst pre d Hk Hrefs ND Hels Hc Hf; (destruct fuel as [|f]; [simpl in Hf; lia|]).
  - destruct (enum_round s kind isfirst pre d [] Hk Hrefs ND Hels Hc) as [s1 [s2 [R1 [R2 [Hd Hm]]]]].
    destruct (getfannlen_frame _ _ _ _ _ R1) as [F1 _]. destruct (getfann_frame _ _ _ _ _ R2) as [F2 _].
    cbn [enum_fann]. rewrite R1. replace (zlen (d_data d) <? 0) with false by (symmetry; apply Z.ltb_ge; unfold zlen; lia). rewrite R2.
    assert (E : enum_fann f s2 kind false = (s2, Some [])).
    { destruct f; [reflexivity|]. cbn [enum_fann]. rewrite (exhausted_fails s2 kind Hk Hm). reflexivity. }
    rewrite E. exists s2. split; [reflexivity|]. split; [assumption | eapply same_tables_trans; eassumption].
  - destruct (enum_round s kind isfirst pre d (d' :: post) Hk Hrefs ND Hels Hc) as [s1 [s2 [R1 [R2 [Hd [Hn Hm]]]]]].
    destruct (getfannlen_frame _ _ _ _ _ R1) as [F1 _]. destruct (getfann_frame _ _ _ _ _ R2) as [F2 _].
    cbn [enum_fann]. rewrite R1. replace (zlen (d_data d) <? 0) with false by (symmetry; apply Z.ltb_ge; unfold zlen; lia). rewrite R2.
    destruct (IH f s2 kind false (pre ++ [d]) d') as [s' [E [Hd' F3]]].
    + assumption.
    + rewrite Hd. assumption.
    + rewrite Hd. assumption.
    + rewrite Hd, Hels, <- app_assoc. reflexivity.
    + right. auto.
    + simpl in Hf. lia.
    + rewrite E. exists s'. split; [reflexivity|]. split; [congruence|]. eapply same_tables_trans; [eapply same_tables_trans|]; eassumption.
Qed.

Lemma getfannlen_dir : forall s k f s' n, DFANIgetfannlen s k f = (s', n) -> l_dir s' = l_dir s.
Proof. intros s k f s' n H. unfold DFANIgetfannlen in H. destruct f; simpl in H; repeat dmatch H; inversion H; subst; reflexivity. Qed.
Lemma getfann_dir : forall s k f s' r, DFANIgetfann s k f = (s', r) -> l_dir s' = l_dir s.
Proof.
  intros s k f s' r H. unfold DFANIgetfann in H.
  destruct f; simpl in H; repeat dmatch H; inversion H; subst; try reflexivity; simpl; destruct (dd_after _ _); reflexivity.
Qed.
Lemma enum_fann_dir : forall fuel s k f s' r, enum_fann fuel s k f = (s', r) -> l_dir s' = l_dir s.
Proof.
  induction fuel as [|n IH]; simpl; intros s k f s' r H; [inversion H; reflexivity|].
  destruct (DFANIgetfannlen s k f) as [s1 len] eqn:E1. pose proof (getfannlen_dir _ _ _ _ _ E1) as D1.
  destruct (len <? 0); [inversion H; subst; assumption|].
  destruct (DFANIgetfann s1 k f) as [s2 [t|]] eqn:E2; pose proof (getfann_dir _ _ _ _ _ E2) as D2.
  - destruct (enum_fann n s2 k false) as [s3 [l|]] eqn:E3; pose proof (IH _ _ _ _ _ E3) as D3; inversion H; subst; congruence.
  - inversion H; subst. congruence.
Qed.

Definition enum_capped (a : state) (o : op) : Prop :=
  match o with ODfGetFs kind => 400 <= zlen (of_type (dfan_kind_ftype kind) (anns a)) | _ => False end.

Lemma NoDup_anns : forall l, NoDup (keys l) -> NoDup l.
Proof. intros l H. apply (NoDup_map_inv a_key). exact H. Qed.

Lemma sim_dfgetfs_S : forall h a kind h' mr a' sr, Sim h a -> kind_ok kind ->
  mstep h (ODfGetFs kind) = (h', mr) -> step a (ODfGetFs kind) = (a', sr) ->
  sr = RUnspec \/ enum_capped a (ODfGetFs kind) \/
  (Sim h' a' /\ accepts_full sr mr /\ l_dir (h_lib h') = l_dir (h_lib h) /\ l_dds (h_lib h') = l_dds (h_lib h)).
Proof.
  intros h a kind h' mr a' sr HS Hk HM HSp. unfold mstep in HM. cbv beta iota zeta in HM. unfold step in HSp. cbv beta iota zeta in HSp.
  rewrite (sim_sess _ _ HS) in HSp. destruct (h_sess h) eqn:Es; [inversion HSp; left; reflexivity|].
  pose proof (sim_good _ _ HS) as HG. pose proof HG as [HI HT]. destruct (sim_closed _ _ HS Es) as [C1 C2].
  destruct (ftype_facts kind Hk) as [K1 [K2 [K3 [K4 [K5 K6]]]]]. set (t := dfan_kind_ftype kind) in *.
  change (if kind =? DFAN_LABEL then DFTAG_FID else DFTAG_FD) with (fann_tag kind) in *. set (tag := fann_tag kind) in *.
  set (els := of_tag tag (l_dds (h_lib h))).
  assert (Hrepr : forall x, In x (anns a) <-> In x (map ann_of (l_dds (h_lib h)))).
  { intros x. rewrite (sim_repr _ _ HS). apply closed_repr_iff; assumption. }
  (* the specification's list of file annotations is a permutation of the descriptors of the tag *)
  assert (Hperm : Permutation (map ann_of els) (of_type t (anns a))).
  { apply NoDup_Permutation.
    - apply NoDup_map_in.
      + apply (NoDup_map_inv d_ref). apply of_tag_refs_NoDup. apply (tf_nodup _ HT).
      + intros x y Hx Hy E. apply of_tag_In in Hx. apply of_tag_In in Hy. destruct Hx as [Hx Tx]. destruct Hy as [Hy Ty].
        apply (NoDup_map_inj _ _ ddkey (l_dds (h_lib h))); [apply (tf_nodup _ HT) | assumption | assumption|].
        unfold ann_of in E. inversion E. unfold ddkey. congruence.
    - apply NoDup_anns. apply NoDup_filter_keys. apply (sim_nodup _ _ HS).
    - intros x. unfold of_type. rewrite filter_In, Hrepr, !in_map_iff. split.
      + intros [d [E Hd]]. apply of_tag_In in Hd. destruct Hd as [Hd Td]. split; [exists d; auto|]. subst x. unfold ann_of. cbn [a_key fst].
        rewrite Td. fold tag. apply Z.eqb_eq. exact K5.
      + intros [[d [E Hd]] Hty]. exists d. split; [assumption|]. unfold els, of_tag. apply filter_In. split; [assumption|]. apply Z.eqb_eq.
        subst x. unfold ann_of in Hty. cbn [a_key fst] in Hty. apply Z.eqb_eq in Hty. destruct (tf_tags _ HT d Hd) as [ty [Ty Gy]].
        rewrite Gy, ty_of_tag_of_type in Hty by assumption. subst ty. rewrite Gy. symmetry. exact K2. }
  assert (Htext : forall d, In d els -> text_of (ann_of d) = d_data d).
  { intros d Hd. apply of_tag_In in Hd. destruct Hd as [_ Td]. unfold ann_of, text_of, payload_text. cbn [a_text]. rewrite Td. fold tag. rewrite K4. reflexivity. }
  assert (Hbufs : Permutation (map (fun tx => [tx]) (map d_data els)) (map (fun a0 => [text_of a0]) (of_type t (anns a)))).
  { rewrite map_map. apply (Permutation_map (fun a0 => [text_of a0])) in Hperm. rewrite map_map in Hperm.
    erewrite map_ext_in; [exact Hperm|]. intros d Hd. cbv beta. rewrite (Htext d Hd). reflexivity. }
  assert (Hlen : zlen (map d_data els) = zlen (of_type t (anns a))).
  { apply Permutation_length in Hperm. unfold zlen. rewrite !map_length in *. lia. }
  destruct els as [|d post] eqn:Eels.
  - (* no file annotation of this kind *)
    assert (HM' : exists s0, enum_fann 400 (h_lib h) kind true = (s0, Some []) /\ same_tables (h_lib h) s0 /\ l_dds s0 = l_dds (h_lib h) /\ l_dir s0 = l_dir (h_lib h)).
    { eexists. split; [|split; [|split]].
      - cbn [enum_fann]. rewrite (getfannlen_eq (h_lib h) kind true Hk ltac:(discriminate)). unfold getfannlen_simple, fann_lookup. cbn [negb andb l_dds set_enum]. fold tag. unfold els in Eels. rewrite Eels. cbn [hd_error]. reflexivity.
      - repeat split. - reflexivity. - reflexivity. }
    destruct HM' as [s0 [E0 [F0 [D0 Dr0]]]]. rewrite E0 in HM. inversion HM; inversion HSp; subst h' mr a' sr. right. right.
    split; [apply Sim_transfer; assumption|]. split; [|split; assumption].
    left. unfold accepts. simpl in Hlen. split; [left; congruence|]. destruct (of_type t (anns a)); [constructor | unfold zlen in Hlen; simpl in Hlen; lia].
  - destruct (le_lt_dec 400 (length post)) as [Hcap|Hcap].
    + right. left. unfold enum_capped. change (400 <= zlen (of_type t (anns a))). rewrite <- Hlen. unfold zlen. rewrite map_length. simpl. lia.
    + destruct (enum_from post 400 (h_lib h) kind true [] d Hk (fun x Hx => proj1 (inv_refs _ HI x Hx)) (tf_nodup _ HT) Eels (or_introl (conj eq_refl eq_refl)) Hcap) as [s' [E [Hd' F']]].
      rewrite E in HM. inversion HM; inversion HSp; subst h' mr a' sr. right. right.
      pose proof (enum_fann_dir _ _ _ _ _ _ E) as Hdir.
      split; [apply Sim_transfer; assumption|]. split; [|split; assumption].
      right. right. eexists _, _, _. split; [rewrite <- Hlen; reflexivity|]. split; [reflexivity | exact Hbufs].
Qed.

Lemma sim_dfgetfs : forall h a kind h' mr a' sr, SimD h a -> kind_ok kind ->
  mstep h (ODfGetFs kind) = (h', mr) -> step a (ODfGetFs kind) = (a', sr) ->
  sr = RUnspec \/ enum_capped a (ODfGetFs kind) \/ (SimD h' a' /\ accepts_full sr mr).
Proof.
  intros h a kind h' mr a' sr [HS HD] Hk HM HSp. unfold mstep in HM. cbv beta iota zeta in HM. unfold step in HSp. cbv beta iota zeta in HSp.
  rewrite (sim_sess _ _ HS) in HSp. destruct (h_sess h) eqn:Es; [inversion HSp; left; reflexivity|]. specialize (HD eq_refl).
  pose proof (sim_good _ _ HS) as HG. pose proof HG as [HI HT]. destruct (sim_closed _ _ HS Es) as [C1 C2].
  destruct (ftype_facts kind Hk) as [K1 [K2 [K3 [K4 [K5 K6]]]]]. set (t := dfan_kind_ftype kind) in *.
  change (if kind =? DFAN_LABEL then DFTAG_FID else DFTAG_FD) with (fann_tag kind) in *. set (tag := fann_tag kind) in *.
  set (els := of_tag tag (l_dds (h_lib h))).
  assert (Hrepr : forall x, In x (anns a) <-> In x (map ann_of (l_dds (h_lib h)))).
  { intros x. rewrite (sim_repr _ _ HS). apply closed_repr_iff; assumption. }
  (* the specification's list of file annotations is a permutation of the descriptors of the tag *)
  assert (Hperm : Permutation (map ann_of els) (of_type t (anns a))).
  { apply NoDup_Permutation.
    - apply NoDup_map_in.
      + apply (NoDup_map_inv d_ref). apply of_tag_refs_NoDup. apply (tf_nodup _ HT).
      + intros x y Hx Hy E. apply of_tag_In in Hx. apply of_tag_In in Hy. destruct Hx as [Hx Tx]. destruct Hy as [Hy Ty].
        apply (NoDup_map_inj _ _ ddkey (l_dds (h_lib h))); [apply (tf_nodup _ HT) | assumption | assumption|].
        unfold ann_of in E. inversion E. unfold ddkey. congruence.
    - apply NoDup_anns. apply NoDup_filter_keys. apply (sim_nodup _ _ HS).
    - intros x. unfold of_type. rewrite filter_In, Hrepr, !in_map_iff. split.
      + intros [d [E Hd]]. apply of_tag_In in Hd. destruct Hd as [Hd Td]. split; [exists d; auto|]. subst x. unfold ann_of. cbn [a_key fst].
        rewrite Td. fold tag. apply Z.eqb_eq. exact K5.
      + intros [[d [E Hd]] Hty]. exists d. split; [assumption|]. unfold els, of_tag. apply filter_In. split; [assumption|]. apply Z.eqb_eq.
        subst x. unfold ann_of in Hty. cbn [a_key fst] in Hty. apply Z.eqb_eq in Hty. destruct (tf_tags _ HT d Hd) as [ty [Ty Gy]].
        rewrite Gy, ty_of_tag_of_type in Hty by assumption. subst ty. rewrite Gy. symmetry. exact K2. }
  assert (Htext : forall d, In d els -> text_of (ann_of d) = d_data d).
  { intros d Hd. apply of_tag_In in Hd. destruct Hd as [_ Td]. unfold ann_of, text_of, payload_text. cbn [a_text]. rewrite Td. fold tag. rewrite K4. reflexivity. }
  assert (Hbufs : Permutation (map (fun tx => [tx]) (map d_data els)) (map (fun a0 => [text_of a0]) (of_type t (anns a)))).
  { rewrite map_map. apply (Permutation_map (fun a0 => [text_of a0])) in Hperm. rewrite map_map in Hperm.
    erewrite map_ext_in; [exact Hperm|]. intros d Hd. cbv beta. rewrite (Htext d Hd). reflexivity. }
  assert (Hlen : zlen (map d_data els) = zlen (of_type t (anns a))).
  { apply Permutation_length in Hperm. unfold zlen. rewrite !map_length in *. lia. }
  destruct els as [|d post] eqn:Eels.
  - (* no file annotation of this kind *)
    assert (HM' : exists s0, enum_fann 400 (h_lib h) kind true = (s0, Some []) /\ same_tables (h_lib h) s0 /\ l_dds s0 = l_dds (h_lib h) /\ l_dir s0 = l_dir (h_lib h)).
    { eexists. split; [|split; [|split]].
      - cbn [enum_fann]. rewrite (getfannlen_eq (h_lib h) kind true Hk ltac:(discriminate)). unfold getfannlen_simple, fann_lookup. cbn [negb andb l_dds set_enum]. fold tag. unfold els in Eels. rewrite Eels. cbn [hd_error]. reflexivity.
      - repeat split. - reflexivity. - reflexivity. }
    destruct HM' as [s0 [E0 [F0 [D0 Dr0]]]]. rewrite E0 in HM. inversion HM; inversion HSp; subst h' mr a' sr. right. right.
    split; [split; [apply Sim_transfer; assumption | intros _; apply (DirOK_ext (h_lib h)); assumption]|].
    left. unfold accepts. simpl in Hlen. split; [left; congruence|]. destruct (of_type t (anns a)); [constructor | unfold zlen in Hlen; simpl in Hlen; lia].
  - destruct (le_lt_dec 400 (length post)) as [Hcap|Hcap].
    + right. left. unfold enum_capped. change (400 <= zlen (of_type t (anns a))). rewrite <- Hlen. unfold zlen. rewrite map_length. simpl. lia.
    + destruct (enum_from post 400 (h_lib h) kind true [] d Hk (fun x Hx => proj1 (inv_refs _ HI x Hx)) (tf_nodup _ HT) Eels (or_introl (conj eq_refl eq_refl)) Hcap) as [s' [E [Hd' F']]].
      rewrite E in HM. inversion HM; inversion HSp; subst h' mr a' sr. right. right.
      pose proof (enum_fann_dir _ _ _ _ _ _ E) as Hdir.
      split; [split; [apply Sim_transfer; assumption | intros _; apply (DirOK_ext (h_lib h)); assumption]|].
      right. right. eexists _, _, _. split; [rewrite <- Hlen; reflexivity|]. split; [reflexivity | exact Hbufs].
Qed.

(* ================= 9. the whole operation language, one file =================================================== *)
Definition full_op (o : op) : Prop := an_op o \/ dfan_op o.

Lemma op_eq_end : forall o, o = OEnd \/ o <> OEnd. Proof. destruct o; try (right; discriminate); left; reflexivity. Qed.
Lemma op_eq_start : forall o, o = OStart \/ o <> OStart. Proof. destruct o; try (right; discriminate); left; reflexivity. Qed.

Lemma mstep_sess : forall h o h' mr, mstep h o = (h', mr) -> o <> OStart -> o <> OEnd -> h_sess h' = h_sess h.
Proof.
  intros h o h' mr H N1 N2. destruct o; try congruence; unfold mstep in H; cbv beta iota zeta in H;
  repeat dmatch H; inversion H; subst; first [reflexivity | assumption | (simpl; congruence)].
Qed.

Lemma an_closed_lib : forall h a o h' mr, Sim h a -> h_sess h = false -> an_op o -> mstep h o = (h', mr) ->
  h_sess h' = true \/ h_lib h' = h_lib h.
Proof.
  intros h a o h' mr HS Hc Hop H. destruct (sim_closed _ _ HS Hc) as [_ C2].
  destruct o; simpl in Hop; try contradiction; unfold mstep in H; cbv beta iota zeta in H; rewrite ?Hc in H; cbn [negb] in H;
  try (inversion H; subst; simpl; auto; fail).
  - (* write: the identifier is invalid outside a session *)
    unfold ANIwriteann in H. rewrite C2 in H. simpl in H. inversion H; subst. right. reflexivity.
  - destruct (ANIreadann _ _ _); inversion H; subst; auto.
  - destruct (ANid2tagref _ _) as [[g rf]|]; inversion H; subst; auto.
Qed.

Theorem full_step_sim : forall h a o h' mr a' sr, SimD h a -> full_op o ->
  mstep h o = (h', mr) -> step a (fill_full o mr) = (a', sr) ->
  sr = RUnspec \/ exhausted sr mr \/ enum_capped a o \/ (SimD h' a' /\ accepts_full sr mr).
Proof.
  intros h a o h' mr a' sr HSD [Hop|Hop] HM HSp.
  - (* AN interface *)
    pose proof HSD as [HS HD].
    assert (Hfill : fill_full o mr = fill o mr) by (destruct o; simpl in Hop; try contradiction; reflexivity).
    rewrite Hfill in HSp.
    destruct (an_step_sim _ _ _ _ _ _ _ HS Hop HM HSp) as [X|[X|[HS' Hacc]]]; [auto | auto|].
    right. right. right. split; [|left; assumption]. split; [assumption|]. intros Hc'.
    destruct (h_sess h) eqn:Es.
    + (* left the session: only ANend does, and the harness then clears the DFAN directory *)
      destruct (op_eq_end o) as [->|Ne].
      * simpl in HM. rewrite Es in HM. inversion HM; subst. intros k b _ Hb. simpl in Hb. discriminate.
      * destruct (op_eq_start o) as [->|Ns]; [simpl in HM; rewrite Es in HM; inversion HM; subst; rewrite Es in Hc'; discriminate|].
        rewrite (mstep_sess _ _ _ _ HM Ns Ne) in Hc'. congruence.
    + destruct (an_closed_lib _ _ _ _ _ HS Es Hop HM) as [X|X]; [congruence | rewrite X; apply HD; reflexivity].
  - destruct o; simpl in Hop; try contradiction; unfold fill_full in HSp.
    + destruct Hop as [Hk [Hg Hr]]. destruct (sim_dfput _ _ _ _ _ _ _ _ _ _ _ HSD Hk Hg Hr HM HSp) as [X|[X|X]]; auto.
    + destruct (sim_dfget _ _ _ _ _ _ _ _ _ _ HSD Hop HM HSp) as [X|X]; auto.
    + destruct (sim_dfgetlen _ _ _ _ _ _ _ _ _ HSD Hop HM HSp) as [X|X]; auto.
    + destruct (sim_dfaddf _ _ _ _ _ _ _ _ _ HSD Hop HM HSp) as [X|[X|X]]; auto.
    + destruct (sim_dfgetfs _ _ _ _ _ _ _ HSD Hop HM HSp) as [X|[X|X]]; auto.
    + destruct (sim_dflablist _ _ _ _ _ _ _ _ HSD HM HSp) as [X|X]; auto.
Qed.

(** whole histories *)
Fixpoint run_ok_full (h : hstate) (a : state) (ops : list op) : Prop :=
  match ops with
  | [] => True
  | o :: t => let '(h', mr) := mstep h o in let '(a', sr) := step a (fill_full o mr) in
              sr = RUnspec \/ exhausted sr mr \/ enum_capped a o \/ (accepts_full sr mr /\ run_ok_full h' a' t)
  end.

Theorem full_run_sim : forall ops h a, SimD h a -> Forall full_op ops -> run_ok_full h a ops.
Proof.
  induction ops as [|o t IH]; simpl; intros h a HS Hops; [exact I|]. inversion Hops; subst.
  destruct (mstep h o) as [h' mr] eqn:EM. destruct (step a (fill_full o mr)) as [a' sr] eqn:ES.
  destruct (full_step_sim _ _ _ _ _ _ _ HS H1 EM ES) as [X|[X|[X|[X Y]]]]; auto.
  right. right. right. split; [assumption | apply IH; assumption].
Qed.

Lemma SimD_init : SimD hinit init.
Proof. split; [exact Sim_init|]. intros _ k b _ Hb. simpl in Hb. discriminate. Qed.

(* ================= 10. several files: the AN interface never touches the cached DFAN directory ================ *)
Lemma add_core_dir : forall s ty r g f n s' id, add_core s ty r g f n = Some (s', id) -> l_dir s' = l_dir s.
Proof. intros. unfold add_core in H. repeat dmatch H; inversion H; subst; reflexivity. Qed.
Lemma load_tree_dir : forall ty tag els s s', load_tree ty tag els s = Some s' -> l_dir s' = l_dir s.
Proof.
  induction els as [|d r IH]; simpl; intros s s' H; [inversion H; reflexivity|].
  destruct (add_core s ty (d_ref d) _ _ false) as [[s1 id]|] eqn:E; [|discriminate]. rewrite (IH _ _ H). eapply add_core_dir; eassumption.
Qed.
Lemma create_tree_dir : forall s ty s' n, ANIcreate_ann_tree s ty = (s', n) -> l_dir s' = l_dir s.
Proof.
  intros s ty s' n H. unfold ANIcreate_ann_tree in H. destruct (negb _); [inversion H; reflexivity|].
  destruct (atype2tag ty); [|inversion H; reflexivity].
  destruct (load_tree _ _ _ _) as [s1|] eqn:E; inversion H; subst; [|reflexivity]. simpl. rewrite (load_tree_dir _ _ _ _ _ E). reflexivity.
Qed.
Lemma addentry_dir : forall s ty r g f n s' id, ANIaddentry s ty r g f n = (s', id) -> l_dir s' = l_dir s.
Proof.
  intros s ty r g f n s' id H. unfold ANIaddentry in H.
  set (s1 := if l_num s ty =? -1 then set_tree s ty (Some []) 0 else s) in *.
  assert (D1 : l_dir s1 = l_dir s) by (unfold s1; destruct (_ =? -1); reflexivity).
  destruct (atype2tag ty); [|inversion H; subst; assumption].
  match type of H with context [add_core s1 ty r ?a ?b n] => destruct (add_core s1 ty r a b n) as [[s2 id2]|] eqn:E end; inversion H; subst; simpl; [|assumption].
  rewrite (add_core_dir _ _ _ _ _ _ _ _ E). assumption.
Qed.
Lemma ANIcreate_dir : forall s g r ty s' id, ANIcreate s g r ty = (s', id) -> l_dir s' = l_dir s.
Proof.
  intros s g r ty s' id H. unfold ANIcreate in H. destruct (atype2tag ty); [|inversion H; reflexivity].
  destruct (if l_num s ty =? -1 then ANIcreate_ann_tree s ty else (s, 0)) as [s1 n] eqn:E.
  assert (D1 : l_dir s1 = l_dir s) by (destruct (_ =? -1); [eapply create_tree_dir; eassumption | inversion E; reflexivity]).
  destruct (n =? FAILV); [inversion H; subst; assumption|].
  match type of H with (if ?c then _ else _) = _ => destruct c end; [inversion H; subst; assumption|].
  rewrite (addentry_dir _ _ _ _ _ _ _ _ H). assumption.
Qed.
Lemma writeann_dir : forall s id txt s' ok, ANIwriteann s id txt = (s', ok) -> l_dir s' = l_dir s.
Proof.
  intros. unfold ANIwriteann in H. repeat dmatch H; inversion H; subst; try reflexivity; simpl; destruct (n_new _); reflexivity.
Qed.
Lemma need_tree_dir : forall s ty s' r, need_tree s ty = (s', r) -> l_dir s' = l_dir s.
Proof.
  intros s ty s' r H. unfold need_tree in H. destruct (if l_num s ty =? -1 then ANIcreate_ann_tree s ty else (s, 0)) as [s1 n] eqn:E.
  assert (D1 : l_dir s1 = l_dir s) by (destruct (_ =? -1); [eapply create_tree_dir; eassumption | inversion E; reflexivity]).
  destruct (n =? FAILV); inversion H; subst; assumption.
Qed.
Lemma fileinfo_dir : forall s s' r, ANfileinfo s = (s', r) -> l_dir s' = l_dir s.
Proof.
  intros s s' r H. unfold ANfileinfo in H.
  destruct (ANIcreate_ann_tree s AN_FILE_LABEL) as [s1 a] eqn:E1. pose proof (create_tree_dir _ _ _ _ E1).
  destruct (a =? FAILV); [inversion H; subst; assumption|].
  destruct (ANIcreate_ann_tree s1 AN_FILE_DESC) as [s2 b] eqn:E2. pose proof (create_tree_dir _ _ _ _ E2).
  destruct (b =? FAILV); [inversion H; subst; congruence|].
  destruct (ANIcreate_ann_tree s2 AN_DATA_LABEL) as [s3 c] eqn:E3. pose proof (create_tree_dir _ _ _ _ E3).
  destruct (c =? FAILV); [inversion H; subst; congruence|].
  destruct (ANIcreate_ann_tree s3 AN_DATA_DESC) as [s4 d] eqn:E4. pose proof (create_tree_dir _ _ _ _ E4).
  destruct (d =? FAILV); inversion H; subst; congruence.
Qed.

Lemma an_dir_frame : forall h o h' mr, an_op o -> mstep h o = (h', mr) ->
  l_dir (h_lib h') = l_dir (h_lib h) \/ (forall k, l_dir (h_lib h') k = None).
Proof.
  intros h o h' mr Hop H. destruct o; simpl in Hop; try contradiction; unfold mstep in H; cbv beta iota zeta in H.
  - destruct (h_sess h); inversion H; subst; left; reflexivity.
  - destruct (h_sess h); inversion H; subst; [right; intros k; reflexivity | left; reflexivity].
  - destruct (negb (h_sess h)); [inversion H; subst; left; reflexivity|]. destruct (ANIcreate _ _ _ _) as [l1 id] eqn:E. inversion H; subst. left. simpl. eapply ANIcreate_dir; eassumption.
  - destruct (negb (h_sess h)); [inversion H; subst; left; reflexivity|]. destruct (ANcreatef _ _) as [l1 id] eqn:E. inversion H; subst. left. simpl.
    unfold ANcreatef in E. destruct (zassoc _ _); [eapply ANIcreate_dir; eassumption | inversion E; reflexivity].
  - destruct (ANIwriteann _ _ _) as [l1 ok] eqn:E. inversion H; subst. left. simpl. eapply writeann_dir; eassumption.
  - destruct (ANIreadann _ _ _); inversion H; subst; left; reflexivity.
  - inversion H; subst; left; reflexivity.
  - destruct (negb (h_sess h)); [inversion H; subst; left; reflexivity|]. destruct (ANselect _ _ _) as [l1 id] eqn:E. inversion H; subst. left. simpl.
    unfold ANselect in E. destruct (need_tree _ _) as [s1 [t|]] eqn:En; pose proof (need_tree_dir _ _ _ _ En); repeat dmatch E; inversion E; subst; assumption.
  - destruct (negb (h_sess h)); [inversion H; subst; left; reflexivity|]. destruct (ANfileinfo _) as [l1 [v|]] eqn:E; inversion H; subst; left; simpl; eapply fileinfo_dir; eassumption.
  - destruct (negb (h_sess h)); [inversion H; subst; left; reflexivity|]. destruct (ANnumann _ _ _ _) as [l1 n] eqn:E. inversion H; subst. left. simpl.
    unfold ANnumann, ANInumann in E. destruct (_ || _); [inversion E; reflexivity|]. destruct (need_tree _ _) as [s1 [t|]] eqn:En; pose proof (need_tree_dir _ _ _ _ En); inversion E; subst; assumption.
  - destruct (negb (h_sess h)); [inversion H; subst; left; reflexivity|]. destruct (ANannlist _ _ _ _) as [l1 [ids|]] eqn:E; inversion H; subst; left; simpl;
    unfold ANannlist, ANIannlist in E; (destruct (_ || _); [inversion E; reflexivity|]); destruct (need_tree _ _) as [s1 [t|]] eqn:En; pose proof (need_tree_dir _ _ _ _ En); inversion E; subst; assumption.
  - destruct (negb (h_sess h)); [inversion H; subst; left; reflexivity|]. destruct (ANtagref2id _ _ _) as [l1 id] eqn:E. inversion H; subst. left. simpl.
    unfold ANtagref2id in E. destruct (zassoc _ _); [|inversion E; reflexivity].
    destruct (need_tree _ _) as [s1 [t|]] eqn:En; pose proof (need_tree_dir _ _ _ _ En); repeat dmatch E; inversion E; subst; assumption.
  - destruct (ANid2tagref _ _) as [[g rf]|]; inversion H; subst; left; reflexivity.
  - inversion H; subst; left; reflexivity.
Qed.

(* ================= 11. several files used alternately in one process ========================================== *)
Definition NamesOK (idx : list Z) (names : Z -> list Z) : Prop :=
  (forall f f', In f idx -> In f' idx -> names f = names f' -> f = f') /\
  (forall f, In f idx -> nonul (names f) /\ strlen (names f) < DF_MAXFNLEN).

Record GSim (idx : list Z) (g : gstate) (A : Z -> state) : Prop := mkGSim {
  gs_files : forall f, Sim (g_files g f) (A f);
  gs_cur : In (g_cur g) idx;
  gs_names : NamesOK idx (g_names g);
  gs_last : g_lastfile g = [] \/ exists f, In f idx /\ g_names g f = g_lastfile g;
  gs_dir : forall kind blocks, kind_ok kind -> s_dir (g_stat g) kind = Some blocks ->
           exists f, In f idx /\ g_names g f = g_lastfile g /\
                     (h_sess (g_files g f) = true \/ DirCoh kind blocks (l_dds (h_lib (g_files g f))))
}.

Lemma with_stat_Sim : forall h a st, Sim h a -> Sim (mkh (with_stat (h_lib h) st) (h_slots h) (h_sess h)) a.
Proof. intros h a st HS. apply (Sim_transfer h a (with_stat (h_lib h) st) HS); [repeat split | reflexivity]. Qed.

Lemma dfan_in_session_unspec : forall a o, dfan_op o -> sess a = true -> forall mr, snd (step a (fill_full o mr)) = RUnspec.
Proof. intros a o Hop Hs mr. destruct o; simpl in Hop; try contradiction; simpl; rewrite Hs; reflexivity. Qed.

Lemma upd_files_Sim : forall (F : Z -> hstate) (A : Z -> state) c h2 a', (forall f, Sim (F f) (A f)) -> Sim h2 a' ->
  forall f, Sim (upd F c h2 f) (upd A c a' f).
Proof. intros F A c h2 a' H H2 f. unfold upd. destruct (f =? c); [assumption | apply H]. Qed.

Theorem gstep_sim : forall idx g A o g' mr a' sr, GSim idx g A -> full_op o ->
  gstep g o = (g', mr) -> step (A (g_cur g)) (fill_full o mr) = (a', sr) ->
  sr = RUnspec \/ exhausted sr mr \/ enum_capped (A (g_cur g)) o \/
  (GSim idx g' (upd A (g_cur g) a') /\ accepts_full sr mr).
Proof.
  intros idx g A o g' mr a' sr HG Hop HM HSp. destruct HG as [Hfiles Hcur Hnames Hlast Hdir].
  set (c := g_cur g) in *. set (h := g_files g c) in *. set (name := g_names g c) in *.
  pose proof (Hfiles c) as HS. fold h in HS.
  unfold gstep in HM. fold c h name in HM.
  set (opens := if h_sess h then None else dfan_opens o) in *.
  set (st1 := match opens with Some mode => DFANIopen (g_lastfile g) name mode (g_stat g) | None => g_stat g end) in *.
  set (h1 := mkh (with_stat (h_lib h) st1) (h_slots h) (h_sess h)) in *.
  pose proof (with_stat_Sim h (A c) st1 HS) as HS1. fold h1 in HS1.
  destruct (mstep h1 o) as [h2 r] eqn:EM. inversion HM; subst g' mr; clear HM.
  destruct (h_sess h) eqn:Es.
  - (* an AN session is open on the current file *)
    destruct Hop as [Hop|Hop].
    2:{ left. pose proof (dfan_in_session_unspec (A c) o Hop (eq_trans (sim_sess _ _ HS) Es) r) as X. rewrite HSp in X. exact X. }
    assert (Hfill : fill_full o r = fill o r) by (destruct o; simpl in Hop; try contradiction; reflexivity). rewrite Hfill in HSp.
    destruct (an_step_sim _ _ _ _ _ _ _ HS1 Hop EM HSp) as [X|[X|[HS2 Hacc]]]; [auto | auto|].
    right. right. right. split; [|left; assumption].
    constructor; cbn [g_files g_cur g_names g_stat g_lastfile]; fold c; [apply upd_files_Sim; assumption | assumption | assumption | exact Hlast |].
    + intros kind blocks Hk Hb. unfold stat_of in Hb. cbn [s_dir] in Hb.
      destruct (op_eq_end o) as [->|Ne].
      { simpl in EM. inversion EM; subst h2. simpl in Hb. discriminate. }
      destruct (an_dir_frame _ _ _ _ Hop EM) as [Fd|Fd]; [|rewrite Fd in Hb; discriminate].
      rewrite Fd in Hb. unfold h1, st1, opens in Hb. cbn [h_lib l_dir with_stat] in Hb.
      destruct (Hdir kind blocks Hk Hb) as [f [F1 [F2 F3]]]. exists f. split; [assumption|]. split; [exact F2|].
      unfold upd. destruct (f =? c) eqn:Ef; [|exact F3]. left.
      destruct (op_eq_start o) as [->|Ns]; [simpl in EM; inversion EM; subst; reflexivity|].
      rewrite (mstep_sess _ _ _ _ EM Ns Ne). reflexivity.
  - (* no session on the current file *)
    assert (Es1 : h_sess h1 = false) by (unfold h1; cbn [h_sess]; first [exact Es | reflexivity]).
    destruct (dfan_opens o) as [mode|] eqn:Eo.
    + (* a DFAN call that goes through DFANIopen *)
      assert (Hmode : mode <> DFACC_CREATE /\ dfan_op o).
      { destruct Hop as [Hop|Hop]; [destruct o; simpl in Hop; try contradiction; simpl in Eo; discriminate|]. split; [|assumption].
        destruct o; simpl in Eo; try discriminate; repeat dmatch Eo; inversion Eo; vm_compute; discriminate. }
      destruct Hmode as [Hmode Hdop].
      destruct Hnames as [Ninj Nok]. destruct (Nok c Hcur) as [Nn Nl]. fold name in Nn, Nl.
      assert (Hlf : nonul (g_lastfile g) /\ strlen (g_lastfile g) < DF_MAXFNLEN).
      { destruct Hlast as [->|[f [F1 F2]]]; [split; [intros x [] | vm_compute; reflexivity] | rewrite <- F2; apply Nok; assumption]. }
      destruct Hlf as [Ln Ll].
      assert (HD1 : DirOK (h_lib h1)).
      { intros kind blocks Hk Hb. unfold h1, st1, opens in Hb. cbn [h_lib l_dir with_stat] in Hb. unfold DFANIopen in Hb.
        destruct (truth (DFANIopen_newfile (g_lastfile g) name mode)) eqn:En; [cbn [s_dir] in Hb; discriminate|].
        apply (dfan_open_lemma _ _ _ Ln Nn Ll Nl Hmode) in En.
        destruct (Hdir kind blocks Hk Hb) as [f [F1 [F2 F3]]]. assert (f = c) by (apply Ninj; auto; rewrite F2; exact En). subst f.
        fold h in F3. destruct F3 as [F3|F3]; [congruence|]. unfold h1. cbn [h_lib l_dds with_stat]. exact F3. }
      assert (HSD1 : SimD h1 (A c)) by (split; [assumption | intros _; exact HD1]).
      destruct (full_step_sim _ _ _ _ _ _ _ HSD1 (or_intror Hdop) EM HSp) as [X|[X|[X|[[HS2 HD2] Hacc]]]]; auto.
      right. right. right. split; [|assumption].
      assert (Hs2 : h_sess h2 = false).
      { assert (h_sess h2 = h_sess h1) by (apply (mstep_sess _ _ _ _ EM); destruct o; simpl in Eo; discriminate). rewrite H. unfold h1. cbn [h_sess]. first [exact Es | reflexivity]. }
      constructor; cbn [g_files g_cur g_names g_stat g_lastfile]; fold c; [apply upd_files_Sim; assumption | assumption | split; assumption | right; exists c; auto |].
      * intros kind blocks Hk Hb. exists c. split; [assumption|]. split; [reflexivity|]. right. rewrite upd_same. apply (HD2 Hs2 kind blocks Hk Hb).
    + (* calls that do not consult the cached directory *)
      assert (Hst1 : st1 = g_stat g) by reflexivity.
      assert (Hframe : (sr = RUnspec \/ exhausted sr r \/ enum_capped (A c) o) \/
                (Sim h2 a' /\ accepts_full sr r /\
                 (l_dir (h_lib h2) = l_dir (h_lib h1) \/ h_sess h2 = true) /\
                 (h_sess h2 = true \/ forall k d, kind_ok k -> d_tag d = dfan_tag k -> (In d (l_dds (h_lib h2)) <-> In d (l_dds (h_lib h1)))))).
      { destruct Hop as [Hop|Hop].
        - assert (Hfill : fill_full o r = fill o r) by (destruct o; simpl in Hop; try contradiction; reflexivity). rewrite Hfill in HSp.
          destruct (an_step_sim _ _ _ _ _ _ _ HS1 Hop EM HSp) as [X|[X|[HS2 Hacc]]]; [auto | auto|].
          right. split; [assumption|]. split; [left; assumption|].
          destruct (an_closed_lib _ _ _ _ _ HS1 Es1 Hop EM) as [X|X]; [split; [right; assumption | left; assumption] | rewrite X; split; [left; reflexivity | right; intros; tauto]].
        - destruct o; simpl in Hop; try contradiction; simpl in Eo.
          + (* put with a zero tag or ref *)
            destruct ((ttag =? 0) || (tref =? 0)) eqn:Ez; [|discriminate]. unfold mstep in EM. cbv beta iota zeta in EM. rewrite Es1 in EM.
            unfold DFANIputann in EM. rewrite Ez in EM. inversion EM; subst h2 r. unfold fill_full, step in HSp. rewrite (sim_sess _ _ HS), Es, Ez in HSp. inversion HSp; subst.
            right. split; [exact HS1|]. split; [left; exact I|]. split; [left; reflexivity | right; intros; tauto].
          + destruct ((ttag =? 0) || (tref =? 0)) eqn:Ez; [|discriminate]. unfold mstep in EM. cbv beta iota zeta in EM. rewrite Es1 in EM.
            unfold DFANIgetann in EM. rewrite Ez in EM. inversion EM; subst h2 r. unfold fill_full, fill, step in HSp. rewrite (sim_sess _ _ HS), Es, Ez in HSp. inversion HSp; subst.
            right. split; [exact HS1|]. split; [left; exact I|]. split; [left; reflexivity | right; intros; tauto].
          + destruct ((ttag =? 0) || (tref =? 0)) eqn:Ez; [|discriminate]. unfold mstep in EM. cbv beta iota zeta in EM. rewrite Es1 in EM.
            unfold DFANIgetannlen in EM. rewrite Ez in EM. cbn in EM. inversion EM; subst h2 r. unfold fill_full, fill, step in HSp. rewrite (sim_sess _ _ HS), Es, Ez in HSp. inversion HSp; subst.
            right. split; [exact HS1|]. split; [left; exact I|]. split; [left; reflexivity | right; intros; tauto].
          + destruct (sim_dfaddf_S _ _ _ _ _ _ _ _ _ HS1 Hop EM HSp) as [X|[X|[X1 [X2 [X3 X4]]]]]; [auto | auto|].
            right. split; [assumption|]. split; [assumption|]. split; [left; assumption | right; exact X4].
          + destruct (sim_dfgetfs_S _ _ _ _ _ _ _ HS1 Hop EM HSp) as [X|[X|[X1 [X2 [X3 X4]]]]]; [auto | auto|].
            right. split; [assumption|]. split; [assumption|]. split; [left; assumption | right; intros; rewrite X4; tauto].
          + destruct (tag =? 0) eqn:Ez; [|discriminate]. unfold mstep in EM. cbv beta iota zeta in EM. rewrite Es1 in EM.
            unfold DFANIlablist in EM. rewrite Ez in EM. inversion EM; subst h2 r. unfold fill_full, fill, step in HSp. cbv beta iota zeta in HSp. rewrite (sim_sess _ _ HS), Es, Ez in HSp. inversion HSp; subst.
            right. split; [exact HS1|]. split; [left; exact I|]. split; [left; reflexivity | right; intros; tauto]. }
      destruct Hframe as [[X|[X|X]]|[HS2 [Hacc [Hfd Hfdd]]]]; auto.
      right. right. right. split; [|assumption].
      constructor; cbn [g_files g_cur g_names g_stat g_lastfile]; fold c; [apply upd_files_Sim; assumption | assumption | assumption | exact Hlast |].
      * intros kind blocks Hk Hb. unfold stat_of in Hb. cbn [s_dir] in Hb.
        destruct Hfd as [Hfd|Hfd].
        -- rewrite Hfd in Hb. unfold h1 in Hb. cbn [h_lib l_dir with_stat] in Hb. rewrite Hst1 in Hb.
           destruct (Hdir kind blocks Hk Hb) as [f [F1 [F2 F3]]]. exists f. split; [assumption|]. split; [exact F2|].
           unfold upd. destruct (f =? c) eqn:Ef; [|exact F3]. apply Z.eqb_eq in Ef. subst f. fold h in F3.
           destruct F3 as [F3|F3]; [congruence|]. destruct Hfdd as [X|X]; [left; assumption|]. right.
           apply (DirCoh_other kind blocks (l_dds (h_lib h))); [assumption|]. intros d Htg. apply (X kind d Hk Htg).
        -- (* a session was opened: the directory is unchanged and belongs to whatever file it belonged to *)
           destruct (op_eq_start o) as [->|Ns].
           ++ unfold mstep in EM. rewrite Es1 in EM. inversion EM; subst h2 r. cbn [h_lib l_dir with_stat h1] in Hb. unfold h1 in Hb. cbn [h_lib l_dir with_stat] in Hb. rewrite Hst1 in Hb.
              destruct (Hdir kind blocks Hk Hb) as [f [F1 [F2 F3]]]. exists f. split; [assumption|]. split; [exact F2|].
              unfold upd. destruct (f =? c) eqn:Ef; [left; reflexivity | exact F3].
           ++ exfalso. destruct (op_eq_end o) as [->|Ne]; [unfold mstep in EM; rewrite Es1 in EM; inversion EM; subst; congruence|].
              rewrite (mstep_sess _ _ _ _ EM Ns Ne) in Hfd. cbn in Hfd. congruence.
Qed.

Definition gop_full (idx : list Z) (x : gop) : Prop := match x with GOp o => full_op o | GFile n => In n idx end.

Fixpoint grun_ok (g : gstate) (A : Z -> state) (xs : list gop) : Prop :=
  match xs with
  | [] => True
  | GFile n :: t => grun_ok (gfile g n) A t
  | GOp o :: t => let '(g', mr) := gstep g o in let '(a', sr) := step (A (g_cur g)) (fill_full o mr) in
                  sr = RUnspec \/ exhausted sr mr \/ enum_capped (A (g_cur g)) o \/
                  (accepts_full sr mr /\ grun_ok g' (upd A (g_cur g) a') t)
  end.

Lemma gfile_GSim : forall idx g A n, GSim idx g A -> In n idx -> GSim idx (gfile g n) A.
Proof. intros idx g A n [H1 H2 H3 H4 H5] Hn. constructor; simpl; assumption. Qed.

Theorem grun_sim : forall idx xs g A, GSim idx g A -> Forall (gop_full idx) xs -> grun_ok g A xs.
Proof.
  induction xs as [|x t IH]; simpl; intros g A HG Hxs; [exact I|]. inversion Hxs; subst. destruct x as [o|n]; simpl in H1.
  - destruct (gstep g o) as [g' mr] eqn:EM. destruct (step (A (g_cur g)) (fill_full o mr)) as [a' sr] eqn:ES.
    destruct (gstep_sim _ _ _ _ _ _ _ _ HG H1 EM ES) as [X|[X|[X|[X Y]]]]; auto.
    right. right. right. split; [assumption | apply IH; assumption].
  - apply IH; [apply gfile_GSim; assumption | assumption].
Qed.

Lemma GSim_init : forall idx names, In 0 idx -> NamesOK idx names -> GSim idx (ginit names) (fun _ => init).
Proof.
  intros idx names H0 Hn. constructor; simpl.
  - intros f. exact Sim_init.
  - assumption.
  - assumption.
  - left. reflexivity.
  - intros kind blocks _ Hb. discriminate.
Qed.

(* ================= 12. ANget_tagref names the annotation ANselect selects ====================================== *)
Lemma get_tagref_agrees : forall l idx ty l1 g r, Good l -> tyok ty -> ANget_tagref l idx ty = (l1, Some (g, r)) ->
  exists l2 id, ANselect l1 idx ty = (l2, id) /\ id <> FAILV /\ ANid2tagref l2 id = Some (g, r) /\ g = tag_of_type ty /\
                (exists x, Repr l2 x /\ a_key x = (ty, r)).
Proof.
  intros l idx ty l1 g r HG Hty H. unfold ANget_tagref in H.
  destruct (need_tree l ty) as [s1 rt] eqn:En.
  destruct (need_tree_Good _ _ _ _ HG Hty En) as [HG1 [[t [-> Ht]] _]].
  destruct (truth (ANget_tagref_index_ok idx (l_num s1 ty))) eqn:Eok; [|inversion H].
  destruct (tindex (idx + 1) t) as [e|] eqn:Ei; [|inversion H].
  destruct (zassoc ty ANget_tagref_tag_switch) as [g0|] eqn:Eg; inversion H; subst l1 g r; clear H.
  assert (Hg0 : g0 = tag_of_type ty).
  { destruct (switches_agree ty) as [_ [S2 _]]. rewrite S2 in Eg. apply atype2tag_iff in Eg. tauto. }
  assert (Hin : exists k, In (k, e) t).
  { unfold tindex in Ei. destruct (idx + 1 <? 1); [discriminate|]. destruct (nth_error t (Z.to_nat (idx + 1 - 1))) as [[k e0]|] eqn:En2; [|discriminate].
    simpl in Ei. inversion Ei; subst e0. exists k. eapply nth_error_In; eassumption. }
  destruct Hin as [k Hin].
  assert (Hidx : truth (ANselect_index_ok idx (l_num s1 ty)) = true).
  { unfold ANget_tagref_index_ok, ANselect_index_ok, truth in *. rewrite (tf_num _ (proj2 HG1) _ _ Ht) in *.
    unfold tindex in Ei. destruct (idx + 1 <? 1) eqn:E1; [discriminate|]. apply Z.ltb_ge in E1.
    destruct (nth_error t (Z.to_nat (idx + 1 - 1))) eqn:En2; [|discriminate].
    assert (Hlt : (Z.to_nat (idx + 1 - 1) < length t)%nat) by (apply nth_error_Some; congruence).
    replace (0 <=? idx) with true by (symmetry; apply Z.leb_le; lia).
    replace (idx <? zlen t) with true by (symmetry; apply Z.ltb_lt; unfold zlen; lia). reflexivity. }
  assert (Hsel : ANselect s1 idx ty = (s1, e_id e)).
  { unfold ANselect, need_tree. destruct (l_num s1 ty =? -1) eqn:E.
    - apply Z.eqb_eq in E. apply (inv_num _ (proj1 HG1)) in E. congruence.
    - simpl. rewrite Ht, Hidx, Ei. reflexivity. }
  destruct (entry_id s1 ty t k e (proj1 HG1) Ht Hin) as [B [_ Hpos]].
  exists s1, (e_id e). split; [assumption|]. split; [unfold FAILV; lia|]. split; [|split; [assumption|]].
  - rewrite B, Hg0. reflexivity.
  - destruct (tree_repr _ _ _ HG1 Ht) as [P1 _]. destruct (P1 _ _ Hin) as [_ [x [X1 [X2 _]]]]. exists x. split; [assumption|]. rewrite X2. reflexivity.
Qed.

Definition ref2 (mr : mres) : Z := match mr with MOk (_ :: r :: _) _ => r | _ => 0 end.

(** the harness' gettagref line against the specification's XGetTagref *)
Lemma sim_gettagref : forall h a e ty idx h' mr x' sr, Sim h a -> tyok ty ->
  m_gettagref h ty idx = (h', mr) -> xstep (mkx a e) (XGetTagref ty idx (ref2 mr)) = (x', sr) ->
  Sim h' (x_st x') /\ accepts sr mr.
Proof.
  intros h a e ty idx h' mr x' sr HS Hty HM HSp. unfold m_gettagref in HM. unfold xstep in HSp. cbn [x_st] in HSp.
  rewrite (sim_sess _ _ HS) in HSp. destruct (h_sess h) eqn:Es; cbn [negb] in HM, HSp.
  2:{ inversion HM; inversion HSp; subst. split; [assumption | exact I]. }
  rewrite (proj2 (valid_type_iff ty) Hty) in HSp. cbn [negb] in HSp.
  pose proof (sim_good _ _ HS) as HG.
  destruct (ANget_tagref (h_lib h) idx ty) as [l1 [[g r]|]] eqn:Eg.
  - destruct (get_tagref_agrees _ _ _ _ _ _ HG Hty Eg) as [l2 [id [Hsel [Hid [Hidr [Hg [x [Rx Kx]]]]]]]].
    rewrite Hsel, Hidr in HM. inversion HM; subst h' mr; clear HM. cbn [ref2] in HSp.
    (* the state after: the tree of the type is loaded, nothing else changed *)
    assert (HS2 : Sim (hlib h l2) a /\ (idx <? 0) || (zlen (of_type ty (anns a)) <=? idx) = false).
    { unfold ANget_tagref in Eg. destruct (need_tree (h_lib h) ty) as [s1 rt] eqn:En.
      destruct (need_tree_Good _ _ _ _ HG Hty En) as [HG1 [[t [-> Ht]] [_ [HR [Hids _]]]]].
      destruct (truth (ANget_tagref_index_ok idx (l_num s1 ty))) eqn:Eok; [|inversion Eg].
      destruct (tindex (idx + 1) t) as [e0|] eqn:Ei; [|inversion Eg]. destruct (zassoc ty ANget_tagref_tag_switch); inversion Eg; subst l1.
      pose proof (sim_keep h a s1 HS Es HG1 HR Hids) as HS1.
      assert (l2 = s1).
      { unfold ANselect, need_tree in Hsel. destruct (l_num s1 ty =? -1) eqn:E.
        - apply Z.eqb_eq in E. apply (inv_num _ (proj1 HG1)) in E. congruence.
        - simpl in Hsel. rewrite Ht in Hsel. repeat dmatch Hsel; inversion Hsel; reflexivity. }
      subst l2. split; [assumption|].
      pose proof (tree_count (hlib h s1) a ty t HS1 Ht) as Hc. rewrite <- Hc.
      unfold tindex in Ei. destruct (idx + 1 <? 1) eqn:E1; [discriminate|]. apply Z.ltb_ge in E1.
      destruct (nth_error t (Z.to_nat (idx + 1 - 1))) eqn:En2; [|discriminate].
      assert (Hlt : (Z.to_nat (idx + 1 - 1) < length t)%nat) by (apply nth_error_Some; congruence).
      apply orb_false_iff. split; [apply Z.ltb_ge; lia | apply Z.leb_gt; unfold zlen; lia]. }
    destruct HS2 as [HS2 Hrange]. rewrite Hrange in HSp.
    assert (L : lookup (ty, r) (anns a) = Some x).
    { rewrite <- Kx. apply In_lookup; [apply (sim_nodup _ _ HS) | apply (sim_repr _ _ HS2); assumption]. }
    rewrite L in HSp. inversion HSp; subst x' sr. cbn [x_st]. split; [assumption|]. rewrite Hg. unfold accepts. split; [left; reflexivity | constructor].
  - inversion HM; subst h' mr; clear HM. cbn [ref2] in HSp.
    unfold ANget_tagref in Eg. destruct (need_tree (h_lib h) ty) as [s1 rt] eqn:En.
    destruct (need_tree_Good _ _ _ _ HG Hty En) as [HG1 [[t [-> Ht]] [_ [HR [Hids _]]]]].
    pose proof (sim_keep h a s1 HS Es HG1 HR Hids) as HS1.
    pose proof (tree_count (hlib h s1) a ty t HS1 Ht) as Hc.
    assert (Hout : (idx <? 0) || (zlen (of_type ty (anns a)) <=? idx) = true /\ l1 = s1).
    { rewrite <- Hc. rewrite (tf_num _ (proj2 HG1) _ _ Ht) in Eg.
      assert (Hidx : truth (ANget_tagref_index_ok idx (zlen t)) = (0 <=? idx) && (idx <=? zlen t)).
      { unfold ANget_tagref_index_ok, truth. destruct (0 <=? idx); destruct (idx <=? zlen t); reflexivity. }
      rewrite Hidx in Eg.
      destruct (0 <=? idx) eqn:E0; destruct (idx <=? zlen t) eqn:E1; cbn [andb] in Eg; try (inversion Eg; subst; split; [|reflexivity]).
      - unfold tindex in Eg. apply Z.leb_le in E0. apply Z.leb_le in E1.
        replace (idx + 1 <? 1) with false in Eg by (symmetry; apply Z.ltb_ge; lia).
        destruct (nth_error t (Z.to_nat (idx + 1 - 1))) as [[k e0]|] eqn:En2; cbn [option_map snd] in Eg.
        + destruct (switches_agree ty) as [_ [S2 _]]. rewrite S2 in Eg.
          rewrite (proj2 (atype2tag_iff ty _) (conj Hty eq_refl)) in Eg. inversion Eg.
        + inversion Eg; subst. split; [|reflexivity]. apply nth_error_None in En2. apply orb_true_iff. right. apply Z.leb_le. unfold zlen in *. lia.
      - apply Z.leb_gt in E1. apply orb_true_iff. right. apply Z.leb_le. lia.
      - apply Z.leb_gt in E0. apply orb_true_iff. left. apply Z.ltb_lt. lia.
      - apply Z.leb_gt in E0. apply orb_true_iff. left. apply Z.ltb_lt. lia. }
    destruct Hout as [Hout ->]. rewrite Hout in HSp. inversion HSp; subst x' sr. cbn [x_st]. split; [assumption | exact I].
Qed.

(* ================= 13. round 4: DFANlablist paging and ANend ================================================= *)
(** the ref-collecting loop of DFANIlablist (bound and store condition regenerated from dfan.c) delivers the refs
    startpos .. startpos + listsize - 1 of the tag *)
Lemma lablist_collect_spec : forall nrefs listsize startpos refs i j, 0 <= i -> i + zlen refs = nrefs ->
  lablist_collect refs i j nrefs listsize startpos =
  firstn (Z.to_nat (listsize - j)) (skipn (Z.to_nat (startpos - 1 - i)) refs).
Proof.
  intros nrefs listsize startpos. induction refs as [|r t IH]; intros i j Hi Hn.
  - simpl. rewrite skipn_nil, firstn_nil. reflexivity.
  - cbn [lablist_collect]. unfold LABLIST_loop, LABLIST_store, truth.
    assert (Hlt : (i <? nrefs) = true) by (apply Z.ltb_lt; unfold zlen in *; simpl length in Hn; lia).
    rewrite Hlt. cbn [negb andb Z.eqb].
    destruct (j <? listsize) eqn:Ej.
    + apply Z.ltb_lt in Ej. cbn [negb andb Z.eqb].
      assert (Hn' : i + 1 + zlen t = nrefs) by (unfold zlen in *; simpl length in Hn; lia).
      destruct (startpos - 1 <=? i) eqn:Es.
      * apply Z.leb_le in Es. cbn [negb Z.eqb]. rewrite (IH (i + 1) (j + 1)) by lia.
        replace (Z.to_nat (startpos - 1 - i)) with 0%nat by lia. replace (Z.to_nat (startpos - 1 - (i + 1))) with 0%nat by lia.
        cbn [skipn]. replace (Z.to_nat (listsize - j)) with (S (Z.to_nat (listsize - (j + 1)))) by lia. reflexivity.
      * apply Z.leb_gt in Es. cbn [negb Z.eqb]. rewrite (IH (i + 1) j) by lia.
        replace (Z.to_nat (startpos - 1 - i)) with (S (Z.to_nat (startpos - 1 - (i + 1)))) by lia. reflexivity.
    + apply Z.ltb_ge in Ej. cbn [negb andb Z.eqb]. replace (Z.to_nat (listsize - j)) with 0%nat by lia. reflexivity.
Qed.

Lemma lablist_page_refs : forall refs listsize startpos, 1 <= startpos ->
  lablist_collect refs 0 0 (zlen refs) listsize startpos = firstn (Z.to_nat listsize) (skipn (Z.to_nat (startpos - 1)) refs).
Proof.
  intros refs listsize startpos Hs. rewrite (lablist_collect_spec (zlen refs) listsize startpos refs 0 0) by lia.
  rewrite Z.sub_0_r. replace (startpos - 1 - 0) with (startpos - 1) by lia. reflexivity.
Qed.

(** ANend treats every annotation type: each of the four trees is freed when it exists, and all four tree pointers
    and counters are re-initialised (lists regenerated from mfan.c: a loop that stops early, or a forgotten type,
    changes them or makes the translator fail) *)
Lemma ANend_all_types :
  Permutation ANend_freed_types [0; 1; 2; 3] /\ Permutation ANend_tbbtdfree_types [0; 1; 2; 3] /\
  ANend_tree_reset_types = [AN_DATA_LABEL; AN_DATA_DESC; AN_FILE_LABEL; AN_FILE_DESC] /\
  ANend_num_reset_types = [AN_DATA_LABEL; AN_DATA_DESC; AN_FILE_LABEL; AN_FILE_DESC].
Proof.
  assert (P : Permutation [2; 3; 0; 1] [0; 1; 2; 3]).
  { apply (perm_trans (l' := [2; 0; 3; 1])); [repeat constructor|]. apply (perm_trans (l' := [0; 2; 3; 1])); [repeat constructor|].
    apply perm_skip. apply (perm_trans (l' := [2; 1; 3])); [repeat constructor|]. apply (perm_trans (l' := [1; 2; 3])); repeat constructor. }
  repeat split; try exact P; reflexivity.
Qed.
