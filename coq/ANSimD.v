(** C11 -- the single-file DFAN interface against the specification: coherence of the cached annotation
    directory (dfan.c DFANdir[]) with the file, and the step simulation of the six DFAN operations. *)
From Coq Require Import ZArith List Bool Lia Permutation Sorted.
Require Import H4.ANLang H4.gen.Gen_AN H4.ANSpec H4.ANModel H4.ANProofs H4.ANProofs2 H4.ANSim.
Import ListNotations.
Local Open Scope Z_scope.

(* ================= 1. the coherence invariant of the cached directory ========================================= *)
(** every used entry (annotation ref, object tag/ref) of the directory of [kind] is an annotation of that kind in the
    file with that target, and every annotation of that kind in the file has an entry *)
Definition DirCoh (kind : Z) (blocks : list (list dirent)) (dds : list dd) : Prop :=
  (forall e, In e (concat blocks) -> de_annref e <> 0 ->
     exists d, In d dds /\ d_tag d = dfan_tag kind /\ d_ref d = de_annref e /\ decode_target (d_data d) = (de_tag e, de_ref e)) /\
  (forall d, In d dds -> d_tag d = dfan_tag kind ->
     exists e, In e (concat blocks) /\ de_annref e = d_ref d /\ (de_tag e, de_ref e) = decode_target (d_data d)).

Definition DirOK (l : lstate) : Prop :=
  forall kind blocks, (kind = DFAN_LABEL \/ kind = DFAN_DESC) -> l_dir l kind = Some blocks -> DirCoh kind blocks (l_dds l).

Lemma locate_match : forall a b g r, truth (DFANIlocate_match a b g r) = ((b =? r) && (a =? g)).
Proof. intros. unfold DFANIlocate_match, truth. destruct (b =? r); destruct (a =? g); reflexivity. Qed.

(** a fresh DFANIlocate establishes coherence; an existing coherent directory is kept *)
Lemma locate_spec : forall s kind g r s' found, (kind = DFAN_LABEL \/ kind = DFAN_DESC) -> g <> 0 ->
  DirOK s -> (forall d, In d (l_dds s) -> 1 <= d_ref d <= MAX_REF) ->
  DFANIlocate s kind g r = (s', found) ->
  DirOK s' /\ l_dds s' = l_dds s /\ same_tables s s' /\
  (forall k, k <> kind -> l_dir s' k = l_dir s k) /\
  (found <> 0 -> exists d, In d (l_dds s) /\ d_tag d = dfan_tag kind /\ d_ref d = found /\ decode_target (d_data d) = (g, r)) /\
  (found = 0 -> forall d, In d (l_dds s) -> d_tag d = dfan_tag kind -> decode_target (d_data d) <> (g, r)) /\
  (found = 0 -> l_dir s' kind = None -> of_tag (dfan_tag kind) (l_dds s) = []) /\
  (l_dir s' kind = None \/ exists b, l_dir s' kind = Some b).
Proof.
  intros s kind g r s' found Hk Hg HD Hrefs H. destruct (DFANIlocate_frame _ _ _ _ _ _ H) as [F Dd]. unfold DFANIlocate in H.
  set (anntag := dfan_tag kind) in *.
  assert (Hbuild : forall els, els = of_tag anntag (l_dds s) ->
            DirCoh kind [map (fun d => mkdirent (d_ref d) (fst (decode_target (d_data d))) (snd (decode_target (d_data d)))) els] (l_dds s)).
  { intros els ->. split.
    - intros e Hin Hnz. simpl in Hin. rewrite app_nil_r in Hin. apply in_map_iff in Hin. destruct Hin as [d [E Hd]]. subst e. simpl.
      apply of_tag_In in Hd. destruct Hd. exists d. split; [assumption|]. split; [assumption|]. split; [reflexivity|]. first [reflexivity | symmetry; apply surjective_pairing | apply surjective_pairing | destruct (decode_target (d_data d)); reflexivity].
    - intros d Hd Ht. eexists. split; [simpl; rewrite app_nil_r; apply in_map; unfold of_tag; apply filter_In; split; [exact Hd | apply Z.eqb_eq; exact Ht]|].
      simpl. split; [reflexivity | first [reflexivity | symmetry; apply surjective_pairing | apply surjective_pairing | destruct (decode_target (d_data d)); reflexivity]]. }
  assert (Hfind : forall blocks s1, l_dir s1 kind = Some blocks -> l_dds s1 = l_dds s -> DirCoh kind blocks (l_dds s) ->
     forall fd, (match find (fun e => negb (de_annref e =? 0) && truth (DFANIlocate_match (de_tag e) (de_ref e) g r)) (concat blocks) with
                 | Some e => (s1, de_annref e) | None => (s1, 0) end) = (s', fd) ->
     (fd <> 0 -> exists d, In d (l_dds s) /\ d_tag d = anntag /\ d_ref d = fd /\ decode_target (d_data d) = (g, r)) /\
     (fd = 0 -> forall d, In d (l_dds s) -> d_tag d = anntag -> decode_target (d_data d) <> (g, r))).
  { intros blocks s1 Hdir Hdd [C1 C2] fd Hm. destruct (find _ (concat blocks)) as [e|] eqn:Ef; inversion Hm; subst.
    - apply find_some in Ef. destruct Ef as [Hin Hp]. apply andb_true_iff in Hp. destruct Hp as [P1 P2].
      apply negb_true_iff in P1. apply Z.eqb_neq in P1. rewrite locate_match in P2. apply andb_true_iff in P2. destruct P2 as [P2 P3].
      apply Z.eqb_eq in P2. apply Z.eqb_eq in P3. split; [|intros X; contradiction].
      intros _. destruct (C1 e Hin P1) as [d [D1 [D2 [D3 D4]]]]. exists d. repeat split; auto. rewrite D4. congruence.
    - split; [intros X; exfalso; apply X; reflexivity|]. intros _ d Hd Ht Hdec.
      destruct (C2 d Hd Ht) as [e [E1 [E2 E3]]]. pose proof (find_none _ _ Ef e E1) as X. cbv beta in X. rewrite locate_match in X.
      rewrite Hdec in E3. inversion E3. subst. rewrite !Z.eqb_refl in X. simpl in X. rewrite andb_true_r in X.
      apply negb_false_iff in X. apply Z.eqb_eq in X. pose proof (Hrefs d Hd). lia. }
  rewrite (proj2 (Z.eqb_neq g 0) Hg) in H.
  destruct (l_dir s kind) as [blocks|] eqn:Ed.
  - simpl in H. rewrite Ed in H. destruct (Hfind blocks s Ed eq_refl (HD kind blocks Hk Ed) found H) as [A B].
    assert (s' = s) by (destruct (find _ _); inversion H; reflexivity). subst s'.
    split; [assumption|]. split; [reflexivity|]. split; [apply same_tables_refl|]. split; [auto|]. split; [assumption|]. split; [assumption|].
    split; [intros _ X; congruence | right; eauto].
  - destruct (zlen (of_tag anntag (l_dds s)) =? 0) eqn:Ez; cbv beta iota zeta in H; cbn [negb] in H; cbv beta iota zeta in H.
    + inversion H; subst s' found. apply Z.eqb_eq in Ez.
      assert (Hnil : of_tag anntag (l_dds s) = []) by (destruct (of_tag anntag (l_dds s)); [reflexivity | unfold zlen in Ez; simpl in Ez; lia]).
      split; [assumption|]. split; [reflexivity|]. split; [apply same_tables_refl|]. split; [auto|]. split; [intros X; exfalso; apply X; reflexivity|].
      split; [|split; [auto | left; assumption]].
      intros _ d Hd Ht. exfalso. assert (In d (of_tag anntag (l_dds s))) by (unfold of_tag; apply filter_In; split; [assumption | apply Z.eqb_eq; assumption]).
      rewrite Hnil in H0. contradiction.
    + set (blk := map (fun d => mkdirent (d_ref d) (fst (decode_target (d_data d))) (snd (decode_target (d_data d)))) (of_tag anntag (l_dds s))) in *.
      set (s1 := set_dir s kind (Some [blk])) in *.
      assert (Hd1 : l_dir s1 kind = Some [blk]) by (simpl; apply upd_same). rewrite Hd1 in H.
      destruct (Hfind [blk] s1 Hd1 eq_refl (Hbuild _ eq_refl) found H) as [A B].
      assert (s' = s1) by (destruct (find _ _); inversion H; reflexivity). subst s'.
      split.
      { intros k b Hk' Hb. destruct (Z.eq_dec k kind) as [->|N].
        - rewrite Hd1 in Hb. inversion Hb; subst b. apply (Hbuild _ eq_refl).
        - simpl in Hb. rewrite upd_other in Hb by assumption. apply (HD k b Hk' Hb). }
      split; [reflexivity|]. split; [repeat split|]. split; [intros k N; simpl; apply upd_other; assumption|].
      split; [assumption|]. split; [assumption|]. split; [intros _ X; congruence | right; eauto].
Qed.

(* ================= 2. what DFANIgetann leaves in the caller's buffer ========================================= *)
Definition dfan_len (lab : bool) (data : list Z) (maxlen : Z) : Z :=
  if lab then (if truth (DFANIgetann_label_trunc (zlen data - 4) maxlen) then maxlen - 1 else zlen data - 4)
  else (if truth (DFANIgetann_desc_trunc (zlen data - 4) maxlen) then maxlen else zlen data - 4).

Lemma dfan_image_spec : forall (lab : bool) data maxlen, 1 <= maxlen -> 4 <= zlen data ->
  (dfan_len lab data maxlen <? 0) = false /\
  (if lab then poke_at (if 0 <? dfan_len lab data maxlen
                        then poke (repeat FILL (Z.to_nat maxlen)) (firstn (Z.to_nat (dfan_len lab data maxlen)) (skipn 4 data))
                        else repeat FILL (Z.to_nat maxlen)) (dfan_len lab data maxlen) 0
   else (if 0 <? dfan_len lab data maxlen
         then poke (repeat FILL (Z.to_nat maxlen)) (firstn (Z.to_nat (dfan_len lab data maxlen)) (skipn 4 data))
         else repeat FILL (Z.to_nat maxlen))) = buffer_image lab (skipn 4 data) maxlen.
Proof.
  intros lab data maxlen Hm H4. set (txt := skipn 4 data).
  assert (Hlen : zlen data - 4 = zlen txt) by (unfold txt, zlen in *; rewrite skipn_length; lia).
  unfold dfan_len. rewrite Hlen. unfold DFANIgetann_label_trunc, DFANIgetann_desc_trunc. rewrite !truth_gt.
  unfold buffer_image, zlen in *.
  set (L := length txt) in *. set (m := Z.to_nat maxlen).
  assert (Em : maxlen = Z.of_nat m) by (unfold m; rewrite Z2Nat.id; lia).
  destruct lab.
  - destruct (maxlen - 1 <? Z.of_nat L) eqn:E.
    + apply Z.ltb_lt in E. rewrite Z.min_r by lia. split; [apply Z.ltb_ge; lia|].
      assert (En : maxlen - 1 = Z.of_nat (m - 1)) by lia. rewrite En.
      rewrite Nat2Z.id.
      rewrite image_desc by lia. rewrite image_label by lia.
      rewrite app_length, firstn_length_le by lia. simpl. repeat f_equal; lia.
    + apply Z.ltb_ge in E. rewrite Z.min_l by lia. split; [apply Z.ltb_ge; lia|].
      rewrite Nat2Z.id.
      rewrite image_desc by lia. rewrite image_label by lia.
      rewrite app_length, firstn_length_le by lia. simpl. repeat f_equal; lia.
  - destruct (maxlen <? Z.of_nat L) eqn:E.
    + apply Z.ltb_lt in E. rewrite Z.min_r by lia. split; [apply Z.ltb_ge; lia|].
      rewrite Em. rewrite Nat2Z.id.
      rewrite image_desc by lia. rewrite app_nil_r. rewrite firstn_length_le by lia. reflexivity.
    + apply Z.ltb_ge in E. rewrite Z.min_l by lia. split; [apply Z.ltb_ge; lia|].
      rewrite Nat2Z.id.
      rewrite image_desc by lia. rewrite app_nil_r. rewrite firstn_length_le by lia. reflexivity.
Qed.

Lemma DFANIgetann_found : forall s kind g r maxlen s1 found d,
  g <> 0 -> r <> 0 -> 1 <= maxlen -> DFANIlocate s kind g r = (s1, found) -> found <> 0 ->
  hfind (dfan_tag kind) found (l_dds s1) = Some d -> 4 <= zlen (d_data d) ->
  DFANIgetann s kind g r maxlen = (set_lastref s1 found, Some (buffer_image (kind =? DFAN_LABEL) (skipn 4 (d_data d)) maxlen)) /\
  DFANIgetannlen s kind g r = (set_lastref s1 found, zlen (skipn 4 (d_data d))).
Proof.
  intros s kind g r maxlen s1 found d Hg Hr Hm Hl Hf Hh H4.
  unfold DFANIgetann, DFANIgetannlen. rewrite (proj2 (Z.eqb_neq g 0) Hg), (proj2 (Z.eqb_neq r 0) Hr). cbn [orb]. rewrite Hl.
  rewrite (proj2 (Z.eqb_neq found 0) Hf). rewrite Hh.
  assert (E : zlen (d_data d) - 4 = zlen (skipn 4 (d_data d))) by (unfold zlen in *; rewrite skipn_length; lia).
  split; [|rewrite E; reflexivity].
  cbv zeta. destruct (kind =? DFAN_LABEL).
  - destruct (dfan_image_spec true (d_data d) maxlen Hm H4) as [A B]. unfold dfan_len in A, B. rewrite A, B. reflexivity.
  - destruct (dfan_image_spec false (d_data d) maxlen Hm H4) as [A B]. unfold dfan_len in A, B. rewrite A, B. reflexivity.
Qed.
