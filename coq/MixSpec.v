(** C15 -- abstract specification S: what every programming interface must show of the objects in a file.

    A file holds scientific datasets (n-d arrays), raster images (x * y pixels of ncomp components), palettes
    (256 * 3 bytes) and annotations (byte strings attached to the file or to a tag/ref).  The content does not
    depend on which interface wrote it; an interface is a *view*: a projection of that content that
      - selects the objects the interface is able to address (8-bit raster calls: one-component images, ...),
      - names the number type in its own vocabulary (netCDF-style calls: nc_type),
      - lays the values out as the caller asked (interlace requested for reading).
    No proofs here (total computable definitions, extracted to OCaml).  Bytes are Z in [0,256).             *)
From Coq Require Import ZArith List Bool.
Import ListNotations.
Local Open Scope Z_scope.

(* ---------------------------------------------------------------------------------------------- content *)
Record dataset := mkDs {
  ds_dims : list Z;          (* extents, slowest first; for a record variable the head is the record count *)
  ds_nt   : Z;               (* HDF number type, incl. the DFNT_NATIVE / DFNT_LITEND flag bits *)
  ds_data : list Z;          (* element bytes in the caller's (little-endian host) memory order, row major *)
  ds_scales : list (option (list Z));   (* per dimension: the scale values (bytes, type ds_nt) if one was set *)
  ds_strs : option (list Z * list Z * list Z);   (* label, unit, format of the data *)
  ds_range : option (list Z * list Z);  (* maximum, minimum (bytes, type ds_nt) *)
  ds_dstrs : list (option (list Z * list Z * list Z));   (* per dimension: label, unit, format *)
  ds_dnames : list (list Z)             (* per dimension: the name the writer gave it ([] = none) *)
}.

Record image := mkIm {
  im_x : Z; im_y : Z; im_ncomp : Z;
  im_nt : Z;                 (* number type of one component (8-bit types only in this check) *)
  im_il : Z;                 (* interlace the writer handed the data over in: 0 pixel, 1 line, 2 component *)
  im_data : list Z;          (* as handed over by the writer, in interlace im_il *)
  im_pal : option (list Z)   (* 768 bytes, pixel interlaced r,g,b *)
}.

Inductive akind := FileLabel | FileDesc | ObjLabel | ObjDesc.
Record annot := mkAn { an_kind : akind; an_tag : Z; an_ref : Z; an_text : list Z }.

(* ------------------------------------------------------------------------------------------ number types *)
Definition nt_base (nt : Z) : Z := Z.land nt 255.
Definition nt_litend (nt : Z) : bool := Z.testbit nt 14.   (* DFNT_LITEND = 0x4000 *)
Definition nt_native (nt : Z) : bool := Z.testbit nt 12.   (* DFNT_NATIVE = 0x1000 *)

(** size in bytes of one element (memory and file sizes agree for every type used here) *)
Definition nt_size (nt : Z) : Z :=
  let b := nt_base nt in
  if (b =? 3) || (b =? 4) || (b =? 20) || (b =? 21) then 1
  else if (b =? 22) || (b =? 23) then 2
  else if (b =? 24) || (b =? 25) || (b =? 5) then 4
  else if (b =? 6) then 8 else 0.

(** the netCDF-style name of an HDF number type (NC_BYTE 1, NC_CHAR 2, NC_SHORT 3, NC_LONG 4, NC_FLOAT 5,
    NC_DOUBLE 6; unsigned types share the signed name) *)
Definition nc_type_of (nt : Z) : Z :=
  let b := nt_base nt in
  if (b =? 20) || (b =? 21) then 1
  else if (b =? 3) || (b =? 4) then 2
  else if (b =? 22) || (b =? 23) then 3
  else if (b =? 24) || (b =? 25) then 4
  else if (b =? 5) then 5
  else if (b =? 6) then 6 else 0.

(* ----------------------------------------------------------------------------------------- byte order *)
Fixpoint chunks (fuel : nat) (w : nat) (l : list Z) : list (list Z) :=
  match fuel with
  | O => []
  | S k => match l with [] => [] | _ => firstn w l :: chunks k w (skipn w l) end
  end.

(** the stored (file) byte order of an array: big-endian unless the type says little-endian / native *)
Definition file_order (nt : Z) (data : list Z) : list Z :=
  if nt_litend nt || nt_native nt then data
  else concat (map (@rev Z) (chunks (length data) (Z.to_nat (nt_size nt)) data)).

(* ------------------------------------------------------------------------------------------- interlace *)
Definition zseq (n : Z) : list Z := map Z.of_nat (seq 0 (Z.to_nat n)).

(** position of component c of pixel (x,y) in an X*Y*C image laid out with interlace il *)
Definition pix_index (il X Y C x y c : Z) : Z :=
  if il =? 0 then (y * X + x) * C + c
  else if il =? 1 then (y * C + c) * X + x
  else (c * Y + y) * X + x.

(** (x,y,c) triples in the order interlace il stores them *)
Definition coords (il X Y C : Z) : list (Z * Z * Z) :=
  if il =? 0 then flat_map (fun y => flat_map (fun x => map (fun c => (x, y, c)) (zseq C)) (zseq X)) (zseq Y)
  else if il =? 1 then flat_map (fun y => flat_map (fun c => map (fun x => (x, y, c)) (zseq X)) (zseq C)) (zseq Y)
  else flat_map (fun c => flat_map (fun y => map (fun x => (x, y, c)) (zseq X)) (zseq Y)) (zseq C).

(** the same pixels, laid out with interlace [to] instead of [from] (data must hold X*Y*C bytes) *)
Definition relayout (from to X Y C : Z) (data : list Z) : list Z :=
  map (fun p => match p with (x, y, c) => nth (Z.to_nat (pix_index from X Y C x y c)) data 0 end)
      (coords to X Y C).

Definition image_ok (m : image) : bool :=
  (0 <? im_x m) && (0 <? im_y m) && (0 <? im_ncomp m) && (0 <=? im_il m) && (im_il m <=? 2) &&
  (Z.of_nat (length (im_data m)) =? im_x m * im_y m * im_ncomp m).

(* ------------------------------------------------------------------------------------------ observations *)
(** one observation = one output line of the harness: a view name, integers, byte strings *)
Inductive tok := TI (z : Z) | TH (b : list Z) | TS (code : Z).
(* TS codes (printed as words by the driver): *)
Definition w_dfsd := 1. Definition w_sd := 2. Definition w_nc := 3. Definition w_vg := 4. Definition w_sdn := 5.
Definition w_dfr8 := 6. Definition w_df24 := 7. Definition w_gr := 8. Definition w_grr := 9. Definition w_dfp := 10.
Definition w_vgi := 11. Definition w_n := 12. Definition w_lut := 13. Definition w_nolut := 14.
Definition w_dfan := 15. Definition w_an := 16. Definition w_fl := 17. Definition w_fd := 18. Definition w_ol := 19.
Definition w_od := 20. Definition w_nostrip := 21. Definition w_nopal := 22.
Definition w_dfsdmeta := 23. Definition w_sdmeta := 24. Definition w_scale := 25. Definition w_strs := 26.
Definition w_range := 27. Definition w_none := 28. Definition w_dfsdp := 29. Definition w_dfr8p := 30.
Definition w_padok := 31. Definition w_dstrs := 32. Definition w_dname := 33.
Definition w_df24s := 34. Definition w_dfr8s := 35.

Definition line := list tok.

Fixpoint number {A} (k : Z) (l : list A) : list (Z * A) :=
  match l with [] => [] | a :: r => (k, a) :: number (k + 1) r end.

Definition zlen {A} (l : list A) : Z := Z.of_nat (length l).

(* ---- scientific datasets.  Writers: 1 DFSD, 2 SD, 3 netCDF-style ------------------------------------ *)
Definition sds_line (view : Z) (ty : Z -> Z) (order : Z -> list Z -> list Z) (kd : Z * dataset) : line :=
  let (k, d) := kd in
  [TS view; TI k; TI (zlen (ds_dims d))] ++ map TI (ds_dims d) ++ [TI (ty (ds_nt d)); TH (order (ds_nt d) (ds_data d))].

Definition same_order (_ : Z) (b : list Z) := b.

(** the number type as every view names it.  The flavour bits say how the file stores the numbers, and a file
    records "native" as the machine class of the writing host: on this (little-endian) host that is the
    little-endian class for numbers and the standard class for characters. *)
Definition same_type (nt : Z) : Z :=
  if nt_native nt then (if (nt_base nt =? 3) || (nt_base nt =? 4) then nt_base nt else nt_base nt + 16384) else nt.

(** descriptive metadata of a dataset as one interface shows it: the scale of every dimension, the data strings,
    the range.  [has] says whether the description this interface reads can carry them at all: the multi-file SD
    calls keep them in attributes and dimension variables, which the older NDG description does not hold, so the
    single-file calls see the metadata of the datasets they wrote themselves only. *)
Definition meta_lines (view : Z) (has : bool) (kd : Z * dataset) : list line :=
  let (k, d) := kd in
  map (fun js => [TS view; TI k; TS w_scale; TI (fst js)] ++
                 match snd js with Some b => if has then [TH b] else [TS w_none] | None => [TS w_none] end)
      (number 0 (ds_scales d)) ++
  map (fun js => [TS view; TI k; TS w_dstrs; TI (fst js)] ++
                 match snd js with
                 | Some (l, u, f) => if has then [TH l; TH u; TH f] else [TH []; TH []; TH []]
                 | None => [TH []; TH []; TH []]
                 end)
      (number 0 (ds_dstrs d)) ++
  (if view =? w_sdmeta then
     flat_map (fun jn => match snd jn with [] => [] | nm => [[TS view; TI k; TS w_dname; TI (fst jn); TH nm]] end)
              (number 0 (ds_dnames d))
   else []) ++
  [[TS view; TI k; TS w_strs] ++
   match ds_strs d with
   | Some (l, u, f) => if has then [TH l; TH u; TH f] else [TH []; TH []; TH []]
   | None => [TH []; TH []; TH []]
   end] ++
  [[TS view; TI k; TS w_range] ++
   match ds_range d with
   | Some (mx, mn) => if has then [TH mx; TH mn] else [TS w_none]
   | None => [TS w_none]
   end].

(** every dataset, whoever wrote it, through: the single-file SDS calls, the multi-file SD calls, the
    netCDF-style calls, the Vgroup/Vdata records that describe SD objects, and the SD calls once the Vgroup
    description is gone (older NDG description only) *)
(** In the SD data model a dimension scale is itself a (coordinate) variable, and every variable of an SD file has
    an NDG: through the older description each scale set with SDsetdimscale appears as a one-dimensional dataset
    of its own, right after the dataset it was set for. *)
Definition scale_datasets (d : dataset) : list dataset :=
  flat_map (fun js => match snd js with
                      | Some b => [mkDs [nth (Z.to_nat (fst js)) (ds_dims d) 0] (ds_nt d) b [None] None None [None] [[]]]
                      | None => []
                      end) (number 0 (ds_scales d)).
Definition ndg_datasets (writer : Z) (l : list dataset) : list dataset :=
  if writer =? 2 then flat_map (fun d => d :: scale_datasets d) l else l.

Definition sds_views (writer : Z) (l : list dataset) : list line :=
  let nl := number 0 l in
  let ndl := number 0 (ndg_datasets writer l) in
  let cnt (v : Z) := [[TS v; TS w_n; TI (zlen l)]] in
  [[TS w_dfsd; TS w_n; TI (zlen ndl)]] ++ map (sds_line w_dfsd same_type same_order) ndl ++
  (* the same through a caller's array larger than the dataset: same values, rest of the array untouched *)
  map (fun kd => sds_line w_dfsdp same_type same_order kd ++ [TS w_padok]) ndl ++
  flat_map (meta_lines w_dfsdmeta (writer =? 1)) ndl ++
  map (sds_line w_sd same_type same_order) nl ++ cnt w_sd ++
  flat_map (meta_lines w_sdmeta (negb (writer =? 3))) nl ++
  map (sds_line w_nc nc_type_of same_order) nl ++ cnt w_nc ++
  (if writer =? 1 then [[TS w_vg; TS w_n; TI 0]; [TS w_sdn; TS w_nostrip; TI 0]]
   else map (sds_line w_vg nt_base file_order) nl ++ cnt w_vg ++
        map (sds_line w_sdn same_type same_order) ndl ++ [[TS w_sdn; TS w_n; TI (zlen ndl)]]).

(* ---- a session of the single-file SDS writer ----------------------------------------------------------- *)
(** The single-file calls keep the settings of the writer between datasets (the documented contract of DFSDsetdims,
    DFSDsetNT, DFSDsetdimscale, DFSDsetdatastrs, DFSDsetdimstrs, DFSDsetrange, DFSDclear):
      - new dimensions forget scales and all strings; the same dimensions again change nothing;
      - a new number type forgets the scales (their values have the data's type);
      - a scale, the strings of a dimension, the data strings stay in effect until replaced, removed (scale = none)
        or forgotten as above;  the range applies to the next dataset only;  DFSDclear forgets everything.
    The content of the file is the list of datasets with the settings in effect when each was added. *)
Inductive dfsd_op :=
  | OpDims (d : list Z) | OpNT (nt : Z) | OpScale (dim : Z) (s : option (list Z))
  | OpStrs (l u f : list Z) | OpDimStrs (dim : Z) (l u f : list Z) | OpRange (mx mn : list Z)
  | OpAdd (data : list Z) | OpClear.

Record dfsd_settings := mkSet {
  ws_dims : list Z; ws_nt : Z; ws_scales : list (option (list Z));
  ws_dstrs : list (option (list Z * list Z * list Z)); ws_strs : option (list Z * list Z * list Z);
  ws_range : option (list Z * list Z) }.

Definition nones {A} (l : list Z) : list (option A) := map (fun _ => None) l.
Fixpoint set_nth {A} (n : nat) (v : A) (l : list A) : list A :=
  match l, n with [], _ => [] | _ :: t, O => v :: t | h :: t, S k => h :: set_nth k v t end.
Fixpoint list_eqb (a b : list Z) : bool :=
  match a, b with [], [] => true | x :: a', y :: b' => (x =? y) && list_eqb a' b' | _, _ => false end.

Definition settings0 : dfsd_settings := mkSet [] 5 [] [] None None.      (* number type defaults to float32 *)

Definition dfsd_step (st : dfsd_settings) (op : dfsd_op) : dfsd_settings * list dataset :=
  match op with
  | OpDims d => if list_eqb d (ws_dims st) then (st, [])
                else (mkSet d (ws_nt st) (nones d) (nones d) None None, [])
  | OpNT nt => if nt =? ws_nt st then (st, [])
               else (mkSet (ws_dims st) nt (nones (ws_dims st)) (ws_dstrs st) (ws_strs st) None, [])
  | OpScale i s => (mkSet (ws_dims st) (ws_nt st) (set_nth (Z.to_nat i) s (ws_scales st)) (ws_dstrs st) (ws_strs st) (ws_range st), [])
  | OpStrs l u f => (mkSet (ws_dims st) (ws_nt st) (ws_scales st) (ws_dstrs st) (Some (l, u, f)) (ws_range st), [])
  | OpDimStrs i l u f =>
      (mkSet (ws_dims st) (ws_nt st) (ws_scales st) (set_nth (Z.to_nat i) (Some (l, u, f)) (ws_dstrs st)) (ws_strs st) (ws_range st), [])
  | OpRange mx mn => (mkSet (ws_dims st) (ws_nt st) (ws_scales st) (ws_dstrs st) (ws_strs st) (Some (mx, mn)), [])
  | OpAdd data =>
      (mkSet (ws_dims st) (ws_nt st) (ws_scales st) (ws_dstrs st) (ws_strs st) None,
       [mkDs (ws_dims st) (ws_nt st) data (ws_scales st) (ws_strs st) (ws_range st) (ws_dstrs st) (map (fun _ => []) (ws_dims st))])
  | OpClear => (settings0, [])
  end.

Fixpoint dfsd_session_from (st : dfsd_settings) (ops : list dfsd_op) : list dataset :=
  match ops with
  | [] => []
  | op :: r => let (st', out) := dfsd_step st op in out ++ dfsd_session_from st' r
  end.
Definition dfsd_session (ops : list dfsd_op) : list dataset := dfsd_session_from settings0 ops.

(* ---- raster images.  Writers: 1 = DFR8 (one component) / DF24 (three), 2 = GR ------------------------ *)
Definition pal_tok (p : option (list Z)) : list tok :=
  match p with Some b => [TH b] | None => [TS w_nopal] end.

Definition lut_toks (p : option (list Z)) : list tok :=
  match p with Some b => [TS w_lut; TI 3; TI 1; TI 0; TI 256; TH b] | None => [TS w_nolut] end.

(** the interlace recorded in the file: DF24 stores the data as handed over, GR always stores pixel interlace *)
Definition stored_il (writer : Z) (m : image) : Z := if writer =? 1 then im_il m else 0.

(** images the older raster calls can address: the ones that have a raster-image group *)
Definition has_rig (writer : Z) (m : image) : bool :=
  (writer =? 1) || ((im_nt m =? 21) && ((im_ncomp m =? 1) || (im_ncomp m =? 3))).

Definition pixels (m : image) (ril : Z) : list Z :=
  relayout (im_il m) ril (im_x m) (im_y m) (im_ncomp m) (im_data m).

(** ril < 0: the reader made no interlace request.  GR then hands the pixels over in the interlace it reports for
    the image, the 24-bit calls in pixel interlace. *)
Definition gr_line (view writer ril : Z) (km : Z * image) : line :=
  let (k, m) := km in
  [TS view; TI k; TI (im_x m); TI (im_y m); TI (im_ncomp m); TI (im_nt m); TI (stored_il writer m);
   TH (pixels m (if ril <? 0 then stored_il writer m else ril))] ++ lut_toks (im_pal m).

Definition dfr8_line (km : Z * image) : line :=
  let (k, m) := km in
  [TS w_dfr8; TI k; TI (im_x m); TI (im_y m); TI (if im_pal m then 1 else 0); TH (pixels m 0)] ++ pal_tok (im_pal m).

Definition df24_line (writer ril : Z) (km : Z * image) : line :=
  let (k, m) := km in
  [TS w_df24; TI k; TI (im_x m); TI (im_y m); TI (stored_il writer m); TH (pixels m (if ril <? 0 then 0 else ril))].

Definition vgi_line (km : Z * image) : line :=
  let (k, m) := km in
  [TS w_vgi; TI k; TI (im_x m); TI (im_y m); TI (im_ncomp m); TI (nt_base (im_nt m)); TI 0;
   TI (if im_pal m then 1 else 0); TH (pixels m 0)].

Fixpoint somes {A} (l : list (option A)) : list A :=
  match l with [] => [] | Some a :: r => a :: somes r | None :: r => somes r end.

Definition img_views (writer ril : Z) (l : list image) : list line :=
  let rigs := filter (has_rig writer) l in
  let r8 := filter (fun m => im_ncomp m =? 1) rigs in
  let r24 := filter (fun m => im_ncomp m =? 3) rigs in
  let pals := somes (map im_pal l) in
  [[TS w_dfr8; TS w_n; TI (zlen r8)]] ++ map dfr8_line (number 0 r8) ++
  map (fun km => [TS w_dfr8p; TI (fst km); TI (im_x (snd km)); TI (im_y (snd km)); TH (pixels (snd km) 0); TS w_padok])
      (number 0 r8) ++
  (* the same images for a caller that knows the dimensions and reads one image after the other without asking *)
  map (fun km => [TS w_dfr8s; TI (fst km); TI (im_x (snd km)); TI (im_y (snd km)); TH (pixels (snd km) 0)]) (number 0 r8) ++
  [[TS w_df24; TS w_n; TI (zlen r24)]] ++ map (df24_line writer ril) (number 0 r24) ++
  map (fun km => [TS w_df24s; TI (fst km); TI (im_x (snd km)); TI (im_y (snd km));
                  TH (pixels (snd km) (if ril <? 0 then 0 else ril))]) (number 0 r24) ++
  [[TS w_gr; TS w_n; TI (zlen l)]] ++ map (gr_line w_gr writer ril) (number 0 l) ++
  [[TS w_dfp; TS w_n; TI (zlen pals)]] ++ map (fun kp => [TS w_dfp; TI (fst kp); TH (snd kp)]) (number 0 pals) ++
  (if writer =? 1 then [[TS w_vgi; TS w_n; TI 0]; [TS w_grr; TS w_nostrip; TI 0]]
   else map vgi_line (number 0 l) ++ [[TS w_vgi; TS w_n; TI (zlen l)]] ++
        [[TS w_grr; TS w_n; TI (zlen rigs)]] ++ map (gr_line w_grr writer ril) (number 0 rigs)).

(* ---- annotations.  Writers: DFAN, AN (the content does not depend on the writer) --------------------- *)
Definition is_kind (k : akind) (a : annot) : bool :=
  match k, an_kind a with
  | FileLabel, FileLabel | FileDesc, FileDesc | ObjLabel, ObjLabel | ObjDesc, ObjDesc => true
  | _, _ => false
  end.

Definition ann_line (view : Z) (a : annot) : line :=
  match an_kind a with
  | FileLabel => [TS view; TS w_fl; TH (an_text a)]
  | FileDesc => [TS view; TS w_fd; TH (an_text a)]
  | ObjLabel => [TS view; TS w_ol; TI (an_tag a); TI (an_ref a); TH (an_text a)]
  | ObjDesc => [TS view; TS w_od; TI (an_tag a); TI (an_ref a); TH (an_text a)]
  end.

Definition ann_views (l : list annot) : list line :=
  let c k := zlen (filter (is_kind k) l) in
  map (ann_line w_dfan) l ++
  [[TS w_an; TS w_n; TI (c FileLabel); TI (c FileDesc); TI (c ObjLabel); TI (c ObjDesc)]] ++
  map (ann_line w_an) l.
