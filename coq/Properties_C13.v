(** C13 -- Handles are safe: valid ones never alias, stale ones are always rejected.
    Property theorems only; each is closed by [exact] of a lemma from AtomProofs.v.
    M = atom.c as implemented (AtomModel.v, over the macros regenerated in gen/Gen_Atom.v); S = finite map
    id -> (group, object) with an unbounded per-group issue counter. *)
From Coq Require Import ZArith List Bool.
Require Import H4.gen.Gen_Atom H4.AtomModel H4.AtomProofs.
Import ListNotations.
Local Open Scope Z_scope.

(** MAKE_ATOM / ATOM_TO_GROUP (regenerated from atom.c) are injective and decodable below 2^28. *)
Theorem make_atom_injective_decodable : forall g n, 0 <= g < 16 -> 0 <= n < 268435456 ->
  group_of (atom_of g n) = g /\ (atom_of g n) mod 268435456 = n /\
  (forall g' n', 0 <= g' < 16 -> 0 <= n' < 268435456 -> atom_of g n = atom_of g' n' -> g = g' /\ n = n').
Proof. exact make_atom_decodable_lemma. Qed.
Print Assumptions make_atom_injective_decodable.

(** ATOM_TO_LOC finds the bucket HAregister_atom used (nextid % hash_size) for every power-of-two table size
    up to 2^28 -- the sizes HAinit_group accepts within the documented limit. *)
Theorem atom_to_loc_matches_registration : forall g n k, 0 <= g < 16 -> 0 <= n < 268435456 -> 0 <= k <= 28 ->
  loc_of (atom_of g n) (2 ^ k) = n mod 2 ^ k.
Proof. intros. rewrite atom_of_enc by assumption. apply loc_of_enc; assumption. Qed.
Print Assumptions atom_to_loc_matches_registration.

(** One registration step: in any state related to the finite map (invariant [Rel]: counters agree, every
    uncached lookup equals the map, bucket ids are distinct, every cache entry is a live id with its object and
    no id is cached twice), HAregister_atom returns exactly the id the specification issues and re-establishes
    the invariant -- provided the group has issued fewer than 2^28 ids in this lifetime. *)
Theorem atom_register_refines_map : forall m s g obj, Rel m s -> op_ok (AReg g obj) s = true ->
  fst (ha_register g obj m) = fst (s_step (AReg g obj) s) /\
  Rel (snd (ha_register g obj m)) (snd (s_step (AReg g obj) s)).
Proof. exact reg_refines. Qed.
Print Assumptions atom_register_refines_map.

(** ... and that id is new (never aliases a live handle), carries its group, designates its object at once and
    leaves every other id's meaning unchanged. *)
Theorem registered_id_is_fresh_and_designates_its_object : forall m s g obj, Rel m s -> op_ok (AReg g obj) s = true ->
  forall gp, live_group g m = Some gp ->
  let id := fst (ha_register g obj m) in
  s_lookup id s = None /\ m_find id m = None /\ group_of id = g /\
  m_find id (snd (ha_register g obj m)) = Some obj /\
  (forall id', id' <> id -> m_find id' (snd (ha_register g obj m)) = m_find id' m).
Proof. exact register_issues_fresh_id. Qed.
Print Assumptions registered_id_is_fresh_and_designates_its_object.

(** HAatom_object through the 4-entry move-toward-front cache: for EVERY id (live, removed, never issued, of a
    foreign or invalid group, -1) the result is the finite map's answer (object, or NULL), and the cache
    invariant (only live ids, their own objects, no duplicates) is re-established. *)
Theorem atom_lookup_refines_map : forall m s id, Rel m s ->
  fst (ha_object id m) = fst (s_step (ALookup id) s) /\ Rel (snd (ha_object id m)) (snd (s_step (ALookup id) s)).
Proof. exact lookup_refines. Qed.
Print Assumptions atom_lookup_refines_map.

(** HAinit_group (argument checks incl. the power-of-two test, nested initialisation, re-initialisation of a
    destroyed group with the counter restarting at 0). *)
Theorem atom_init_refines_map : forall m s g hs, Rel m s -> op_ok (AInit g hs) s = true ->
  fst (ha_init g hs m) = fst (s_step (AInit g hs) s) /\ Rel (snd (ha_init g hs m)) (snd (s_step (AInit g hs) s)).
Proof. exact init_refines. Qed.
Print Assumptions atom_init_refines_map.

(** History level.  PARTIAL: proved for all histories of HAinit_group / HAregister_atom / HAatom_object /
    HAatom_group calls from the initial state (any interleaving, any ids, any number of groups), with fewer than
    2^28 registrations per group lifetime.  Missing for the full statement [atom_refines_map] (all seven
    operations): the step lemmas for HAremove_atom, HAdestroy_group and HAsearch_atom
    ([forall m s o, Rel m s -> op_ok o s = true -> results agree /\ Rel is kept] for o = ARemove / ADestroy /
    ASearch; ASearch needs in addition the bucket-membership invariant "a node in bucket b of group g has
    ATOM_TO_GROUP = g and ATOM_TO_LOC = b").  Those three operations are covered by the state-for-state
    correspondence run only. *)
Theorem atom_refines_map_partial : forall h, forallb op_covered h = true -> hist_ok h s_init = true ->
  fst (m_run h m_init) = fst (s_run h s_init).
Proof. exact atom_refines_map_partial_lemma. Qed.
Print Assumptions atom_refines_map_partial.

(** The hypothesis the proof forces is necessary: in ANY state whose group counter stands at n + 2^28,
    HAregister_atom issues the id of registration number n again (no in-use check) -- two live handles alias
    when that id is still registered.  (Reaching the state takes 2^28 registrations; replayed against the real
    library in the thorough tier; known finding.) *)
Theorem atom_wrap_refuted : forall m g gp n obj,
  live_group g m = Some gp -> gnext gp = n + 268435456 -> 0 <= n < 268435456 ->
  fst (ha_register g obj m) = atom_of g n.
Proof. exact wrap_collision. Qed.
Print Assumptions atom_wrap_refuted.

(** File machine (hfile.c reference counts over the id map): the last Hclose of a file with attached access
    elements fails and changes nothing. *)
Theorem close_with_attached_fails : forall st fid r fr,
  file_of fid st = Some (r, fr) -> frefcount fr = 1 -> 0 < fattach fr ->
  f_step (FClose fid) st = (RFail, st).
Proof. exact close_with_attached_fails_lemma. Qed.
Print Assumptions close_with_attached_fails.

(** ... and ids that are not in the map, or name an access element, are rejected by every file-level call
    with the state unchanged. *)
Theorem stale_file_id_rejected : forall st fid, aget fid (fids st) = None ->
  f_step (FClose fid) st = (RFail, st) /\ f_step (FInq fid) st = (RFail, st) /\
  (forall w, f_step (FStart fid w) st = (RFail, st)) /\ f_step (FEnd fid) st = (RFail, st).
Proof. exact stale_file_id_rejected_lemma. Qed.
Print Assumptions stale_file_id_rejected.

Theorem wrong_kind_id_rejected : forall st id f, aget id (fids st) = Some (OAid f) ->
  f_step (FClose id) st = (RFail, st) /\ f_step (FInq id) st = (RFail, st) /\
  (forall w, f_step (FStart id w) st = (RFail, st)).
Proof. exact wrong_kind_id_rejected_lemma. Qed.
Print Assumptions wrong_kind_id_rejected.

(** Non-vacuity: the hypotheses are met by concrete non-trivial states / histories. *)
Example init_state_related : Rel m_init s_init.
Proof. exact Rel_init. Qed.
Example history_in_domain :
  let h := [AInit 2 64; AReg 2 11; AReg 2 12; ALookup 536870912; ALookup 536870913; ALookup 536870912;
            ALookup (-1); ALookup 268435456; AGroup 536870913; AInit 2 64; AReg 8 5; AInit 8 2; AReg 8 5;
            ALookup (-2147483648)] in
  forallb op_covered h = true /\ hist_ok h s_init = true /\
  fst (m_run h m_init) = [0; 536870912; 536870913; 11; 12; 11; 0; 0; 2; 0; -1; 0; -2147483648; 5].
Proof. vm_compute. auto. Qed.
Example wrap_state_exists :
  (* the table after HAinit_group(2,4); HAregister_atom(2,11), with its counter advanced by 2^28 *)
  let gp := mkGrp 1 4 1 (0 + 268435456) [(0, [mkNode 536870912 11])] in
  let m' := set_group 2 gp m_init in
  live_group 2 m' = Some gp /\ gnext gp = 0 + 268435456 /\
  m_find 536870912 m' = Some 11 /\ fst (ha_register 2 12 m') = 536870912 /\ atom_of 2 0 = 536870912.
Proof. vm_compute. repeat split. Qed.
Example close_refused_state :
  let st := snd (f_run [FOpen 1 DFACC_READ; FStart 0 false] f_init) in
  file_of 0 st = Some (0, mkF 1 1 1 1) /\
  fst (f_run [FClose 0; FEnd 1; FClose 0] st) = [RFail; ROk 0; ROk 0] /\
  f_quiescent (snd (f_run [FClose 0; FEnd 1; FClose 0] st)) = true.
Proof. vm_compute. repeat split. Qed.
Example cache_size : ATOM_CACHE_SIZE = 4.
Proof. exact cache_size_is_4. Qed.
