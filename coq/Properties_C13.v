(** C13 -- Handles are safe: valid ones never alias, stale ones are always rejected.
    Property theorems only; each is closed by [exact] of a lemma from AtomProofs.v. *)
From Coq Require Import ZArith List Bool.
Require Import H4.gen.Gen_Atom H4.AtomModel H4.AtomProofs.
Import ListNotations.
Local Open Scope Z_scope.

Theorem cache_has_four_entries : ATOM_CACHE_SIZE = 4.
Proof. exact cache_size_is_4. Qed.
Print Assumptions cache_has_four_entries.
