(** C13 -- Handles are safe: valid ones never alias, stale ones are always rejected.
    Property theorems only; each is closed by [exact] of a lemma from AtomProofs.v.
    M = atom.c as implemented (AtomModel.v, over the macros regenerated in gen/Gen_Atom.v); S = finite map
    id -> (group, object) with an unbounded per-group issue counter. *)
From Coq Require Import ZArith List Bool.
Require Import H4.gen.Gen_Atom H4.AtomModel H4.AtomProofs.
Import ListNotations.
Local Open Scope Z_scope.

(** MAKE_ATOM / ATOM_TO_GROUP (regenerated from atom.c) are injective and decodable below 2^28. *)
Theorem make_atom_injective_decodable : forall g n, 0 <= g < 16 -> 0 <= n < 268435456 ->
  group_of (atom_of g n) = g /\ (atom_of g n) mod 268435456 = n /\
  (forall g' n', 0 <= g' < 16 -> 0 <= n' < 268435456 -> atom_of g n = atom_of g' n' -> g = g' /\ n = n').
Proof. exact make_atom_decodable_lemma. Qed.
Print Assumptions make_atom_injective_decodable.

(** ATOM_TO_LOC finds the bucket HAregister_atom used (nextid % hash_size) for every power-of-two table size
    up to 2^28 -- the sizes HAinit_group accepts within the documented limit. *)
Theorem atom_to_loc_matches_registration : forall g n k, 0 <= g < 16 -> 0 <= n < 268435456 -> 0 <= k <= 28 ->
  loc_of (atom_of g n) (2 ^ k) = n mod 2 ^ k.
Proof. intros. rewrite atom_of_enc by assumption. apply loc_of_enc; assumption. Qed.
Print Assumptions atom_to_loc_matches_registration.

(** One registration step: in any state related to the finite map (invariant [Rel]: counters agree, every
    uncached lookup equals the map, bucket ids are distinct, every cache entry is a live id with its object and
    no id is cached twice), HAregister_atom returns exactly the id the specification issues and re-establishes
    the invariant -- provided the group has issued fewer than 2^28 ids in this lifetime. *)
Theorem atom_register_refines_map : forall m s g obj, Rel m s -> op_ok (AReg g obj) s = true ->
  fst (ha_register g obj m) = fst (s_step (AReg g obj) s) /\
  Rel (snd (ha_register g obj m)) (snd (s_step (AReg g obj) s)).
Proof. exact reg_refines. Qed.
Print Assumptions atom_register_refines_map.

(** ... and that id is new (never aliases a live handle), carries its group, designates its object at once and
    leaves every other id's meaning unchanged. *)
Theorem registered_id_is_fresh_and_designates_its_object : forall m s g obj, Rel m s -> op_ok (AReg g obj) s = true ->
  forall gp, live_group g m = Some gp ->
  let id := fst (ha_register g obj m) in
  s_lookup id s = None /\ m_find id m = None /\ group_of id = g /\
  m_find id (snd (ha_register g obj m)) = Some obj /\
  (forall id', id' <> id -> m_find id' (snd (ha_register g obj m)) = m_find id' m).
Proof. exact register_issues_fresh_id. Qed.
Print Assumptions registered_id_is_fresh_and_designates_its_object.

(** HAatom_object through the 4-entry move-toward-front cache: for EVERY id (live, removed, never issued, of a
    foreign or invalid group, -1) the result is the finite map's answer (object, or NULL), and the cache
    invariant (only live ids, their own objects, no duplicates) is re-established. *)
Theorem atom_lookup_refines_map : forall m s id, Rel m s ->
  fst (ha_object id m) = fst (s_step (ALookup id) s) /\ Rel (snd (ha_object id m)) (snd (s_step (ALookup id) s)).
Proof. exact lookup_refines. Qed.
Print Assumptions atom_lookup_refines_map.

(** HAinit_group (argument checks incl. the power-of-two test, nested initialisation, re-initialisation of a
    destroyed group with the counter restarting at 0). *)
Theorem atom_init_refines_map : forall m s g hs, Rel m s -> op_ok (AInit g hs) s = true ->
  fst (ha_init g hs m) = fst (s_step (AInit g hs) s) /\ Rel (snd (ha_init g hs m)) (snd (s_step (AInit g hs) s)).
Proof. exact init_refines. Qed.
Print Assumptions atom_init_refines_map.

(** The remaining steps: HAremove_atom (incl. the "delete from cache" loop), HAdestroy_group (incl. dropping the
    group's cache entries), and HAsearch_atom (under the additional invariants of [Rel2]: a node in bucket b of
    group g decodes to (g, b), and a table has one list per bucket). *)
Theorem atom_remove_refines_map : forall m s id, Rel m s ->
  fst (ha_remove id m) = fst (s_step (ARemove id) s) /\ Rel (snd (ha_remove id m)) (snd (s_step (ARemove id) s)).
Proof. exact remove_refines. Qed.
Print Assumptions atom_remove_refines_map.

Theorem atom_destroy_refines_map : forall m s g, Rel m s ->
  fst (ha_destroy g m) = fst (s_step (ADestroy g) s) /\ Rel (snd (ha_destroy g m)) (snd (s_step (ADestroy g) s)).
Proof. exact destroy_refines. Qed.
Print Assumptions atom_destroy_refines_map.

Theorem atom_search_refines_map : forall m s g key, Rel2 m s ->
  ha_search g key m = fst (s_step (ASearch g key) s).
Proof. exact search_refines. Qed.
Print Assumptions atom_search_refines_map.

(** History level, FULL: for every history of the seven operations (any interleaving over any groups, any ids:
    live, removed, never issued, foreign or invalid group, double removal, destroy and re-initialisation) with
    non-NULL objects and fewer than 2^28 registrations per group lifetime, the atom table of atom.c returns, call
    by call, exactly what the finite map returns. *)
Theorem atom_refines_map : forall h, hist_ok h s_init = true ->
  fst (m_run h m_init) = fst (s_run h s_init).
Proof. exact atom_refines_map_lemma. Qed.
Print Assumptions atom_refines_map.

(** ... and along every such history no id is live twice, the uncached lookup equals the map for every id, and
    the cache holds only live ids with their own objects, none twice ("the cache never holds a removed id"). *)
Theorem atom_reachable_invariant : forall h, hist_ok h s_init = true ->
  let m := snd (m_run h m_init) in let s := snd (s_run h s_init) in
  NoDup (map fst (slive s)) /\ (forall id, m_find id m = s_lookup id s) /\ Cinv m.
Proof. exact reachable_invariant_lemma. Qed.
Print Assumptions atom_reachable_invariant.

(** The hypothesis the proof forces is necessary: in ANY state whose group counter stands at n + 2^28,
    HAregister_atom issues the id of registration number n again (no in-use check) -- two live handles alias
    when that id is still registered.  (Reaching the state takes 2^28 registrations; replayed against the real
    library in the thorough tier; known finding.) *)
Theorem atom_wrap_refuted : forall m g gp n obj,
  live_group g m = Some gp -> gnext gp = n + 268435456 -> 0 <= n < 268435456 ->
  fst (ha_register g obj m) = atom_of g n.
Proof. exact wrap_collision. Qed.
Print Assumptions atom_wrap_refuted.

(** File machine (hfile.c reference counts over the id map): the last Hclose of a file with attached access
    elements fails and changes nothing. *)
Theorem close_with_attached_fails : forall st fid r fr,
  file_of fid st = Some (r, fr) -> frefcount fr = 1 -> 0 < fattach fr ->
  f_step (FClose fid) st = (RFail, st).
Proof. exact close_with_attached_fails_lemma. Qed.
Print Assumptions close_with_attached_fails.

(** ... and ids that are not in the map, or name an access element, are rejected by every file-level call
    with the state unchanged. *)
Theorem stale_file_id_rejected : forall st fid, aget fid (fids st) = None ->
  f_step (FClose fid) st = (RFail, st) /\ f_step (FInq fid) st = (RFail, st) /\
  (forall w, f_step (FStart fid w) st = (RFail, st)) /\ f_step (FEnd fid) st = (RFail, st).
Proof. exact stale_file_id_rejected_lemma. Qed.
Print Assumptions stale_file_id_rejected.

Theorem wrong_kind_id_rejected : forall st id f, aget id (fids st) = Some (OAid f) ->
  f_step (FClose id) st = (RFail, st) /\ f_step (FInq id) st = (RFail, st) /\
  (forall w, f_step (FStart id w) st = (RFail, st)).
Proof. exact wrong_kind_id_rejected_lemma. Qed.
Print Assumptions wrong_kind_id_rejected.

(** Once every id is released (all records closed, id map empty) nothing of the past reaches the next open: it
    succeeds for every valid mode, and the record it designates -- reference count 1, no attached elements, access
    from the mode alone -- is exactly the record the very first open of a fresh library creates; no other id is valid. *)
Theorem all_released_is_initial : forall st p acc,
  f_quiescent st = true -> Z.land acc DFACC_ALL = acc ->
  let fr := mkF p 1 0 (if acc =? DFACC_CREATE then DFACC_ALL else Z.lor acc DFACC_READ) in
  exists st' r,
    f_step (FOpen p acc) st = (ROk (fnext st), st') /\
    file_of (fnext st) st' = Some (r, fr) /\ fids st' = [(fnext st, OFile r)] /\
    (forall id, id <> fnext st -> aget id (fids st') = None) /\
    file_of 0 (snd (f_step (FOpen p acc) f_init)) = Some (0, fr) /\
    fst (f_step (FOpen p acc) f_init) = ROk 0.
Proof. exact all_released_is_initial_lemma. Qed.
Print Assumptions all_released_is_initial.

(** SD ids (expressions regenerated from mfsd.c SDstart / SDselect / SDgetdimid / SDIhandle_from_id / SDIget_var /
    SDIget_dim): file slot, kind and index are recovered exactly, for every slot below 2048 and index below 2^16. *)
Theorem sdid_decode_encode : forall c i d, 0 <= c < 2048 -> 0 <= i < 65536 -> 0 <= d < 65536 ->
  let fid := SD_file_id c in let sds := SD_sds_id fid i in let dim := SD_dim_id sds d in
  (SD_id_type fid = CDFTYPE /\ SD_id_slot fid = c) /\
  (SD_id_type sds = SDSTYPE /\ SD_id_slot sds = c /\ SD_var_index sds = i) /\
  (SD_id_type dim = DIMTYPE /\ SD_id_slot dim = c /\ SD_dim_index dim = d) /\
  fid <> -1 /\ sds <> -1 /\ dim <> -1.
Proof. exact sdid_decode_encode_lemma. Qed.
Print Assumptions sdid_decode_encode.

(** SDIhandle_from_id + NC_check_id: whatever passes has the expected kind and an open slot; a dataset id is
    rejected where a file or dimension id is expected and when its file slot is closed. *)
Theorem sdid_kind_check : forall id typ ncdf open slot,
  sd_check id typ ncdf open = Some slot ->
  id <> -1 /\ SD_id_type id = typ /\ slot = SD_id_slot id /\ 0 <= slot < ncdf /\ open slot = true.
Proof. exact sdid_kind_check_lemma. Qed.
Print Assumptions sdid_kind_check.

Theorem sdid_wrong_kind_or_closed_rejected : forall c i ncdf open, 0 <= c < 2048 -> 0 <= i < 65536 ->
  let sds := SD_sds_id (SD_file_id c) i in
  sd_check sds CDFTYPE ncdf open = None /\ sd_check sds DIMTYPE ncdf open = None /\
  (open c = false -> sd_check sds SDSTYPE ncdf open = None) /\
  (0 <= c < ncdf -> open c = true -> sd_check sds SDSTYPE ncdf open = Some c).
Proof. exact sdid_wrong_kind_or_closed_rejected_lemma. Qed.
Print Assumptions sdid_wrong_kind_or_closed_rejected.

(** The table of open SD files (mfhdf file.c; guards and loop conditions regenerated from NC_reset_maxopenfiles,
    NC_check_id, NC_open, ncclose): whatever NC_reset_maxopenfiles does with a request -- refuse it, shrink, grow, clamp
    to the system limit -- every file that NC_check_id accepted before is accepted afterwards at the same position
    with the same object, so no SD id an application holds stops working or changes meaning. *)
Theorem ct_reset_keeps_open_files : forall t req lim p o,
  ct_check (Z.of_nat p) t = Some o ->
  ct_check (Z.of_nat p) (snd (ct_reset req lim t)) = Some o.
Proof. exact ct_reset_keeps_open_files_lemma. Qed.
Print Assumptions ct_reset_keeps_open_files.

(** A refused open changes nothing.  Whenever Hopen has to open a stream and the system refuses it -- the first open of
    a path, a create, or the re-open for writing of a file that is open read-only (nested opens of one path in
    different modes) -- the call fails and the state is exactly what it was: the record, its reference and attach
    counts and every id stay as they were.  (The model follows the order of HI_OPEN and HI_CLOSE in that branch of
    Hopen, regenerated as Hopen_reopen_opens_before_closing.) *)
Theorem denied_open_changes_nothing : forall st p acc,
  (forall r fr, rec_of_path p st = Some (r, fr) ->
     acc = DFACC_CREATE \/ (0 <? Z.land acc DFACC_WRITE) && (Z.land (faccess fr) DFACC_WRITE =? 0) = true) ->
  f_step (FOpenDenied p acc) st = (RFail, st).
Proof. exact denied_open_changes_nothing_lemma. Qed.
Print Assumptions denied_open_changes_nothing.

(** ANend (mfan.c) removes the ids of every annotation type from the atom group (types and the set ANend walks are
    regenerated from hdf.h and mfan.c). *)
Theorem anend_releases_every_annotation_type :
  forall t, In t [AN_DATA_LABEL; AN_DATA_DESC; AN_FILE_LABEL; AN_FILE_DESC] -> In t ANend_types_released.
Proof. exact anend_releases_every_type_lemma. Qed.
Print Assumptions anend_releases_every_annotation_type.

(** The two switches of mfan.c between annotation types and tags are inverse to each other: the tag ANIcreate gives a
    new annotation of type t is mapped back to t by ANtagref2id (both tables regenerated from the source), so the id
    ANtagref2id issues for a tag/ref is looked up in the tree of the annotation's own type. *)
Theorem antagref2id_inverts_create : forall t tag,
  In (t, tag) ANIcreate_type_to_tag -> aget tag ANtagref2id_tag_to_type = Some t.
Proof. exact antagref2id_inverts_create_lemma. Qed.
Print Assumptions antagref2id_inverts_create.

(** A write attachment of a Vdata is exclusive.  VSattach's two tests are the unconditional ones (regenerated from
    vio.c), and the handle table judges accordingly: while an id of the Vdata is attached under a file id, an id issued
    for writing is a violation (code 7), an id issued for reading is one if the live attachment is for writing, and a
    refusal is always admissible. *)
Theorem write_attach_is_exclusive : forall t parent p sub ok id id0 h0,
  hget KFile parent t = Some p -> aget id0 t = Some h0 -> hk h0 = KVs -> hparent h0 = parent ->
  hobj h0 = 100 * hobj p + sub ->
  VSattach_write_refused_whenever_attached = 1 /\ VSattach_read_refused_while_written = 1 /\
  fst (h_step (CIssue KVs parent KFile sub ok 1) (AOk id) t) = VBad 7 /\
  (hmode h0 = 1 -> fst (h_step (CIssue KVs parent KFile sub ok 0) (AOk id) t) = VBad 7) /\
  fst (h_step (CIssue KVs parent KFile sub ok 1) AFail t) = VOk.
Proof. exact write_attach_is_exclusive_lemma. Qed.
Print Assumptions write_attach_is_exclusive.

(** Non-vacuity: the hypotheses are met by concrete non-trivial states / histories. *)
Example init_state_related : Rel m_init s_init.
Proof. exact Rel_init. Qed.
Example full_history_in_domain :
  let h := [AInit 2 4; AReg 2 11; AReg 2 12; AReg 2 13; AReg 2 14; AReg 2 15; ALookup 536870912; ALookup 536870916;
            ARemove 536870912; ALookup 536870912; ARemove 536870912; ASearch 2 13; ASearch 2 11; ADestroy 2;
            ALookup 536870913; AInit 2 8; AReg 2 31; ALookup 536870912; AGroup (-1)] in
  hist_ok h s_init = true /\
  fst (m_run h m_init) = [0; 536870912; 536870913; 536870914; 536870915; 536870916; 11; 15; 11; 0; 0; 13; 0; 0; 0; 0;
                          536870912; 31; -1].
Proof. vm_compute. auto. Qed.
Example sd_ids : SD_file_id 3 = 3538947 /\ SD_sds_id (SD_file_id 3) 5 = 3407877 /\
                 SD_dim_id (SD_sds_id (SD_file_id 3) 5) 2 = 3473410.
Proof. vm_compute. auto. Qed.
Example history_in_domain :
  let h := [AInit 2 64; AReg 2 11; AReg 2 12; ALookup 536870912; ALookup 536870913; ALookup 536870912;
            ALookup (-1); ALookup 268435456; AGroup 536870913; AInit 2 64; AReg 8 5; AInit 8 2; AReg 8 5;
            ALookup (-2147483648)] in
  forallb op_covered h = true /\ hist_ok h s_init = true /\
  fst (m_run h m_init) = [0; 536870912; 536870913; 11; 12; 11; 0; 0; 2; 0; -1; 0; -2147483648; 5].
Proof. vm_compute. auto. Qed.
Example wrap_state_exists :
  (* the table after HAinit_group(2,4); HAregister_atom(2,11), with its counter advanced by 2^28 *)
  let gp := mkGrp 1 4 1 (0 + 268435456) [(0, [mkNode 536870912 11])] in
  let m' := set_group 2 gp m_init in
  live_group 2 m' = Some gp /\ gnext gp = 0 + 268435456 /\
  m_find 536870912 m' = Some 11 /\ fst (ha_register 2 12 m') = 536870912 /\ atom_of 2 0 = 536870912.
Proof. vm_compute. repeat split. Qed.
Example close_refused_state :
  let st := snd (f_run [FOpen 1 DFACC_READ; FStart 0 false] f_init) in
  file_of 0 st = Some (0, mkF 1 1 1 1) /\
  fst (f_run [FClose 0; FEnd 1; FClose 0] st) = [RFail; ROk 0; ROk 0] /\
  f_quiescent (snd (f_run [FClose 0; FEnd 1; FClose 0] st)) = true.
Proof. vm_compute. repeat split. Qed.
Example ct_boundary_request :
  (* three files opened, the first two closed: the open file sits at position 2 while one file is open; the request
     for a table of exactly 2 entries (> open files, = highest position) is refused, 3 is accepted *)
  let run := fun ops => fold_left (fun t o => snd (ct_step 20000 o t)) ops ct_init in
  let t := run [CTOpen 7; CTOpen 8; CTOpen 9; CTClose 0; CTClose 1] in
  ct_check 2 t = Some 9 /\ fst (ct_reset 2 20000 t) = 32 /\ fst (ct_reset 3 20000 t) = 3 /\
  ct_check 2 (snd (ct_reset 3 20000 t)) = Some 9 /\ ct_check 2 (snd (ct_reset 2 20000 t)) = Some 9.
Proof. vm_compute. repeat split. Qed.
Example denied_reopen_state :
  (* path 1 open read-only with an access element attached; a write open of the same path is refused by the system *)
  let st := snd (f_run [FOpen 1 DFACC_READ; FStart 0 false] f_init) in
  (exists r fr, rec_of_path 1 st = Some (r, fr) /\ (0 <? Z.land DFACC_WRITE DFACC_WRITE) && (Z.land (faccess fr) DFACC_WRITE =? 0) = true) /\
  fst (f_run [FOpenDenied 1 DFACC_WRITE; FInq 0; FEnd 1; FClose 0] st) = [RFail; ROk 1; ROk 0; ROk 0].
Proof. vm_compute. split; [eexists; eexists; split; reflexivity|reflexivity]. Qed.
Example exclusive_attach_state :
  let t := [(50, mkH KVs 141 7 1 0); (7, mkH KFile 1 (-1) 1 0)] in
  hget KFile 7 t = Some (mkH KFile 1 (-1) 1 0) /\ aget 50 t = Some (mkH KVs 141 7 1 0) /\
  fst (h_step (CIssue KVs 7 KFile 41 true 1) (AOk 51) t) = VBad 7 /\
  fst (h_step (CIssue KVs 7 KFile 41 true 0) (AOk 51) t) = VOk /\
  In (0, 104) ANIcreate_type_to_tag.
Proof. vm_compute. repeat split; auto. Qed.
Example cache_size : ATOM_CACHE_SIZE = 4.
Proof. exact cache_size_is_4. Qed.
