(** C16 -- specification S: what an observer of one workload run may see.

    A run of a workload program against the library with a fault plan is observed as
      - how the process ended (normally / crash / hang / sanitizer report),
      - the success flag of every API call in order (the last one is the final close),
      - how many injected device failures actually hit,
      - whether the resulting file (and the data delivered by read calls) equal those of the fault-free run.
    The property C16 is a predicate on such observations.  [judge] is the executable form used as the oracle of the
    correspondence check; [visible] is the first formulation of the property text, [silent_free] the second
    ("equivalently"), and [visible_implies_judge] relates them.  No proofs about the library here. *)
From Coq Require Import List Bool NArith.
Import ListNotations.

Inductive status := StOk | StCrash | StHang | StSanitizer.

Record obs := {
  o_status    : status;
  o_rets      : list bool;   (* success flag of each API call, in call order, final close last *)
  o_faults    : N;           (* injected device-call failures that hit *)
  o_same_file : bool;        (* final file bytes = those of the fault-free run *)
  o_same_data : bool         (* bytes delivered by the read calls = those of the fault-free run *)
}.

Inductive verdict := Holds | Silent | Unsafe.

Definition all_ok (rs : list bool) : bool := forallb (fun b => b) rs.

(** the library neither crashes, hangs nor touches invalid memory ... *)
Definition safe (o : obs) : bool := match o_status o with StOk => true | _ => false end.

(** ... and the failure is visible: some API call up to and including the final close returns its failure value *)
Definition visible (o : obs) : bool := N.eqb (o_faults o) 0 || negb (all_ok (o_rets o)).

(** "equivalently": whenever every call reports success the outcome is that of the fault-free run *)
Definition silent_free (o : obs) : bool := negb (all_ok (o_rets o)) || (o_same_file o && o_same_data o).

Definition judge (o : obs) : verdict :=
  if negb (safe o) then Unsafe else if silent_free o then Holds else Silent.

(** the stricter reading, used to *measure* how many faults were absorbed without any effect (reported in the
    evidence, never an alarm: a failed optional probe that changes nothing is not a violation) *)
Definition absorbed (o : obs) : bool := safe o && negb (visible o) && silent_free o.
