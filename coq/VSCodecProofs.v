(** C07 -- codec proofs for the Vdata header record (vpackvs / vunpackvs) and for VSfpack.

    Part 1: [m_vunpackvs (m_vpackvs h)] returns the header [h] again (with the in-memory element sizes
    recomputed from type and order, as vunpackvs does) for every header whose members fit their file
    encodings.  Part 2: unpacking after packing with VSfpack returns the packed columns. *)
From Coq Require Import ZArith List Bool Lia Arith.
Require Import H4.gen.Gen_VS H4.VSModel.
Import ListNotations.
Local Open Scope Z_scope.

(* ------------------------------------------------------------------ *)
(** * Part 1: header codec *)

Definition byte_ok (b : Z) : Prop := 0 <= b < 256.
Definition name_ok (s : list Z) : Prop :=
  Forall (fun c => 1 <= c < 256) s /\ Z.of_nat (length s) < 32768.
Definition esize_of (t order : Z) : Z :=
  match dfkntsize (Z.lor t DFNT_NATIVE) with Some sz => u16 (order * sz) | None => u16 (order * (-1)) end.
Definition field_ok (f : wfield) : Prop :=
  name_ok (w_name f) /\ -32768 <= w_type f < 32768 /\ 0 <= w_isize f < 65536 /\
  0 <= w_off f < 65536 /\ 0 <= w_order f < 65536.
Definition renorm (f : wfield) : wfield :=
  mkwf (w_name f) (w_type f) (w_isize f) (esize_of (w_type f) (w_order f)) (w_order f) (w_off f).
Definition hdr_ok (h : vhdr) : Prop :=
  -32768 <= h_interlace h < 32768 /\ -2147483648 <= h_nvertices h < 2147483648 /\ 0 <= h_ivsize h < 65536 /\
  Forall field_ok (h_fields h) /\ Z.of_nat (length (h_fields h)) < 32768 /\
  name_ok (h_vsname h) /\ name_ok (h_vsclass h) /\ 0 <= h_extag h < 65536 /\ 0 <= h_exref h < 65536 /\
  -32768 <= h_version h <= VSET_NEW_VERSION /\ -32768 <= h_more h < 32768.

(** ** the integer encodings *)

Lemma dec16u_enc16 : forall x, 0 <= x < 65536 -> dec16u (enc16 x) = x.
Proof. intros x H. unfold dec16u, enc16. Z.div_mod_to_equations. lia. Qed.

Lemma dec16s_enc16 : forall x, -32768 <= x < 32768 -> dec16s (enc16 x) = x.
Proof. intros x H. unfold dec16s, s16, dec16u, enc16. Z.div_mod_to_equations. lia. Qed.

Lemma dec32s_enc32 : forall x, -2147483648 <= x < 2147483648 -> dec32s (enc32 x) = x.
Proof. intros x H. unfold dec32s, enc32. Z.div_mod_to_equations. lia. Qed.

Lemma enc16_shape : forall x, exists a b, enc16 x = [a; b].
Proof. intros x. unfold enc16. eauto. Qed.

Lemma enc32_shape : forall x, exists a b c d, enc32 x = [a; b; c; d].
Proof. intros x. unfold enc32. eauto 6. Qed.

Lemma enc16_length : forall x, length (enc16 x) = 2%nat.
Proof. reflexivity. Qed.

Lemma get16u_enc : forall x r, 0 <= x < 65536 -> get16u (enc16 x ++ r) = Some (x, r).
Proof.
  intros x r H. pose proof (dec16u_enc16 x H) as D.
  destruct (enc16_shape x) as (a & b & E). rewrite E in *.
  unfold get16u, take. cbn [app length Nat.ltb Nat.leb firstn skipn]. rewrite D. reflexivity.
Qed.

Lemma get16s_enc : forall x r, -32768 <= x < 32768 -> get16s (enc16 x ++ r) = Some (x, r).
Proof.
  intros x r H. pose proof (dec16s_enc16 x H) as D.
  destruct (enc16_shape x) as (a & b & E). rewrite E in *.
  unfold get16s, take. cbn [app length Nat.ltb Nat.leb firstn skipn]. rewrite D. reflexivity.
Qed.

Lemma get32s_enc : forall x r, -2147483648 <= x < 2147483648 -> get32s (enc32 x ++ r) = Some (x, r).
Proof.
  intros x r H. pose proof (dec32s_enc32 x H) as D.
  destruct (enc32_shape x) as (a & b & c & d & E). rewrite E in *.
  unfold get32s, take. cbn [app length Nat.ltb Nat.leb firstn skipn].
  rewrite D. reflexivity.
Qed.

Local Opaque enc16 enc32 get16u get16s get32s.

(** ** counted sequences *)

Lemma getn_enc16s : forall (g : wfield -> Z) l r,
  Forall (fun f => -32768 <= g f < 32768) l ->
  getn get16s (length l) (flat_map (fun f => enc16 (g f)) l ++ r) = Some (map g l, r).
Proof.
  intros g l r H. induction H as [|f l Hf Hl IH]; [reflexivity|].
  cbn [length flat_map getn map]. rewrite <- app_assoc. rewrite get16s_enc by exact Hf.
  rewrite IH. reflexivity.
Qed.

Lemma getn_enc16u : forall (g : wfield -> Z) l r,
  Forall (fun f => 0 <= g f < 65536) l ->
  getn get16u (length l) (flat_map (fun f => enc16 (g f)) l ++ r) = Some (map g l, r).
Proof.
  intros g l r H. induction H as [|f l Hf Hl IH]; [reflexivity|].
  cbn [length flat_map getn map]. rewrite <- app_assoc. rewrite get16u_enc by exact Hf.
  rewrite IH. reflexivity.
Qed.

(** ** counted strings *)

Lemma take_app : forall a r, take (length a) (a ++ r) = Some (a, r).
Proof.
  intros a r. unfold take.
  replace (length (a ++ r) <? length a)%nat with false.
  2:{ symmetry. apply Nat.ltb_ge. rewrite app_length. lia. }
  f_equal. f_equal.
  - rewrite firstn_app, Nat.sub_diag, firstn_all. cbn. apply app_nil_r.
  - rewrite skipn_app, Nat.sub_diag, skipn_all. reflexivity.
Qed.

Lemma upto_nul_id : forall s, Forall (fun c => 1 <= c < 256) s -> upto_nul s = s.
Proof.
  intros s H. induction H as [|c s Hc Hs IH]; [reflexivity|].
  cbn [upto_nul]. replace (c =? 0) with false by (symmetry; apply Z.eqb_neq; lia).
  rewrite IH. reflexivity.
Qed.

Lemma get_str_enc : forall s r, name_ok s -> get_str (enc_str s ++ r) = Some (s, r).
Proof.
  intros s r [Hc Hl]. unfold get_str, enc_str, zlen. rewrite <- app_assoc.
  rewrite get16s_enc by lia.
  replace (Z.of_nat (length s) <? 0) with false by (symmetry; apply Z.ltb_ge; lia).
  rewrite Nat2Z.id, take_app, upto_nul_id by exact Hc. reflexivity.
Qed.

Lemma get_strs_enc : forall l r,
  Forall (fun f => name_ok (w_name f)) l ->
  get_strs (length l) (flat_map (fun f => enc_str (w_name f)) l ++ r) = Some (map w_name l, r).
Proof.
  intros l r H. induction H as [|f l Hf Hl IH]; [reflexivity|].
  cbn [length flat_map get_strs map]. rewrite <- app_assoc. rewrite get_str_enc by exact Hf.
  rewrite IH. reflexivity.
Qed.

(** ** the field table *)

Lemma zip_fields_maps : forall l,
  zip_fields (map w_name l) (map w_type l) (map w_isize l) (map w_off l) (map w_order l) = map renorm l.
Proof.
  induction l as [|f l IH]; [reflexivity|].
  cbn [map zip_fields]. rewrite IH. reflexivity.
Qed.

(** ** the trailing version / more pair *)

Lemma skipn_length_app : forall (p q : list Z), skipn (length p) (p ++ q) = q.
Proof. intros p q. rewrite skipn_app, Nat.sub_diag, skipn_all. reflexivity. Qed.

Lemma tail5 : forall (p q : list Z), length q = 5%nat ->
  skipn (length (p ++ q) - 5) (p ++ q) = q /\ (length (p ++ q) <? 5)%nat = false.
Proof.
  intros p q H. rewrite app_length, H. split.
  - replace (length p + 5 - 5)%nat with (length p) by lia. apply skipn_length_app.
  - apply Nat.ltb_ge. lia.
Qed.

Lemma tail_decode : forall v m, -32768 <= v < 32768 -> -32768 <= m < 32768 ->
  s16 (dec16u (enc16 v ++ enc16 m ++ [0])) = v /\
  s16 (dec16u (skipn 2 (enc16 v ++ enc16 m ++ [0]))) = m.
Proof.
  intros v m Hv Hm.
  pose proof (dec16s_enc16 v Hv) as Dv. pose proof (dec16s_enc16 m Hm) as Dm.
  destruct (enc16_shape v) as (a & b & Ev). destruct (enc16_shape m) as (c & d & Em).
  rewrite Ev, Em in *. unfold dec16s in *. cbn [app skipn]. split; assumption.
Qed.

(** ** Round trip *)

Lemma vs_pack_split : forall h, exists p,
  m_vpackvs h = p ++ (enc16 (h_version h) ++ enc16 (h_more h) ++ [0]).
Proof.
  intros h. unfold m_vpackvs. cbv zeta.
  eexists. repeat rewrite app_assoc. reflexivity.
Qed.

Lemma vs_pack_roundtrip_lemma : forall h, hdr_ok h ->
  m_vunpackvs (m_vpackvs h) =
  Some (mkvh (h_interlace h) (h_nvertices h) (h_ivsize h) (map renorm (h_fields h)) (h_vsname h) (h_vsclass h)
             (h_extag h) (h_exref h) (h_version h) (h_more h)).
Proof.
  intros h (Hil & Hnv & Hiv & Hfl & Hn & Hnm & Hcl & Het & Her & Hver & Hmore).
  assert (Hver' : -32768 <= h_version h < 32768) by (unfold VSET_NEW_VERSION in Hver; lia).
  unfold m_vunpackvs. cbv zeta.
  destruct (vs_pack_split h) as (p & Hp).
  assert (T5 : length (enc16 (h_version h) ++ enc16 (h_more h) ++ [0]) = 5%nat)
    by (rewrite !app_length, !enc16_length; reflexivity).
  destruct (tail5 p _ T5) as (Htail & Hlen). rewrite <- Hp in Htail, Hlen.
  rewrite Hlen, Htail.
  destruct (tail_decode _ _ Hver' Hmore) as (Dv & Dm). rewrite Dv, Dm.
  replace (VSET_NEW_VERSION <? h_version h) with false by (symmetry; apply Z.ltb_ge; lia).
  clear Hp Htail Hlen p Dv Dm T5.
  unfold m_vpackvs. cbv zeta.
  rewrite get16s_enc by exact Hil.
  rewrite get32s_enc by exact Hnv.
  rewrite get16u_enc by exact Hiv.
  unfold zlen at 1. rewrite get16s_enc by lia.
  replace (Z.of_nat (length (h_fields h)) <? 0) with false by (symmetry; apply Z.ltb_ge; lia).
  rewrite Nat2Z.id.
  rewrite (getn_enc16s w_type)
    by (eapply Forall_impl; [|exact Hfl]; intros f Hf; apply Hf).
  rewrite (getn_enc16u w_isize)
    by (eapply Forall_impl; [|exact Hfl]; intros f Hf; apply Hf).
  rewrite (getn_enc16u w_off)
    by (eapply Forall_impl; [|exact Hfl]; intros f Hf; apply Hf).
  rewrite (getn_enc16u w_order)
    by (eapply Forall_impl; [|exact Hfl]; intros f Hf; apply Hf).
  rewrite get_strs_enc
    by (eapply Forall_impl; [|exact Hfl]; intros f Hf; apply Hf).
  rewrite get_str_enc by exact Hnm.
  rewrite get_str_enc by exact Hcl.
  rewrite get16u_enc by exact Het.
  rewrite get16u_enc by exact Her.
  rewrite get16s_enc by exact Hver'.
  rewrite get16s_enc by exact Hmore.
  rewrite !Z.eqb_refl. cbn [negb orb].
  rewrite zip_fields_maps. reflexivity.
Qed.

(* ------------------------------------------------------------------ *)
(** * Part 2: VSfpack, unpack after pack *)

Local Open Scope nat_scope.

Definition so (os : Z * Z) : nat := Z.to_nat (fst os).
Definition ss (os : Z * Z) : nat := Z.to_nat (snd os).

(** two selected fields occupy disjoint byte ranges of a buffer record *)
Definition disj (a b : Z * Z) : Prop := so a + ss a <= so b \/ so b + ss b <= so a.
Fixpoint disj_sel (sel : list (Z * Z)) : Prop :=
  match sel with [] => True | a :: t => Forall (disj a) t /\ disj_sel t end.

(** every selected field has a nonnegative offset, a positive size, lies inside the buffer record of
    [brs] bytes, and different fields do not overlap *)
Definition sel_ok (brs : nat) (sel : list (Z * Z)) : Prop :=
  Forall (fun os => (0 <= fst os)%Z /\ (0 < snd os)%Z /\ so os + ss os <= brs) sel /\ disj_sel sel.

Example sel_ok_two_fields : sel_ok 6 [(0%Z, 2%Z); (2%Z, 4%Z)].
Proof.
  unfold sel_ok, disj_sel, disj, so, ss. cbn.
  repeat split; repeat constructor; cbn; lia.
Qed.

(** ** list buffers *)

Lemma skipn_skipn : forall (x y : nat) (l : list Z), skipn x (skipn y l) = skipn (y + x) l.
Proof.
  intros x y. induction y as [|y IH]; intros l; [reflexivity|].
  destruct l as [|a l]; [rewrite !skipn_nil; reflexivity|]. cbn [skipn Nat.add]. apply IH.
Qed.

Lemma lget_length : forall l off len, off + len <= length l -> length (lget l off len) = len.
Proof. intros l off len H. unfold lget. rewrite firstn_length, skipn_length. lia. Qed.

Lemma lget_length_le : forall l off len, length (lget l off len) <= len.
Proof. intros. unfold lget. apply firstn_le_length. Qed.

Lemma lset_length : forall buf off src, off + length src <= length buf -> length (lset buf off src) = length buf.
Proof.
  intros buf off src H. unfold lset. rewrite !app_length, firstn_length, skipn_length. lia.
Qed.

Lemma lget_lset_same : forall buf off src, off <= length buf -> lget (lset buf off src) off (length src) = src.
Proof.
  intros buf off src H. unfold lget, lset.
  rewrite skipn_app. rewrite firstn_length_le by exact H. rewrite Nat.sub_diag.
  rewrite skipn_all2 by (rewrite firstn_length; lia). cbn [app skipn].
  rewrite firstn_app, Nat.sub_diag, firstn_all. cbn [firstn]. apply app_nil_r.
Qed.

Lemma lget_lset_other : forall buf off src off' len',
  off + length src <= length buf ->
  off' + len' <= off \/ off + length src <= off' ->
  lget (lset buf off src) off' len' = lget buf off' len'.
Proof.
  intros buf off src off' len' Hb [H|H]; unfold lget, lset.
  - rewrite skipn_app. rewrite firstn_length_le by lia.
    replace (off' - off) with 0 by lia. cbn [skipn].
    rewrite firstn_app.
    rewrite skipn_length, firstn_length_le by lia.
    replace (len' - (off - off')) with 0 by lia. cbn [firstn]. rewrite app_nil_r.
    rewrite skipn_firstn_comm, firstn_firstn. f_equal. lia.
  - rewrite skipn_app. rewrite firstn_length_le by lia.
    rewrite skipn_all2 by (rewrite firstn_length; lia). cbn [app].
    rewrite skipn_app.
    rewrite skipn_all2 by lia. cbn [app].
    rewrite skipn_skipn. f_equal. f_equal. lia.
Qed.

Lemma mul_succ_le : forall i n sz, i < n -> i * sz + sz <= n * sz.
Proof. intros i n sz H. pose proof (Nat.mul_le_mono_r (S i) n sz H). lia. Qed.

(** ** one record *)

Lemma pack_rec_length : forall brs i sel cols buf bufp,
  Forall (fun os => so os + ss os <= brs) sel -> bufp + brs <= length buf ->
  length (pack_rec buf bufp sel cols i) = length buf.
Proof.
  intros brs i. induction sel as [|[o sz] st IH]; intros cols buf bufp Hb Hl; [reflexivity|].
  destruct cols as [|c ct]; [reflexivity|]. cbn [pack_rec].
  inversion Hb as [|x y Hos Hst]; subst. unfold so, ss in Hos. cbn [fst snd] in Hos.
  pose proof (lget_length_le c (i * Z.to_nat sz) (Z.to_nat sz)) as Hc.
  assert (L : length (lset buf (bufp + Z.to_nat o) (lget c (i * Z.to_nat sz) (Z.to_nat sz))) = length buf)
    by (apply lset_length; lia).
  rewrite IH; [exact L | exact Hst | lia].
Qed.

Lemma pack_rec_out : forall brs i sel cols buf bufp off' len',
  Forall (fun os => so os + ss os <= brs) sel -> bufp + brs <= length buf ->
  Forall (fun os => off' + len' <= bufp + so os \/ bufp + so os + ss os <= off') sel ->
  lget (pack_rec buf bufp sel cols i) off' len' = lget buf off' len'.
Proof.
  intros brs i. induction sel as [|[o sz] st IH]; intros cols buf bufp off' len' Hb Hl Hd; [reflexivity|].
  destruct cols as [|c ct]; [reflexivity|]. cbn [pack_rec].
  inversion Hb as [|x y Hos Hst]; subst. unfold so, ss in Hos. cbn [fst snd] in Hos.
  inversion Hd as [|x y Hd1 Hd2]; subst. unfold so, ss in Hd1. cbn [fst snd] in Hd1.
  pose proof (lget_length_le c (i * Z.to_nat sz) (Z.to_nat sz)) as Hc.
  assert (L : length (lset buf (bufp + Z.to_nat o) (lget c (i * Z.to_nat sz) (Z.to_nat sz))) = length buf)
    by (apply lset_length; lia).
  rewrite IH; [| exact Hst | lia | exact Hd2].
  apply lget_lset_other; lia.
Qed.

Lemma pack_rec_in : forall brs i sel cols buf bufp,
  Forall (fun os => so os + ss os <= brs) sel -> disj_sel sel -> bufp + brs <= length buf ->
  (forall os c, In (os, c) (combine sel cols) -> i * ss os + ss os <= length c) ->
  forall os c, In (os, c) (combine sel cols) ->
  lget (pack_rec buf bufp sel cols i) (bufp + so os) (ss os) = lget c (i * ss os) (ss os).
Proof.
  intros brs i. induction sel as [|[o sz] st IH]; intros cols buf bufp Hb Hdj Hl Hc os c Hin; [destruct Hin|].
  destruct cols as [|c1 ct]; [destruct Hin|]. cbn [pack_rec].
  inversion Hb as [|x y Hos Hst]; subst. unfold so, ss in Hos. cbn [fst snd] in Hos.
  destruct Hdj as [Hd1 Hd2].
  assert (Hc1 : length (lget c1 (i * Z.to_nat sz) (Z.to_nat sz)) = Z.to_nat sz).
  { apply lget_length. apply (Hc (o, sz) c1). left. reflexivity. }
  assert (L : length (lset buf (bufp + Z.to_nat o) (lget c1 (i * Z.to_nat sz) (Z.to_nat sz))) = length buf)
    by (apply lset_length; lia).
  set (ch := lget c1 (i * Z.to_nat sz) (Z.to_nat sz)) in *.
  destruct Hin as [Hin|Hin].
  - inversion Hin; subst os c. unfold so, ss. cbn [fst snd].
    rewrite pack_rec_out with (brs := brs); [| exact Hst | lia |].
    + fold ch. rewrite <- Hc1. apply lget_lset_same. lia.
    + eapply Forall_impl; [|exact Hd1]. intros a Ha. unfold disj, so, ss in *. cbn [fst snd] in Ha. lia.
  - apply IH; [exact Hst | exact Hd2 | lia | | exact Hin].
    intros os' c' Hin'. apply Hc. right. exact Hin'.
Qed.

(** ** all records *)

Lemma pack_loop_spec : forall n brs sel cols,
  Forall (fun os => so os + ss os <= brs) sel -> disj_sel sel ->
  (forall os c, In (os, c) (combine sel cols) -> length c = n * ss os) ->
  forall k i buf, i + k = n -> length buf = n * brs ->
  (forall os c, In (os, c) (combine sel cols) -> forall r, r < i ->
     lget buf (r * brs + so os) (ss os) = lget c (r * ss os) (ss os)) ->
  forall os c, In (os, c) (combine sel cols) -> forall r, r < n ->
     lget (pack_loop k i buf brs sel cols) (r * brs + so os) (ss os) = lget c (r * ss os) (ss os).
Proof.
  intros n brs sel cols Hb Hdj Hc. induction k as [|k IH]; intros i buf Hik Hl Inv os c Hin r Hr.
  - cbn [pack_loop]. apply Inv; [exact Hin | lia].
  - cbn [pack_loop].
    assert (Hi : i < n) by lia.
    pose proof (mul_succ_le i n brs Hi) as Hib.
    apply IH; [lia | | | exact Hin | exact Hr].
    + rewrite pack_rec_length with (brs := brs); [exact Hl | exact Hb | lia].
    + intros os' c' Hin' r' Hr'.
      assert (Hos' : so os' + ss os' <= brs).
      { rewrite Forall_forall in Hb. apply Hb. eapply in_combine_l. exact Hin'. }
      destruct (Nat.eq_dec r' i) as [E|E].
      * subst r'. apply pack_rec_in with (brs := brs); [exact Hb | exact Hdj | lia | | exact Hin'].
        intros os2 c2 Hin2. rewrite (Hc os2 c2 Hin2). apply mul_succ_le. exact Hi.
      * assert (Hlt : r' < i) by lia.
        pose proof (mul_succ_le r' i brs Hlt) as Hrb.
        rewrite pack_rec_out with (brs := brs); [apply Inv; assumption | exact Hb | lia |].
        rewrite Forall_forall. intros a Ha. left. lia.
Qed.

(** ** reading a column back *)

Lemma chunks_concat : forall sz n k c, length c = (k + n) * sz ->
  flat_map (fun i => lget c (i * sz) sz) (seq k n) = skipn (k * sz) c.
Proof.
  intros sz. induction n as [|n IH]; intros k c H.
  - cbn [seq flat_map]. symmetry. apply skipn_all2. lia.
  - cbn [seq flat_map]. rewrite IH by lia. unfold lget.
    replace (S k * sz) with (k * sz + sz) by lia. rewrite <- skipn_skipn.
    apply firstn_skipn.
Qed.

Lemma map_combine_ext : forall (f : Z * Z -> list Z) sel cols, length cols = length sel ->
  (forall os c, In (os, c) (combine sel cols) -> f os = c) -> map f sel = cols.
Proof.
  intros f. induction sel as [|os st IH]; intros cols Hl H.
  - destruct cols; [reflexivity | discriminate].
  - destruct cols as [|c ct]; [discriminate|]. cbn [map]. f_equal.
    + apply H. left. reflexivity.
    + apply IH; [cbn in Hl; lia|]. intros os' c' Hin. apply H. right. exact Hin.
Qed.

Lemma forall2_combine : forall (P : list Z -> Z * Z -> Prop) cols sel, Forall2 P cols sel ->
  forall os c, In (os, c) (combine sel cols) -> P c os.
Proof.
  intros P cols sel H. induction H as [|c os ct st Hp Ht IH]; intros os' c' Hin; [destruct Hin|].
  destruct Hin as [Hin|Hin]; [inversion Hin; subst; exact Hp | apply IH; exact Hin].
Qed.

Lemma flat_map_ext_in : forall (f g : nat -> list Z) l,
  (forall a, In a l -> f a = g a) -> flat_map f l = flat_map g l.
Proof.
  intros f g. induction l as [|a l IH]; intros H; [reflexivity|].
  cbn [flat_map]. rewrite (H a) by (left; reflexivity). rewrite IH; [reflexivity|].
  intros b Hb. apply H. right. exact Hb.
Qed.

Lemma vsfpack_inverse_lemma : forall n brs sel buf cols,
  sel_ok brs sel -> length buf = n * brs -> length cols = length sel ->
  Forall2 (fun c os => length c = n * Z.to_nat (snd os)) cols sel ->
  m_unpack n brs sel (m_pack n brs sel buf cols) = cols.
Proof.
  intros n brs sel buf cols [Hb Hdj] Hl Hlen Hc.
  assert (Hb' : Forall (fun os => so os + ss os <= brs) sel)
    by (eapply Forall_impl; [|exact Hb]; intros a Ha; apply Ha).
  pose proof (forall2_combine _ _ _ Hc) as Hc'. cbn beta in Hc'.
  unfold m_unpack, m_pack. apply map_combine_ext; [exact Hlen|].
  intros os c Hin.
  rewrite flat_map_ext_in with (g := fun i => lget c (i * ss os) (ss os)).
  - rewrite chunks_concat by (rewrite (Hc' os c Hin); reflexivity). reflexivity.
  - intros r Hr. apply in_seq in Hr.
    apply pack_loop_spec with (n := n); try assumption; try lia.
Qed.

Print Assumptions vs_pack_roundtrip_lemma.
Print Assumptions vsfpack_inverse_lemma.
