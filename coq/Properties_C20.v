(** C20 -- Format limits are enforced cleanly: no wrap-around, no over-long objects.
    Property theorems only (each closed by [exact] of a lemma of LimitsProofs.v, or by computing a witness).

    Shape of every [no_wrap_<site>] theorem: M is the arithmetic of the site as the C code performs it -- the guard
    conditions and width-relevant expressions are regenerated from the current sources (gen/Gen_Limits.v) and are
    evaluated with wrapping 32-bit / 16-bit operations (LimitsWidth.v) -- and S is the same computation over
    unbounded integers with the limit of the format as its only test (LimitsSpec.v).  The theorem says M = S for
    ALL arguments within the ranges of their C types: so under the guards nothing wraps, the request beyond the
    limit is refused, and a refused request returns the state it was given.
    [<site>_unguarded_refuted] theorems document, with a computed witness, what the same code does without its
    guard (the library before the repairs listed in known_findings.d/C20.json); each witness is replayed on the
    real library by the corpus histories of corpus/C20. *)
From Coq Require Import ZArith List Bool Lia.
Require Import H4.LimitsWidth H4.gen.Gen_Limits H4.LimitsSpec H4.LimitsModel H4.LimitsProofs H4.LimitsMachine H4.LimitsMachineProofs.
Import ListNotations.
Local Open Scope Z_scope.

(** hfile.c HPgetdiskblock: [f_end_off += block_size] in int32 *)
Theorem no_wrap_HPgetdiskblock : forall eof size, 0 <= eof <= INT32_MAX -> is_int32 size ->
  m_getdiskblock eof size = match s_getdiskblock eof size with Some (o, e) => (Some o, e) | None => (None, eof) end.
Proof. exact getdiskblock_lemma. Qed.
Print Assumptions no_wrap_HPgetdiskblock.

(** the end of file stays within [eof, 2^31-1] when a block is granted, and a refusal leaves it untouched *)
Theorem HPgetdiskblock_keeps_invariant : forall eof size,
  0 <= eof <= INT32_MAX ->
  (forall o e, s_getdiskblock eof size = Some (o, e) -> o = eof /\ eof <= e <= INT32_MAX /\ e = eof + size) /\
  (fst (m_getdiskblock eof size) = None -> snd (m_getdiskblock eof size) = eof).
Proof.
  intros eof size He. split; [intros o e; exact (getdiskblock_range eof size o e He) | exact (getdiskblock_fail_unchanged eof size)].
Qed.
Print Assumptions HPgetdiskblock_keeps_invariant.

Theorem HPgetdiskblock_unguarded_refuted : exists eof size,
  0 <= eof <= INT32_MAX /\ 0 <= size <= INT32_MAX /\ snd (m_getdiskblock_unguarded eof size) < 0.
Proof. exists 1073742118, 1073741824. vm_compute. repeat split; discriminate. Qed.
Print Assumptions HPgetdiskblock_unguarded_refuted.

(** hfile.c Hwrite (ordinary element): posn + length, posn + data_off, the appendable extension at end of file *)
Theorem no_wrap_Hwrite : forall appendable pos len off elen eof,
  0 <= pos <= INT32_MAX -> is_int32 len -> 0 <= off -> 0 <= elen -> off + elen <= eof -> eof <= INT32_MAX ->
  m_hwrite appendable pos len off elen eof = hwrite_expected appendable pos len off elen eof.
Proof. exact hwrite_lemma. Qed.
Print Assumptions no_wrap_Hwrite.

Theorem Hwrite_keeps_invariant : forall appendable at_eof pos len off elen eof p l e,
  0 <= pos -> 0 <= off -> 0 <= elen -> off + elen <= eof -> eof <= INT32_MAX -> (at_eof = true -> off + elen = eof) ->
  s_hwrite appendable at_eof pos len off elen eof = Some (p, l, e) ->
  p = pos + len /\ 0 <= p <= INT32_MAX /\ elen <= l /\ off + l <= e /\ eof <= e <= INT32_MAX.
Proof. exact hwrite_ok_range. Qed.
Print Assumptions Hwrite_keeps_invariant.

(** hblocks.c HLPwrite: tmp = bytes_written + posn and posn += bytes_written, reached only through Hwrite's guard *)
Theorem no_wrap_HLPwrite_length : forall posn bw len info_length,
  0 <= posn -> 0 <= bw <= len -> len <= INT32_MAX - posn -> 0 <= info_length <= INT32_MAX ->
  m_hlpwrite_length posn bw info_length = (posn + bw, Z.max info_length (posn + bw)).
Proof. exact hlpwrite_length_lemma. Qed.
Print Assumptions no_wrap_HLPwrite_length.

(** hfiledd.c HTPstart: end_off from descriptors that respect the invariant the allocator maintains *)
Theorem no_wrap_HTPstart : forall myoffset ndds dds,
  0 <= myoffset -> 0 < ndds <= 32767 -> myoffset + (NDDS_SZ + OFFSET_SZ) + ndds * DD_SZ <= INT32_MAX -> Forall dd_ok dds ->
  m_endoff myoffset ndds dds = s_endoff (myoffset + (NDDS_SZ + OFFSET_SZ) + ndds * DD_SZ) dds /\
  0 <= m_endoff myoffset ndds dds <= INT32_MAX.
Proof. exact endoff_lemma. Qed.
Print Assumptions no_wrap_HTPstart.

(** ... and has no guard of its own: a descriptor ending beyond 2^31-1 (no library call produces one any more; a
    damaged or foreign file can hold one) is silently ignored *)
Theorem HTPstart_sum_refuted : exists dds, Forall (fun p => 0 <= fst p <= INT32_MAX /\ 0 <= snd p <= INT32_MAX) dds /\
  m_endoff 4 2 dds < s_endoff (4 + (NDDS_SZ + OFFSET_SZ) + 2 * DD_SZ) dds.
Proof. exists [(300, 2147483000); (400, 2147483647)]. split; [repeat constructor; vm_compute; discriminate | vm_compute; reflexivity]. Qed.
Print Assumptions HTPstart_sum_refuted.

(** the precondition of the two theorems around here is an invariant of the file states S reaches: after any sequence
    of reservations, writes, appendable extensions and ref allocations on a created file, the end of file is within
    [0, 2^31-1] and every descriptor is length-less or lies inside [0, end of file] -- "no descriptor ever wraps" *)
Theorem created_file_in_range : forall ndds, 0 <= ndds <= 32767 -> h_inv (h_create ndds).
Proof. exact h_create_inv. Qed.
Print Assumptions created_file_in_range.

Theorem reachable_descriptors_in_range : forall h v o, (forall n, o <> OHopen n) -> h_inv h -> h_inv (fst (step_h h v o)).
Proof. exact step_h_inv. Qed.
Print Assumptions reachable_descriptors_in_range.

Theorem reachable_descriptors_meet_HTPstart_precondition : forall eof e, 0 <= eof <= INT32_MAX -> elem_ok eof e -> dd_ok (e_off e, e_len e).
Proof. exact elem_ok_dd_ok. Qed.
Print Assumptions reachable_descriptors_meet_HTPstart_precondition.

(** hfiledd.c HTIupdate_dd *)
Theorem no_wrap_HTIupdate_dd : forall offset length eof, 0 <= eof <= INT32_MAX -> dd_ok (offset, length) ->
  m_update_dd_eof offset length eof = (if (offset =? -1) && (length =? -1) then eof else Z.max eof (offset + length)) /\
  0 <= m_update_dd_eof offset length eof <= INT32_MAX.
Proof. exact update_dd_eof_lemma. Qed.
Print Assumptions no_wrap_HTIupdate_dd.

(** vgp.c vinsertpair: uint16 nvelt *)
Theorem no_wrap_vinsertpair : forall n, 0 <= n <= 65535 ->
  m_vinsertpair n = match s_vinsertpair n with Some k => (Some k, k) | None => (None, n) end.
Proof. exact vinsertpair_lemma. Qed.
Print Assumptions no_wrap_vinsertpair.

Theorem vinsertpair_unguarded_refuted : exists n, 0 <= n <= 65535 /\ m_vinsertpair_unguarded n = (Some 0, 0).
Proof. exists 65535. vm_compute. repeat split; discriminate. Qed.
Print Assumptions vinsertpair_unguarded_refuted.

(** vgp.c Vsetname / Vsetclass + vpackvg's 16-bit length field *)
Theorem no_wrap_Vsetname : forall len, 0 <= len -> m_vsetname len = s_vsetname len /\ m_vsetclass len = s_vsetname len.
Proof. exact vsetname_lemma. Qed.
Print Assumptions no_wrap_Vsetname.

Theorem vpackvg_len16_unguarded_refuted : vpackvg_len16 65536 = 0 /\ vpackvg_len16 70000 = 4464.
Proof. vm_compute. split; reflexivity. Qed.
Print Assumptions vpackvg_len16_unguarded_refuted.

(** vg.c VSsetname / VSsetclass: truncation at VSNAMELENMAX, never more than the buffer holds *)
Theorem VSsetname_fits_buffer : forall slen, 0 <= slen ->
  m_vssetname slen = s_vssetname slen /\ m_vssetclass slen = s_vssetname slen /\ 0 <= m_vssetname slen <= VSNAMELENMAX.
Proof. exact vssetname_lemma. Qed.
Print Assumptions VSsetname_fits_buffer.

(** vsfld.c VSfdefine: MAX_ORDER, MAX_FIELD_SIZE, isize * order; the stored uint16 fields hold the true values *)
Theorem no_wrap_VSfdefine : forall sz order, is_int32 order -> (sz = -1 \/ 0 < sz <= 32767) ->
  m_vsfdefine sz order = s_vsfdefine sz order.
Proof. exact vsfdefine_lemma. Qed.
Print Assumptions no_wrap_VSfdefine.

(** vsfld.c VSsetfields (+ scanattrs): VSFIELDMAX, per-field and per-record sizes in uint16; a refused list leaves (0, 0) *)
Theorem no_wrap_VSsetfields : forall fs, Forall field_ok fs ->
  m_vssetfields fs = match s_vssetfields fs with Some r => (true, r) | None => (false, (0, 0)) end.
Proof. exact vssetfields_lemma. Qed.
Print Assumptions no_wrap_VSsetfields.

(** vrw.c VSseek: eltpos * ivsize *)
Theorem no_wrap_VSseek : forall ivsize eltpos, 0 <= ivsize <= 65535 -> is_int32 eltpos ->
  m_vsseek ivsize eltpos = if eltpos <? 0 then None else s_product eltpos ivsize.
Proof. exact vsseek_lemma. Qed.
Print Assumptions no_wrap_VSseek.

Theorem VSseek_unguarded_refuted : m_vsseek_unguarded 65535 65538 = Some 65534.
Proof. vm_compute. reflexivity. Qed.
Print Assumptions VSseek_unguarded_refuted.

(** vrw.c VSwrite / VSread: total_bytes = hsize * nelt *)
Theorem no_wrap_VSwrite_VSread_total : forall hsize nelt, 0 < hsize <= 65535 -> is_int32 nelt ->
  m_vswrite_total hsize nelt = (if nelt <=? 0 then None else s_product hsize nelt) /\
  m_vsread_total hsize nelt = (if nelt <? 0 then Some (mul32 hsize nelt) else s_product hsize nelt).
Proof. exact vswrite_total_lemma. Qed.
Print Assumptions no_wrap_VSwrite_VSread_total.

(** hfiledd.c Hnewref / Htagnewref: exhaustion at MAX_REF, never a wrapped 0 *)
Theorem no_wrap_Hnewref : forall maxref, 0 <= maxref <= 65535 ->
  m_newref_next maxref = s_newref_next maxref /\
  (forall i, 1 <= i -> truth (hnewref_search_more i) = true -> 1 <= i <= MAX_REF /\ u16 i = i).
Proof. exact newref_lemma. Qed.
Print Assumptions no_wrap_Hnewref.

Theorem no_wrap_Htagnewref : forall next, -1 <= next <= 2147483647 -> m_tagnewref next = s_tagnewref next.
Proof. exact tagnewref_lemma. Qed.
Print Assumptions no_wrap_Htagnewref.

(** mfsd.c SDcreate / string.c NC_new_string: H4_MAX_VAR_DIMS, H4_MAX_NC_NAME *)
Theorem SDcreate_limits : forall rank namelen, m_sdcreate_ok rank namelen = s_sdcreate_ok rank namelen.
Proof. exact sdcreate_lemma. Qed.
Print Assumptions SDcreate_limits.

(** file.c NC_reset_maxopenfiles: every open file keeps its position (= its identifier); the size never exceeds the
    system limit *)
Theorem reset_maxopenfiles_keeps_ids : forall req sys cur slots i k,
  nth_error slots i = Some (Some k) -> nth_error (snd (m_reset_maxopen req sys cur slots)) i = Some (Some k).
Proof. exact reset_maxopen_lemma. Qed.
Print Assumptions reset_maxopenfiles_keeps_ids.

Theorem reset_maxopenfiles_size : forall req sys cur slots, 0 <= sys ->
  fst (m_reset_maxopen req sys cur slots) = -1 \/ fst (m_reset_maxopen req sys cur slots) = Z.of_nat (length slots) \/
  (0 <= fst (m_reset_maxopen req sys cur slots) <= sys /\
   Z.of_nat (length (snd (m_reset_maxopen req sys cur slots))) = fst (m_reset_maxopen req sys cur slots)).
Proof. exact reset_maxopen_size. Qed.
Print Assumptions reset_maxopenfiles_size.

Theorem reset_compacting_refuted : exists slots, nth_error slots 1 = Some (Some 7) /\ nth_error (m_reset_compacting 10 slots) 1 = Some None.
Proof. exists [None; Some 7]. vm_compute. split; reflexivity. Qed.
Print Assumptions reset_compacting_refuted.

(** hfile.c Hseek: the origin arithmetic [offset += posn] / [offset += data_len] in int32.  The sum of two
    non-negative int32 values that does not fit wraps to a negative value, which the range test refuses: the code has no
    dedicated guard and needs none *)
Theorem no_wrap_Hseek : forall appendable origin offset posn data_len,
  0 <= posn <= INT32_MAX -> 0 <= data_len <= INT32_MAX -> (appendable = false -> posn <= data_len) ->
  is_int32 offset -> (origin = DF_START \/ origin = DF_CURRENT \/ origin = DF_END) ->
  m_hseek appendable origin offset posn data_len = s_hseek appendable origin offset posn data_len.
Proof. exact hseek_lemma. Qed.
Print Assumptions no_wrap_Hseek.

(** hchunks.c HMCPchunkwrite: the ref of a new chunk (DFE_NOREF when DFTAG_CHUNK has none left) *)
Theorem no_wrap_chunk_ref : forall next, -1 <= next <= 2147483647 -> next <> 0 -> m_chunk_ref next = s_tagnewref next.
Proof. exact chunk_ref_lemma. Qed.
Print Assumptions no_wrap_chunk_ref.

(** vio.c vpackvs: the int16 length fields hold the true lengths and the packed header fits the buffer VSdetach
    provides, for every Vdata within VSFIELDMAX / FIELDNAMELENMAX / VSNAMELENMAX *)
Theorem vpackvs_fits_buffer : forall fnames namelen classlen,
  Forall (fun l => 0 <= l <= FIELDNAMELENMAX) fnames -> Z.of_nat (length fnames) <= VSFIELDMAX ->
  0 <= namelen <= VSNAMELENMAX -> 0 <= classlen <= VSNAMELENMAX ->
  m_vpackvs_size fnames namelen classlen = s_vpackvs_size fnames namelen classlen /\
  0 < m_vpackvs_size fnames namelen classlen <= vh_buffer_lower_bound.
Proof. exact vpackvs_lemma. Qed.
Print Assumptions vpackvs_fits_buffer.

(** mfsd.c SDsetattr / mfgr.c GRsetattr: an attribute is one Vdata field -- at most MAX_ORDER values and MAX_FIELD_SIZE
    bytes; count * size is an int product that is only evaluated in range.  The guard sits in front of the hand-over to
    the attribute list, so it covers a new name and the replacement of an existing one alike (the translator requires it
    there: moving it elsewhere breaks this theorem's inputs) *)
Theorem no_wrap_setattr : forall sz count, is_int32 count -> 0 < sz <= 8 ->
  m_sdsetattr sz count = s_setattr sz count /\ m_grsetattr sz count = s_setattr sz count.
Proof. exact setattr_lemma. Qed.
Print Assumptions no_wrap_setattr.

(** limits that the code enforces at MORE THAN ONE site must agree: H4_MAX_NC_VARS in SDcreate and in SDIgetcoordvar (the
    coordinate variable a dimension gets on demand) *)
Theorem variable_limit_sites_agree : forall c,
  coordvar_too_many_vars c = sdcreate_too_many_vars c /\ (truth (coordvar_too_many_vars c) = true <-> H4_MAX_NC_VARS <= c).
Proof. exact variable_limit_lemma. Qed.
Print Assumptions variable_limit_sites_agree.

Theorem attribute_count_limit : forall c, truth (putattr_too_many c) = true <-> H4_MAX_NC_ATTRS <= c.
Proof. exact attribute_count_lemma. Qed.
Print Assumptions attribute_count_limit.

(** the scans of VSlone / Vlone over the ref flags visit every ref from 0 up to and including MAX_REF: an object with the
    highest ref the format has is not skipped *)
Theorem lone_scans_reach_MAX_REF : forall i, 0 <= i ->
  (truth (vslone_scan_more i) = true <-> i <= MAX_REF) /\ (truth (vlone_scan_more i) = true <-> i <= MAX_REF).
Proof. exact lone_scan_lemma. Qed.
Print Assumptions lone_scans_reach_MAX_REF.

(** "the library remains usable after a refused request", at the level of the specification: a refused request
    returns the abstract state it was given -- for every operation of the harness language (H, Vgroup, Vdata, SD
    level).  [plain_request] excludes only the reservations (next theorem), the linked-block write (refused after
    HLcreate has made the element) and batches of several Vgroup insertions (each single insertion is covered). *)
Theorem refused_request_leaves_state_unchanged : forall st o,
  plain_request st o = true -> is_refusal (snd (step st o)) -> fst (step st o) = st.
Proof. exact step_refusal. Qed.
Print Assumptions refused_request_leaves_state_unchanged.

(** a refused reservation (Hstartwrite / Hputelement that finds no room below 2^31-1) leaves at most the length-less
    descriptor of the requested element and the descriptor block holding it: every other element is found as before,
    the bulk elements are untouched, the end of file moves by at most one descriptor block and stays tracked *)
Theorem refused_reservation_leaves_only_placeholder : forall h tag ref len w h' vs, 0 <= h_ndds h ->
  new_element h tag ref len w = (h', RFail vs) ->
  h_bulk h' = h_bulk h /\
  (forall t r, (t =? tag) && (r =? ref) = false -> find_elem h' t r = find_elem h t r) /\
  (match find_elem h' tag ref with Some e => e_len e < 0 | None => find_elem h tag ref = None end) /\
  (h_known h = true -> h_known h' = true /\ h_eof h <= h_eof h' <= h_eof h + ddblock_size (h_ndds h)).
Proof. exact refused_reservation_lemma. Qed.
Print Assumptions refused_reservation_leaves_only_placeholder.

(** the same at the level of the site models: whatever a site refuses, it hands back the state it received *)
Theorem refused_site_requests_change_nothing :
  (forall eof size, fst (m_getdiskblock eof size) = None -> snd (m_getdiskblock eof size) = eof) /\
  (forall n, fst (m_vinsertpair n) = None -> snd (m_vinsertpair n) = n) /\
  (forall fs, fst (m_vssetfields fs) = false -> snd (m_vssetfields fs) = (0, 0)) /\
  (forall req sys cur slots, 0 <= req ->
     truth (resetmax_keeps req cur) = true \/
     truth (resetmax_too_small (if truth (resetmax_caps req sys) then sys else req) (highest slots 0 (-1))) = true ->
     m_reset_maxopen req sys cur slots = (Z.of_nat (length slots), slots)).
Proof. exact sites_refusal_lemma. Qed.
Print Assumptions refused_site_requests_change_nothing.

(** ---- the limit machine (LimitsMachine.v): ALL guarded sites composed into one state machine over the C-typed
    counters (end of file, member count, element offset/length/position, highest ref, Vdata symbol table / field count
    / record size / seek offset, name-length field, attribute count, number of data sets, open-file list).  [m_step] is
    the machine as the C code computes it (regenerated guards, wrapping arithmetic, stores what the code stores also when
    it refuses); [s_step] is the machine over unbounded integers.  [minv] = every counter within the range of its C
    type and the element inside the file; [op_ok] = the arguments are values of their C types. ---- *)

(** for EVERY history of operations: the C machine and the unbounded machine produce the same results and the same
    states, and every reachable state keeps all counters in range -- "no descriptor, header or in-memory counter ever
    wraps to a small or negative value" *)
Theorem machine_refines_for_all_histories : forall ops st, minv st -> Forall op_ok ops ->
  m_run st ops = s_run st ops /\ minv (fst (s_run st ops)).
Proof. exact run_refines. Qed.
Print Assumptions machine_refines_for_all_histories.

Theorem machine_counters_never_wrap : forall ops st, minv st -> Forall op_ok ops -> minv (fst (m_run st ops)).
Proof. exact run_counters_in_range. Qed.
Print Assumptions machine_counters_never_wrap.

Theorem machine_initial_state_in_range : forall eof0 app off elen,
  0 <= eof0 <= INT32_MAX -> 0 <= off -> 0 <= elen -> off + elen <= eof0 -> minv (m_init eof0 app off elen).
Proof. exact init_inv. Qed.
Print Assumptions machine_initial_state_in_range.

(** frame theorem over ALL guards: whatever operation the C machine refuses -- end-of-file limit, 65536th member,
    field order / size, record size, VSFIELDMAX, seek / write products, position limits, name length, attribute size,
    rank / name / variable count, open-file list -- it leaves EVERY field of the state as it was.  Stated on the machine
    as the C code computes it, for any state (only "no fields set => record size 0", which VSattach establishes). *)
Theorem machine_refused_operation_changes_nothing : forall st o, (q_nf st = 0 -> q_iv st = 0) ->
  snd (m_step st o) = MRefused -> fst (m_step st o) = st.
Proof. exact step_frame_raw. Qed.
Print Assumptions machine_refused_operation_changes_nothing.

Theorem machine_step_refines : forall st o, minv st -> op_ok o -> m_step st o = s_step st o.
Proof. exact step_refines. Qed.
Print Assumptions machine_step_refines.

(** Non-vacuity: the hypotheses are met by concrete, non-trivial arguments on both sides of each limit *)
Example getdiskblock_at_limit : m_getdiskblock 1073742118 1073741529 = (Some 1073742118, 2147483647)
                              /\ m_getdiskblock 1073742118 1073741530 = (None, 1073742118).
Proof. vm_compute. split; reflexivity. Qed.
Example hwrite_at_limit : m_hwrite true 2147483547 100 0 10 10 = HwOk 2147483647 2147483647 2147483647
                        /\ m_hwrite true 2147483548 100 0 10 10 = HwFail
                        /\ m_hwrite true 1610612536 50 536871062 10 536871072 = HwFail
                        /\ m_hwrite true 20 5 294 10 400 = HwConvert.
Proof. vm_compute. repeat split; reflexivity. Qed.
Example endoff_ok_example : Forall dd_ok [(202, 92); (-1, -1); (294, 2147483353)]
                          /\ m_endoff 4 16 [(202, 92); (-1, -1); (294, 2147483353)] = 2147483647.
Proof.
  split; [|vm_compute; reflexivity].
  apply Forall_cons; [right; vm_compute; repeat split; discriminate|].
  apply Forall_cons; [left; split; reflexivity|].
  apply Forall_cons; [right; vm_compute; repeat split; discriminate|]. apply Forall_nil.
Qed.
Example invariant_not_vacuous :
  let h := fst (step_h (fst (step_h (h_create 16) v0 (OReserve 100 1 1073741824))) v0 (OReserve 100 2 1073741529)) in
  h_known h = true /\ h_eof h = 2147483647 /\ length (h_elems h) = 3%nat
  /\ snd (step_h h v0 (OPut 101 1 1)) = RFail [Some 2147483647].
Proof. vm_compute. repeat split; reflexivity. Qed.
Example vinsertpair_at_limit : m_vinsertpair 65534 = (Some 65535, 65535) /\ m_vinsertpair 65535 = (None, 65535).
Proof. vm_compute. split; reflexivity. Qed.
Example vsfdefine_at_limit : m_vsfdefine 4 16383 = Some (4, 16383) /\ m_vsfdefine 4 16384 = None /\ m_vsfdefine 1 65536 = None.
Proof. vm_compute. repeat split; reflexivity. Qed.
Example setfields_at_limit :
  Forall field_ok [Some (65531, 1); None] /\ m_vssetfields [Some (65531, 1); None] = (true, (2, 65535))
  /\ m_vssetfields [Some (65535, 1); None] = (false, (0, 0)).
Proof. split; [repeat constructor; vm_compute; repeat split; discriminate | vm_compute; split; reflexivity]. Qed.
Example vsseek_at_limit : m_vsseek 65535 32768 = Some 2147450880 /\ m_vsseek 65535 32769 = None /\ m_vsseek 65535 65538 = None.
Proof. vm_compute. repeat split; reflexivity. Qed.
Example reset_keeps_example : m_reset_maxopen 10 37 1 [None; Some 1; None] = (10, [None; Some 1; None; None; None; None; None; None; None; None])
                            /\ m_reset_maxopen 1 37 0 [None; Some 1; None] = (3, [None; Some 1; None]).
Proof. vm_compute. split; reflexivity. Qed.
Example hseek_at_limit : m_hseek true DF_CURRENT 200 2147483547 10 = None /\ m_hseek true DF_CURRENT 100 2147483547 10 = Some 2147483647
                       /\ m_hseek false DF_END 2147483647 3 10 = None /\ m_hseek false DF_END (-4) 3 10 = Some 6.
Proof. vm_compute. repeat split; reflexivity. Qed.
Example vpackvs_example : m_vpackvs_size [5; 128] 64 0 = 27 + 16 + 7 + 130 + 64.
Proof. vm_compute. reflexivity. Qed.
Example refusal_examples :
  let st := fst (step (fst (step (fst (step init (OHopen 16))) (OVgNew 0))) (OVgAdd 0 1000 0 65535)) in
  plain_request st (OVgAdd 0 1000 0 1) = true /\ snd (step st (OVgAdd 0 1000 0 1)) = RFail [Some 0]
  /\ plain_request st (OVgSetName 0 65536) = true /\ snd (step st (OVgSetName 0 65536)) = RFail [].
Proof. vm_compute. repeat split; reflexivity. Qed.
Example setattr_at_limit : m_sdsetattr 4 16383 = true /\ m_sdsetattr 4 16384 = false /\ m_sdsetattr 1 65536 = false
                         /\ m_grsetattr 8 8191 = true /\ m_grsetattr 8 8192 = false /\ m_sdsetattr 4 1073741824 = false.
Proof. vm_compute. repeat split; reflexivity. Qed.
Definition machine_history : list mop :=
  [MSeek 2 2147483647; MSeek 1 1; MWrite 100; MSeek 0 2147483254; MWrite 100; MSeek 0 2147483253; MWrite 100; MAlloc 1; MAlloc 0;
   MInsert; MFdefine 1 65535; MFdefine 4 16384; MFdefine 1 40000;
   MSetFields [Some 0%nat; None]; MSetFields [Some 0%nat; Some 1%nat]; MSetFields [Some 1%nat; None]; MSeekRec 53682; MSeekRec 53681;
   MWriteRecs 53682; MSetName 65536; MSetName 65535; MSetAttr 4 16384; MSetAttr 4 16383;
   MNewRef; MSdCreate 33 5; MSdCreate 32 256; MResetMax 5 37; MResetMax (-1) 37].
Example machine_history_ok : Forall op_ok machine_history /\ minv (m_init 294 true 294 0).
Proof.
  split; [|apply init_inv; unfold INT32_MAX; lia].
  unfold machine_history.
  repeat (apply Forall_cons; [simpl; unfold is_int32, DF_START, DF_CURRENT, DF_END;
                              first [exact I | lia | (split; lia) | (split; [tauto | lia]) | (split; [right; lia | lia])]|]).
  apply Forall_nil.
Qed.
(** both sides of every limit in one history: 12 refusals, each leaving the state as it was, and the end of file driven
    to exactly 2^31-1 *)
Example machine_history_results :
  snd (m_run (m_init 294 true 294 0) machine_history) =
  [MOk 2147483647; MRefused; MRefused; MOk 2147483254; MRefused; MOk 2147483253; MOk 100; MRefused; MOk 2147483647;
   MOk 1; MOk 0; MRefused; MOk 0; MRefused; MRefused; MOk 40004; MRefused; MOk 2147454724; MRefused; MRefused;
   MOk 65535; MRefused; MOk 16383; MOk 2; MRefused; MOk 0; MOk 5; MRefused]
  /\ q_eof (fst (m_run (m_init 294 true 294 0) machine_history)) = 2147483647
  /\ q_posn (fst (m_run (m_init 294 true 294 0) machine_history)) = 2147483353.
Proof. vm_compute. repeat split; reflexivity. Qed.
Example machine_frame_example :
  let st := fst (m_run (m_init 294 true 294 0) [MSeek 0 2147483253; MWrite 100]) in
  snd (m_step st (MAlloc 1)) = MRefused /\ fst (m_step st (MAlloc 1)) = st /\
  snd (m_step st (MWrite 1)) = MRefused /\ fst (m_step st (MWrite 1)) = st.
Proof. vm_compute. repeat split; reflexivity. Qed.
Example multi_site_limits : truth (coordvar_too_many_vars 4999) = false /\ truth (coordvar_too_many_vars 5000) = true
                          /\ truth (putattr_too_many 2999) = false /\ truth (putattr_too_many 3000) = true
                          /\ truth (vslone_scan_more 65535) = true /\ truth (vslone_scan_more 65536) = false
                          /\ truth (vlone_scan_more 65535) = true.
Proof. vm_compute. repeat split; reflexivity. Qed.
