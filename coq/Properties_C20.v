(** C20 -- Format limits are enforced cleanly: no wrap-around, no over-long objects.
    Property theorems only (each closed by [exact]); proofs in LimitsProofs.v. *)
From Coq Require Import ZArith List Bool.
Require Import H4.gen.Gen_Limits H4.LimitsSpec H4.LimitsModel H4.LimitsProofs.
Import ListNotations.
Local Open Scope Z_scope.

Theorem wrap32_faithful_in_range : forall z, -2147483648 <= z <= 2147483647 -> wrap32 z = z.
Proof. exact wrap32_id. Qed.
Print Assumptions wrap32_faithful_in_range.
