(** C05 -- proofs about the bit I/O model (bw_write / bw_flush / br_read / br_seek of CompCodecModel.v):
    numeric semantics (the stream as one big-endian integer), round trip for any mix of widths and seeks. *)
From Coq Require Import ZArith List Bool Lia.
Require Import H4.gen.Gen_Comp H4.CompSpec H4.CompRleProofs H4.CompCodecModel.
Import ListNotations.
Local Open Scope Z_scope.

(** * powers of two, div and mod *)
Lemma pow2_pos n : 0 <= n -> 0 < 2 ^ n.
Proof. intros; apply Z.pow_pos_nonneg; lia. Qed.
Lemma pow2_add a b : 0 <= a -> 0 <= b -> 2 ^ (a + b) = 2 ^ a * 2 ^ b.
Proof. intros; apply Z.pow_add_r; lia. Qed.
Lemma pow2_le a b : 0 <= a <= b -> 2 ^ a <= 2 ^ b.
Proof. intros; apply Z.pow_le_mono_r; lia. Qed.

Lemma shiftr_div a n : 0 <= n -> Z.shiftr a n = a / 2 ^ n.
Proof. intros; now apply Z.shiftr_div_pow2. Qed.
Lemma shiftl_mul a n : 0 <= n -> Z.shiftl a n = a * 2 ^ n.
Proof. intros; now apply Z.shiftl_mul_pow2. Qed.
Lemma land_ones a k : 0 <= k -> Z.land a (Z.ones k) = a mod 2 ^ k.
Proof. intros; now apply Z.land_ones. Qed.

(** (d / 2^(m+k)) * 2^k + (d / 2^m) mod 2^k = d / 2^m *)
Lemma div_pow_split d m k : 0 <= m -> 0 <= k -> (d / 2 ^ (m + k)) * 2 ^ k + (d / 2 ^ m) mod 2 ^ k = d / 2 ^ m.
Proof.
  intros Hm Hk. rewrite pow2_add by lia. rewrite <- Z.div_div by (try apply pow2_pos; lia).
  pose proof (Z.div_mod (d / 2 ^ m) (2 ^ k)) as E. pose proof (pow2_pos k Hk). lia.
Qed.

(** (x mod 2^(a+b)) / 2^a = (x / 2^a) mod 2^b *)
Lemma mod_div_pow x a b : 0 <= a -> 0 <= b -> (x mod 2 ^ (a + b)) / 2 ^ a = (x / 2 ^ a) mod 2 ^ b.
Proof.
  intros Ha Hb. pose proof (pow2_pos a Ha). pose proof (pow2_pos b Hb).
  rewrite pow2_add by lia. rewrite Z.rem_mul_r by lia.
  rewrite Z.mul_comm, Z.div_add by lia. rewrite Z.div_small by (apply Z.mod_pos_bound; lia). lia.
Qed.

(** (x * 2^a) mod 2^(a+b) = (x mod 2^b) * 2^a *)
Lemma mul_mod_pow x a b : 0 <= a -> 0 <= b -> (x * 2 ^ a) mod 2 ^ (a + b) = (x mod 2 ^ b) * 2 ^ a.
Proof.
  intros Ha Hb. pose proof (pow2_pos a Ha). pose proof (pow2_pos b Hb).
  rewrite pow2_add by lia. rewrite (Z.mul_comm (2 ^ a) (2 ^ b)).
  rewrite Z.mul_mod_distr_r by lia. reflexivity.
Qed.

(** (a * M + r) / M = a, (a * M + r) mod (q * M) = (a mod q) * M + r   for 0 <= r < M *)
Lemma div_add_small a M r : 0 <= r < M -> (a * M + r) / M = a.
Proof. intros. rewrite Z.div_add_l by lia. rewrite Z.div_small by lia. lia. Qed.
Lemma mod_mul_add a M r q : 0 < q -> 0 <= r < M -> (a * M + r) mod (q * M) = (a mod q) * M + r.
Proof.
  intros Hq Hr. rewrite (Z.mul_comm q M). rewrite Z.rem_mul_r by lia.
  rewrite div_add_small by lia.
  replace ((a * M + r) mod M) with r; [lia|].
  rewrite (Z.add_comm (a * M) r), Z.mod_add by lia. now rewrite Z.mod_small by lia.
Qed.

(** disjoint or = plus *)
Lemma testbit_small x m n : 0 <= x < 2 ^ m -> m <= n -> Z.testbit x n = false.
Proof.
  intros Hx Hn. destruct (Z.eq_dec x 0) as [->|Hz]; [apply Z.bits_0|].
  apply Z.bits_above_log2; [lia|]. assert (0 <= m) by (destruct (Z.le_gt_cases 0 m); [lia | rewrite Z.pow_neg_r in Hx by lia; lia]).
  assert (Z.log2 x < m) by (apply Z.log2_lt_pow2; lia). lia.
Qed.
Lemma lor_disjoint a m x : 0 <= m -> 0 <= x < 2 ^ m -> Z.lor (a * 2 ^ m) x = a * 2 ^ m + x.
Proof.
  intros Hm Hx. assert (L : Z.land (a * 2 ^ m) x = 0).
  { apply Z.bits_inj'. intros n Hn. rewrite Z.land_spec, Z.bits_0. rewrite <- shiftl_mul by lia.
    destruct (Z.lt_ge_cases n m).
    - rewrite Z.shiftl_spec_low by lia. reflexivity.
    - rewrite (testbit_small x m n) by lia. apply andb_false_r. }
  rewrite <- Z.lxor_lor by exact L. symmetry. apply Z.add_nocarry_lxor. exact L.
Qed.

(** * big-endian value of a byte list *)
Definition W (l : list Z) : Z := 2 ^ (8 * zlen l).          (* weight of a byte list *)
Lemma W_pos l : 0 < W l.
Proof. unfold W. apply pow2_pos. pose proof (zlen_nonneg l). lia. Qed.
Lemma W_nil : W [] = 1.
Proof. reflexivity. Qed.
Lemma W_cons x l : W (x :: l) = 256 * W l.
Proof. unfold W. rewrite zlen_cons. pose proof (zlen_nonneg l). replace (8 * (1 + zlen l)) with (8 + 8 * zlen l) by lia.
  rewrite pow2_add by lia. reflexivity. Qed.
Lemma W_app a b : W (a ++ b) = W a * W b.
Proof. unfold W. rewrite zlen_app. pose proof (zlen_nonneg a). pose proof (zlen_nonneg b).
  replace (8 * (zlen a + zlen b)) with (8 * zlen a + 8 * zlen b) by lia. apply pow2_add; lia. Qed.

Lemma be_value_acc_spec l : forall acc, be_value_acc acc l = acc * W l + be_value l.
Proof.
  induction l as [|x t IH]; intros acc.
  - simpl. rewrite W_nil. unfold be_value; simpl. lia.
  - unfold be_value. cbn [be_value_acc]. rewrite (IH (acc * 256 + x)), (IH (0 * 256 + x)). rewrite W_cons. lia.
Qed.
Lemma be_value_nil : be_value [] = 0.
Proof. reflexivity. Qed.
Lemma be_value_cons x t : be_value (x :: t) = x * W t + be_value t.
Proof. unfold be_value at 1. cbn [be_value_acc]. rewrite be_value_acc_spec. lia. Qed.
Lemma be_value_app a : forall b, be_value (a ++ b) = be_value a * W b + be_value b.
Proof.
  induction a as [|x t IH]; intros b.
  - cbn [app]. rewrite be_value_nil. lia.
  - cbn [app]. rewrite !be_value_cons, IH, W_app. lia.
Qed.
Lemma be_value_snoc a x : be_value (a ++ [x]) = be_value a * 256 + x.
Proof. rewrite be_value_app, be_value_cons, be_value_nil, W_cons, W_nil. lia. Qed.
Lemma be_value_bound l : Forall byte l -> 0 <= be_value l < W l.
Proof.
  induction 1 as [|x t Hx Ht IH].
  - rewrite be_value_nil, W_nil. lia.
  - rewrite be_value_cons, W_cons. unfold byte in Hx. pose proof (W_pos t). nia.
Qed.

(** * mask tables are [ones] *)
Lemma maskl_ones k : 0 <= k <= 32 -> tab maskl k = Z.ones k.
Proof.
  intros H. apply Z.eqb_eq. assert (0 <= k < 33) as Hk by lia. clear H. revert k Hk.
  apply (zrange_forall (fun k => tab maskl k =? Z.ones k) 33). now vm_compute.
Qed.
Lemma maskc_ones k : 0 <= k <= 8 -> tab maskc k = Z.ones k.
Proof.
  intros H. apply Z.eqb_eq. assert (0 <= k < 9) as Hk by lia. clear H. revert k Hk.
  apply (zrange_forall (fun k => tab maskc k =? Z.ones k) 9). now vm_compute.
Qed.
Lemma u8_mod z : CompCodecModel.u8 z = z mod 256.
Proof. reflexivity. Qed.
Lemma u8_small z : 0 <= z < 256 -> CompCodecModel.u8 z = z.
Proof. intros; unfold CompCodecModel.u8; now apply Z.mod_small. Qed.

(** * the writer: the bits written so far, as one integer *)
Definition bw_inv (s : bitw) (hi : Z) : Prop :=
  1 <= bw_count s <= 8 /\ 0 <= hi < 2 ^ (8 - bw_count s) /\ bw_bits s = hi * 2 ^ bw_count s /\ Forall byte (bw_out s).
Definition bw_acc (s : bitw) (hi : Z) : Z := be_value (bw_out s) * 2 ^ (8 - bw_count s) + hi.
Definition bw_len (s : bitw) : Z := 8 * zlen (bw_out s) + (8 - bw_count s).

Lemma bw_inv_init : bw_inv bitw_init 0 /\ bw_acc bitw_init 0 = 0 /\ bw_len bitw_init = 0.
Proof. unfold bw_inv, bw_acc, bw_len, bitw_init; cbn [bw_out bw_bits bw_count]. change BITNUM with 8.
  repeat split; try lia; try reflexivity. constructor. Qed.

Lemma bw_whole_spec : forall fuel out d cnt acc c,
  0 <= d -> 0 <= cnt < 8 * Z.of_nat fuel -> cnt <= c -> Forall byte out ->
  be_value out = acc * 2 ^ (c - cnt) + d / 2 ^ cnt ->
  exists out' c2, bw_whole fuel out d cnt = (out', c2) /\ 0 <= c2 < 8 /\ Forall byte out' /\
    be_value out' = acc * 2 ^ (c - c2) + d / 2 ^ c2 /\ 8 * zlen out' + c2 = 8 * zlen out + cnt.
Proof.
  induction fuel as [|f IH]; intros out d cnt acc c Hd Hc Hcc Ho E.
  - simpl in Hc. lia.
  - cbn [bw_whole]. change BITNUM with 8. destruct (Z.leb_spec 8 cnt) as [Hge|Hlt].
    + destruct (IH (out ++ [CompCodecModel.u8 (Z.shiftr d (cnt - 8))]) d (cnt - 8) acc c) as (out' & c2 & E' & H1 & H2 & H3 & H4); try lia.
      * apply Forall_app; split; [assumption|]. constructor; [|constructor].
        rewrite u8_mod. unfold byte. apply Z.mod_pos_bound. lia.
      * rewrite be_value_snoc, E, u8_mod, shiftr_div by lia. change 256 with (2 ^ 8).
        pose proof (div_pow_split d (cnt - 8) 8) as S. replace (cnt - 8 + 8) with cnt in S by lia.
        specialize (S ltac:(lia) ltac:(lia)).
        replace (c - (cnt - 8)) with ((c - cnt) + 8) by lia. rewrite pow2_add by lia.
        change (2 ^ 8) with 256 in *.
        set (q := d / 2 ^ cnt) in *. set (r0 := d / 2 ^ (cnt - 8)) in *. set (m := r0 mod 256) in *.
        set (p := 2 ^ (c - cnt)). clearbody m r0 q p. clear - S. lia.
      * exists out', c2. repeat split; auto; try lia.
        rewrite zlen_app, zlen_cons, zlen_nil in H4. lia.
    + exists out, cnt. repeat split; auto; lia.
Qed.

Lemma bw_write_spec s hi c v : bw_inv s hi -> 1 <= c <= 32 -> 0 <= v ->
  exists hi', bw_inv (bw_write s c v) hi' /\ bw_acc (bw_write s c v) hi' = bw_acc s hi * 2 ^ c + v mod 2 ^ c /\
              bw_len (bw_write s c v) = bw_len s + c.
Proof.
  intros (Hk & Hhi & Hb & Ho) Hc Hv. unfold bw_write. change DATANUM with 32.
  destruct (Z.ltb_spec 32 c); [lia|]. rewrite maskl_ones, land_ones by lia.
  set (k := bw_count s) in *. set (d := v mod 2 ^ c).
  assert (Hd : 0 <= d < 2 ^ c) by (apply Z.mod_pos_bound; apply pow2_pos; lia).
  destruct (Z.ltb_spec c k) as [Hlt|Hge].
  - (* the field fits into the current byte *)
    exists (hi * 2 ^ c + d). unfold bw_inv, bw_acc, bw_len. cbn [bw_out bw_bits bw_count]. fold k.
    assert (P1 : 2 ^ k = 2 ^ c * 2 ^ (k - c)) by (rewrite <- pow2_add by lia; f_equal; lia).
    assert (P2 : 2 ^ (8 - (k - c)) = 2 ^ (8 - k) * 2 ^ c) by (rewrite <- pow2_add by lia; f_equal; lia).
    pose proof (pow2_pos (k - c)). pose proof (pow2_pos c). pose proof (pow2_pos (8 - k)).
    assert (Hx : 0 <= d * 2 ^ (k - c) < 2 ^ k) by nia.
    assert (2 ^ k <= 256) by (change 256 with (2 ^ 8); apply pow2_le; lia).
    rewrite shiftl_mul by lia. rewrite u8_small by lia. rewrite Hb. rewrite lor_disjoint by lia.
    repeat split; try lia; auto; try nia.
  - (* fill the current byte, whole bytes, remainder *)
    set (c1 := c - k).
    assert (P1 : 2 ^ c = 2 ^ k * 2 ^ c1) by (rewrite <- pow2_add by (subst c1; lia); f_equal; subst c1; lia).
    pose proof (pow2_pos c1 ltac:(subst c1; lia)). pose proof (pow2_pos k ltac:(lia)). pose proof (pow2_pos (8 - k) ltac:(lia)).
    assert (Hq : 0 <= d / 2 ^ c1 < 2 ^ k).
    { split; [apply Z.div_pos; lia|]. apply Z.div_lt_upper_bound; lia. }
    assert (K8 : 2 ^ k * 2 ^ (8 - k) = 256) by (rewrite <- pow2_add by lia; replace (k + (8 - k)) with 8 by lia; reflexivity).
    rewrite shiftr_div by (subst c1; lia). rewrite (u8_small (d / 2 ^ c1)) by nia.
    rewrite Hb, lor_disjoint by lia. rewrite u8_small by nia.
    destruct (bw_whole_spec 4 (bw_out s ++ [hi * 2 ^ k + d / 2 ^ c1]) d c1 (bw_acc s hi) c) as (out' & c2 & E & Hc2 & Ho' & V & L);
      try (subst c1; simpl; lia).
    + apply Forall_app; split; [assumption|]. constructor; [|constructor]. unfold byte. nia.
    + rewrite be_value_snoc. unfold bw_acc. fold k. replace (c - c1) with k by (subst c1; lia). rewrite <- K8. ring.
    + rewrite E. change BITNUM with 8. destruct (Z.ltb_spec 0 (8 - c2)); [|lia].
      exists (d mod 2 ^ c2). unfold bw_inv, bw_acc, bw_len. cbn [bw_out bw_bits bw_count].
      pose proof (pow2_pos c2 ltac:(lia)). pose proof (Z.mod_pos_bound d (2 ^ c2) ltac:(lia)).
      replace (8 - (8 - c2)) with c2 by lia. rewrite shiftl_mul, u8_mod by lia.
      pose proof (mul_mod_pow d (8 - c2) c2 ltac:(lia) ltac:(lia)) as EB.
      replace (8 - c2 + c2) with 8 in EB by lia. change (2 ^ 8) with 256 in EB. rewrite EB.
      repeat split; try lia; auto.
      * rewrite V.
        assert (P3 : 2 ^ c = 2 ^ (c - c2) * 2 ^ c2) by (rewrite <- pow2_add by lia; f_equal; lia).
        pose proof (Z.div_mod d (2 ^ c2) ltac:(lia)) as DM. rewrite P3. unfold bw_acc. fold k.
        set (q := d / 2 ^ c2) in *. set (m := d mod 2 ^ c2) in *. set (pc := 2 ^ c2) in *.
        set (pa := 2 ^ (c - c2)) in *. clearbody q m pc pa. rewrite DM at 1. ring.
      * rewrite zlen_app, zlen_cons, zlen_nil in L. subst c1. lia.
Qed.

Definition wr_ok (w : Z * Z) : Prop := 1 <= fst w <= 32 /\ 0 <= snd w.
Fixpoint stream_val (acc : Z) (ws : list (Z * Z)) : Z :=
  match ws with [] => acc | (c, v) :: t => stream_val (acc * 2 ^ c + v mod 2 ^ c) t end.
Fixpoint stream_len (ws : list (Z * Z)) : Z :=
  match ws with [] => 0 | (c, _) :: t => c + stream_len t end.

Lemma bw_writes_spec ws : forall s hi, bw_inv s hi -> Forall wr_ok ws ->
  exists hi', bw_inv (bw_writes s ws) hi' /\ bw_acc (bw_writes s ws) hi' = stream_val (bw_acc s hi) ws /\
              bw_len (bw_writes s ws) = bw_len s + stream_len ws.
Proof.
  induction ws as [|[c v] t IH]; intros s hi I F.
  - exists hi. cbn [bw_writes stream_val stream_len]. split; [exact I|]. split; [reflexivity | ring].
  - inversion F as [|? ? [Hc Hv] Ft]; subst. cbn [fst snd] in *.
    destruct (bw_write_spec s hi c v I Hc Hv) as (hi1 & I1 & A1 & L1).
    destruct (IH _ hi1 I1 Ft) as (hi2 & I2 & A2 & L2).
    exists hi2. cbn [bw_writes stream_val stream_len]. split; [exact I2|]. split.
    + rewrite A2, A1. reflexivity.
    + rewrite L2, L1. ring.
Qed.

Lemma bw_flush_spec s hi : bw_inv s hi ->
  Forall byte (bw_flush s) /\ exists pad, 0 <= pad < 8 /\ 8 * zlen (bw_flush s) = bw_len s + pad /\
                                       be_value (bw_flush s) = bw_acc s hi * 2 ^ pad.
Proof.
  intros (Hk & Hhi & Hb & Ho). unfold bw_flush, bw_acc, bw_len. change BITNUM with 8.
  set (k := bw_count s) in *. destruct (Z.ltb_spec k 8).
  - pose proof (pow2_pos k ltac:(lia)). pose proof (pow2_pos (8 - k) ltac:(lia)).
    assert (K8 : 2 ^ (8 - k) * 2 ^ k = 256) by (rewrite <- pow2_add by lia; replace (8 - k + k) with 8 by lia; reflexivity).
    split.
    + apply Forall_app; split; [assumption|]. constructor; [|constructor]. rewrite Hb. unfold byte. nia.
    + exists k. rewrite zlen_app, zlen_cons, be_value_snoc. rewrite Hb. unfold zlen at 2. cbn [length Z.of_nat].
      split; [lia|]. split; [lia|]. rewrite <- K8. ring.
  - assert (E8 : 8 - k = 0) by lia. split; [assumption|]. exists 0. rewrite E8 in *.
    change (2 ^ 0) with 1 in *. repeat split; try lia.
Qed.

(** * the reader: the bits not yet delivered, as one integer *)
Definition br_inv (s : bitr) : Prop := 0 <= br_count s <= 7 /\ 0 <= br_bits s < 256 /\ Forall byte (br_in s).
Definition br_rem (s : bitr) : Z := (br_bits s mod 2 ^ br_count s) * W (br_in s) + be_value (br_in s).
Definition br_len (s : bitr) : Z := br_count s + 8 * zlen (br_in s).

Lemma mod_mod_pow x a b : 0 <= a <= b -> (x mod 2 ^ b) mod 2 ^ a = x mod 2 ^ a.
Proof.
  intros H. replace b with (a + (b - a)) by lia. rewrite pow2_add by lia.
  pose proof (pow2_pos a ltac:(lia)). pose proof (pow2_pos (b - a) ltac:(lia)).
  rewrite Z.rem_mul_r by lia. rewrite (Z.mul_comm (2 ^ a)), Z.mod_add by lia. apply Z.mod_mod. lia.
Qed.

Lemma br_whole_spec : forall fuel inp X cnt,
  0 <= X -> 0 <= cnt <= 8 * Z.of_nat fuel -> cnt <= 8 * zlen inp -> Forall byte inp ->
  exists inp' X' c2, br_whole fuel inp (X * 2 ^ cnt) cnt = Some (inp', X' * 2 ^ c2, c2) /\
    0 <= c2 < 8 /\ c2 <= 8 * zlen inp' /\ Forall byte inp' /\ 0 <= X' /\
    X' * W inp' + be_value inp' = X * W inp + be_value inp /\ cnt - c2 = 8 * (zlen inp - zlen inp').
Proof.
  induction fuel as [|f IH]; intros inp X cnt HX Hc Hl Hb.
  - assert (cnt = 0) by (simpl in Hc; lia). subst cnt. exists inp, X, 0. cbn [br_whole].
    pose proof (zlen_nonneg inp). repeat split; auto; lia.
  - cbn [br_whole]. change BITNUM with 8. destruct (Z.leb_spec 8 cnt) as [Hge|Hlt].
    + destruct inp as [|l t]; [change (zlen (@nil Z)) with 0 in Hl; lia|].
      inversion Hb as [|? ? Hlb Htb]; subst. unfold byte in Hlb.
      assert (P : 2 ^ cnt = 256 * 2 ^ (cnt - 8)) by (change 256 with (2 ^ 8); rewrite <- pow2_add by lia; f_equal; lia).
      pose proof (pow2_pos (cnt - 8) ltac:(lia)).
      rewrite shiftl_mul by lia. rewrite lor_disjoint by nia.
      replace (X * 2 ^ cnt + l * 2 ^ (cnt - 8)) with ((X * 256 + l) * 2 ^ (cnt - 8)) by (rewrite P; ring).
      rewrite zlen_cons in Hl.
      destruct (IH t (X * 256 + l) (cnt - 8)) as (inp' & X' & c2 & E & H1 & H2 & H3 & H4 & H5 & H6); try lia; auto.
      exists inp', X', c2. rewrite E. repeat split; auto; try lia.
      * rewrite H5, W_cons, be_value_cons. ring.
      * rewrite zlen_cons. lia.
    + exists inp, X, cnt. repeat split; auto; lia.
Qed.

Lemma W_pow l : W l = 2 ^ (8 * zlen l).
Proof. reflexivity. Qed.

Lemma br_read_spec s c : br_inv s -> 1 <= c <= 32 -> c <= br_len s ->
  exists s' v, br_read s c = Some (s', v) /\ br_inv s' /\ v = br_rem s / 2 ^ (br_len s - c) /\
               br_rem s' = br_rem s mod 2 ^ (br_len s - c) /\ br_len s' = br_len s - c.
Proof.
  intros (Hk & Hbits & Hin) Hc Hl. unfold br_read, br_rem, br_len in *. change DATANUM with 32. change BITNUM with 8.
  destruct (Z.ltb_spec 32 c); [lia|].
  set (k := br_count s) in *. set (bits := br_bits s) in *. set (inp := br_in s) in *.
  pose proof (zlen_nonneg inp) as Hn. pose proof (W_pos inp) as HW.
  pose proof (be_value_bound inp Hin) as HB.
  destruct (Z.leb_spec c k) as [Hle|Hgt].
  - (* served from the buffered bits *)
    eexists; eexists. split; [reflexivity|]. unfold br_inv. cbn [br_in br_bits br_count]. fold k bits inp.
    rewrite maskc_ones, land_ones, shiftr_div by lia.
    assert (P : 2 ^ (k + 8 * zlen inp - c) = 2 ^ (k - c) * W inp)
      by (rewrite W_pow, <- pow2_add by lia; f_equal; lia).
    pose proof (pow2_pos (k - c) ltac:(lia)) as Hp.
    repeat split; try lia; auto.
    + rewrite P. rewrite (Z.mul_comm (2 ^ (k - c))), <- Z.div_div by lia.
      rewrite div_add_small by (split; [lia | apply HB]).
      pose proof (mod_div_pow bits (k - c) c ltac:(lia) ltac:(lia)) as MD.
      replace (k - c + c) with k in MD by lia. rewrite MD. reflexivity.
    + rewrite P. rewrite mod_mul_add by lia. rewrite mod_mod_pow by lia. reflexivity.
  - (* buffered bits, whole bytes, a partial byte *)
    set (c1 := c - k).
    set (X0 := bits mod 2 ^ k).
    assert (HX0 : 0 <= X0 < 2 ^ k) by (apply Z.mod_pos_bound; apply pow2_pos; lia).
    assert (Eb0 : (if 0 <? k then Z.shiftl (Z.land bits (tab maskc k)) c1 else 0) = X0 * 2 ^ c1).
    { destruct (Z.ltb_spec 0 k).
      - rewrite maskc_ones, land_ones, shiftl_mul by (unfold c1; lia). reflexivity.
      - assert (k = 0) by lia. subst X0. replace k with 0 by lia. change (2 ^ 0) with 1. rewrite Z.mod_1_r. lia. }
    assert (Ec1 : (if 0 <? k then c1 else c) = c1) by (destruct (Z.ltb_spec 0 k); unfold c1; lia).
    cbv zeta. rewrite !Ec1, Eb0.
    destruct (br_whole_spec 4 inp X0 c1) as (inp' & X' & c2 & E & H1 & H2 & H3 & H4 & H5 & H6);
      try (unfold c1; lia); try (unfold c1; change (Z.of_nat 4) with 4; lia); auto.
    rewrite E. pose proof (zlen_nonneg inp') as Hn'.
    destruct (Z.ltb_spec 0 c2) as [Hc2|Hc2].
    + destruct inp' as [|l t]; [change (zlen (@nil Z)) with 0 in H2; lia|].
      inversion H3 as [|? ? Hlb Htb]; subst. unfold byte in Hlb.
      rewrite zlen_cons in *. pose proof (zlen_nonneg t) as Hnt. pose proof (W_pos t) as HWt.
      pose proof (be_value_bound t Htb) as HBt.
      eexists; eexists. split; [reflexivity|]. unfold br_inv. cbn [br_in br_bits br_count].
      rewrite shiftr_div by lia.
      pose proof (pow2_pos (8 - c2) ltac:(lia)) as Hp. pose proof (pow2_pos c2 ltac:(lia)) as Hp2.
      assert (K8 : 2 ^ c2 * 2 ^ (8 - c2) = 256) by (rewrite <- pow2_add by lia; replace (c2 + (8 - c2)) with 8 by lia; reflexivity).
      assert (Hq : 0 <= l / 2 ^ (8 - c2) < 2 ^ c2).
      { split; [apply Z.div_pos; lia|]. apply Z.div_lt_upper_bound; nia. }
      rewrite lor_disjoint by lia.
      assert (P : 2 ^ (k + 8 * zlen inp - c) = 2 ^ (8 - c2) * W t).
      { rewrite W_pow, <- pow2_add by lia. f_equal. unfold c1. lia. }
      assert (R : X0 * W inp + be_value inp = (X' * 256 + l) * W t + be_value t).
      { rewrite <- H5, W_cons, be_value_cons. ring. }
      fold X0. rewrite R, P.
      repeat split; try lia; auto; try (unfold c1; lia).
      * rewrite (Z.mul_comm (2 ^ (8 - c2))), <- Z.div_div by lia. rewrite div_add_small by lia.
        rewrite <- K8. replace (X' * (2 ^ c2 * 2 ^ (8 - c2)) + l) with ((X' * 2 ^ c2) * 2 ^ (8 - c2) + l) by ring.
        rewrite Z.div_add_l by lia. reflexivity.
      * rewrite mod_mul_add by lia. f_equal. f_equal.
        rewrite <- K8. replace (X' * (2 ^ c2 * 2 ^ (8 - c2)) + l) with (l + (X' * 2 ^ c2) * 2 ^ (8 - c2)) by ring.
        rewrite Z.mod_add by lia. reflexivity.
    + assert (c2 = 0) by lia. subst c2. change (2 ^ 0) with 1. rewrite Z.mul_1_r.
      eexists; eexists. split; [reflexivity|]. unfold br_inv. cbn [br_in br_bits br_count]. fold bits.
      pose proof (W_pos inp') as HW'. pose proof (be_value_bound inp' H3) as HB'.
      assert (P : 2 ^ (k + 8 * zlen inp - c) = W inp') by (rewrite W_pow; f_equal; unfold c1; lia).
      fold X0. rewrite <- H5, P. change (2 ^ 0) with 1. rewrite Z.mod_1_r.
      repeat split; try lia; auto; try (unfold c1; lia).
      * rewrite div_add_small by lia. reflexivity.
      * rewrite (Z.add_comm (X' * W inp')), Z.mod_add by lia. rewrite Z.mod_small by lia. lia.
Qed.

(** * reading and seeking over a fixed byte list *)
Definition bit_field (N L p c : Z) : Z := (N / 2 ^ (L - p - c)) mod 2 ^ c.     (* the c-bit field at bit p of an L-bit number *)

Definition br_at (bytes : list Z) (s : bitr) (p : Z) : Prop :=
  br_inv s /\ br_len s = 8 * zlen bytes - p /\ br_rem s = be_value bytes mod 2 ^ (8 * zlen bytes - p).

Lemma br_at_init bytes : Forall byte bytes -> br_at bytes (bitr_init bytes) 0.
Proof.
  intros Hb. unfold br_at, br_inv, br_len, br_rem, bitr_init. cbn [br_in br_bits br_count].
  pose proof (be_value_bound bytes Hb). repeat split; try lia; auto.
  rewrite Z.sub_0_r. change (2 ^ 0) with 1. rewrite Z.mod_1_r. rewrite <- W_pow. rewrite Z.mod_small by lia. lia.
Qed.

Lemma br_at_read bytes s p c : br_at bytes s p -> 0 <= p -> 1 <= c <= 32 -> p + c <= 8 * zlen bytes ->
  exists s', br_read s c = Some (s', bit_field (be_value bytes) (8 * zlen bytes) p c) /\ br_at bytes s' (p + c).
Proof.
  intros (I & L & R) Hp Hc Hr. set (T := 8 * zlen bytes) in *.
  destruct (br_read_spec s c I Hc) as (s' & v & E & I' & V & R' & L'); [lia|].
  exists s'. rewrite L in *. rewrite R in *. split.
  - rewrite E. f_equal. f_equal. subst v. unfold bit_field.
    replace (T - p) with ((T - p - c) + c) at 1 by lia. apply mod_div_pow; lia.
  - unfold br_at. fold T. split; [exact I'|]. split; [lia|].
    rewrite R'. replace (T - (p + c)) with (T - p - c) by lia. apply mod_mod_pow. lia.
Qed.

Lemma take_drop_value bytes n : Forall byte bytes -> 0 <= n <= zlen bytes ->
  be_value bytes = be_value (ztake n bytes) * W (zdrop n bytes) + be_value (zdrop n bytes) /\
  Forall byte (zdrop n bytes) /\ zlen (zdrop n bytes) = zlen bytes - n.
Proof.
  intros Hb Hn. rewrite <- be_value_app, ztake_zdrop. repeat split; auto.
  - rewrite <- (ztake_zdrop bytes n) in Hb. apply Forall_app in Hb. tauto.
  - apply zlen_zdrop. lia.
Qed.

Lemma br_at_seek bytes byte_ bit : Forall byte bytes -> 0 <= byte_ -> 0 <= bit < 8 -> 8 * byte_ + bit <= 8 * zlen bytes ->
  exists s', br_seek bytes byte_ bit = Some s' /\ br_at bytes s' (8 * byte_ + bit).
Proof.
  intros Hb H0 Hbit Hr. unfold br_seek. change BITNUM with 8.
  destruct (Z.leb_spec 0 byte_); [|lia]. destruct (Z.leb_spec byte_ (zlen bytes)); [|lia].
  destruct (Z.leb_spec 0 bit); [|lia]. destruct (Z.ltb_spec bit 8); [|lia]. cbn [andb].
  destruct (take_drop_value bytes byte_ Hb ltac:(lia)) as (V & Fd & Ld).
  set (dr := zdrop byte_ bytes) in *. pose proof (be_value_bound dr Fd) as Bd. pose proof (W_pos dr) as Wd.
  destruct (Z.ltb_spec 0 bit) as [Hpos|Hz].
  - destruct dr as [|l t] eqn:Edr; [change (zlen (@nil Z)) with 0 in Ld; lia|].
    inversion Fd as [|? ? Hl Ht]; subst. unfold byte in Hl. rewrite zlen_cons in Ld.
    pose proof (be_value_bound t Ht) as Bt. pose proof (W_pos t) as Wt. pose proof (zlen_nonneg t).
    eexists. split; [reflexivity|]. unfold br_at, br_inv, br_len, br_rem. cbn [br_in br_bits br_count].
    repeat split; try lia; auto.
    rewrite V, W_cons, be_value_cons.
    assert (P : 2 ^ (8 * zlen bytes - (8 * byte_ + bit)) = 2 ^ (8 - bit) * W t) by (rewrite W_pow, <- pow2_add by lia; f_equal; lia).
    rewrite P. pose proof (pow2_pos (8 - bit) ltac:(lia)). pose proof (pow2_pos bit ltac:(lia)).
    assert (K8 : 2 ^ bit * 2 ^ (8 - bit) = 256) by (rewrite <- pow2_add by lia; replace (bit + (8 - bit)) with 8 by lia; reflexivity).
    replace (be_value (ztake byte_ bytes) * (256 * W t) + (l * W t + be_value t))
      with ((be_value (ztake byte_ bytes) * 256 + l) * W t + be_value t) by ring.
    rewrite mod_mul_add by lia. f_equal. f_equal. rewrite <- K8.
    replace (be_value (ztake byte_ bytes) * (2 ^ bit * 2 ^ (8 - bit)) + l)
      with (l + (be_value (ztake byte_ bytes) * 2 ^ bit) * 2 ^ (8 - bit)) by ring.
    rewrite Z.mod_add by lia. reflexivity.
  - assert (bit = 0) by lia. subst bit. eexists. split; [reflexivity|].
    unfold br_at, br_inv, br_len, br_rem. cbn [br_in br_bits br_count]. fold dr.
    repeat split; try lia; auto.
    change (2 ^ 0) with 1. rewrite Z.mod_1_r. rewrite V.
    replace (8 * zlen bytes - (8 * byte_ + 0)) with (8 * zlen dr) by lia. rewrite <- W_pow.
    rewrite (Z.add_comm (be_value (ztake byte_ bytes) * W dr)), Z.mod_add by lia. rewrite Z.mod_small by lia. lia.
Qed.

Inductive bop := BOr (c : Z) | BOs (byte_ bit : Z).
Fixpoint br_run (bytes : list Z) (s : bitr) (ops : list bop) : option (list Z) :=
  match ops with
  | [] => Some []
  | BOr c :: t => match br_read s c with
                  | None => None
                  | Some (s', v) => match br_run bytes s' t with None => None | Some r => Some (v :: r) end
                  end
  | BOs by_ bi :: t => match br_seek bytes by_ bi with None => None | Some s' => br_run bytes s' t end
  end.
Fixpoint field_run (N L p : Z) (ops : list bop) : list Z :=
  match ops with
  | [] => []
  | BOr c :: t => bit_field N L p c :: field_run N L (p + c) t
  | BOs by_ bi :: t => field_run N L (8 * by_ + bi) t
  end.
Fixpoint bops_ok (L p : Z) (ops : list bop) : bool :=
  match ops with
  | [] => true
  | BOr c :: t => (1 <=? c) && (c <=? 32) && (p + c <=? L) && bops_ok L (p + c) t
  | BOs by_ bi :: t => (0 <=? by_) && (0 <=? bi) && (bi <? 8) && (8 * by_ + bi <=? L) && bops_ok L (8 * by_ + bi) t
  end.

Lemma br_run_fields bytes : Forall byte bytes -> forall ops s p, br_at bytes s p -> 0 <= p ->
  bops_ok (8 * zlen bytes) p ops = true ->
  br_run bytes s ops = Some (field_run (be_value bytes) (8 * zlen bytes) p ops).
Proof.
  intros Hb. induction ops as [|o t IH]; intros s p A Hp Ok; cbn [br_run field_run]; [reflexivity|].
  destruct o as [c|by_ bi]; cbn [bops_ok] in Ok; rewrite !andb_true_iff in Ok.
  - destruct Ok as [[[O1 O2] O3] O4]. apply Z.leb_le in O1, O2, O3.
    destruct (br_at_read bytes s p c A Hp ltac:(lia) O3) as (s' & E & A').
    rewrite E. rewrite (IH s' (p + c) A' ltac:(lia) O4). reflexivity.
  - destruct Ok as [[[[O1 O2] O3] O4] O5]. apply Z.leb_le in O1, O2, O4. apply Z.ltb_lt in O3.
    destruct (br_at_seek bytes by_ bi Hb O1 ltac:(lia) O4) as (s' & E & A').
    rewrite E. apply (IH s' _ A'); [lia | exact O5].
Qed.

(** * writer + reader *)
Lemma bit_field_pad A T pad p c : 0 <= pad -> 0 <= p -> 0 <= c -> p + c <= T ->
  bit_field (A * 2 ^ pad) (T + pad) p c = bit_field A T p c.
Proof.
  intros. unfold bit_field. f_equal. replace (T + pad - p - c) with ((T - p - c) + pad) by lia.
  rewrite pow2_add by lia. apply Z.div_mul_cancel_r; apply Z.pow_nonzero; lia.
Qed.
Lemma bops_ok_mono L L' : L <= L' -> forall ops p, bops_ok L p ops = true -> bops_ok L' p ops = true.
Proof.
  intros HL. induction ops as [|[c|by_ bi] t IH]; intros p; cbn [bops_ok]; auto; rewrite !andb_true_iff; rewrite !Z.leb_le.
  - intros [[[? ?] ?] ?]. repeat split; auto; lia.
  - intros [[[[? ?] ?] ?] ?]. repeat split; auto; lia.
Qed.
Lemma field_run_pad A T pad : 0 <= pad -> forall ops p, 0 <= p -> bops_ok T p ops = true ->
  field_run (A * 2 ^ pad) (T + pad) p ops = field_run A T p ops.
Proof.
  intros Hpad. induction ops as [|[c|by_ bi] t IH]; intros p Hp; cbn [bops_ok field_run]; auto;
    rewrite !andb_true_iff; rewrite !Z.leb_le.
  - intros [[[? ?] ?] ?]. rewrite bit_field_pad by lia. rewrite IH by (auto; lia). reflexivity.
  - intros [[[[? ?] ?] ?] ?]. apply IH; auto; lia.
Qed.

Lemma stream_len_nonneg ws : Forall wr_ok ws -> 0 <= stream_len ws.
Proof. induction 1 as [|[c v] t [H _] _ IH]; cbn [stream_len fst] in *; lia. Qed.

Lemma bitio_roundtrip_num_lemma : forall ws ops, Forall wr_ok ws -> bops_ok (stream_len ws) 0 ops = true ->
  let bytes := bw_flush (bw_writes bitw_init ws) in
  br_run bytes (bitr_init bytes) ops = Some (field_run (stream_val 0 ws) (stream_len ws) 0 ops).
Proof.
  intros ws ops Hw Ok bytes. destruct bw_inv_init as (I0 & A0 & L0).
  destruct (bw_writes_spec ws bitw_init 0 I0 Hw) as (hi & I & A & L).
  destruct (bw_flush_spec _ hi I) as (Fb & pad & Hpad & Lb & Vb). fold bytes in Fb, Lb, Vb.
  rewrite A, A0 in Vb. rewrite L, L0 in Lb.
  rewrite (br_run_fields bytes Fb ops (bitr_init bytes) 0 (br_at_init bytes Fb)); try lia.
  - rewrite Vb, Lb. rewrite Z.add_0_l. rewrite field_run_pad by (auto; lia). reflexivity.
  - rewrite Lb. apply (bops_ok_mono (stream_len ws)); [lia | exact Ok].
Qed.

(** * link to the bit-list specification (CompSpec.b_step) *)
Lemma bits_value_acc_spec l : forall acc, bits_value_acc acc l = acc * 2 ^ zlen l + bits_value l.
Proof.
  induction l as [|b t IH]; intros acc.
  - unfold bits_value. cbn [bits_value_acc]. change (zlen (@nil bool)) with 0. change (2 ^ 0) with 1. lia.
  - unfold bits_value. cbn [bits_value_acc]. rewrite (IH (2 * acc + _)), (IH (2 * 0 + _)).
    rewrite zlen_cons. pose proof (zlen_nonneg t). rewrite pow2_add by lia. change (2 ^ 1) with 2. unfold bits_value. lia.
Qed.
Lemma bits_value_cons b t : bits_value (b :: t) = Z.b2z b * 2 ^ zlen t + bits_value t.
Proof. unfold bits_value at 1. cbn [bits_value_acc]. rewrite bits_value_acc_spec. destruct b; simpl Z.b2z; lia. Qed.
Lemma bits_value_app a : forall b, bits_value (a ++ b) = bits_value a * 2 ^ zlen b + bits_value b.
Proof.
  induction a as [|x t IH]; intros b.
  - cbn [app]. change (bits_value []) with 0. lia.
  - cbn [app]. rewrite !bits_value_cons, IH, zlen_app. pose proof (zlen_nonneg t). pose proof (zlen_nonneg b).
    rewrite pow2_add by lia. ring.
Qed.
Lemma bits_value_bound l : 0 <= bits_value l < 2 ^ zlen l.
Proof.
  induction l as [|b t IH].
  - change (bits_value []) with 0. change (zlen (@nil bool)) with 0. change (2 ^ 0) with 1. lia.
  - rewrite bits_value_cons, zlen_cons. pose proof (zlen_nonneg t). rewrite pow2_add by lia. change (2 ^ 1) with 2.
    destruct b; simpl Z.b2z; lia.
Qed.

Lemma bits_value_mid (l1 l2 l3 : list bool) :
  bit_field (bits_value (l1 ++ l2 ++ l3)) (zlen (l1 ++ l2 ++ l3)) (zlen l1) (zlen l2) = bits_value l2.
Proof.
  unfold bit_field. rewrite !zlen_app. replace (zlen l1 + (zlen l2 + zlen l3) - zlen l1 - zlen l2) with (zlen l3) by lia.
  rewrite !bits_value_app, zlen_app.
  pose proof (zlen_nonneg l2). pose proof (zlen_nonneg l3). rewrite pow2_add by lia.
  pose proof (bits_value_bound l3). pose proof (bits_value_bound l2).
  pose proof (pow2_pos (zlen l3) ltac:(lia)). pose proof (pow2_pos (zlen l2) ltac:(lia)).
  replace (bits_value l1 * (2 ^ zlen l2 * 2 ^ zlen l3) + (bits_value l2 * 2 ^ zlen l3 + bits_value l3))
    with ((bits_value l1 * 2 ^ zlen l2 + bits_value l2) * 2 ^ zlen l3 + bits_value l3) by ring.
  rewrite div_add_small by lia.
  rewrite (Z.add_comm (bits_value l1 * 2 ^ zlen l2)), Z.mod_add by lia. rewrite Z.mod_small by lia. reflexivity.
Qed.

Lemma bits_value_field bits p c : 0 <= p -> 0 <= c -> p + c <= zlen bits ->
  bits_value (ztake c (zdrop p bits)) = bit_field (bits_value bits) (zlen bits) p c.
Proof.
  intros Hp Hc Hr.
  assert (E : bits = ztake p bits ++ ztake c (zdrop p bits) ++ zdrop c (zdrop p bits)) by (now rewrite !ztake_zdrop).
  assert (Z1 : zlen (ztake p bits) = p) by (apply zlen_ztake; lia).
  assert (Zr : zlen (zdrop p bits) = zlen bits - p) by (apply zlen_zdrop; lia).
  assert (Z2 : zlen (ztake c (zdrop p bits)) = c) by (apply zlen_ztake; lia).
  pose proof (bits_value_mid (ztake p bits) (ztake c (zdrop p bits)) (zdrop c (zdrop p bits))) as M.
  rewrite <- E, Z1, Z2 in M. symmetry. exact M.
Qed.

Lemma map_zseq_shift {A} (g : Z -> A) n : forall a, map g (zseq_from (a + 1) n) = map (fun i => g (i + 1)) (zseq_from a n).
Proof. induction n as [|n IH]; intros a; cbn [zseq_from map]; [reflexivity|]. now rewrite IH. Qed.

Lemma field_bits_succ c v : 0 <= c -> field_bits (c + 1) v = Z.testbit v c :: field_bits c v.
Proof.
  intros Hc. unfold field_bits, zseq. rewrite Z2Nat.inj_add by lia. change (Z.to_nat 1) with 1%nat.
  rewrite Nat.add_1_r. cbn [zseq_from map]. f_equal; [f_equal; lia|].
  change (0 + 1) with (0 + 1). rewrite (map_zseq_shift (fun i => Z.testbit v (c + 1 - 1 - i)) (Z.to_nat c) 0).
  apply map_ext. intros i. f_equal. lia.
Qed.

Lemma field_bits_value v : forall c, 0 <= c -> bits_value (field_bits c v) = v mod 2 ^ c /\ zlen (field_bits c v) = c.
Proof.
  apply natlike_ind.
  - split; [|reflexivity]. change (field_bits 0 v) with (@nil bool). change (2 ^ 0) with 1. now rewrite Z.mod_1_r.
  - intros c Hc [IHv IHl]. unfold Z.succ. rewrite field_bits_succ by lia. rewrite bits_value_cons, zlen_cons, IHv, IHl.
    split; [|lia]. rewrite pow2_add by lia. change (2 ^ 1) with 2. pose proof (pow2_pos c Hc).
    rewrite Z.rem_mul_r by lia. rewrite Z.testbit_spec' by lia. ring.
Qed.

Definition ws_bits (ws : list (Z * Z)) : list bool := concat (map (fun w => field_bits (fst w) (snd w)) ws).

Lemma stream_val_shift ws : Forall wr_ok ws -> forall acc, stream_val acc ws = acc * 2 ^ stream_len ws + stream_val 0 ws.
Proof.
  induction 1 as [|[c v] t [Hc _] Ht IH]; intros acc; cbn [stream_val stream_len fst] in *.
  - change (2 ^ 0) with 1. lia.
  - rewrite (IH (acc * 2 ^ c + v mod 2 ^ c)), (IH (0 * 2 ^ c + v mod 2 ^ c)).
    pose proof (stream_len_nonneg t Ht). rewrite pow2_add by lia. ring.
Qed.

Lemma ws_bits_value ws : Forall wr_ok ws ->
  bits_value (ws_bits ws) = stream_val 0 ws /\ zlen (ws_bits ws) = stream_len ws.
Proof.
  induction 1 as [|[c v] t [Hc Hv] Ht [IHv IHl]]; cbn [fst snd] in *.
  - split; reflexivity.
  - unfold ws_bits in *. cbn [map concat fst snd stream_val stream_len].
    destruct (field_bits_value v c ltac:(lia)) as [Fv Fl].
    rewrite bits_value_app, zlen_app, IHv, IHl, Fv, Fl. split; [|reflexivity].
    rewrite (stream_val_shift t Ht (0 * 2 ^ c + v mod 2 ^ c)). ring.
Qed.

(** the specification's view of the same operations: a bit list with a position (CompSpec.b_step: BRead returns
    [bits_value (ztake count (zdrop pos bits))], BSeek sets the position) *)
Fixpoint spec_bit_run (bits : list bool) (p : Z) (ops : list bop) : list Z :=
  match ops with
  | [] => []
  | BOr c :: t => bits_value (ztake c (zdrop p bits)) :: spec_bit_run bits (p + c) t
  | BOs by_ bi :: t => spec_bit_run bits (8 * by_ + bi) t
  end.

Lemma field_run_spec bits : forall ops p, 0 <= p -> bops_ok (zlen bits) p ops = true ->
  field_run (bits_value bits) (zlen bits) p ops = spec_bit_run bits p ops.
Proof.
  induction ops as [|[c|by_ bi] t IH]; intros p Hp; cbn [bops_ok field_run spec_bit_run]; auto;
    rewrite !andb_true_iff; rewrite !Z.leb_le.
  - intros [[[? ?] ?] ?]. rewrite bits_value_field by lia. rewrite IH by (auto; lia). reflexivity.
  - intros [[[[? ?] ?] ?] ?]. apply IH; auto; lia.
Qed.

(** ** bit I/O round trip: any sequence of Hbitwrite(count_i <= 32, v_i), flush, then ANY sequence of reads (any
    re-partition of the widths) and bit seeks inside the written bits returns what the bit-array specification
    returns *)
Lemma bitio_roundtrip_lemma : forall ws ops, Forall wr_ok ws -> bops_ok (stream_len ws) 0 ops = true ->
  let bytes := bw_flush (bw_writes bitw_init ws) in
  br_run bytes (bitr_init bytes) ops = Some (spec_bit_run (ws_bits ws) 0 ops).
Proof.
  intros ws ops Hw Ok bytes. subst bytes. rewrite (bitio_roundtrip_num_lemma ws ops Hw Ok).
  destruct (ws_bits_value ws Hw) as [V L]. rewrite <- V, <- L. rewrite field_run_spec; [reflexivity | lia | now rewrite L].
Qed.

(** reading back with the widths that were written returns every value modulo its width *)
Lemma bitio_same_widths_lemma : forall ws, Forall wr_ok ws ->
  let bytes := bw_flush (bw_writes bitw_init ws) in
  br_run bytes (bitr_init bytes) (map (fun w => BOr (fst w)) ws) = Some (map (fun w => snd w mod 2 ^ fst w) ws).
Proof.
  intros ws Hw bytes. subst bytes.
  assert (G : forall pre, Forall wr_ok pre -> forall ws, Forall wr_ok ws ->
     bops_ok (stream_len (pre ++ ws)) (stream_len pre) (map (fun w => BOr (fst w)) ws) = true /\
     spec_bit_run (ws_bits (pre ++ ws)) (stream_len pre) (map (fun w => BOr (fst w)) ws) = map (fun w => snd w mod 2 ^ fst w) ws).
  { intros pre Hpre ws0 Hws0. revert pre Hpre. induction Hws0 as [|[c v] t [Hc Hv] Ht IH]; intros pre Hpre; cbn [fst snd] in *.
    - split; reflexivity.
    - cbn [map bops_ok spec_bit_run fst snd].
      assert (Hpre' : Forall wr_ok (pre ++ [(c, v)])) by (apply Forall_app; split; auto; constructor; auto; split; auto).
      destruct (IH (pre ++ [(c, v)]) Hpre') as [O S]. rewrite <- app_assoc in O, S. cbn [app] in O, S.
      assert (SL : stream_len (pre ++ [(c, v)]) = stream_len pre + c).
      { clear. induction pre as [|[c0 v0] p IHp]; cbn [app stream_len]; lia. }
      rewrite SL in O, S.
      assert (SLa : stream_len (pre ++ (c, v) :: t) = stream_len pre + c + stream_len t).
      { clear. induction pre as [|[c0 v0] p IHp]; cbn [app stream_len]; lia. }
      pose proof (stream_len_nonneg t Ht). pose proof (stream_len_nonneg pre Hpre).
      split.
      + rewrite O. rewrite !andb_true_r. rewrite !andb_true_iff, !Z.leb_le. lia.
      + rewrite S. f_equal.
        destruct (ws_bits_value pre Hpre) as [_ Lp].
        unfold ws_bits. rewrite map_app, concat_app. cbn [map concat fst snd]. fold (ws_bits pre). fold (ws_bits t).
        rewrite <- Lp. rewrite zdrop_app_exact.
        destruct (field_bits_value v c ltac:(lia)) as [Fv Fl].
        rewrite <- Fl at 1. rewrite ztake_app_exact. exact Fv. }
  destruct (G [] (Forall_nil _) ws Hw) as [O S]. cbn [app stream_len] in O, S.
  rewrite (bitio_roundtrip_lemma ws _ Hw O). rewrite S. reflexivity.
Qed.
