(** C04 -- the LRU cache model (MCacheModel.v over gen/Gen_Chunk.v) refines a finite map. *)
From Coq Require Import ZArith List Bool Lia.
Require Import H4.gen.Gen_Chunk H4.MCacheModel.
Import ListNotations.
Local Open Scope Z_scope.

(** the flag constants the model's case analysis relies on (regenerated from mcache_priv.h) *)
Lemma flag_constants : MCACHE_DIRTY = 1 /\ MCACHE_PINNED = 2 /\ Z.land MCACHE_DIRTY MCACHE_PINNED = 0 /\
  ELEM_READ <> 0 /\ ELEM_WRITTEN <> 0 /\ ELEM_SYNC <> 0.
Proof. repeat split; vm_compute; congruence. Qed.

Notation get := (mcache_get fstore fs_in fs_out).
Notation access := (mc_access fstore fs_in fs_out).
Notation sync := (mcache_sync fstore fs_out).

(** what the application sees: the cached page if there is one, else the backing store (0-based chunk number) *)
Definition view (mp : mcache) (s : fstore) (n : Z) : page :=
  match find_bkt (lqh mp) (n + 1) with Some b => b_page b | None => s n end.

Definition bkt_ok (np : Z) (s : fstore) (b : bkt) : Prop :=
  0 <= b_flags b <= 1 /\ 1 <= b_pgno b <= np /\ (b_flags b = 0 -> b_page b = s (b_pgno b - 1)).

(** invariant between operations: no page cached twice, nothing pinned, clean pages equal the backing store,
    every page of the object is known to the element list (mcache_open with flags = 0) *)
Definition inv (mp : mcache) (s : fstore) : Prop :=
  NoDup (map b_pgno (lqh mp)) /\ Forall (bkt_ok (npages mp) s) (lqh mp) /\
  (forall p, 1 <= p <= npages mp -> list_hit (elems mp) p = true).

Lemma find_none_iff : forall l p, find_bkt l p = None <-> ~ In p (map b_pgno l).
Proof.
  induction l as [|b r IH]; intros p; simpl. tauto.
  destruct (Z.eqb_spec (b_pgno b) p). split; [discriminate | intros H; exfalso; apply H; auto].
  rewrite IH. tauto.
Qed.

Lemma find_some : forall l p b, find_bkt l p = Some b -> In b l /\ b_pgno b = p.
Proof.
  induction l as [|x r IH]; intros p b; simpl. discriminate.
  destruct (Z.eqb_spec (b_pgno x) p). intros E; inversion E; subst; auto.
  intros E. destruct (IH _ _ E). auto.
Qed.

Lemma find_app : forall l b q, find_bkt (l ++ [b]) q =
  match find_bkt l q with Some x => Some x | None => if b_pgno b =? q then Some b else None end.
Proof. induction l as [|x r IH]; intros; simpl. reflexivity. destruct (b_pgno x =? q); auto. Qed.

Lemma find_remove_other : forall l p q, q <> p -> find_bkt (remove_bkt l p) q = find_bkt l q.
Proof.
  induction l as [|x r IH]; intros p q H; simpl. reflexivity.
  destruct (Z.eqb_spec (b_pgno x) p); simpl.
  - destruct (Z.eqb_spec (b_pgno x) q); [lia|reflexivity].
  - destruct (b_pgno x =? q); auto.
Qed.

Lemma remove_subset : forall l p x, In x (remove_bkt l p) -> In x l.
Proof.
  induction l as [|y r IH]; intros p x; simpl. auto.
  destruct (b_pgno y =? p); simpl; intuition eauto.
Qed.

Lemma remove_nodup : forall l p, NoDup (map b_pgno l) -> NoDup (map b_pgno (remove_bkt l p)) /\ ~ In p (map b_pgno (remove_bkt l p)).
Proof.
  induction l as [|y r IH]; intros p H; simpl. split; [constructor | tauto].
  inversion H as [|? ? Hn Hr]; subst.
  destruct (Z.eqb_spec (b_pgno y) p); simpl.
  - subst. auto.
  - destruct (IH p Hr) as (A & B). split.
    + constructor; auto. intro I. apply Hn. apply in_map_iff in I. destruct I as (z & Ez & Iz).
      apply in_map_iff. exists z. split; auto. eapply remove_subset; eauto.
    + intros [E|I]; [lia | auto].
Qed.

Lemma put_app_last : forall l b p pg fl, ~ In p (map b_pgno l) -> b_pgno b = p ->
  put_bkt (l ++ [b]) p pg fl = l ++ [mkbkt p (mcache_put_q_bp_flags_1 (mcache_put_q_bp_flags_0 (b_flags b)) fl) pg].
Proof.
  induction l as [|x r IH]; intros b p pg fl Hn Hb; simpl.
  - rewrite Hb, Z.eqb_refl. subst. reflexivity.
  - destruct (Z.eqb_spec (b_pgno x) p). exfalso; apply Hn; simpl; auto.
    f_equal. apply IH; auto. intro I; apply Hn; simpl; auto.
Qed.

Lemma nodup_app_single : forall l (b : bkt), NoDup (map b_pgno l) -> ~ In (b_pgno b) (map b_pgno l) ->
  NoDup (map b_pgno (l ++ [b])).
Proof.
  intros l b H Hn. rewrite map_app. simpl.
  apply NoDup_remove_inv with (a := b_pgno b) in H || idtac.
  induction l as [|x r IH]; simpl in *. constructor; [tauto|constructor].
  inversion H; subst. constructor.
  - rewrite in_app_iff. simpl. intros [I|[E|[]]]; [contradiction | apply Hn; auto].
  - apply IH; auto.
Qed.

Lemma first_unpinned_hd : forall l np s, Forall (bkt_ok np s) l -> first_unpinned l = hd_error l.
Proof.
  intros l np s H. destruct l as [|b r]; simpl; auto. inversion H as [|? ? Hb _]; subst.
  destruct Hb as (Hf & _). assert (E : b_flags b = 0 \/ b_flags b = 1) by lia.
  destruct E as [E|E]; rewrite E; reflexivity.
Qed.

Lemma hit_set_eflag : forall el p q fl, fl <> 0 -> list_hit el q = true -> list_hit (set_eflag el p fl) q = true.
Proof.
  induction el as [|[a f] r IH]; intros p q fl Hfl H; simpl in *. discriminate.
  unfold mcache_put_q_if_1, mcache_get_q_if_2, nz in *.
  destruct (Z.eqb_spec a p); simpl.
  - unfold mcache_get_q_if_2, nz. destruct (Z.eqb_spec a q); simpl.
    + destruct (Z.eqb_spec fl 0); [contradiction|]. reflexivity.
    + destruct (f =? 0); simpl in *; auto.
  - unfold mcache_get_q_if_2, nz. destruct (Z.eqb_spec a q); simpl in *.
    + destruct (f =? 0); simpl in *; auto.
    + auto.
Qed.

Lemma flags_after_put : forall f fl, 0 <= f <= 1 -> (fl = 0 \/ fl = MCACHE_DIRTY) ->
  let f' := mcache_put_q_bp_flags_1 (mcache_put_q_bp_flags_0 (mcache_get_q_bp_flags_0 f)) fl in
  0 <= f' <= 1 /\ (f' = 0 -> f = 0 /\ fl = 0) /\
  mcache_put_q_bp_flags_1 (mcache_put_q_bp_flags_0 mcache_get_q_bp_flags_1) fl = fl.
Proof.
  intros f fl Hf Hfl. assert (E : f = 0 \/ f = 1) by lia.
  destruct E as [->| ->]; destruct Hfl as [->| ->]; vm_compute; repeat split; intros; congruence.
Qed.

Lemma forall_ok_store : forall np s s' l, Forall (bkt_ok np s) l ->
  (forall b, In b l -> s' (b_pgno b - 1) = s (b_pgno b - 1)) -> Forall (bkt_ok np s') l.
Proof.
  intros np s s' l H E. rewrite Forall_forall in *. intros b I. destruct (H b I) as (A & B & C).
  repeat split; try lia. intro Z0. rewrite E by auto. auto.
Qed.

(** ---- one balanced access ---- *)
Lemma access_step : forall mp s pgno f fl,
  inv mp s -> 1 <= pgno <= npages mp -> (fl = 0 \/ fl = MCACHE_DIRTY) ->
  (fl = 0 -> f (view mp s (pgno - 1)) = view mp s (pgno - 1)) ->
  exists mp' s', access mp s pgno f fl = Some (mp', s', view mp s (pgno - 1)) /\ inv mp' s' /\
    npages mp' = npages mp /\
    forall n, view mp' s' n = if n =? pgno - 1 then f (view mp s (pgno - 1)) else view mp s n.
Proof.
  intros mp s pgno f fl (Hnd & Hok & Hel) Hp Hfl Hclean.
  unfold mc_access, mcache_get. unfold mcache_get_q_if_0, nz.
  destruct (Z.ltb_spec (npages mp) pgno); [lia|]. simpl negb. cbv iota.
  assert (Ev : forall q, view mp s (q - 1) = match find_bkt (lqh mp) q with Some b => b_page b | None => s (q - 1) end).
  { intros q. unfold view. replace (q - 1 + 1) with q by lia. reflexivity. }
  destruct (find_bkt (lqh mp) pgno) as [b|] eqn:Ef.
  - (* cached *)
    destruct (find_some _ _ _ Ef) as (Ib & Eb).
    destruct (remove_nodup _ pgno Hnd) as (Hnd' & Hni).
    rewrite Forall_forall in Hok. destruct (Hok b Ib) as (Hfb & Hpb & Hcb).
    destruct (flags_after_put (b_flags b) fl Hfb Hfl) as (F1 & F2 & _).
    unfold mcache_put; simpl lqh. rewrite put_app_last by (simpl; auto).
    simpl b_flags.
    set (nb := mkbkt pgno (mcache_put_q_bp_flags_1 (mcache_put_q_bp_flags_0 (mcache_get_q_bp_flags_0 (b_flags b))) fl) (f (b_page b))).
    rewrite (Ev pgno), Ef.
    eexists; eexists. split; [reflexivity|].
    assert (Hv : forall n, view {| lqh := remove_bkt (lqh mp) pgno ++ [nb]; curcache := curcache mp; maxcache := maxcache mp;
                                   npages := npages mp; elems := elems mp |} s n =
                           if n =? pgno - 1 then f (b_page b) else view mp s n).
    { intros n. unfold view; simpl lqh. rewrite find_app. simpl b_pgno.
      destruct (Z.eqb_spec n (pgno - 1)).
      - subst n. replace (pgno - 1 + 1) with pgno by lia.
        assert (Hn : find_bkt (remove_bkt (lqh mp) pgno) pgno = None) by (apply find_none_iff; auto).
        rewrite Hn, Z.eqb_refl. reflexivity.
      - rewrite find_remove_other by lia.
        destruct (find_bkt (lqh mp) (n + 1)); auto.
        destruct (Z.eqb_spec pgno (n + 1)); [lia|reflexivity]. }
    split; [|split; [reflexivity|]].
    + split; [|split].
      * simpl lqh. apply nodup_app_single; auto.
      * simpl lqh. simpl npages. apply Forall_app. split.
        -- rewrite Forall_forall. intros x Ix. apply Hok. eapply remove_subset; eauto.
        -- constructor; [|constructor]. unfold bkt_ok, nb; simpl. repeat split; try lia.
           intro Z0. destruct (F2 Z0) as (Zb & Zf).
           specialize (Hclean Zf). rewrite (Ev pgno), Ef in Hclean. rewrite Hclean. rewrite (Hcb Zb), Eb. reflexivity.
      * simpl npages. simpl elems.
        match goal with |- context [if ?c then _ else _] => destruct c end; auto.
        intros p Hp'. apply hit_set_eflag; auto. vm_compute; congruence.
    + intros n. rewrite <- Hv. reflexivity.
  - (* not cached: recycle or create a bucket, page in *)
    assert (Hni : ~ In pgno (map b_pgno (lqh mp))) by (apply find_none_iff; auto).
    rewrite Forall_forall in Hok.
    assert (Hbkt : exists L' s1 el1 cc stale,
               mcache_bkt fstore fs_out mp s = Some (mkmc L' cc (maxcache mp) (npages mp) el1, s1, stale) /\
               NoDup (map b_pgno L') /\ ~ In pgno (map b_pgno L') /\ Forall (bkt_ok (npages mp) s1) L' /\
               (forall p, 1 <= p <= npages mp -> list_hit el1 p = true) /\
               (forall n, match find_bkt L' (n + 1) with Some b => b_page b | None => s1 n end = view mp s n)).
    { unfold mcache_bkt.
      destruct (nz (mcache_bkt_q_if_0 (curcache mp) (maxcache mp))).
      - exists (lqh mp), s, (elems mp), (curcache mp + 1), []. repeat split; auto. apply Forall_forall; auto.
      - rewrite (first_unpinned_hd _ (npages mp) s) by (apply Forall_forall; auto).
        destruct (lqh mp) as [|b r] eqn:El; simpl hd_error.
        + exists [], s, (elems mp), (curcache mp + 1), []. repeat split; auto; try constructor.
          intros n; unfold view; rewrite El; reflexivity.
        + destruct (Hok b ltac:(simpl; auto)) as (Hfb & Hpb & Hcb).
          simpl in Hnd. inversion Hnd as [|? ? Hbn Hrn]; subst.
          assert (Er : remove_bkt (b :: r) (b_pgno b) = r) by (simpl; rewrite Z.eqb_refl; reflexivity).
          assert (Hnr : ~ In pgno (map b_pgno r)) by (intro I; apply Hni; simpl; auto).
          assert (Hpb' : b_pgno b <> pgno) by (intro E; apply Hni; simpl; auto).
          assert (E : b_flags b = 0 \/ b_flags b = 1) by lia.
          destruct E as [E|E]; rewrite E; simpl nz; cbv iota.
          * (* clean: just drop it *)
            rewrite Er. exists r, s, (elems mp), (curcache mp), (b_page b). repeat split; auto.
            -- apply Forall_forall. intros x Ix. apply Hok. simpl; auto.
            -- intros n. unfold view; rewrite El; simpl. destruct (Z.eqb_spec (b_pgno b) (n + 1)).
               ++ assert (Hn : find_bkt r (n + 1) = None) by (apply find_none_iff; rewrite <- e; auto).
                  rewrite Hn. rewrite (Hcb E). f_equal. lia.
               ++ reflexivity.
          * (* dirty: write back first *)
            unfold mcache_write, fs_out. rewrite Er.
            eexists r, _, _, (curcache mp), (b_page b). split; [reflexivity|]. repeat split; auto.
            -- apply forall_ok_store with (s := s). apply Forall_forall. intros x Ix. apply Hok. simpl; auto.
               intros x Ix. destruct (Z.eqb_spec (b_pgno x - 1) (b_pgno b - 1)); auto.
               exfalso. apply Hbn. replace (b_pgno b) with (b_pgno x) by lia. apply in_map; auto.
            -- intros p Hp'. apply hit_set_eflag; auto. vm_compute; congruence.
            -- intros n. unfold view; rewrite El; simpl. destruct (Z.eqb_spec (b_pgno b) (n + 1)).
               ++ assert (Hn : find_bkt r (n + 1) = None) by (apply find_none_iff; rewrite <- e; auto).
                  rewrite Hn. destruct (Z.eqb_spec n (b_pgno b - 1)); [reflexivity|lia].
               ++ destruct (find_bkt r (n + 1)); auto.
                  destruct (Z.eqb_spec n (b_pgno b - 1)); [lia|reflexivity]. }
    destruct Hbkt as (L' & s1 & el1 & cc & stale & Eb & Hnd' & Hni' & Hok' & Hel' & Hview).
    rewrite Eb. simpl elems. rewrite (Hel' pgno Hp). unfold fs_in.
    unfold mcache_put; simpl lqh. unfold mcache_get_q_bp_pgno_0.
    rewrite put_app_last by (simpl; auto). simpl b_flags.
    destruct (flags_after_put 0 fl ltac:(lia) Hfl) as (_ & _ & F3). rewrite F3.
    assert (Es1 : s1 (pgno - 1) = view mp s (pgno - 1)).
    { specialize (Hview (pgno - 1)). replace (pgno - 1 + 1) with pgno in Hview by lia.
      assert (Hn : find_bkt L' pgno = None) by (apply find_none_iff; auto). rewrite Hn in Hview. auto. }
    eexists; eexists. split; [rewrite Es1; reflexivity|].
    assert (Hv : forall n, view {| lqh := L' ++ [mkbkt pgno fl (f (view mp s (pgno - 1)))]; curcache := cc; maxcache := maxcache mp;
                                   npages := npages mp; elems := set_eflag el1 pgno mcache_get_q_lp_eflags_1 |} s1 n =
                           if n =? pgno - 1 then f (view mp s (pgno - 1)) else view mp s n).
    { intros n. unfold view at 1; simpl lqh. rewrite find_app. simpl b_pgno.
      destruct (Z.eqb_spec n (pgno - 1)).
      - subst n. replace (pgno - 1 + 1) with pgno by lia.
        assert (Hn : find_bkt L' pgno = None) by (apply find_none_iff; auto).
        rewrite Hn, Z.eqb_refl. reflexivity.
      - pose proof (Hview n) as Hvn. destruct (find_bkt L' (n + 1)) as [b0|]; [exact Hvn|].
        destruct (Z.eqb_spec pgno (n + 1)); [lia|exact Hvn]. }
    split; [|split; [reflexivity|]].
    + split; [|split].
      * simpl lqh. apply nodup_app_single; auto.
      * simpl lqh. simpl npages. apply Forall_app. split; auto.
        constructor; [|constructor]. unfold bkt_ok; simpl. destruct Hfl as [->| ->]; repeat split; try lia.
        -- intros _. rewrite Es1. apply Hclean. reflexivity.
        -- vm_compute. congruence.
        -- vm_compute. congruence.
        -- intro Z0. vm_compute in Z0. congruence.
      * simpl npages. simpl elems.
        match goal with |- context [if ?c then _ else _] => destruct c end;
          intros p Hp'; repeat apply hit_set_eflag; auto; vm_compute; congruence.
    + intros n. rewrite <- Hv. reflexivity.
Qed.

(** ---- sync ---- *)
Lemma sync_walk_spec : forall np l el s,
  NoDup (map b_pgno l) -> Forall (bkt_ok np s) l -> (forall p, 1 <= p <= np -> list_hit el p = true) ->
  exists l' el' s', sync_walk fstore fs_out l el s = Some (l', el', s') /\
    map b_pgno l' = map b_pgno l /\ map b_page l' = map b_page l /\
    Forall (fun b => b_flags b = 0) l' /\ Forall (bkt_ok np s') l' /\
    (forall p, 1 <= p <= np -> list_hit el' p = true) /\
    (forall n, s' n = match find_bkt l (n + 1) with Some b => b_page b | None => s n end).
Proof.
  intros np. induction l as [|b r IH]; intros el s Hnd Hok Hel; simpl.
  - exists [], el, s. repeat split; auto.
  - inversion Hnd as [|? ? Hbn Hrn]; subst. inversion Hok as [|? ? Hb Hr]; subst.
    destruct Hb as (Hfb & Hpb & Hcb). assert (E : b_flags b = 0 \/ b_flags b = 1) by lia.
    destruct E as [E|E].
    + assert (Hd : nz (mcache_put_q_if_0 (b_flags b)) = false) by (rewrite E; reflexivity). rewrite Hd.
      destruct (IH el s Hrn Hr Hel) as (l' & el' & s' & W & P1 & P2 & P3 & P4 & P5 & P6). rewrite W.
      exists (b :: l'), el', s'. split; [reflexivity|]. simpl. repeat split; auto; try congruence.
      * constructor; auto. unfold bkt_ok. repeat split; try lia. intros _. rewrite P6.
        assert (Hn : find_bkt r (b_pgno b - 1 + 1) = None)
          by (apply find_none_iff; replace (b_pgno b - 1 + 1) with (b_pgno b) by lia; auto).
        rewrite Hn. auto.
      * intros n. rewrite P6. destruct (Z.eqb_spec (b_pgno b) (n + 1)); auto.
        assert (Hn : find_bkt r (n + 1) = None) by (apply find_none_iff; rewrite <- e; auto).
        rewrite Hn. rewrite (Hcb E). f_equal. lia.
    + assert (Hd : nz (mcache_put_q_if_0 (b_flags b)) = true) by (rewrite E; reflexivity). rewrite Hd.
      unfold mcache_write.
      set (s1 := fun k => if k =? b_pgno b - 1 then b_page b else s k).
      change (fs_out s (b_pgno b - 1) (b_page b)) with (Some s1). cbv iota beta.
      assert (Hr1 : Forall (bkt_ok np s1) r).
      { apply forall_ok_store with (s := s); auto. intros x Ix. unfold s1.
        destruct (Z.eqb_spec (b_pgno x - 1) (b_pgno b - 1)); auto.
        exfalso. apply Hbn. replace (b_pgno b) with (b_pgno x) by lia. apply in_map; auto. }
      destruct (IH (set_eflag el (b_pgno b) mcache_write_q_lp_eflags_0) s1 Hrn Hr1) as (l' & el' & s' & W & P1 & P2 & P3 & P4 & P5 & P6).
      { intros p Hp'. apply hit_set_eflag; auto. vm_compute; congruence. }
      rewrite W. eexists (_ :: l'), el', s'. split; [reflexivity|]. simpl. rewrite E.
      assert (Hn : find_bkt r (b_pgno b - 1 + 1) = None)
        by (apply find_none_iff; replace (b_pgno b - 1 + 1) with (b_pgno b) by lia; auto).
      repeat split; auto; try congruence.
      * constructor; auto. unfold bkt_ok; simpl. repeat split; try lia; try (vm_compute; congruence).
        intros _. rewrite P6, Hn. unfold s1. rewrite Z.eqb_refl. reflexivity.
      * intros n. rewrite P6. unfold s1. destruct (Z.eqb_spec (b_pgno b) (n + 1)).
        -- assert (Hn' : find_bkt r (n + 1) = None) by (apply find_none_iff; rewrite <- e; auto).
           rewrite Hn'. destruct (Z.eqb_spec n (b_pgno b - 1)); [reflexivity|lia].
        -- destruct (find_bkt r (n + 1)); auto. destruct (Z.eqb_spec n (b_pgno b - 1)); [lia|reflexivity].
Qed.

Lemma find_same_map : forall l l' q, map b_pgno l' = map b_pgno l -> map b_page l' = map b_page l ->
  match find_bkt l' q with Some b => Some (b_page b) | None => None end =
  match find_bkt l q with Some b => Some (b_page b) | None => None end.
Proof.
  induction l as [|x r IH]; destruct l' as [|x' r']; intros q H1 H2; simpl in *; try discriminate; auto.
  inversion H1; inversion H2. rewrite H0. destruct (b_pgno x =? q); [congruence|]. apply IH; auto.
Qed.

Lemma sync_step : forall mp s, inv mp s ->
  exists mp' s', sync mp s = Some (mp', s') /\ inv mp' s' /\ npages mp' = npages mp /\
    (forall n, view mp' s' n = view mp s n) /\ (forall n, s' n = view mp s n).
Proof.
  intros mp s (Hnd & Hok & Hel). unfold mcache_sync.
  destruct (sync_walk_spec (npages mp) (lqh mp) (elems mp) s Hnd Hok Hel) as (l' & el' & s' & W & P1 & P2 & P3 & P4 & P5 & P6).
  rewrite W. eexists; eexists. split; [reflexivity|].
  assert (V : forall n, s' n = view mp s n) by (intros n; rewrite P6; reflexivity).
  split; [|split; [reflexivity|split; auto]].
  - split; [|split]; simpl; auto. rewrite P1. auto.
  - intros n. unfold view at 1; simpl lqh. pose proof (find_same_map (lqh mp) l' (n + 1) P1 P2) as F.
    rewrite V. unfold view. destruct (find_bkt l' (n + 1)); destruct (find_bkt (lqh mp) (n + 1)); try discriminate; auto.
    congruence.
Qed.

(** ---- whole histories ---- *)
Inductive cop := CAccess (pgno : Z) (f : page -> page) (dirty : bool) | CSync | CMaxcache (n : Z).

Definition map_step (m : Z -> page) (o : cop) : Z -> page :=
  match o with
  | CAccess p f _ => fun n => if n =? p - 1 then f (m (p - 1)) else m n
  | _ => m
  end.

Definition cop_ok (np : Z) (m : Z -> page) (o : cop) : Prop :=
  match o with
  | CAccess p f d => 1 <= p <= np /\ (d = false -> f (m (p - 1)) = m (p - 1))
  | _ => True
  end.

Fixpoint cops_ok (np : Z) (m : Z -> page) (os : list cop) : Prop :=
  match os with [] => True | o :: r => cop_ok np m o /\ cops_ok np (map_step m o) r end.

Definition run_step (st : mcache * fstore) (o : cop) : option (mcache * fstore * option page) :=
  let (mp, s) := st in
  match o with
  | CAccess p f d => match access mp s p f (if d then MCACHE_DIRTY else 0) with
                     | Some (mp', s', pg) => Some (mp', s', Some pg) | None => None end
  | CSync => match sync mp s with Some (mp', s') => Some (mp', s', None) | None => None end
  | CMaxcache n => Some (mcache_set_maxcache mp n, s, None)
  end.

Fixpoint run (st : mcache * fstore) (os : list cop) : option (mcache * fstore * list (option page)) :=
  match os with
  | [] => Some (fst st, snd st, [])
  | o :: r => match run_step st o with
              | None => None
              | Some (mp', s', out) => match run (mp', s') r with
                                       | None => None
                                       | Some (mp2, s2, outs) => Some (mp2, s2, out :: outs)
                                       end
              end
  end.

Fixpoint map_run (m : Z -> page) (os : list cop) : (Z -> page) * list (option page) :=
  match os with
  | [] => (m, [])
  | o :: r => let out := match o with CAccess p _ _ => Some (m (p - 1)) | _ => None end in
              let (m', outs) := map_run (map_step m o) r in (m', out :: outs)
  end.

Lemma set_maxcache_inv : forall mp s n, inv mp s -> inv (mcache_set_maxcache mp n) s /\
  npages (mcache_set_maxcache mp n) = npages mp /\ forall k, view (mcache_set_maxcache mp n) s k = view mp s k.
Proof.
  intros mp s n H. unfold mcache_set_maxcache.
  destruct (nz _); [|destruct (nz _)]; repeat split; try apply H; auto.
Qed.

Lemma map_step_ext : forall o m1 m, (forall n, m1 n = m n) -> forall n, map_step m1 o n = map_step m o n.
Proof. intros o m1 m EV n. destruct o; simpl; auto. rewrite !EV. reflexivity. Qed.

Lemma cops_ok_ext : forall np os m1 m, (forall n, m1 n = m n) -> cops_ok np m os -> cops_ok np m1 os.
Proof.
  intros np. induction os as [|o r IHr]; intros m1 m EV H; simpl in *; auto.
  destruct H as (A & B). split.
  - destruct o; simpl in *; auto. rewrite !EV; auto.
  - apply IHr with (m := map_step m o); auto. apply map_step_ext; auto.
Qed.

Lemma map_run_ext : forall os m1 m, (forall n, m1 n = m n) ->
  snd (map_run m1 os) = snd (map_run m os) /\ forall n, fst (map_run m1 os) n = fst (map_run m os) n.
Proof.
  induction os as [|o r IHr]; intros m1 m EV; simpl; auto.
  destruct (IHr _ _ (map_step_ext o m1 m EV)) as (A & B).
  destruct (map_run (map_step m1 o) r), (map_run (map_step m o) r); simpl in *. split; auto.
  f_equal; auto. destruct o; auto. rewrite EV. reflexivity.
Qed.

Lemma run_refines_map : forall os mp s,
  inv mp s -> cops_ok (npages mp) (view mp s) os ->
  exists mp' s' outs, run (mp, s) os = Some (mp', s', outs) /\ inv mp' s' /\ npages mp' = npages mp /\
    outs = snd (map_run (view mp s) os) /\ forall n, view mp' s' n = fst (map_run (view mp s) os) n.
Proof.
  induction os as [|o r IH]; intros mp s Hinv Hok.
  - exists mp, s, []. simpl. repeat split; auto; apply Hinv.
  - destruct Hok as (Ho & Hr).
    assert (Step : exists mp1 s1 out, run_step (mp, s) o = Some (mp1, s1, out) /\ inv mp1 s1 /\ npages mp1 = npages mp /\
                     out = match o with CAccess p _ _ => Some (view mp s (p - 1)) | _ => None end /\
                     forall n, view mp1 s1 n = map_step (view mp s) o n).
    { destruct o as [p f d| |n]; simpl in *.
      - destruct Ho as (Hp & Hc).
        destruct (access_step mp s p f (if d then MCACHE_DIRTY else 0) Hinv Hp) as (mp1 & s1 & E & I1 & N1 & V1).
        { destruct d; auto. } { destruct d; intros Z0; auto. vm_compute in Z0; congruence. }
        rewrite E. exists mp1, s1, (Some (view mp s (p - 1))). repeat split; auto; apply I1.
      - destruct (sync_step mp s Hinv) as (mp1 & s1 & E & I1 & N1 & V1 & _). rewrite E.
        exists mp1, s1, None. repeat split; auto; apply I1.
      - destruct (set_maxcache_inv mp s n Hinv) as (I1 & N1 & V1).
        exists (mcache_set_maxcache mp n), s, None. repeat split; auto; apply I1. }
    destruct Step as (mp1 & s1 & out & E & I1 & N1 & O1 & V1).
    destruct (IH mp1 s1 I1) as (mp2 & s2 & outs & R & I2 & N2 & O2 & V2).
    { rewrite N1. apply cops_ok_ext with (m := map_step (view mp s) o); auto. }
    destruct (map_run_ext r _ _ V1) as (M1 & M2).
    exists mp2, s2, (out :: outs).
    cbn [run]. rewrite E, R. cbn [map_run].
    destruct (map_run (map_step (view mp s) o) r) as [mf mo] eqn:EM. simpl in *.
    split; [reflexivity|]. split; [exact I2|]. split; [lia|]. split.
    + f_equal; [exact O1 | rewrite O2; exact M1].
    + intros n. rewrite V2. apply M2.
Qed.

Lemma open_inv : forall maxc np s, 0 <= np -> inv (mcache_open maxc np) s.
Proof.
  intros maxc np s Hnp. unfold inv, mcache_open; simpl. split; [constructor|split; [constructor|]].
  intros p Hp.
  assert (G : forall l, In (Z.to_nat p) l -> list_hit (map (fun k => (Z.of_nat k, ELEM_SYNC)) l) p = true).
  { induction l as [|k r IH]; intros I; simpl in *. contradiction.
    unfold mcache_get_q_if_2, nz. destruct (Z.eqb_spec (Z.of_nat k) p); simpl.
    - reflexivity.
    - apply IH. destruct I as [E|I]; auto. exfalso. apply n. subst k. lia. }
  apply G. rewrite <- in_rev. apply in_seq. lia.
Qed.

(** ---- mcache_refines_map ---- *)
Lemma mcache_refines_map_lemma : forall maxc np (s0 : fstore) os,
  0 <= np -> cops_ok np s0 os ->
  exists mp s outs, run (mcache_open maxc np, s0) os = Some (mp, s, outs) /\
    outs = snd (map_run s0 os) /\
    (forall n, view mp s n = fst (map_run s0 os) n) /\
    exists mp' s', sync mp s = Some (mp', s') /\ forall n, s' n = fst (map_run s0 os) n.
Proof.
  intros maxc np s0 os Hnp Hok.
  pose proof (open_inv maxc np s0 Hnp) as I0.
  assert (V0 : forall n, view (mcache_open maxc np) s0 n = s0 n) by reflexivity.
  assert (Hok' : cops_ok (npages (mcache_open maxc np)) (view (mcache_open maxc np) s0) os) by exact Hok.
  destruct (run_refines_map os _ _ I0 Hok') as (mp & s & outs & R & I & N & O & V).
  exists mp, s, outs. repeat split; auto.
  destruct (sync_step mp s I) as (mp' & s' & E & _ & _ & _ & Vs).
  exists mp', s'. split; auto. intros n. rewrite Vs. apply V.
Qed.
