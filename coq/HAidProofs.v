(** C04 -- several access ids on one chunked element: every access id sees the byte stream at ITS OWN position,
    whatever the other access ids did to the shared chunk indices in between -- for all histories. *)
From Coq Require Import ZArith List Bool Lia.
Require Import H4.gen.Gen_Chunk H4.ChunkModel H4.MCacheModel H4.HChunkModel H4.HAidModel
               H4.ChunkProofs H4.MCacheProofs H4.HChunkProofs.
Import ListNotations.
Local Open Scope Z_scope.

Lemma chunk_locate_idx : forall nt dd pos,
  chunk_locate nt dd pos = (idx_chunk dd (idx_at nt dd pos), idx_seek nt dd (idx_at nt dd pos)).
Proof.
  intros. unfold chunk_locate, idx_chunk, idx_seek, idx_at.
  destruct (update_chunk_indices_seek pos nt dd); reflexivity.
Qed.

Lemma chunk_piece_idx : forall nt dd pos rem, chunk_piece nt dd pos rem = idx_piece nt dd (idx_at nt dd pos) rem.
Proof.
  intros. unfold chunk_piece, idx_piece, idx_at.
  destruct (update_chunk_indices_seek pos nt dd); reflexivity.
Qed.

(** the loops on the shared indices, entered with the indices of the own position, are the loops of HChunkModel *)
Lemma sh_write_eq : forall nt dd fuel st pos data,
  option_map fst (sh_write nt dd fuel st (idx_at nt dd pos) pos data) = hmcp_write nt dd fuel st pos data.
Proof.
  intros nt dd. induction fuel as [|f IH]; intros st pos data; destruct data as [|x tl]; try reflexivity.
  cbn [sh_write hmcp_write]. rewrite <- chunk_piece_idx. rewrite chunk_locate_idx. cbn [fst snd].
  destruct (chunk_piece nt dd pos (Z.of_nat (List.length (x :: tl))) <=? 0); [reflexivity|].
  destruct (mc_access _ _ _ _ _ _ _ _) as [[[mp' s'] pg]|]; [|reflexivity].
  apply IH.
Qed.

Lemma sh_read_eq : forall nt dd fuel st pos len,
  option_map (fun t => (fst (fst t), snd t)) (sh_read nt dd fuel st (idx_at nt dd pos) pos len) =
  hmcp_read nt dd fuel st pos len.
Proof.
  intros nt dd. induction fuel as [|f IH]; intros st pos len; cbn [sh_read hmcp_read];
    destruct (len <=? 0); try reflexivity.
  rewrite <- chunk_piece_idx. rewrite chunk_locate_idx. cbn [fst snd].
  destruct (chunk_piece nt dd pos len <=? 0); [reflexivity|].
  destruct (mc_access _ _ _ _ _ _ _ _) as [[[mp' s'] pg]|]; [|reflexivity].
  specialize (IH (mp', s') (pos + chunk_piece nt dd pos len) (len - chunk_piece nt dd pos len)).
  destruct (sh_read nt dd f (mp', s') _ _ _) as [[[st2 ix2] rest]|];
    destruct (hmcp_read nt dd f (mp', s') _ _) as [[st3 rest3]|]; simpl in *; try discriminate; [|reflexivity].
  inversion IH; subst. reflexivity.
Qed.

(** ---- specification: one byte stream, one position (in elements) per access id ---- *)
Definition sstream := Z -> Z.

Definition sp_step (nt : Z) (s : sstream) (ep : list Z) (o : aop) : sstream * list Z * list Z :=
  match o with
  | ASeek a e => (s, set_nth ep a e, [])
  | ARead a r =>
      let e := nth a ep 0 in
      (s, set_nth ep a (e + r), map (fun k => s (e * nt + Z.of_nat k)) (seq 0 (Z.to_nat (r * nt))))
  | AWrite a data =>
      let e := nth a ep 0 in
      let len := Z.of_nat (List.length data) in
      (fun q => if (e * nt <=? q) && (q <? e * nt + len) then znth data (q - e * nt) else s q,
       set_nth ep a (e + len / nt), [])
  end.

Fixpoint sp_run (nt : Z) (s : sstream) (ep : list Z) (os : list aop) : sstream * list Z * list (list Z) :=
  match os with
  | [] => (s, ep, [])
  | o :: r => let '(s1, ep1, out) := sp_step nt s ep o in
              let '(s2, ep2, outs) := sp_run nt s1 ep1 r in (s2, ep2, out :: outs)
  end.

(** a history is in the domain when every access id exists, seeks stay inside the element, and reads/writes of whole
    elements end inside it *)
Definition aop_ok (nt total : Z) (ep : list Z) (o : aop) : Prop :=
  match o with
  | ASeek a e => (a < List.length ep)%nat /\ 0 <= e <= total
  | ARead a r => (a < List.length ep)%nat /\ 0 <= r /\ nth a ep 0 + r <= total
  | AWrite a data => (a < List.length ep)%nat /\ exists r, Z.of_nat (List.length data) = r * nt /\ nth a ep 0 + r <= total
  end.

Fixpoint aops_ok (nt total : Z) (s : sstream) (ep : list Z) (os : list aop) : Prop :=
  match os with
  | [] => True
  | o :: r => aop_ok nt total ep o /\
              let '(s1, ep1, _) := sp_step nt s ep o in aops_ok nt total s1 ep1 r
  end.

Lemma nth_map_seq : forall (f : nat -> Z) n k, (k < n)%nat -> nth k (map f (seq 0 n)) 0 = f k.
Proof.
  intros f n k H. rewrite nth_indep with (d' := f O) by (rewrite map_length, seq_length; lia).
  rewrite map_nth. rewrite seq_nth by lia. reflexivity.
Qed.

Lemma nth_map_mul : forall nt ep a, nth a (map (fun e => e * nt) ep) 0 = nth a ep 0 * nt.
Proof. intros nt. induction ep as [|x ep IH]; intros [|a]; simpl; auto. Qed.

Lemma set_nth_map_mul : forall nt ep a v, set_nth (map (fun e => e * nt) ep) a (v * nt) = map (fun e => e * nt) (set_nth ep a v).
Proof. intros nt. induction ep as [|x ep IH]; intros [|a] v; simpl; auto. f_equal. apply IH. Qed.

Lemma set_nth_nonneg : forall ep a v, Forall (fun e => 0 <= e) ep -> 0 <= v -> Forall (fun e => 0 <= e) (set_nth ep a v).
Proof.
  induction ep as [|x ep IH]; intros [|a] v H Hv; simpl; auto; inversion H; subst; constructor; auto.
Qed.

Lemma nth_nonneg : forall ep a, Forall (fun e => 0 <= e) ep -> 0 <= nth a ep 0.
Proof. induction ep as [|x ep IH]; intros [|a] H; simpl; try lia; inversion H; subst; auto. Qed.

Lemma set_nth_length : forall ep a v, List.length (set_nth ep a v) = List.length ep.
Proof. induction ep as [|x ep IH]; intros [|a] v; simpl; auto. Qed.

(** the state of the model and of the specification correspond *)
Definition aid_rel (nt : Z) (dd : list dimrec) (x : aelt) (s : sstream) (ep : list Z) : Prop :=
  st_ok nt dd (ae_st x) /\ ae_pos x = map (fun e => e * nt) ep /\ Forall (fun e => 0 <= e) ep /\
  forall q, 0 <= q < total dd * nt -> stream_of nt dd (view (fst (ae_st x)) (snd (ae_st x))) q = s q.

Lemma aid_step_refines : forall nt dd, geometry_ok nt dd -> forall x s ep o,
  aid_rel nt dd x s ep -> aop_ok nt (total dd) ep o ->
  exists x', aop_step nt dd true x o = Some (x', snd (sp_step nt s ep o)) /\
    aid_rel nt dd x' (fst (fst (sp_step nt s ep o))) (snd (fst (sp_step nt s ep o))).
Proof.
  intros nt dd G x s ep o (Hst & Hpos & Hnn & Hs) Hok. pose proof G as (Hnt & Hne & Hv & Hb).
  destruct o as [a e|a r|a data]; cbn [aop_step sp_step fst snd].
  - destruct Hok as (Ha & He). eexists. split; [reflexivity|].
    split; [exact Hst|]. cbn [ae_st ae_pos]. split; [rewrite Hpos; apply set_nth_map_mul|].
    split; [apply set_nth_nonneg; auto; lia | exact Hs].
  - destruct Hok as (Ha & Hr & Hin).
    pose proof (nth_nonneg ep a Hnn) as He.
    rewrite Hpos, nth_map_mul. set (e := nth a ep 0) in *.
    destruct (hmcp_read_refines nt dd Hnt Hne Hv Hb (Z.to_nat r) (ae_st x) e r Hst He Hr Hin ltac:(lia))
      as (st' & out & Er & Hst' & Hsame & Hlen & Hout).
    pose proof (sh_read_eq nt dd (Z.to_nat r) (ae_st x) (e * nt) (r * nt)) as Q. rewrite Er in Q.
    destruct (sh_read nt dd (Z.to_nat r) (ae_st x) (idx_at nt dd (e * nt)) (e * nt) (r * nt)) as [[[st2 ix2] out2]|];
      simpl in Q; [|discriminate].
    inversion Q; subst st2 out2.
    assert (Eout : out = map (fun k => s (e * nt + Z.of_nat k)) (seq 0 (Z.to_nat (r * nt)))).
    { apply nth_ext with (d := 0) (d' := 0).
      - rewrite map_length, seq_length. lia.
      - intros n Hn. rewrite nth_map_seq by lia.
        specialize (Hout (Z.of_nat n) ltac:(lia)). unfold znth in Hout. rewrite Nat2Z.id in Hout. rewrite Hout.
        apply Hs. nia. }
    eexists. split; [rewrite Eout; reflexivity|].
    split; [exact Hst'|]. cbn [ae_st ae_pos]. split.
    { rewrite <- set_nth_map_mul. f_equal. ring. }
    split; [apply set_nth_nonneg; auto; lia|].
    intros q Hq. rewrite (stream_ext nt dd _ _ Hsame). apply Hs; auto.
  - destruct Hok as (Ha & r & Hlen & Hin).
    pose proof (nth_nonneg ep a Hnn) as He.
    rewrite Hpos, nth_map_mul. set (e := nth a ep 0) in *.
    destruct (hmcp_write_refines nt dd Hnt Hne Hv Hb (List.length data) data (ae_st x) e r Hst He Hlen Hin ltac:(lia))
      as (st' & Ew & Hst' & Hstream).
    pose proof (sh_write_eq nt dd (List.length data) (ae_st x) (e * nt) data) as Q. rewrite Ew in Q.
    destruct (sh_write nt dd (List.length data) (ae_st x) (idx_at nt dd (e * nt)) (e * nt) data) as [[st2 ix2]|];
      simpl in Q; [|discriminate].
    inversion Q; subst st2.
    assert (Hr0 : 0 <= r) by nia.
    assert (Ediv : Z.of_nat (List.length data) / nt = r) by (rewrite Hlen; apply Z.div_mul; lia).
    eexists. split; [reflexivity|].
    split; [exact Hst'|]. cbn [ae_st ae_pos]. split.
    { rewrite Ediv. rewrite <- set_nth_map_mul. f_equal. rewrite Hlen. ring. }
    split; [apply set_nth_nonneg; auto; lia|].
    intros q Hq. rewrite (Hstream q Hq). rewrite Hlen.
    destruct ((e * nt <=? q) && (q <? e * nt + r * nt)); [reflexivity|]. apply Hs; auto.
Qed.

(** ---- all histories ---- *)
Lemma aid_run_refines : forall nt dd, geometry_ok nt dd -> forall os x s ep,
  aid_rel nt dd x s ep -> aops_ok nt (total dd) s ep os ->
  exists x', aop_run nt dd true x os = Some (x', snd (sp_run nt s ep os)) /\
    aid_rel nt dd x' (fst (fst (sp_run nt s ep os))) (snd (fst (sp_run nt s ep os))).
Proof.
  intros nt dd G. induction os as [|o r IH]; intros x s ep Hrel Hok.
  - exists x. simpl. split; [reflexivity|exact Hrel].
  - cbn [aops_ok] in Hok. destruct Hok as (Ho & Hr).
    destruct (aid_step_refines nt dd G x s ep o Hrel Ho) as (x1 & E1 & Hrel1).
    cbn [aop_run sp_run]. rewrite E1.
    destruct (sp_step nt s ep o) as [[s1 ep1] out1] eqn:Es. cbn [fst snd] in *.
    destruct (IH x1 s1 ep1 Hrel1 Hr) as (x2 & E2 & Hrel2). rewrite E2.
    destruct (sp_run nt s1 ep1 r) as [[s2 ep2] outs] eqn:Er. cbn [fst snd] in *.
    exists x2. split; [reflexivity|exact Hrel2].
Qed.

Lemma repeat0_map : forall nt n, repeat 0 n = map (fun e => e * nt) (repeat 0 n).
Proof. intros nt. induction n; simpl; auto. f_equal; auto. Qed.

Lemma repeat0_nonneg : forall n, Forall (fun e => 0 <= e) (repeat 0 n).
Proof. induction n; simpl; constructor; auto; lia. Qed.

(** from a freshly opened cache over a page map, with all access ids at position 0 *)
Lemma aid_refines_stream_lemma : forall nt dd, geometry_ok nt dd ->
  forall maxc (s0 : fstore) ix0 naids os,
    pages_ok nt dd s0 ->
    aops_ok nt (total dd) (stream_of nt dd s0) (repeat 0 naids) os ->
    exists x', aop_run nt dd true (mkae (mcache_open maxc (npg dd), s0) ix0 (repeat 0 naids)) os =
               Some (x', snd (sp_run nt (stream_of nt dd s0) (repeat 0 naids) os)) /\
      forall q, 0 <= q < total dd * nt ->
        stream_of nt dd (view (fst (ae_st x')) (snd (ae_st x'))) q =
        fst (fst (sp_run nt (stream_of nt dd s0) (repeat 0 naids) os)) q.
Proof.
  intros nt dd G maxc s0 ix0 naids os Hpg Hok. pose proof G as (Hnt & Hne & Hv & Hb).
  assert (Hrel : aid_rel nt dd (mkae (mcache_open maxc (npg dd), s0) ix0 (repeat 0 naids)) (stream_of nt dd s0) (repeat 0 naids)).
  { split; [apply open_st_ok; auto|]. cbn [ae_pos ae_st fst snd]. split.
    - apply repeat0_map.
    - split; [apply repeat0_nonneg|]. intros q Hq. reflexivity. }
  destruct (aid_run_refines nt dd G os _ _ _ Hrel Hok) as (x' & E & (_ & _ & _ & Hs)).
  exists x'. split; [exact E|exact Hs].
Qed.
