(** Statement language of the byte-moving loops in dfkswap.c / dfknat.c.
    The generated file gen/Gen_Conv.v contains the loop bodies of the current
    C source as terms of this language (translator: gen/gen_consts.py, kind
    "byte_loops"). *)
From Coq Require Import ZArith List.

Inductive loc := Dst (k : Z) | Buf (k : Z) | Src (k : Z).
Inductive stmt := Asg (l r : loc) | IncD (v : option Z) | IncS (v : option Z).
