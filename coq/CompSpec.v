(** C05 -- abstract specification S: what a compressed element and a bit-granular element ARE.
    No proofs in this file (total computable definitions only).

    * A compressed element is a growable byte array with a position.  Writing appends at the end or
      rewrites from the start; reading returns the bytes stored; seeking moves the position.  The coder
      does not appear in the specification at all, except that the n-bit coder stores the documented
      PROJECTION of every whole value ([nbit_project]).
    * A bit element is a growable bit array with a bit position.                                      *)
From Coq Require Import ZArith List Bool.
Import ListNotations.
Local Open Scope Z_scope.

Definition zlen {A} (l : list A) : Z := Z.of_nat (length l).
Definition ztake {A} (n : Z) (l : list A) : list A := firstn (Z.to_nat n) l.
Definition zdrop {A} (n : Z) (l : list A) : list A := skipn (Z.to_nat n) l.
Fixpoint zseq_from (a : Z) (n : nat) : list Z := match n with O => [] | S n' => a :: zseq_from (a + 1) n' end.
Definition zseq (n : Z) : list Z := zseq_from 0 (Z.to_nat n).

(** ** big-endian values (the H layer sees numbers in file order: byte 0 is the most significant) *)
Fixpoint be_value_acc (acc : Z) (l : list Z) : Z :=
  match l with [] => acc | b :: t => be_value_acc (acc * 256 + b) t end.
Definition be_value (l : list Z) : Z := be_value_acc 0 l.
Definition be_bytes (size v : Z) : list Z :=
  map (fun i => Z.land (Z.shiftr v (8 * (size - 1 - i))) 255) (zseq size).

(** ** the documented n-bit projection of ONE value of [size] bytes:
    the bit field [start_bit-bit_len+1 .. start_bit] (bit 0 = least significant) is kept; the bits below
    it are filled with [fill_one]; the bits above it are filled with the field's top bit when
    [sign_ext], else with [fill_one]. *)
Definition nbit_field_mask (start len : Z) : Z := Z.shiftl (Z.ones len) (start - len + 1).
Definition nbit_low_mask (start len : Z) : Z := Z.ones (start - len + 1).
Definition nbit_high_mask (size start : Z) : Z := Z.ones (8 * size) - Z.ones (start + 1).
Definition nbit_project_value (size start len : Z) (sign_ext fill_one : bool) (v : Z) : Z :=
  let hi := if sign_ext then Z.testbit v start else fill_one in
  Z.lor (Z.lor (Z.land v (nbit_field_mask start len))
               (if hi then nbit_high_mask size start else 0))
        (if fill_one then nbit_low_mask start len else 0).
Definition nbit_project1 (size start len : Z) (sign_ext fill_one : bool) (bytes : list Z) : list Z :=
  be_bytes size (nbit_project_value size start len sign_ext fill_one (be_value bytes)).

Fixpoint chunks_of (fuel : nat) (size : nat) (l : list Z) : list (list Z) :=
  match fuel with
  | O => []
  | S f => match l with [] => [] | _ => firstn size l :: chunks_of f size (skipn size l) end
  end.
Definition nbit_project (size start len : Z) (sign_ext fill_one : bool) (bytes : list Z) : list Z :=
  concat (map (nbit_project1 size start len sign_ext fill_one)
              (chunks_of (length bytes) (Z.to_nat size) bytes)).

Definition nbit_params_ok (size start len : Z) : bool :=
  (1 <=? size) && (size <=? 8) && (1 <=? len) && (len <=? 32) && (start <? 8 * size) && (len <=? start + 1).

(** ** coders, as far as the specification needs them *)
Inductive coder :=
| CNone | CRle | CSkphuff (skip : Z) | CDeflate (level : Z)
| CNbit (size start len : Z) (sign_ext fill_one : bool).

Definition coder_unit (c : coder) : Z := match c with CNbit size _ _ _ _ => size | _ => 1 end.
Definition coder_project (c : coder) (bs : list Z) : list Z :=
  match c with CNbit size start len se fo => nbit_project size start len se fo bs | _ => bs end.

(** ** the element: contents, position, and how far an unfinished rewrite-from-the-start must still go
    before the contents are determined again ([e_dirty] = old length while a rewrite is in progress) *)
Record elt := mkelt { e_data : list Z; e_pos : Z; e_dirty : Z }.
Definition elt_empty : elt := mkelt [] 0 0.

Inductive op :=
| OWrite (bs : list Z)     (* Hwrite                                   *)
| OSeek (origin off : Z)   (* Hseek(off, origin): 0 = DF_START, 1 = DF_CURRENT, 2 = DF_END *)
| OTell                    (* Htell: the position                       *)
| OInq                     (* Hinquire: length and position             *)
| ORead (n : Z)            (* Hread; n = 0 means "to the end"          *)
| OEnd                     (* Hendaccess                               *)
| OStartRead               (* Hstartread  on the element               *)
| OStartWrite              (* Hstartwrite on the element               *)
| OReopen                  (* Hclose + Hopen                            *)
| OSize                    (* HCPgetdatasize: uncompressed size        *)
| ORaw.                    (* harness-only: dump the raw compressed element *)

(** where a seek lands: from the start, from the current position, from the end of the (uncompressed) data *)
Definition seek_target (origin off pos len : Z) : option Z :=
  if origin =? 0 then Some off
  else if origin =? 1 then Some (pos + off)
  else if origin =? 2 then Some (len + off)
  else None.

Inductive res :=
| RN (n : Z)               (* a count / SUCCEED / a position           *)
| RPair (a b : Z)          (* Hinquire: length, position               *)
| RBytes (bs : list Z)
| RFail
| RNoDomain.               (* outside the property's domain: not compared *)

(** A write is in the domain when it appends at the end, starts a rewrite at offset 0, or continues an
    unfinished rewrite (the stream coders RLE / skipping-Huffman / deflate accept a rewrite only as ONE call
    covering at least the old length and refuse anything else with an error; the position-independent
    coders none / n-bit accept it in pieces); whole values only for n-bit. *)
Definition coder_piecewise_rewrite (c : coder) : bool :=
  match c with CNone | CNbit _ _ _ _ _ => true | _ => false end.
Definition write_in_domain (c : coder) (e : elt) (bs : list Z) : bool :=
  ((e_pos e =? zlen (e_data e)) ||
   ((e_pos e =? 0) && (coder_piecewise_rewrite c || (zlen (e_data e) <=? zlen bs))) ||
   ((e_pos e <? e_dirty e) && coder_piecewise_rewrite c))
  && (Z.rem (zlen bs) (coder_unit c) =? 0) && (0 <? zlen bs).

Definition s_write (c : coder) (e : elt) (bs : list Z) : elt :=
  let bs' := coder_project c bs in
  let p := e_pos e in
  let dirty := if (p =? 0) && (0 <? zlen (e_data e)) then zlen (e_data e) else e_dirty e in
  let p' := p + zlen bs' in
  mkelt (ztake p (e_data e) ++ bs' ++ zdrop p' (e_data e)) p' (if dirty <=? p' then 0 else dirty).

Definition settled (e : elt) : bool := e_dirty e =? 0.

Definition s_step (c : coder) (e : elt) (o : op) : elt * res :=
  match o with
  | OWrite bs => if write_in_domain c e bs then (s_write c e bs, RN (zlen bs)) else (e, RNoDomain)
  | OSeek origin off0 =>
      match seek_target origin off0 (e_pos e) (zlen (e_data e)) with
      | None => (e, RNoDomain)
      | Some off =>
          if negb (settled e) || negb (Z.rem off (coder_unit c) =? 0) then (e, RNoDomain)
          else if (0 <=? off) && (off <=? zlen (e_data e)) then (mkelt (e_data e) off 0, RN 0) else (e, RNoDomain)
      end
  | OTell => if settled e then (e, RN (e_pos e)) else (e, RNoDomain)
  | OInq => if settled e then (e, RPair (zlen (e_data e)) (e_pos e)) else (e, RNoDomain)
  | ORead n =>
      if negb (settled e) || negb (Z.rem n (coder_unit c) =? 0) then (e, RNoDomain)
      else
        let k := if n =? 0 then zlen (e_data e) - e_pos e else n in
        if (0 <=? k) && (e_pos e + k <=? zlen (e_data e))
        then (mkelt (e_data e) (e_pos e + k) 0, RBytes (ztake k (zdrop (e_pos e) (e_data e))))
        else (e, RFail)
  | OEnd | OReopen => if settled e then (e, RN 0) else (e, RNoDomain)
  | OStartRead | OStartWrite => if settled e then (mkelt (e_data e) 0 0, RN 0) else (e, RNoDomain)
  | OSize => if settled e then (e, RN (zlen (e_data e))) else (e, RNoDomain)
  | ORaw => (e, RBytes (e_data e))
  end.

(** Once a history leaves the domain nothing after it is compared. *)
Fixpoint s_run (c : coder) (e : elt) (ops : list op) : list res :=
  match ops with
  | [] => []
  | o :: t => let '(e', r) := s_step c e o in
              match r with RNoDomain => map (fun _ => RNoDomain) ops | _ => r :: s_run c e' t end
  end.

(** ** bit elements *)
Definition field_bits (count v : Z) : list bool := map (fun i => Z.testbit v (count - 1 - i)) (zseq count).
Fixpoint bits_value_acc (acc : Z) (l : list bool) : Z :=
  match l with [] => acc | b :: t => bits_value_acc (2 * acc + (if b then 1 else 0)) t end.
Definition bits_value (l : list bool) : Z := bits_value_acc 0 l.

Record bitelt := mkbitelt { b_bits : list bool; b_pos : Z; b_writing : bool }.

Inductive bitop :=
| BWrite (count v : Z)     (* Hbitwrite(count, v): the low [count] bits of v, most significant first *)
| BRead (count : Z)        (* Hbitread(count)                                                         *)
| BSeek (byte bit : Z)     (* Hbitseek(byte, bit)                                                     *)
| BEnd (fill : Z)          (* Hendbitaccess(flushbit): the bits that complete the last byte are NOT specified *)
| BStartRead | BStartWrite.

Definition b_write (e : bitelt) (count v : Z) : bitelt :=
  let bs := field_bits count v in
  let p := b_pos e in
  mkbitelt (ztake p (b_bits e) ++ bs ++ zdrop (p + count) (b_bits e)) (p + count) (b_writing e).

Definition b_step (e : bitelt) (o : bitop) : bitelt * res :=
  match o with
  | BWrite count v =>
      if (1 <=? count) && (count <=? 32) && (0 <=? v) && (v <? 2 ^ 32) && b_writing e
      then (b_write e count v, RN count)
      else (e, RNoDomain)
  | BRead count =>
      if (1 <=? count) && (count <=? 32) && (b_pos e + count <=? zlen (b_bits e))
      then (mkbitelt (b_bits e) (b_pos e + count) (b_writing e),
            RN (bits_value (ztake count (zdrop (b_pos e) (b_bits e)))))
      else (e, RNoDomain)
  | BSeek byte bit =>
      (* while writing, only at a moment when every bit written so far lies in a complete byte: a seek
         while a partial last byte is pending makes the library complete that byte with unspecified bits *)
      if (0 <=? byte) && (0 <=? bit) && (bit <? 8) && (8 * byte + bit <=? zlen (b_bits e))
         && (negb (b_writing e) || (Z.modulo (zlen (b_bits e)) 8 =? 0))
      then (mkbitelt (b_bits e) (8 * byte + bit) (b_writing e), RN 0) else (e, RNoDomain)
  | BEnd fill => (mkbitelt (b_bits e) 0 false, RN 0)
  | BStartRead => (mkbitelt (b_bits e) 0 false, RN 0)
  | BStartWrite => (mkbitelt (b_bits e) 0 true, RN 0)
  end.

Fixpoint b_run (e : bitelt) (ops : list bitop) : list res :=
  match ops with
  | [] => []
  | o :: t => let '(e', r) := b_step e o in
              match r with RNoDomain => map (fun _ => RNoDomain) ops | _ => r :: b_run e' t end
  end.

Definition bitelt_new : bitelt := mkbitelt [] 0 true.
