(** C11 -- proofs, part 2: rewriting, listing, and the relation of the model to the specification. *)
From Coq Require Import ZArith List Bool Lia Permutation Sorted.
Require Import H4.ANLang H4.gen.Gen_AN H4.ANSpec H4.ANModel H4.ANProofs.
Import ListNotations.
Local Open Scope Z_scope.

(* ================= 9. rewriting one annotation ================================================================= *)
Lemma hput_same : forall tag ref data dds, hfind tag ref (hput tag ref data dds) = Some (mkdd tag ref data).
Proof.
  induction dds as [|x t IH]; simpl.
  - unfold dd_is; simpl. rewrite !Z.eqb_refl. reflexivity.
  - destruct (dd_is tag ref x) eqn:E; simpl.
    + unfold dd_is; simpl. rewrite !Z.eqb_refl. reflexivity.
    + rewrite E. exact IH.
Qed.
Lemma hput_other : forall tag ref data dds tag' ref', (tag', ref') <> (tag, ref) ->
  hfind tag' ref' (hput tag ref data dds) = hfind tag' ref' dds.
Proof.
  intros tag ref data dds tag' ref' N. induction dds as [|x t IH]; simpl.
  - unfold dd_is; simpl. destruct (tag =? tag') eqn:E1; destruct (ref =? ref') eqn:E2; simpl; try reflexivity.
    apply Z.eqb_eq in E1. apply Z.eqb_eq in E2. subst. congruence.
  - destruct (dd_is tag ref x) eqn:E; simpl; [|rewrite IH; reflexivity].
    unfold dd_is in *; simpl. apply andb_true_iff in E. destruct E as [E1 E2]. apply Z.eqb_eq in E1. apply Z.eqb_eq in E2.
    rewrite E1, E2.
    destruct (tag =? tag') eqn:F1; destruct (ref =? ref') eqn:F2; simpl; try reflexivity.
    apply Z.eqb_eq in F1. apply Z.eqb_eq in F2. subst. congruence.
Qed.
(** directory order: a rewrite keeps every descriptor in place, a first write appends one *)
Lemma hput_order : forall tag ref data dds,
  map (fun d => (d_tag d, d_ref d)) (hput tag ref data dds) =
  match hfind tag ref dds with
  | Some _ => map (fun d => (d_tag d, d_ref d)) dds
  | None => map (fun d => (d_tag d, d_ref d)) dds ++ [(tag, ref)]
  end.
Proof.
  induction dds as [|x t IH]; simpl; [reflexivity|].
  destruct (dd_is tag ref x) eqn:E; simpl.
  - unfold dd_is in E. apply andb_true_iff in E. destruct E as [E1 E2]. apply Z.eqb_eq in E1. apply Z.eqb_eq in E2. subst. reflexivity.
  - rewrite IH. unfold hfind. destruct (find _ t); reflexivity.
Qed.

Lemma switches_agree : forall ty,
  zassoc ty ANid2tagref_tag_switch = atype2tag ty /\ zassoc ty ANget_tagref_tag_switch = atype2tag ty /\
  zassoc ty ANIaddentry_ann_tag_switch = atype2tag ty /\ zassoc ty ANIcreate_ann_tree_ann_tag_switch = atype2tag ty /\
  zassoc ty ANIannlen_ann_tag_switch = atype2tag ty /\ zassoc ty ANIreadann_ann_tag_switch = atype2tag ty /\
  zassoc ty ANIwriteann_ann_tag_switch = atype2tag ty /\ zassoc ty ANIcreate_ann_tag_switch = atype2tag ty.
Proof.
  intros ty. unfold atype2tag.
  destruct (Z.eqb_spec ty 0) as [->|N0]; [repeat split; reflexivity|].
  destruct (Z.eqb_spec ty 1) as [->|N1]; [repeat split; reflexivity|].
  destruct (Z.eqb_spec ty 2) as [->|N2]; [repeat split; reflexivity|].
  destruct (Z.eqb_spec ty 3) as [->|N3]; [repeat split; reflexivity|].
  apply Z.eqb_neq in N0. apply Z.eqb_neq in N1. apply Z.eqb_neq in N2. apply Z.eqb_neq in N3.
  repeat split; simpl; rewrite ?N0, ?N1, ?N2, ?N3; reflexivity.
Qed.

Lemma rewrite_preserves_lemma : forall s id text s' ok, Inv s -> ANIwriteann s id text = (s', ok) ->
  (forall id', ANid2tagref s' id' = ANid2tagref s id') /\
  l_tree s' = l_tree s /\ l_num s' = l_num s /\
  (forall tag ref, ANid2tagref s id <> Some (tag, ref) -> hfind tag ref (l_dds s') = hfind tag ref (l_dds s)) /\
  (ok = true -> exists tag ref ty t e,
      ANid2tagref s id = Some (tag, ref) /\ l_tree s ty = Some t /\ In (AN_CREATE_KEY ty ref, e) t /\ e_id e = id /\
      hfind tag ref (l_dds s') = Some (mkdd tag ref (payload tag (e_elmtag e) (e_elmref e) text)) /\
      map (fun d => (d_tag d, d_ref d)) (l_dds s') =
        match hfind tag ref (l_dds s) with
        | Some _ => map (fun d => (d_tag d, d_ref d)) (l_dds s)
        | None => map (fun d => (d_tag d, d_ref d)) (l_dds s) ++ [(tag, ref)]
        end).
Proof.
  intros s id text s' ok HI H. unfold ANIwriteann in H.
  assert (Triv : forall x : lstate * bool, x = (s', ok) -> x = (s, false) ->
     (forall id', ANid2tagref s' id' = ANid2tagref s id') /\ l_tree s' = l_tree s /\ l_num s' = l_num s /\
     (forall tag ref, ANid2tagref s id <> Some (tag, ref) -> hfind tag ref (l_dds s') = hfind tag ref (l_dds s)) /\
     (ok = true -> False)).
  { intros x E1 E2. rewrite E2 in E1. inversion E1; subst. repeat split; auto. discriminate. }
  destruct (zassoc id (l_atoms s)) as [nd|] eqn:Ez.
  2:{ destruct (Triv _ H eq_refl) as [A [B [C [D E]]]]. repeat split; auto. intros X; destruct (E X). }
  destruct (atype2tag (AN_KEY2TYPE (n_key nd))) as [tag|] eqn:Et.
  2:{ destruct (Triv _ H eq_refl) as [A [B [C [D E]]]]. repeat split; auto. intros X; destruct (E X). }
  destruct (l_tree s (AN_KEY2TYPE (n_key nd))) as [t|] eqn:Etr.
  2:{ destruct (Triv _ H eq_refl) as [A [B [C [D E]]]]. repeat split; auto. intros X; destruct (E X). }
  destruct (tfind (n_key nd) t) as [e|] eqn:Ef.
  2:{ destruct (Triv _ H eq_refl) as [A [B [C [D E]]]]. repeat split; auto. intros X; destruct (E X). }
  set (s1 := if n_new nd then set_atoms s (set_node id (mknode (n_key nd) false) (l_atoms s)) (l_next s) else s) in *.
  assert (Hid : forall id', ANid2tagref s1 id' = ANid2tagref s id').
  { intros id'. unfold s1. destruct (n_new nd); [|reflexivity]. unfold ANid2tagref, set_atoms. cbn [l_atoms]. rewrite set_node_assoc.
    destruct (id' =? id) eqn:E; [|reflexivity]. apply Z.eqb_eq in E. subst. rewrite Ez. reflexivity. }
  assert (Hs1 : l_tree s1 = l_tree s /\ l_num s1 = l_num s /\ l_dds s1 = l_dds s).
  { unfold s1. destruct (n_new nd); repeat split. }
  destruct Hs1 as [T1 [T2 T3]].
  assert (Htr : ANid2tagref s id = Some (tag, AN_KEY2REF (n_key nd))).
  { unfold ANid2tagref. rewrite Ez. destruct (switches_agree (AN_KEY2TYPE (n_key nd))) as [A _]. rewrite A, Et. reflexivity. }
  match type of H with (if ?c then _ else _) = _ => destruct c eqn:Ec end.
  { inversion H; subst s' ok. split; [exact Hid|]. split; [assumption|]. split; [assumption|].
    split; [intros; rewrite T3; reflexivity | discriminate]. }
  inversion H; subst s' ok; clear H.
  split; [intros id'; simpl; apply Hid|]. split; [simpl; assumption|]. split; [simpl; assumption|].
  split.
  { intros g r N. simpl. rewrite T3. apply hput_other. rewrite Htr in N. congruence. }
  intros _. apply tfind_In in Ef.
  destruct (inv_tree _ HI _ _ Etr) as [Hty [_ Hent]]. destruct (Hent _ _ Ef) as [Hr [Hk [nd' [Hz' Hn']]]].
  rewrite MAX_REF_val in Hr.
  assert (Href : AN_KEY2REF (n_key nd) = e_annref e) by (rewrite Hk; apply key_ref; unfold tyok in Hty; lia).
  exists tag, (AN_KEY2REF (n_key nd)), (AN_KEY2TYPE (n_key nd)), t, e.
  split; [assumption|]. split; [assumption|]. split; [rewrite Href, <- Hk; assumption|].
  split.
  { (* the entry found under the node's key belongs to this id *)
    destruct (inv_owner _ HI id nd Ez) as [ty2 [t2 [e2 [A [B C]]]]].
    destruct (inv_tree _ HI ty2 t2 A) as [Hty2 [Hs2 Hent2]]. destruct (Hent2 _ _ B) as [Hr2 [Hk2 _]].
    rewrite MAX_REF_val in Hr2.
    assert (Hty_eq : AN_KEY2TYPE (n_key nd) = ty2) by (rewrite Hk2; apply key_type; unfold tyok in Hty2; lia).
    rewrite Hty_eq in Etr. rewrite A in Etr. inversion Etr; subst t2.
    pose proof (In_tfind _ _ _ (tsorted_NoDup _ Hs2) B) as F1. pose proof (In_tfind _ _ _ (tsorted_NoDup _ Hs2) Ef) as F2.
    rewrite F1 in F2. inversion F2; subst e2. exact C. }
  simpl. rewrite T3. split; [apply hput_same | apply hput_order].
Qed.

(* ================= 10. reading: the model delivers the specification's buffer image ========================== *)
Lemma skipn_repeat : forall A (x : A) k m, skipn k (repeat x m) = repeat x (m - k).
Proof.
  induction k as [|k IH]; intros m; simpl.
  - rewrite Nat.sub_0_r. reflexivity.
  - destruct m; simpl; [reflexivity | apply IH].
Qed.

Lemma image_desc : forall (txt : list Z) (n m : nat), (n <= length txt)%nat -> (n <= m)%nat ->
  (if (0 <? Z.of_nat n) then poke (repeat FILL m) (firstn n txt) else repeat FILL m) = firstn n txt ++ repeat FILL (m - n).
Proof.
  intros txt n m Hn Hm. destruct n as [|n].
  - simpl. rewrite Nat.sub_0_r. reflexivity.
  - replace (0 <? Z.of_nat (S n)) with true by (symmetry; apply Z.ltb_lt; lia).
    unfold poke. rewrite firstn_length_le by assumption. rewrite skipn_repeat. reflexivity.
Qed.

Lemma image_label : forall (txt : list Z) (n m : nat), (n <= length txt)%nat -> (n < m)%nat ->
  poke_at (firstn n txt ++ repeat FILL (m - n)) (Z.of_nat n) 0 = (firstn n txt ++ [0]) ++ repeat FILL (m - S n).
Proof.
  intros txt n m Hn Hm. unfold poke_at. rewrite Nat2Z.id.
  assert (L : length (firstn n txt) = n) by (apply firstn_length_le; assumption).
  rewrite skipn_app, firstn_app, L.
  rewrite (skipn_all2 (n := S n)) by lia.
  rewrite Nat.sub_diag, firstn_O, app_nil_r.
  rewrite (firstn_all2 (n := n)) by lia.
  replace (S n - n)%nat with 1%nat by lia.
  rewrite skipn_repeat. cbn [app]. rewrite <- app_assoc. cbn [app].
  replace (m - n - 1)%nat with (m - S n)%nat by lia. reflexivity.
Qed.

Lemma truth_gt : forall a b, truth (if b <? a then 1 else 0) = (b <? a).
Proof. intros. destruct (b <? a); reflexivity. Qed.

(** ANIreadann of an annotation whose element holds [payload tag etag eref txt] *)
Lemma read_image_lemma : forall s id maxlen nd tag d etag eref txt,
  1 <= maxlen ->
  zassoc id (l_atoms s) = Some nd -> atype2tag (AN_KEY2TYPE (n_key nd)) = Some tag ->
  hfind tag (AN_KEY2REF (n_key nd)) (l_dds s) = Some d -> d_data d = payload tag etag eref txt ->
  ANIreadann s id maxlen = Some (buffer_image (is_label_tag tag) txt maxlen) /\
  ANIannlen s id = zlen txt.
Proof.
  intros s id maxlen nd tag d etag eref txt Hm Hz Ht Hf Hd.
  unfold ANIreadann, ANIannlen. rewrite Hz, Ht, Hf, Hd.
  assert (Hlen : zlen (payload tag etag eref txt) - (if is_data_tag tag then 4 else 0) = zlen txt).
  { unfold payload, zlen, encode_target. destruct (is_data_tag tag); [rewrite app_length; cbn [length]|]; lia. }
  assert (Htxt : payload_text tag (payload tag etag eref txt) = txt).
  { unfold payload_text, payload. destruct (is_data_tag tag); reflexivity. }
  rewrite Hlen, Htxt. split; [|reflexivity].
  unfold ANIreadann_label_trunc, ANIreadann_desc_trunc, ANIreadann_reads. rewrite !truth_gt.
  unfold buffer_image, zlen in *.
  set (L := length txt) in *. set (m := Z.to_nat maxlen).
  assert (Em : maxlen = Z.of_nat m) by (unfold m; rewrite Z2Nat.id; lia).
  destruct (is_label_tag tag).
  - (* label *)
    destruct (maxlen - 1 <? Z.of_nat L) eqn:E.
    + apply Z.ltb_lt in E. rewrite Z.min_r by lia.
      replace (maxlen - 1 <? 0) with false by (symmetry; apply Z.ltb_ge; lia).
      assert (En : maxlen - 1 = Z.of_nat (m - 1)) by lia. rewrite En.
      rewrite Nat2Z.id.
      rewrite image_desc by lia. rewrite image_label by lia.
      rewrite app_length, firstn_length_le by lia. simpl. repeat f_equal; lia.
    + apply Z.ltb_ge in E. rewrite Z.min_l by lia.
      replace (Z.of_nat L <? 0) with false by (symmetry; apply Z.ltb_ge; lia).
      rewrite Nat2Z.id.
      rewrite image_desc by lia. rewrite image_label by lia.
      rewrite app_length, firstn_length_le by lia. simpl. repeat f_equal; lia.
  - (* description *)
    destruct (maxlen <? Z.of_nat L) eqn:E.
    + apply Z.ltb_lt in E. rewrite Z.min_r by lia.
      replace (maxlen <? 0) with false by (symmetry; apply Z.ltb_ge; lia).
      rewrite Em. rewrite Nat2Z.id.
      rewrite image_desc by lia. rewrite app_nil_r. rewrite firstn_length_le by lia. reflexivity.
    + apply Z.ltb_ge in E. rewrite Z.min_l by lia.
      replace (Z.of_nat L <? 0) with false by (symmetry; apply Z.ltb_ge; lia).
      rewrite Nat2Z.id.
      rewrite image_desc by lia. rewrite app_nil_r. rewrite firstn_length_le by lia. reflexivity.
Qed.

(* ================= 11. listing ================================================================================= *)
Lemma NoDup_map_in : forall A B (f : A -> B) l, NoDup l ->
  (forall x y, In x l -> In y l -> f x = f y -> x = y) -> NoDup (map f l).
Proof.
  induction l as [|a t IH]; simpl; intros ND Hinj; [constructor|].
  inversion ND; subst. constructor.
  - intros Hin. apply in_map_iff in Hin. destruct Hin as [y [E Hy]].
    assert (y = a) by (apply Hinj; auto). subst. contradiction.
  - apply IH; [assumption|]. intros x y Hx Hy. apply Hinj; auto.
Qed.

Lemma tree_ids_NoDup : forall s ty t, Inv s -> l_tree s ty = Some t -> NoDup (map (fun p => e_id (snd p)) t).
Proof.
  intros s ty t HI Ht. destruct (inv_tree _ HI ty t Ht) as [_ [Hs Hent]].
  pose proof (tsorted_NoDup _ Hs) as NDk.
  apply NoDup_map_in; [apply (NoDup_map_inv fst); exact NDk|].
  intros [k1 e1] [k2 e2] H1 H2 E. simpl in E.
  destruct (Hent _ _ H1) as [_ [_ [n1 [Z1 K1]]]]. destruct (Hent _ _ H2) as [_ [_ [n2 [Z2 K2]]]].
  rewrite E in Z1. rewrite Z1 in Z2. inversion Z2; subst n2. assert (K : k1 = k2) by congruence.
  pose proof (In_tfind _ _ _ NDk H1) as F1. pose proof (In_tfind _ _ _ NDk H2) as F2. rewrite K in F1. rewrite F1 in F2.
  inversion F2. subst. reflexivity.
Qed.

Lemma match_truth : forall a b g r, truth (ANIannlist_match a b g r) = ((b =? r) && (a =? g)) /\
                                    truth (ANInumann_match a b g r) = ((b =? r) && (a =? g)).
Proof. intros. unfold ANIannlist_match, ANInumann_match, truth. destruct (b =? r); destruct (a =? g); split; reflexivity. Qed.

Lemma annlist_exact_lemma : forall s ty g r s' ids, Inv s -> tyok ty -> ANIannlist s ty g r = (s', Some ids) ->
  exists t, l_tree s' ty = Some t /\ NoDup ids /\
    (forall id, In id ids <-> exists k e, In (k, e) t /\ e_elmtag e = g /\ e_elmref e = r /\ e_id e = id) /\
    ANInumann s ty g r = (s', zlen ids).
Proof.
  intros s ty g r s' ids HI Hty H. unfold ANIannlist in H. unfold ANInumann.
  destruct (need_tree s ty) as [s1 [t|]] eqn:En; [|discriminate].
  destruct (need_tree_Inv _ _ _ _ HI Hty En) as [HI1 [_ Ht]]. specialize (Ht t eq_refl).
  inversion H; subst s' ids; clear H. exists t. split; [assumption|].
  assert (Hf : forall p : Z * entry,
     truth (ANIannlist_match (e_elmtag (snd p)) (e_elmref (snd p)) g r) = truth (ANInumann_match (e_elmtag (snd p)) (e_elmref (snd p)) g r)).
  { intros p. destruct (match_truth (e_elmtag (snd p)) (e_elmref (snd p)) g r) as [A B]. congruence. }
  split.
  { pose proof (tree_ids_NoDup _ _ _ HI1 Ht) as ND. clear -ND. induction t as [|p t IH]; simpl; [constructor|].
    simpl in ND. inversion ND; subst. destruct (truth _); simpl; [constructor|]; auto.
    intros Hin. apply in_map_iff in Hin. destruct Hin as [q [E Hq]]. apply filter_In in Hq. destruct Hq as [Hq _].
    apply H1. rewrite <- E. apply (in_map (fun p => e_id (snd p))). assumption. }
  split.
  { intros id. rewrite in_map_iff. split.
    - intros [[k e] [E Hin]]. apply filter_In in Hin. destruct Hin as [Hin Hm]. simpl in *.
      destruct (match_truth (e_elmtag e) (e_elmref e) g r) as [A _]. rewrite A in Hm. apply andb_true_iff in Hm.
      destruct Hm as [M1 M2]. apply Z.eqb_eq in M1. apply Z.eqb_eq in M2. exists k, e. auto.
    - intros [k [e [Hin [E1 [E2 E3]]]]]. exists (k, e). split; [assumption|]. apply filter_In. split; [assumption|]. simpl.
      destruct (match_truth (e_elmtag e) (e_elmref e) g r) as [A _]. rewrite A, E1, E2, !Z.eqb_refl. reflexivity. }
  unfold zlen. rewrite map_length. rewrite (filter_ext _ _ (fun p => eq_sym (Hf p))). reflexivity.
Qed.

(** what a freshly loaded tree contains: exactly the annotations of that tag in the file *)
Lemma add_core_tree : forall s ty annref etag eref new s' id, add_core s ty annref etag eref new = Some (s', id) ->
  exists t t', l_tree s ty = Some t /\ l_tree s' ty = Some t' /\
               tins (AN_CREATE_KEY ty annref) (mkentry id annref etag eref) t = Some t' /\ l_dds s' = l_dds s.
Proof.
  intros s ty annref etag eref new s' id H. unfold add_core in H.
  destruct (l_tree s ty) as [t|]; [|discriminate]. destruct (tins _ _ t) as [t'|] eqn:E; [|discriminate].
  inversion H; subst. exists t, t'. simpl. rewrite upd_same. auto.
Qed.

Lemma load_tree_keys : forall ty tag els s s' t, load_tree ty tag els s = Some s' -> l_tree s ty = Some t ->
  exists t', l_tree s' ty = Some t' /\
    forall k, In k (tkeys t') <-> In k (tkeys t) \/ exists d, In d els /\ k = AN_CREATE_KEY ty (d_ref d).
Proof.
  induction els as [|d rest IH]; simpl; intros s s' t H Ht.
  - inversion H; subst. exists t. split; [assumption|]. intros k. split; [auto|]. intros [A|[d [[] _]]]. assumption.
  - destruct (add_core s ty (d_ref d) _ _ false) as [[s1 id]|] eqn:E; [|discriminate].
    destruct (add_core_tree _ _ _ _ _ _ _ _ E) as [t0 [t1 [A [B [C _]]]]]. rewrite Ht in A. inversion A; subst t0.
    destruct (IH _ _ _ H B) as [t' [Ht' Hk]]. exists t'. split; [assumption|].
    intros k. rewrite Hk. rewrite (tins_keys _ _ _ _ C k). split.
    + intros [[X|X]|[d0 [X Y]]]; [right; exists d; auto | auto | right; exists d0; auto].
    + intros [X|[d0 [[X|X] Y]]]; [auto | subst; auto | right; exists d0; auto].
Qed.

Lemma create_tree_exact_lemma : forall s ty tag s' n, Inv s -> atype2tag ty = Some tag -> l_num s ty = -1 ->
  ANIcreate_ann_tree s ty = (s', n) -> n <> FAILV ->
  n = hnumber tag (l_dds s) /\
  exists t, l_tree s' ty = Some t /\
    forall k, In k (tkeys t) <-> exists d, In d (l_dds s) /\ d_tag d = tag /\ k = AN_CREATE_KEY ty (d_ref d).
Proof.
  intros s ty tag s' n HI Ht Hn H Hne. unfold ANIcreate_ann_tree in H. rewrite Hn, Ht in H. simpl in H.
  destruct (load_tree ty tag (of_tag tag (l_dds s)) _) as [s1|] eqn:El; [|inversion H; subst; exfalso; apply Hne; reflexivity].
  inversion H; subst s' n; clear H. split; [reflexivity|].
  destruct (load_tree_keys _ _ _ _ _ [] El) as [t' [Ht' Hk]]; [simpl; apply upd_same|].
  exists t'. split; [simpl; rewrite upd_same; assumption|]. intros k. rewrite Hk. simpl. split.
  - intros [[]|[d [Hd E]]]. apply of_tag_In in Hd. destruct Hd. exists d. auto.
  - intros [d [Hd [Hg E]]]. right. exists d. split; [|assumption]. unfold of_tag. apply filter_In. split; [assumption|].
    apply Z.eqb_eq. assumption.
Qed.

(* ================= 12. write, then read: the text comes back as the specification's buffer image =============== *)
Lemma write_then_read_lemma : forall s id txt s' maxlen, Inv s -> ANIwriteann s id txt = (s', true) -> 1 <= maxlen ->
  exists tag ref, ANid2tagref s id = Some (tag, ref) /\ ANid2tagref s' id = Some (tag, ref) /\
    ANIreadann s' id maxlen = Some (buffer_image (is_label_tag tag) txt maxlen) /\ ANIannlen s' id = zlen txt.
Proof.
  intros s id txt s' maxlen HI H Hm.
  destruct (rewrite_preserves_lemma _ _ _ _ _ HI H) as [Hid [_ [_ [_ Hw]]]].
  destruct (Hw eq_refl) as [tag [ref [ty [t [e [A [_ [_ [_ [B _]]]]]]]]]].
  exists tag, ref. split; [assumption|]. split; [rewrite Hid; assumption|].
  pose proof (Hid id) as A'. rewrite A in A'. unfold ANid2tagref in A'.
  destruct (zassoc id (l_atoms s')) as [nd'|] eqn:Ez; [|discriminate].
  destruct (switches_agree (AN_KEY2TYPE (n_key nd'))) as [S1 _]. rewrite S1 in A'.
  destruct (atype2tag (AN_KEY2TYPE (n_key nd'))) as [g|] eqn:Eg; [|discriminate]. inversion A'; subst g ref.
  eapply read_image_lemma; try eassumption. reflexivity.
Qed.

(* ================= 13. several files: when DFANIopen keeps the cached DFAN directory ========================= *)
Definition nonul (s : list Z) : Prop := forall x, In x s -> x <> 0.

Lemma strncmp_nat_eq : forall n a b, nonul a -> nonul b -> (length a < n)%nat -> (length b < n)%nat ->
  (strncmp_nat a b n = 0 <-> a = b).
Proof.
  induction n as [|n IH]; intros a b Ha Hb La Lb; [lia|].
  destruct a as [|x a]; destruct b as [|y b]; simpl.
  - split; reflexivity.
  - assert (y <> 0) by (apply Hb; left; reflexivity). destruct (Z.eqb_spec y 0); [contradiction|]. split; [lia|discriminate].
  - assert (x <> 0) by (apply Ha; left; reflexivity). destruct (Z.eqb_spec x 0); [contradiction|]. split; [lia|discriminate].
  - assert (x <> 0) by (apply Ha; left; reflexivity).
    destruct (Z.eqb_spec x y) as [->|N].
    + destruct (Z.eqb_spec y 0); [contradiction|]. simpl in La, Lb.
      rewrite (IH a b); [split; [intros ->; reflexivity | intros E; inversion E; reflexivity] | | | lia | lia];
      intros z Hz; [apply Ha | apply Hb]; right; assumption.
    + destruct (x <? y); split; try lia; intros E; inversion E; contradiction.
Qed.

Lemma dfan_open_lemma : forall lastfile name mode,
  nonul lastfile -> nonul name -> strlen lastfile < DF_MAXFNLEN -> strlen name < DF_MAXFNLEN -> mode <> DFACC_CREATE ->
  (truth (DFANIopen_newfile lastfile name mode) = false <-> lastfile = name).
Proof.
  intros a b mode Ha Hb La Lb Hm. unfold DFANIopen_newfile, truth.
  replace (mode =? 4) with false by (symmetry; apply Z.eqb_neq; exact Hm). simpl. rewrite orb_false_r.
  unfold strlen, DF_MAXFNLEN in *.
  rewrite <- (strncmp_nat_eq (Z.to_nat 256) a b Ha Hb) by lia.
  unfold strncmp. destruct (strncmp_nat a b (Z.to_nat 256) =? 0) eqn:E; simpl.
  - apply Z.eqb_eq in E. split; [discriminate | intros _; exact E] || (split; [intros _; exact E | reflexivity]).
  - apply Z.eqb_neq in E. split; [reflexivity | intros X; contradiction] || (split; [discriminate | intros X; contradiction]).
Qed.

Inductive gop := GOp (o : op) | GFile (n : Z).
Definition gop_ok (x : gop) : Prop := match x with GOp o => op_types_ok o | GFile _ => True end.
Definition gstep1 (g : gstate) (x : gop) : gstate := match x with GOp o => fst (gstep g o) | GFile n => gfile g n end.
Fixpoint grun (g : gstate) (xs : list gop) : gstate := match xs with [] => g | x :: t => grun (gstep1 g x) t end.

Lemma with_stat_Inv : forall l st, Inv l -> Inv (with_stat l st).
Proof. intros l st HI. apply (Inv_same_tables l); [assumption | repeat split | simpl; apply (inv_refs _ HI)]. Qed.

Lemma gstep1_Inv : forall g x, (forall f, Inv (h_lib (g_files g f))) -> gop_ok x ->
  forall f, Inv (h_lib (g_files (gstep1 g x) f)).
Proof.
  intros g [o|n] HI Hok f; simpl; [|apply HI].
  unfold gstep. destruct (mstep _ o) as [h2 r] eqn:E. simpl.
  unfold upd. destruct (f =? g_cur g); [|apply HI].
  eapply mstep_Inv; [|exact Hok|exact E]. simpl. apply with_stat_Inv. apply HI.
Qed.

Lemma greachable_Inv : forall xs g, (forall f, Inv (h_lib (g_files g f))) -> Forall gop_ok xs ->
  forall f, Inv (h_lib (g_files (grun g xs) f)).
Proof.
  induction xs as [|x t IH]; simpl; intros g HI Hok f; [apply HI|].
  inversion Hok; subst. apply IH; [|assumption]. intros f'. apply gstep1_Inv; assumption.
Qed.

Lemma ginit_Inv : forall names f, Inv (h_lib (g_files (ginit names) f)).
Proof. intros. simpl. exact Inv_init. Qed.
