(** C14 -- abstract specification S of "read-only access never alters a file; write requests through it
    are refused", written as a monitor over the observable trace of API calls.

    An event is one API call of the harness language (harness/drive_ro.c) together with what was observed:
    its return class, the number of bytes / write calls / creating opens that reached any stream during the
    call, and (for the directives [check] / [dump]) whether every file of the directory still has its
    snapshot hash / the identifier of the canonical object dump.

    The whole specification is:
      - the list [mutators]: calls that would have to write data or create a stored object;
      - while the file is open only for reading (>= 1 open, none of them for writing):
          every call reaches the device with zero writes and zero creating opens,
          every mutator returns failure,
          an inquiry about an attached object (its name, class, fields, record / member / attribute counts,
          dimensions ...) gives the same answer every time it is asked through the same attachment
          as long as only mutators and inquiries are called in between (a refused request leaves no trace in
          what the handle shows; reading calls are left out: the library may cache or derive state while reading);
      - at [check]: if no handle was opened for writing since the snapshot, every file (the HDF file and the
        external files it references) has the same SHA-256 and no file was created or removed;
      - at [dump]: unless a mutator was issued through a write-mode handle since the snapshot, every record of
        the canonical dump of everything readable taken at the snapshot (one record per stored object,
        attribute, dimension: identity + content hash) is still present and unchanged
        (so: open for writing + close with no change requested leaves all objects readable and identical). *)
From Coq Require Import ZArith List String Bool.
Import ListNotations.
Local Open Scope string_scope.
Local Open Scope list_scope.
Local Open Scope Z_scope.

(** Calls that would have to write data or create a stored object through the handle. *)
Definition mutators : list string :=
  [ (* H *)  "putelement"; "startwrite"; "write"; "trunc"; "setlength"; "hlcreate"; "hlconvert"; "hxcreate";
             "hccreate"; "hmccreate"; "dupdd"; "deldd"; "reuse"; "startbitwrite"; "bitwrite";
    (* V *)  "vsetname"; "vsetclass"; "vaddtagref"; "vinsertvs"; "vinsertvg"; "vdeletetagref"; "vdelete"; "vdeleten"; "vsetattr";
    (* VS *) "vswrite"; "vsdefinefields"; "vssetname"; "vssetclass"; "vssetattr"; "vsdelete"; "vsdeleten"; "vssetexternalfile"; "vhstoredata";
             "vhmakegroup";
    (* SD *) "sdcreate"; "sdwritedata"; "sdwritedim"; "sdsetattr"; "sdsetdimname"; "sdsetdimscale"; "sdsetdimstrs";
             "sdsetdimval_comp"; "sdsetdatastrs"; "sdsetcal"; "sdsetfillvalue"; "sdsetrange"; "sdsetcompress";
             "sdsetchunk"; "sdsetexternalfile"; "sdsetnbitdataset"; "sdwritechunk";
    (* GR *) "grcreate"; "grwriteimage"; "grsetattr"; "grwritelut"; "grsetcompress"; "grsetchunk";
             "grsetexternalfile";
    (* AN *) "anwriteann" ].

(** Calls whose mutating nature depends on an argument: Hstartaccess with DFACC_WRITE in its flags,
    Vattach / VSattach with access "w" (the harness encodes "w" as 1, "r" as 0). *)
Definition DFACC_WRITE_bit : Z := 2.
Definition arg (args : list Z) (k : nat) : Z := nth k args 0.
Definition is_mutator (name : string) (args : list Z) : bool :=
  if existsb (String.eqb name) mutators then true
  else if String.eqb name "startaccess" then negb (Z.eqb (Z.land (arg args 4) DFACC_WRITE_bit) 0)
  else if String.eqb name "vattach" then Z.eqb (arg args 3) 1
  else if String.eqb name "vsattach" then Z.eqb (arg args 3) 1
  else if String.eqb name "vattachn" then Z.eqb (arg args 3) 1
  else if String.eqb name "vsattachn" then Z.eqb (arg args 3) 1
  else false.

(** File-level opens: [hopen F mode ndds] and [sdstart I F mode]; their closes [hclose F] / [sdend I]. *)
Inductive rcls := ROk | RFail | RNa.

Record event := {
  e_name : string;
  e_args : list Z;        (* numeric arguments in order (non-numeric ones replaced as described above) *)
  e_rc : rcls;
  e_wbytes : Z; e_wcalls : Z; e_wcreates : Z;
  e_aux : Z               (* inquiry calls: 2 = the answer differs from the previous answer of the same call on the same
                             attachment although only mutators and inquiries were called in between (1 = same / first); check: 1 = all files same; dump: 1 = every record of the baseline dump (the first dump
                             after the snapshot) is present, unchanged, in this dump; 3 = every interface-level record
                             (datasets, images, annotations, attributes, user elements / vdatas / vgroups) is *)
}.

Record st := {
  opens : list ((Z * Z) * bool);   (* (kind 0 = Hopen / 1 = SDstart, slot) -> opened for writing? *)
  snapped : bool;                  (* after the snapshot directive *)
  rw_seen : bool;                  (* some handle was opened for writing since the snapshot *)
  tainted : bool;                  (* a mutator was issued while a write-mode handle was open *)
  dump0 : bool                     (* the baseline dump has been taken *)
}.

Definition init : st := {| opens := []; snapped := false; rw_seen := false; tainted := false; dump0 := false |}.

Definition wants_write (mode : Z) : bool := negb (Z.eqb (Z.land mode 6) 0).   (* DFACC_WRITE | DFACC_CREATE *)

Definition key_eqb (a b : Z * Z) : bool := Z.eqb (fst a) (fst b) && Z.eqb (snd a) (snd b).
Definition remove_key (k : Z * Z) (l : list ((Z * Z) * bool)) := filter (fun x => negb (key_eqb (fst x) k)) l.

Definition any_rw (s : st) : bool := existsb snd (opens s).
Definition read_only_now (s : st) : bool := negb (any_rw s) && match opens s with [] => false | _ => true end.

(** Verdict: the list of violated clauses (empty = the event conforms). *)
Inductive clause := MutatorSucceeded | WriteReachedDevice | FileCreated | BytesChanged | ObjectsChanged | InquiryChanged.

Definition set_opens s o := {| opens := o; snapped := snapped s; rw_seen := rw_seen s; tainted := tainted s; dump0 := dump0 s |}.

Definition step (s : st) (e : event) : st * list clause :=
  let name := e_name e in
  if negb (snapped s) then
    (* building phase: unconstrained; only the open table and the snapshot are tracked *)
    if String.eqb name "snapshot" then ({| opens := opens s; snapped := true; rw_seen := any_rw s; tainted := false; dump0 := false |}, [])
    else if String.eqb name "hopen" then
      (match e_rc e with ROk => set_opens s (((0, arg (e_args e) 0), wants_write (arg (e_args e) 1)) :: opens s) | _ => s end, [])
    else if String.eqb name "sdstart" then
      (match e_rc e with ROk => set_opens s (((1, arg (e_args e) 0), wants_write (arg (e_args e) 2)) :: opens s) | _ => s end, [])
    else if String.eqb name "hclose" then (match e_rc e with ROk => set_opens s (remove_key (0, arg (e_args e) 0) (opens s)) | _ => s end, [])
    else if String.eqb name "sdend" then (match e_rc e with RNa => s | _ => set_opens s (remove_key (1, arg (e_args e) 0) (opens s)) end, [])
    else if String.eqb name "closeall" then (match e_rc e with RFail => set_opens s [((9, 9), true)] | _ => set_opens s [] end, [])
    else (s, [])
  else
  (* ---- after the snapshot ---- *)
  let ro := read_only_now s in
  let dev := (if ro && negb (Z.eqb (e_wcalls e) 0) then [WriteReachedDevice] else []) ++
             (if ro && negb (Z.eqb (e_wcreates e) 0) then [FileCreated] else []) in
  if String.eqb name "check" then
    (s, if negb (rw_seen s) && negb (Z.eqb (e_aux e) 1) then [BytesChanged] else [])
  else if String.eqb name "dump" then
    (* the dump itself runs through read-only handles: it must not write either *)
    let devd := (if negb (any_rw s) && negb (Z.eqb (e_wcalls e) 0) then [WriteReachedDevice] else []) ++
                (if negb (any_rw s) && negb (Z.eqb (e_wcreates e) 0) then [FileCreated] else []) in
    (* while only read-only handles were used every record must be preserved; after a write-mode open without edits
       the interface-level view must be (the library may materialise bookkeeping objects while reading) *)
    if dump0 s then (s, devd ++ if negb (tainted s) && negb (Z.eqb (e_aux e) 1) && negb (rw_seen s && Z.eqb (e_aux e) 3)
                                then [ObjectsChanged] else [])
    else ({| opens := opens s; snapped := true; rw_seen := rw_seen s; tainted := tainted s; dump0 := true |}, devd)
  else if String.eqb name "hopen" then
    let w := wants_write (arg (e_args e) 1) in
    let s1 := match e_rc e with ROk => set_opens s (((0, arg (e_args e) 0), w) :: opens s) | _ => s end in
    ({| opens := opens s1; snapped := true; rw_seen := rw_seen s || (w && match e_rc e with ROk => true | _ => false end);
        tainted := tainted s; dump0 := dump0 s |},
     if w then [] else (if negb (any_rw s) && negb (Z.eqb (e_wcalls e) 0) then [WriteReachedDevice] else []) ++
                       (if negb (any_rw s) && negb (Z.eqb (e_wcreates e) 0) then [FileCreated] else []))
  else if String.eqb name "sdstart" then
    let w := wants_write (arg (e_args e) 2) in
    let s1 := match e_rc e with ROk => set_opens s (((1, arg (e_args e) 0), w) :: opens s) | _ => s end in
    ({| opens := opens s1; snapped := true; rw_seen := rw_seen s || (w && match e_rc e with ROk => true | _ => false end);
        tainted := tainted s; dump0 := dump0 s |},
     if w then [] else (if negb (any_rw s) && negb (Z.eqb (e_wcalls e) 0) then [WriteReachedDevice] else []) ++
                       (if negb (any_rw s) && negb (Z.eqb (e_wcreates e) 0) then [FileCreated] else []))
  else if String.eqb name "hclose" then
    (match e_rc e with ROk => set_opens s (remove_key (0, arg (e_args e) 0) (opens s)) | _ => s end, dev)
  else if String.eqb name "sdend" then
    (match e_rc e with RNa => s | _ => set_opens s (remove_key (1, arg (e_args e) 0) (opens s)) end, dev)
  else if String.eqb name "closeall" then
    (* a close that failed while a write-mode handle was open leaves the file in an unknown open state: nothing is
       required afterwards *)
    ((match e_rc e with
      | RFail => if any_rw s then {| opens := [((9, 9), true)]; snapped := true; rw_seen := true; tainted := true; dump0 := dump0 s |}
                 else set_opens s []      (* only read-only handles can be left over *)
      | _ => set_opens s [] end),
     if negb (any_rw s) && negb (Z.eqb (e_wcalls e) 0) then [WriteReachedDevice] else [])
  else
    match e_rc e with
    | RNa => (s, [])
    | _ =>
      let m := is_mutator name (e_args e) in
      let s' := if m && any_rw s then {| opens := opens s; snapped := true; rw_seen := rw_seen s; tainted := true; dump0 := dump0 s |} else s in
      (s', dev ++ (if ro && m && match e_rc e with ROk => true | _ => false end then [MutatorSucceeded] else [])
               ++ (if ro && Z.eqb (e_aux e) 2 then [InquiryChanged] else []))
    end.

Fixpoint run (s : st) (es : list event) : list (list clause) :=
  match es with
  | [] => []
  | e :: r => let (s', v) := step s e in v :: run s' r
  end.

(** Codes for the driver. *)
Definition clause_code (c : clause) : Z :=
  match c with MutatorSucceeded => 1 | WriteReachedDevice => 2 | FileCreated => 3 | BytesChanged => 4 | ObjectsChanged => 5 | InquiryChanged => 6 end.
