(** C05 -- the block-buffer model of the bit reader (CompBitbufModel.v) refines the byte-stream reader
    (CompCodecModel.br_read / br_seek): refill, block_offset / buf_read bookkeeping and Hbitseek are correct. *)
From Coq Require Import ZArith List Bool Lia.
Require Import H4.gen.Gen_Comp H4.CompSpec H4.CompRleProofs H4.CompCodecModel H4.CompBitioProofs H4.CompBitbufModel.
Import ListNotations.
Local Open Scope Z_scope.

(** * list helpers *)
Lemma zdrop_ztake {A} (l : list A) a b : 0 <= a <= b -> zdrop a (ztake b l) = ztake (b - a) (zdrop a l).
Proof.
  intros. unfold zdrop, ztake. rewrite skipn_firstn_comm. f_equal. rewrite Z2Nat.inj_sub by lia. reflexivity.
Qed.
Lemma zdrop_zdrop {A} (l : list A) a b : 0 <= a -> 0 <= b -> zdrop b (zdrop a l) = zdrop (a + b) l.
Proof. intros. symmetry. now apply zdrop_add. Qed.
Lemma zdrop_cons_next {A} (l : list A) n x t : 0 <= n -> zdrop n l = x :: t -> zdrop (n + 1) l = t.
Proof. intros Hn E. rewrite zdrop_add by lia. rewrite E. reflexivity. Qed.
Lemma zdrop_nonempty {A} (l : list A) n : 0 <= n < zlen l -> exists x t, zdrop n l = x :: t.
Proof.
  intros H. destruct (zdrop n l) as [|x t] eqn:E; [|eauto].
  assert (zlen (zdrop n l) = zlen l - n) by (apply zlen_zdrop; lia). rewrite E in *. change (zlen (@nil A)) with 0 in *. lia.
Qed.
Lemma zdrop_nil_len {A} (l : list A) n : 0 <= n -> zdrop n l <> [] -> n < zlen l.
Proof.
  intros Hn E. destruct (Z.lt_ge_cases n (zlen l)); [assumption|]. exfalso. apply E. apply zdrop_all. lia.
Qed.
Lemma zlen_hread elt pos n : 0 <= pos <= zlen elt -> 0 <= n ->
  hread elt pos n = ztake (if (n =? 0) || (zlen elt - pos <? n) then zlen elt - pos else n) (zdrop pos elt).
Proof. reflexivity. Qed.

(** * abstraction and invariant *)
Definition babs (elt : list Z) (s : bbuf) : bitr :=
  mk_bitr (zdrop (bb_block s + bb_bytep s) elt) (bb_bits s) (bb_count s).

Definition bb_inv (elt : list Z) (s : bbuf) : Prop :=
  0 <= bb_block s /\ 0 <= bb_bytep s /\ 0 <= bb_read s /\
  bb_pos s = bb_block s + bb_read s /\ bb_pos s <= zlen elt /\
  (exists stale, bb_buf s = ztake (bb_read s) (zdrop (bb_block s) elt) ++ stale) /\
  (bb_bytez s = bb_read s \/ (bb_pos s = zlen elt /\ bb_read s <= bb_bytez s)) /\
  (bb_read s = BITBUF_SIZE \/ bb_pos s = zlen elt) /\
  bb_bytep s <= bb_read s /\
  bb_off s <= bb_block s + bb_bytep s /\ bb_max s = zlen elt.

(** the byte at a valid buffer index is the element's byte at block_offset + index *)
Lemma buf_head (elt : list Z) block read (buf stale : list Z) p (x : Z) (t : list Z) :
  0 <= block -> 0 <= p < read -> block + read <= zlen elt ->
  buf = ztake read (zdrop block elt) ++ stale ->
  zdrop (block + p) elt = x :: t ->
  exists t', zdrop p buf = x :: t'.
Proof.
  intros Hb Hp Hr Eb Ee. subst buf.
  assert (Lv : zlen (ztake read (zdrop block elt)) = read).
  { apply zlen_ztake. rewrite zlen_zdrop by lia. lia. }
  rewrite zdrop_app_l by lia. rewrite zdrop_ztake by lia. rewrite zdrop_zdrop by lia. rewrite Ee.
  unfold ztake. destruct (Z.to_nat (read - p)) as [|k] eqn:Ek; [lia|]. cbn [firstn app]. eauto.
Qed.

Lemma bb_fetch_ok elt s : bb_inv elt s -> bb_block s + bb_bytep s < zlen elt ->
  exists s' l, bb_fetch elt s = (s', l) /\ bb_inv elt s' /\
    zdrop (bb_block s + bb_bytep s) elt = l :: zdrop (bb_block s' + bb_bytep s') elt /\
    bb_bits s' = bb_bits s /\ bb_count s' = bb_count s.
Proof.
  intros (H1 & H2 & H3 & H4 & H5 & (stale & H6) & H7 & H8 & H9 & H10 & H11) Hav.
  destruct (zdrop_nonempty elt (bb_block s + bb_bytep s) ltac:(lia)) as (x & t & Ex).
  unfold bb_fetch. destruct (Z.eqb_spec (bb_bytep s) (bb_bytez s)) as [Eq|Ne].
  - (* refill *)
    assert (Er : bb_bytep s = bb_read s) by (destruct H7 as [?|[? ?]]; lia).
    assert (Hfull : bb_read s = BITBUF_SIZE) by (destruct H8; [assumption|lia]).
    set (pos := bb_pos s) in *.
    assert (Epos : bb_block s + bb_bytep s = pos) by lia.
    set (k := if (BITBUF_SIZE =? 0) || (zlen elt - pos <? BITBUF_SIZE) then zlen elt - pos else BITBUF_SIZE).
    assert (Hk : 1 <= k <= zlen elt - pos /\ (k = BITBUF_SIZE \/ pos + k = zlen elt)).
    { subst k. change (BITBUF_SIZE =? 0) with false. cbn [orb]. unfold BITBUF_SIZE in *. destruct (Z.ltb_spec (zlen elt - pos) 4096); lia. }
    assert (Ld : zlen (hread elt pos BITBUF_SIZE) = k).
    { unfold hread. fold k. apply zlen_ztake. rewrite zlen_zdrop by lia. lia. }
    cbn [bb_pos bb_buf bb_bytep bb_bytez bb_block bb_read bb_off bb_max bb_bits bb_count]. rewrite Ld.
    rewrite Epos in Ex.
    assert (Hh : exists t', zdrop 0 (blit (bb_buf s) (hread elt pos BITBUF_SIZE)) = x :: t').
    { unfold blit. apply (buf_head elt pos k _ (zdrop (zlen (hread elt pos BITBUF_SIZE)) (bb_buf s)) 0 x t); try lia.
      - unfold hread. fold k. reflexivity.
      - rewrite Z.add_0_r. exact Ex. }
    destruct Hh as (t' & Hh). rewrite Hh.
    eexists; eexists. split; [reflexivity|]. cbn [bb_pos bb_buf bb_bytep bb_bytez bb_block bb_read bb_off bb_max bb_bits bb_count].
    replace (bb_block s + bb_read s) with pos by lia.
    split; [|split; [|split; reflexivity]].
    + unfold bb_inv. cbn [bb_pos bb_buf bb_bytep bb_bytez bb_block bb_read bb_off bb_max bb_bits bb_count].
      repeat split; try lia;
        try (destruct (Z.ltb_spec (bb_max s) (bb_off s + 1)); lia).
      exists (zdrop k (bb_buf s)). unfold blit. rewrite Ld. unfold hread. fold k. reflexivity.
    + rewrite Epos. rewrite Ex. f_equal. symmetry. replace (pos + (0 + 1)) with (pos + 1) by lia.
      apply (zdrop_cons_next elt pos x t); [lia | exact Ex].
  - (* the byte is in the buffer *)
    assert (Hlt : bb_bytep s < bb_read s).
    { destruct (Z.eq_dec (bb_bytep s) (bb_read s)) as [E|]; [|lia]. exfalso. destruct H7 as [?|[? ?]]; destruct H8; lia. }
    destruct (buf_head elt (bb_block s) (bb_read s) (bb_buf s) stale (bb_bytep s) x t) as (t' & Hh); try lia; auto.
    rewrite Hh. eexists; eexists. split; [reflexivity|].
    cbn [bb_pos bb_buf bb_bytep bb_bytez bb_block bb_read bb_off bb_max bb_bits bb_count].
    split; [|split; [|split; reflexivity]].
    + unfold bb_inv. cbn [bb_pos bb_buf bb_bytep bb_bytez bb_block bb_read bb_off bb_max bb_bits bb_count].
      repeat split; try lia; eauto; try (destruct (Z.ltb_spec (bb_max s) (bb_off s + 1)); lia).
    + rewrite Ex. f_equal. symmetry. rewrite Z.add_assoc. apply (zdrop_cons_next elt _ x t); [lia | exact Ex].
Qed.

(** * the read refines br_read *)
Lemma bb_whole_refines elt : forall fuel s b cnt inp' b' c2,
  bb_inv elt s -> br_whole fuel (br_in (babs elt s)) b cnt = Some (inp', b', c2) ->
  exists s', bb_whole fuel elt s b cnt = (s', b', c2) /\ bb_inv elt s' /\ br_in (babs elt s') = inp' /\
             bb_bits s' = bb_bits s /\ bb_count s' = bb_count s.
Proof.
  induction fuel as [|f IH]; intros s b cnt inp' b' c2 I E; cbn [br_whole bb_whole] in *.
  - inversion E; subst. exists s. split; [reflexivity|]. split; [exact I|]. repeat split; reflexivity.
  - destruct (BITNUM <=? cnt).
    + cbn [babs br_in] in E. destruct (zdrop (bb_block s + bb_bytep s) elt) as [|l t] eqn:Ez; [discriminate|].
      assert (Hav : bb_block s + bb_bytep s < zlen elt).
      { destruct I as (? & ? & _). apply zdrop_nil_len; [lia|]. rewrite Ez. discriminate. }
      destruct (bb_fetch_ok elt s I Hav) as (s1 & l1 & F & I1 & Z1 & B1 & C1).
      rewrite Ez in Z1. inversion Z1; subst l1. rewrite F.
      destruct (IH s1 (Z.lor b (Z.shiftl l (cnt - BITNUM))) (cnt - BITNUM) inp' b' c2 I1) as (s' & W & I' & A' & B' & C').
      { cbn [babs br_in]. rewrite <- H1. exact E. }
      exists s'. split; [exact W|]. split; [exact I'|]. repeat split; congruence.
    + inversion E; subst. exists s. split; [reflexivity|]. split; [exact I|]. repeat split; reflexivity.
Qed.

Lemma babs_set elt s bits count : babs elt (bb_set s bits count) = mk_bitr (br_in (babs elt s)) bits count.
Proof. reflexivity. Qed.
Lemma bb_inv_set elt s bits count : bb_inv elt s -> bb_inv elt (bb_set s bits count).
Proof. unfold bb_inv, bb_set. cbn [bb_pos bb_buf bb_bytep bb_bytez bb_block bb_read bb_off bb_max bb_bits bb_count]. tauto. Qed.

Lemma bb_read_refines elt s c r v : bb_inv elt s -> br_read (babs elt s) c = Some (r, v) ->
  exists s', bb_readbits elt s c = (s', v) /\ babs elt s' = r /\ bb_inv elt s'.
Proof.
  intros I E. unfold br_read in E. unfold bb_readbits. cbn [babs br_in br_bits br_count] in E.
  set (count := if DATANUM <? c then DATANUM else c) in *.
  destruct (count <=? bb_count s).
  - inversion E; subst. eexists. split; [reflexivity|]. split; [reflexivity | now apply bb_inv_set].
  - cbv zeta in E. cbv zeta.
    set (c1 := if 0 <? bb_count s then count - bb_count s else count) in *.
    set (b0 := if 0 <? bb_count s then Z.shiftl (Z.land (bb_bits s) (tab maskc (bb_count s))) c1 else 0) in *.
    destruct (br_whole 4 (zdrop (bb_block s + bb_bytep s) elt) b0 c1) as [[[inp' b'] c2]|] eqn:Ew; [|discriminate].
    destruct (bb_whole_refines elt 4 s b0 c1 inp' b' c2 I Ew) as (s1 & W & I1 & A1 & B1 & C1).
    rewrite W. destruct (0 <? c2).
    + destruct inp' as [|l t] eqn:Ei; [discriminate|]. inversion E; subst r v.
      cbn [babs br_in] in A1.
      assert (Hav : bb_block s1 + bb_bytep s1 < zlen elt).
      { destruct I1 as (? & ? & _). apply zdrop_nil_len; [lia|]. rewrite A1. discriminate. }
      destruct (bb_fetch_ok elt s1 I1 Hav) as (s2 & l2 & F & I2 & Z2 & B2 & C2).
      rewrite A1 in Z2. inversion Z2; subst l2. rewrite F.
      eexists. split; [reflexivity|]. split; [|now apply bb_inv_set].
      rewrite babs_set. cbn [babs br_in]. rewrite <- H1. reflexivity.
    + inversion E; subst r v. eexists. split; [reflexivity|]. split; [|now apply bb_inv_set].
      rewrite babs_set. rewrite A1. rewrite B1. reflexivity.
Qed.

(** the byte-stream model resets [bits] on an aligned seek, the C code leaves the old value there; it is never
    looked at while count = 0, so states are compared up to that *)
Definition bitr_sim (a b : bitr) : Prop :=
  br_in a = br_in b /\ br_count a = br_count b /\ (br_count a = 0 \/ br_bits a = br_bits b).
Lemma bitr_sim_refl a : bitr_sim a a.
Proof. unfold bitr_sim; auto. Qed.
Lemma bitr_sim_sym a b : bitr_sim a b -> bitr_sim b a.
Proof. unfold bitr_sim; intros (H1 & H2 & [H3|H3]); repeat split; auto; left; congruence. Qed.

Lemma br_read_sim r1 r2 c r1' v : 1 <= c -> bitr_sim r1 r2 -> 0 <= br_count r1 ->
  br_read r1 c = Some (r1', v) -> exists r2', br_read r2 c = Some (r2', v) /\ bitr_sim r1' r2'.
Proof.
  intros Hc (Si & Sc & Sb) Hk E. destruct Sb as [Z0|Eb].
  - (* count = 0: the buffered bits are not used *)
    unfold br_read in *. rewrite <- Sc, <- Si. rewrite Z0 in *.
    set (count := if DATANUM <? c then DATANUM else c) in *.
    assert (1 <= count) by (subst count; change DATANUM with 32; destruct (Z.ltb_spec 32 c); lia).
    destruct (Z.leb_spec count 0); [lia|]. change (0 <? 0) with false in *. cbv iota zeta in *.
    destruct (br_whole 4 (br_in r1) 0 count) as [[[inp b] c2]|]; [|discriminate].
    destruct (0 <? c2).
    + destruct inp; [discriminate|]. inversion E; subst. eexists. split; [reflexivity | apply bitr_sim_refl].
    + inversion E; subst. eexists. split; [reflexivity|]. unfold bitr_sim. cbn [br_in br_bits br_count]. auto.
  - assert (r1 = r2) by (destruct r1, r2; cbn in *; congruence). subst. eexists. split; [eassumption | apply bitr_sim_refl].
Qed.

Lemma bb_read_sim elt s c r r' v : bb_inv elt s -> 1 <= c -> 0 <= br_count r -> bitr_sim r (babs elt s) ->
  br_read r c = Some (r', v) ->
  exists s', bb_readbits elt s c = (s', v) /\ bitr_sim r' (babs elt s') /\ bb_inv elt s'.
Proof.
  intros I Hc Hk S E. destruct (br_read_sim r (babs elt s) c r' v Hc S Hk E) as (r2' & E2 & S2).
  destruct (bb_read_refines elt s c r2' v I E2) as (s' & R & A & I'). exists s'. subst r2'. auto.
Qed.

(** the regenerated block test of Hbitseek: another block is needed exactly when the target byte lies outside
    [block_offset, block_offset + BITBUF_SIZE) *)
Lemma new_block_spec b blk : negb (hbitseek_new_block b blk =? 0) = ((b <? blk) || (blk + BITBUF_SIZE <=? b)).
Proof.
  unfold hbitseek_new_block, BITBUF_SIZE. destruct (Z.ltb_spec b blk); destruct (Z.leb_spec (blk + 4096) b); reflexivity.
Qed.

(** * Hbitseek refines br_seek *)
Lemma bb_seek_refines elt s byte_ bit r : bb_inv elt s -> br_seek elt byte_ bit = Some r ->
  exists s', bb_seek elt s byte_ bit = Some s' /\ bitr_sim r (babs elt s') /\ bb_inv elt s'.
Proof.
  intros I E. unfold br_seek in E. change BITNUM with 8 in *.
  destruct (Z.leb_spec 0 byte_) as [Hb0|]; [|discriminate]. destruct (Z.leb_spec byte_ (zlen elt)) as [Hbl|]; [|discriminate].
  destruct (Z.leb_spec 0 bit) as [Hi0|]; [|discriminate]. destruct (Z.ltb_spec bit 8) as [Hi8|]; [|discriminate].
  cbn [andb] in E.
  pose proof I as (H1 & H2 & H3 & H4 & H5 & (stale & H6) & H7 & H8 & H9 & H10 & H11).
  unfold bb_seek. change BITNUM with 8. rewrite H11.
  destruct (Z.ltb_spec byte_ 0); [lia|]. destruct (Z.ltb_spec bit 0); [lia|].
  destruct (Z.ltb_spec (8 - 1) bit); [lia|]. destruct (Z.ltb_spec (zlen elt) byte_); [lia|]. cbn [orb]. cbv zeta.
  rewrite new_block_spec.
  set (nb := (byte_ <? bb_block s) || (bb_block s + BITBUF_SIZE <=? byte_)).
  match goal with |- context [if nb then ?a else s] => set (s1 := if nb then a else s) end.
  assert (I1 : bb_inv elt (mk_bbuf (bb_pos s1) (bb_buf s1) (bb_bytep s1) (bb_bytez s1) (bb_block s1) (bb_read s1)
                                   (Z.min (bb_off s1) (bb_block s1 + bb_bytep s1)) (bb_max s1) (bb_bits s1) (bb_count s1)) /\
               bb_block s1 <= byte_ /\ byte_ - bb_block s1 <= bb_read s1 /\
               (byte_ < zlen elt -> byte_ - bb_block s1 < bb_read s1)).
  { subst s1. destruct nb eqn:Enb.
    - set (sp := byte_ / BITBUF_SIZE * BITBUF_SIZE).
      assert (Hsp : 0 <= sp <= byte_ /\ byte_ < sp + BITBUF_SIZE).
      { subst sp. unfold BITBUF_SIZE. pose proof (Z.div_mod byte_ 4096 ltac:(lia)). pose proof (Z.mod_pos_bound byte_ 4096 ltac:(lia)).
        assert (0 <= byte_ / 4096) by (apply Z.div_pos; lia). lia. }
      set (n := Z.min (zlen elt - sp) BITBUF_SIZE).
      assert (Hn : 0 <= n /\ n <= zlen elt - sp /\ (n = BITBUF_SIZE \/ sp + n = zlen elt)) by (subst n; unfold BITBUF_SIZE; lia).
      assert (Dd : hread elt sp n = ztake n (zdrop sp elt)).
      { unfold hread. destruct (Z.eqb_spec n 0) as [E0|E0]; cbn [orb].
        - replace (zlen elt - sp) with n by lia. reflexivity.
        - destruct (Z.ltb_spec (zlen elt - sp) n); [lia|]. reflexivity. }
      assert (Ld : zlen (hread elt sp n) = n).
      { rewrite Dd. apply zlen_ztake. rewrite zlen_zdrop by lia. lia. }
      cbn [bb_pos bb_buf bb_bytep bb_bytez bb_block bb_read bb_off bb_max bb_bits bb_count].
      rewrite Ld. split; [|repeat split; try lia].
      unfold bb_inv. cbn [bb_pos bb_buf bb_bytep bb_bytez bb_block bb_read bb_off bb_max bb_bits bb_count].
      repeat split; try lia.
      exists (zdrop n (bb_buf s)). unfold blit. rewrite Ld, Dd. reflexivity.
    - subst nb. apply orb_false_iff in Enb. destruct Enb as [En1 En2]. apply Z.ltb_ge in En1. apply Z.leb_gt in En2.
      split; [|repeat split; try lia; destruct H8; lia].
      unfold bb_inv. cbn [bb_pos bb_buf bb_bytep bb_bytez bb_block bb_read bb_off bb_max bb_bits bb_count].
      repeat split; try lia; eauto. }
  destruct I1 as (I1 & Hge & Hle & Hlt).
  pose proof I1 as (K1 & K2 & K3 & K4 & K5 & (stale1 & K6) & K7 & K8 & K9 & K10 & K11).
  cbn [bb_pos bb_buf bb_bytep bb_bytez bb_block bb_read bb_off bb_max bb_bits bb_count] in K1, K2, K3, K4, K5, K6, K7, K8, K9, K10, K11.
  destruct (Z.ltb_spec 0 bit) as [Hpos|Hz].
  - destruct (zdrop byte_ elt) as [|l t] eqn:Ez; [discriminate|]. inversion E; subst r.
    assert (Hav : byte_ < zlen elt) by (apply zdrop_nil_len; [lia | rewrite Ez; discriminate]).
    destruct (buf_head elt (bb_block s1) (bb_read s1) (bb_buf s1) stale1 (byte_ - bb_block s1) l t) as (t' & Hh); try lia; auto.
    { replace (bb_block s1 + (byte_ - bb_block s1)) with byte_ by lia. exact Ez. }
    rewrite Hh. eexists. split; [reflexivity|]. split.
    + unfold bitr_sim, babs. cbn [bb_pos bb_buf bb_bytep bb_bytez bb_block bb_read bb_off bb_max bb_bits bb_count br_in br_bits br_count].
      repeat split; auto. replace (bb_block s1 + (byte_ - bb_block s1 + 1)) with (byte_ + 1) by lia.
      symmetry. apply (zdrop_cons_next elt byte_ l t); [lia | exact Ez].
    + unfold bb_inv. cbn [bb_pos bb_buf bb_bytep bb_bytez bb_block bb_read bb_off bb_max bb_bits bb_count].
      specialize (Hlt Hav). repeat split; try lia; eauto.
  - inversion E; subst r. eexists. split; [reflexivity|]. split.
    + unfold bitr_sim, babs. cbn [bb_pos bb_buf bb_bytep bb_bytez bb_block bb_read bb_off bb_max bb_bits bb_count br_in br_bits br_count].
      replace (bb_block s1 + (byte_ - bb_block s1)) with byte_ by lia. repeat split; auto.
    + unfold bb_inv. cbn [bb_pos bb_buf bb_bytep bb_bytez bb_block bb_read bb_off bb_max bb_bits bb_count].
      repeat split; try lia; eauto.
Qed.

(** * Hstartbitread *)
Lemma bb_start_ok elt : 0 < zlen elt -> bb_inv elt (bb_start elt) /\ babs elt (bb_start elt) = bitr_init elt.
Proof.
  intros Hl. unfold bb_start. destruct (Z.ltb_spec 0 (zlen elt)); [|lia].
  set (n := Z.min (zlen elt) BITBUF_SIZE).
  assert (Hn : 1 <= n <= zlen elt /\ (n = BITBUF_SIZE \/ n = zlen elt)) by (subst n; unfold BITBUF_SIZE; lia).
  assert (Dd : hread elt 0 n = ztake n (zdrop 0 elt)).
  { unfold hread. destruct (Z.eqb_spec n 0); [lia|]. cbn [orb]. rewrite Z.sub_0_r. destruct (Z.ltb_spec (zlen elt) n); [lia|]. reflexivity. }
  assert (Ld : zlen (hread elt 0 n) = n) by (rewrite Dd; apply zlen_ztake; rewrite zlen_zdrop by lia; lia).
  cbv zeta. fold n. rewrite Ld. split.
  - unfold bb_inv. cbn [bb_pos bb_buf bb_bytep bb_bytez bb_block bb_read bb_off bb_max bb_bits bb_count].
    unfold BITBUF_SIZE in *. repeat split; try lia.
    exists (zdrop n (repeat 0 (Z.to_nat 4096))). unfold blit. rewrite Ld, Dd. reflexivity.
  - reflexivity.
Qed.

(** * a whole read session *)
Definition to_bop (o : bbop) : bop := match o with BBr c => BOr c | BBs a b => BOs a b end.

Lemma bb_run_fields elt : Forall byte elt -> forall ops s r p,
  bb_inv elt s -> bitr_sim r (babs elt s) -> br_at elt r p -> 0 <= p ->
  bops_ok (8 * zlen elt) p (map to_bop ops) = true ->
  bb_run elt s ops = Some (field_run (be_value elt) (8 * zlen elt) p (map to_bop ops)).
Proof.
  intros Hb. induction ops as [|o t IH]; intros s r p I S A Hp Ok; cbn [map bb_run field_run]; [reflexivity|].
  destruct o as [c|by_ bi]; cbn [to_bop map bops_ok field_run] in *; rewrite !andb_true_iff in Ok.
  - destruct Ok as [[[O1 O2] O3] O4]. apply Z.leb_le in O1, O2, O3.
    destruct (br_at_read elt r p c A Hp ltac:(lia) O3) as (r' & E & A').
    assert (Hk : 0 <= br_count r) by (destruct A as ((? & _) & _); lia).
    destruct (bb_read_sim elt s c r r' _ I O1 Hk S E) as (s' & R & S' & I').
    rewrite R. rewrite (IH s' r' (p + c) I' S' A' ltac:(lia) O4). reflexivity.
  - destruct Ok as [[[[O1 O2] O3] O4] O5]. apply Z.leb_le in O1, O2, O4. apply Z.ltb_lt in O3.
    destruct (br_at_seek elt by_ bi Hb O1 ltac:(lia) O4) as (r' & E & A').
    destruct (bb_seek_refines elt s by_ bi r' I E) as (s' & R & S' & I').
    rewrite R. apply (IH s' r' _ I' S' A'); [lia | exact O5].
Qed.

(** Hstartbitread, then any reads (widths 1..32) and bit seeks inside the element, through the 4096-byte block
    buffer with its block_offset / buf_read bookkeeping, deliver the bit fields of the stored bytes *)
Lemma bitbuf_reads_lemma : forall elt ops, Forall byte elt -> 0 < zlen elt ->
  bops_ok (8 * zlen elt) 0 (map to_bop ops) = true ->
  bb_run elt (bb_start elt) ops = Some (field_run (be_value elt) (8 * zlen elt) 0 (map to_bop ops)).
Proof.
  intros elt ops Hb Hl Ok. destruct (bb_start_ok elt Hl) as [I A].
  apply (bb_run_fields elt Hb ops (bb_start elt) (bitr_init elt) 0 I); try lia; auto.
  - rewrite A. apply bitr_sim_refl.
  - now apply br_at_init.
Qed.
