(** C02 -- Every file written is a well-formed, independently readable HDF4 file.  (work in progress) *)
From Coq Require Import ZArith List Bool.
Require Import H4.FmtSpec H4.FmtProofs.
Import ListNotations.
Local Open Scope Z_scope.

Theorem dd_chain_walk_bounded : forall fuel img off bl, walk fuel img off = Some bl -> (length bl <= fuel)%nat.
Proof. exact walk_length. Qed.
Print Assumptions dd_chain_walk_bounded.
