(** C02 -- Every file written is a well-formed, independently readable HDF4 file.
    Property theorems only (each closed by [exact]); proofs in FmtProofs.v.

    What is PROVED here, for all inputs:
    (1) the constants and tag macros of the specification are those of the current sources;
    (2) the library's ENCODE / DECODE statement macros (regenerated from hdf_priv.h) are big-endian two's
        complement, and the specification's primitive readers invert / equal them;
    (3) codec round trips parse_X (serialize_X x) = Some x for the DD record and block, the linked-block
        description record and block table, the external-element record, the compression header (every coder),
        the chunked-element header (with fill value, per-dimension records and the nested compression header),
        the Vdata header (vpackvs) and the Vgroup record (vpackvg, with its historic extra byte); the serializers
        use exactly the macros, widths and field order of the C writers (lists regenerated from the C text);
    (4) parse_file_wellformed_sound: the decidable checks run by h4read imply the declarative well-formedness
        (magic, finite chain, distinct / non-overlapping / in-bounds blocks, no duplicate tag/ref, extents inside
        the image or both -1, live extents disjoint or aliased, no element inside the directory, description
        records and Vdata/Vgroup records consistent);
    (5) the chain walk: bounded by its fuel, fuel-monotone, and a chain that runs into a cycle is rejected for
        every fuel;
    (6) sync_wellformed, at the level of the serializer: a directory written block by block by the model of
        HTPsync into non-overlapping in-bounds regions re-parses to exactly that directory;
    (7) alloc_disjoint: space handed out at the end of the file never overlaps;
    (8) datainfo_never_exceeds (any tables, any lookup) and datainfo_exact (any chain of block tables, slots never
        written included): the model of HLgetdatainfo -- as repaired -- writes at most info_count entries,
        returns the true block count for NULL arrays, and reports exactly the extents the format specification
        defines, cut to the caller's capacity.

    (9) palinfo_exact, attr_lookup_by_whole_name: the walk of GRgetpalinfo (guard regenerated from the source) fills
        exactly the first pal_count palette descriptors; the attribute search of SDgetattdatainfo (comparison
        regenerated from the source) selects by the whole name.

    What rests on the correspondence run only (checks/C02.py): that the files produced by whole histories of
    H / V / SD / GR / AN calls satisfy WellFormed and re-read to the library's own answers (a state-machine model
    of hfile.c / hfiledd.c histories is C01's and C12's subject); the SD / GR convention layer beyond the
    NDG -> SD and RI-vgroup -> RI links; n-bit and skipping-Huffman content (C05). *)
From Coq Require Import ZArith List Bool String Lia.
Require Import H4.FmtSpec H4.FmtModel H4.FmtProofs H4.gen.Gen_Fmt.
Import ListNotations.
Local Open Scope Z_scope.

(* ---- (1) ---------------------------------------------------------------------------------------------- *)
Theorem spec_constants_are_source_constants :
  HDFMAGIC = magic /\ MAGICLEN = 4 /\ DD_SZ = dd_size /\ NDDS_SZ + OFFSET_SZ = blkhdr_size /\
  INVALID_OFFSET = -1 /\ INVALID_LENGTH = -1 /\
  DFTAG_NULL = tag_null /\ DFTAG_LINKED = tag_linked /\ DFTAG_COMPRESSED = tag_compressed /\
  DFTAG_CHUNK = tag_chunk /\ DFTAG_VH = tag_vh /\ DFTAG_VS = tag_vs /\ DFTAG_VG = tag_vg /\
  SPECIAL_LINKED = sp_linked /\ SPECIAL_EXT = sp_ext /\ SPECIAL_COMP = sp_comp /\ SPECIAL_CHUNKED = sp_chunked /\
  [COMP_CODE_NONE; COMP_CODE_RLE; COMP_CODE_NBIT; COMP_CODE_SKPHUFF; COMP_CODE_DEFLATE; COMP_CODE_SZIP] = [0; 1; 2; 3; 4; 5] /\
  VSET_NEW_VERSION = 4 /\ VS_ATTR_SET = 1 /\ VG_ATTR_SET = 1 /\ COMP_HEADER_VERSION = 0 /\ _HDF_CHK_HDR_VER = 0 /\
  RUN_MASK = 128 /\ COUNT_MASK = 127 /\ RLE_MIN_RUN = 3 /\ RLE_MIN_MIX = 1.
Proof. exact consts_agree. Qed.
Print Assumptions spec_constants_are_source_constants.

Theorem tag_macros_are_spec : forall t, 0 <= t < 65536 ->
  BASETAG t = base_tag t /\ (SPECIALTAG t <> 0 <-> is_special t = true) /\
  (0 < t < 16384 -> base_tag (MKSPECIALTAG t) = t /\ is_special (MKSPECIALTAG t) = true).
Proof. exact tag_macros_agree. Qed.
Print Assumptions tag_macros_are_spec.

(* ---- (2) ---------------------------------------------------------------------------------------------- *)
Theorem encode_macros_roundtrip :
  (forall v r, u16 v -> p_u16 (UINT16ENCODE_bytes v ++ r) = Some (v, r)) /\
  (forall v r, i16 v -> p_i16 (INT16ENCODE_bytes v ++ r) = Some (v, r)) /\
  (forall v r, i32 v -> p_i32 (INT32ENCODE_bytes v ++ r) = Some (v, r)) /\
  (forall v r, u32 v -> p_u32 (UINT32ENCODE_bytes v ++ r) = Some (v, r)) /\
  (forall v, Forall is_byte (UINT16ENCODE_bytes v) /\ Forall is_byte (INT16ENCODE_bytes v) /\
             Forall is_byte (INT32ENCODE_bytes v) /\ Forall is_byte (UINT32ENCODE_bytes v)).
Proof.
  exact (conj p_u16_enc (conj p_i16_enc (conj p_i32_enc (conj p_u32_enc
         (fun v => conj (enc_bytes_u16 v) (conj (enc_bytes_i16 v) (conj (enc_bytes_i32 v) (enc_bytes_u32 v)))))))).
Qed.
Print Assumptions encode_macros_roundtrip.

Theorem decode_macros_are_spec_readers : forall b0 b1 b2 b3,
  is_byte b0 -> is_byte b1 -> is_byte b2 -> is_byte b3 ->
  UINT16DECODE_val b0 b1 = be16 b0 b1 /\
  sgn16 ((INT16DECODE_val b0 b1) mod 65536) = sgn16 (be16 b0 b1) /\
  UINT32DECODE_val b0 b1 b2 b3 = be32 b0 b1 b2 b3 /\
  sgn32 ((INT32DECODE_val b0 b1 b2 b3) mod 4294967296) = sgn32 (be32 b0 b1 b2 b3).
Proof.
  exact (fun b0 b1 b2 b3 H0 H1 H2 H3 =>
    conj (UINT16DECODE_spec b0 b1 H0 H1) (conj (INT16DECODE_spec b0 b1 H0 H1)
    (conj (UINT32DECODE_spec b0 b1 b2 b3 H0 H1 H2 H3) (INT32DECODE_spec b0 b1 b2 b3 H0 H1 H2 H3)))).
Qed.
Print Assumptions decode_macros_are_spec_readers.

(* ---- (3) codec round trips ------------------------------------------------------------------------------ *)
Theorem dd_roundtrip : forall d r, dd_ok d -> p_dd (dd_encode d ++ r) = Some (d, r).
Proof. exact p_dd_enc. Qed.
Print Assumptions dd_roundtrip.

Theorem ddblock_roundtrip : forall img b, blk_ok b ->
  sub img (blk_off b) (zlen (block_encode b)) = Some (block_encode b) -> p_block img (blk_off b) = Some b.
Proof. exact p_block_of_bytes. Qed.
Print Assumptions ddblock_roundtrip.

Theorem linked_roundtrip : forall h r, linked_ok h -> p_special (linked_encode h ++ r) = Some (SLinked h, r).
Proof. exact p_special_linked. Qed.
Print Assumptions linked_roundtrip.

Theorem linktable_roundtrip : forall nx refs r, u16 nx -> Forall u16 refs ->
  p_linktable (List.length refs) (linktable_encode nx refs ++ r) = Some (nx, refs, r).
Proof. exact p_linktable_enc. Qed.
Print Assumptions linktable_roundtrip.

Theorem ext_roundtrip : forall h r, ext_ok h -> p_special (ext_encode h ++ r) = Some (SExt h, r).
Proof. exact p_special_ext. Qed.
Print Assumptions ext_roundtrip.

Theorem comp_roundtrip : forall h r, comp_ok h -> p_special (comp_encode h ++ r) = Some (SComp h, r).
Proof. exact p_special_comp. Qed.
Print Assumptions comp_roundtrip.

Theorem chunk_roundtrip : forall h r, chunk_ok h -> p_special (chunk_encode h ++ r) = Some (SChunked h, r).
Proof. exact p_special_chunked. Qed.
Print Assumptions chunk_roundtrip.

Theorem vh_roundtrip : forall v, vh_ok v -> parse_vh (vh_encode v) = Some v.
Proof. exact parse_vh_enc. Qed.
Print Assumptions vh_roundtrip.

Theorem vg_roundtrip : forall g, vg_ok g -> parse_vg (vg_encode g) = Some g.
Proof. exact parse_vg_enc. Qed.
Print Assumptions vg_roundtrip.

(* ---- (4) ------------------------------------------------------------------------------------------------ *)
Theorem parse_file_wellformed_sound : forall ext_file inflate img,
  wf_check ext_file inflate img = true -> WellFormed ext_file inflate img.
Proof. exact wf_check_sound. Qed.
Print Assumptions parse_file_wellformed_sound.

(* ---- (5) ------------------------------------------------------------------------------------------------ *)
Theorem dd_chain_walk_terminates : forall fuel img off bl, walk fuel img off = Some bl ->
  chain img off bl /\ (List.length bl <= fuel)%nat /\ forall k, walk (fuel + k) img off = Some bl.
Proof.
  exact (fun fuel img off bl H => conj (walk_chain fuel img off bl H)
           (conj (walk_length fuel img off bl H) (fun k => walk_fuel_mono fuel img off bl k H))).
Qed.
Print Assumptions dd_chain_walk_terminates.

Theorem dd_chain_no_cycle : forall img off n, (0 < n)%nat -> follow n img off = Some off ->
  forall fuel, walk fuel img off = None.
Proof. exact walk_cycle_none. Qed.
Print Assumptions dd_chain_no_cycle.

(* ---- (6) ------------------------------------------------------------------------------------------------ *)
Theorem sync_wellformed : forall img bl,
  4 <= zlen img -> Forall blk_ok bl -> Forall (inside img) bl ->
  ForallOrdPairs apart (map blk_extent bl) -> linked_from 4 bl ->
  parse_file (sync_file img bl) = Some bl.
Proof. exact FmtProofs.sync_wellformed. Qed.
Print Assumptions sync_wellformed.

(* ---- (7) ------------------------------------------------------------------------------------------------ *)
Theorem alloc_disjoint : forall sizes f_end, Forall (fun n => 0 <= n) sizes ->
  Forall (fun e => f_end <= fst e /\ 0 <= snd e) (alloc_all f_end sizes) /\
  ForallOrdPairs apart (alloc_all f_end sizes) /\
  map snd (alloc_all f_end sizes) = sizes.
Proof. exact alloc_all_spec. Qed.
Print Assumptions alloc_disjoint.

(* ---- (8) ------------------------------------------------------------------------------------------------ *)
Theorem datainfo_never_exceeds : forall blk tables blen total cap ret out,
  cap_ok cap -> hl_getdatainfo blk tables blen total cap = Some (ret, out) ->
  match cap with
  | None => out = [] /\ 0 <= ret
  | Some n => ret = zlen out /\ ret <= n /\ 0 < n
  end.
Proof. exact hl_getdatainfo_bounded. Qed.
Print Assumptions datainfo_never_exceeds.

Theorem datainfo_exact : forall blk pre lastrefs blen total first cap exts,
  0 <= blen -> 0 <= first -> Forall (fun t => fst t <> 0) pre ->
  first_ok blk true (List.concat (map snd pre) ++ lastrefs) first blen ->
  cap_ok cap -> cap <> Some 0 ->
  extents_of_slots blk total (block_slots (List.concat (map snd pre) ++ lastrefs) 0 first blen true) = Some exts ->
  hl_getdatainfo blk (pre ++ [(0, lastrefs)]) blen total cap = Some (datainfo_answer exts cap).
Proof. exact hl_getdatainfo_exact. Qed.
Print Assumptions datainfo_exact.

(* ---- (9) palettes and attributes ------------------------------------------------------------------------ *)
(** GRgetpalinfo (loop guard regenerated from hdatainfo.c): for every directory and every array size it fills the
    first pal_count palette descriptors, in directory order, and returns how many it filled -- never more than the
    caller's array holds *)
Theorem palinfo_exact : forall ds n, 0 <= n -> gr_getpalinfo ds n = pal_answer ds (Some n).
Proof. exact gr_getpalinfo_exact. Qed.
Print Assumptions palinfo_exact.

(** SDgetattdatainfo (name comparison regenerated from mfdatainfo.c): the Vdata it reports is the first attribute
    Vdata whose name is EXACTLY the requested name *)
Theorem attr_lookup_by_whole_name : forall members name, sd_attr_lookup members name = attr_find members name.
Proof. exact sd_attr_lookup_exact. Qed.
Print Assumptions attr_lookup_by_whole_name.

(* ---- (10) attributes of a Vdata; sources of the modelled raw-location functions ------------------------------ *)
(** VSgetattdatainfo (owner test, pointer step and attached entry regenerated from hdatainfo.c): the entry whose
    data it reports is the attrindex-th attribute OF THE REQUESTED OWNER, wherever it stands in the whole list *)
Theorem vsattr_lookup_exact : forall alist f k, vs_getattdatainfo_entry alist f k = vsattr_nth alist f k.
Proof. exact vs_getattdatainfo_exact. Qed.
Print Assumptions vsattr_lookup_exact.

Theorem vsattr_search_text :
  VSgetattdatainfo_step = "vs_alist++;"%string /\ VSgetattdatainfo_attached = "vs_alist->aref"%string.
Proof. exact vs_search_text. Qed.
Print Assumptions vsattr_search_text.

(* ---- (11) HIsync ------------------------------------------------------------------------------------------- *)
(** the flush of a cached file: the extension to the reserved end does not depend on the DD-list step (both steps are
    plain "if"s in hfile.c -- pinned), so every descriptor below the reserved end lies inside the flushed file *)
Theorem flush_reaches_reserved_end : forall img bl f_end dd_dirty d,
  0 <= dd_off d -> 0 <= dd_len d -> dd_off d + dd_len d <= f_end ->
  in_image (hi_sync img bl f_end dd_dirty true) d.
Proof. exact hi_sync_reaches_end. Qed.
Print Assumptions flush_reaches_reserved_end.

Theorem flush_steps_independent :
  HIsync_ddlist_step = "if(file_rec->dirty&DDLIST_DIRTY)"%string /\
  HIsync_extend_step = "if(file_rec->dirty&FILE_END_DIRTY)"%string.
Proof. exact hisync_steps_text. Qed.
Print Assumptions flush_steps_independent.

(* ==== non-vacuity: every hypothesis above is met by a concrete, non-trivial object ======================== *)
Definition ex_dd : dd := mkdd 16484 7 310 16.            (* a special (linked) descriptor *)
Example ex_dd_ok : dd_ok ex_dd /\ p_dd (dd_encode ex_dd ++ [9]) = Some (ex_dd, [9]).
Proof. split; [unfold dd_ok, u16, i32; simpl; repeat split; try discriminate; reflexivity | vm_compute; reflexivity]. Qed.

Definition ex_vh : vh :=
  mkvh 0 3 5 [22; 21] [2; 3] [0; 2] [1; 3] [[97; 97]; [98; 98]] [118; 110] [99] 0 0 4 0 1
       [mkva (-1) 1962 14].
Example ex_vh_ok : vh_ok ex_vh /\ parse_vh (vh_encode ex_vh) = Some ex_vh.
Proof.
  split; [|vm_compute; reflexivity].
  unfold vh_ok, ex_vh, strs_ok, vattr_ok, u16, i16, i32, u32, zlen; simpl.
  repeat split; try discriminate; try reflexivity; repeat constructor; try discriminate; try reflexivity;
    try (intro; discriminate).
Qed.

Definition ex_vg : vg := mkvg [1962; 1100] [13; 1] [103; 49] [99; 49] 0 0 1 [(1962, 16)] 4 0.
Example ex_vg_ok : vg_ok ex_vg /\ parse_vg (vg_encode ex_vg) = Some ex_vg.
Proof.
  split; [|vm_compute; reflexivity].
  unfold vg_ok, ex_vg, tagref_ok, u16, i32, u32, zlen; simpl.
  repeat split; try discriminate; try reflexivity; repeat constructor; try discriminate; try reflexivity;
    try (intro; discriminate).
Qed.

Definition ex_chunk : chunk_hdr :=
  mkkh 67 0 3 12 6 1 1962 10 1 0 [mkcd 1 4 2; mkcd 1 6 3] [255] (Some (6, 0, CDeflate 6)).
Example ex_chunk_ok : chunk_ok ex_chunk /\ p_special (chunk_encode ex_chunk ++ [1; 2]) = Some (SChunked ex_chunk, [1; 2]).
Proof.
  split; [|vm_compute; reflexivity].
  unfold chunk_ok, ex_chunk, cdim_ok, coder_ok, u16, i32, zlen; simpl.
  repeat split; try discriminate; try reflexivity; repeat constructor; try discriminate; try reflexivity.
Qed.

(** a two-block directory laid out in a 120-byte file: sync, re-parse, and the decidable checks *)
Definition ex_blocks : list ddblock :=
  [mkblk 4 2 60 [mkdd 30 1 34 10; mkdd 1100 1 44 5];
   mkblk 60 1 0 [mkdd 1100 2 78 7]].
Definition ex_img : image := sync_file (repeat 0 120%nat) ex_blocks.
Example ex_sync : parse_file ex_img = Some ex_blocks /\ wf_check (fun _ => None) (fun _ _ => None) ex_img = true.
Proof. split; vm_compute; reflexivity. Qed.
Example ex_sync_hyps :
  4 <= zlen (repeat 0 120%nat) /\ Forall blk_ok ex_blocks /\ Forall (inside (repeat 0 120%nat)) ex_blocks /\
  ForallOrdPairs apart (map blk_extent ex_blocks) /\ linked_from 4 ex_blocks.
Proof.
  split; [vm_compute; discriminate|]. split.
  - repeat constructor; unfold i16, i32, u16, zlen; simpl; try lia; try discriminate; try reflexivity.
  - split; [repeat constructor; vm_compute; discriminate|]. split.
    + simpl. repeat first [ solve [unfold apart; simpl; lia] | constructor ].
    + apply (lf_cons (mkblk 4 2 60 _)); [discriminate|]. apply (lf_last (mkblk 60 1 0 _)). reflexivity.
Qed.

(** a chain whose only block names itself as the next one: rejected for every fuel *)
Definition ex_cycle : image := magic ++ INT16ENCODE_bytes 1 ++ INT32ENCODE_bytes 4 ++ dd_encode (mkdd 1 0 (-1) (-1)).
Example ex_cycle_follow : follow 1 ex_cycle 4 = Some 4 /\ parse_file ex_cycle = None.
Proof. split; vm_compute; reflexivity. Qed.

(** a linked-block element of 14 bytes: first block 4 bytes (made from existing data), block length 3, tables of
    2 slots, one slot never written (a hole left by seeking) *)
Definition ex_pre : list (Z * list Z) := [(9, [2; 3])].
Definition ex_last : list Z := [0; 6].
Definition ex_blk (r : Z) : option (Z * Z) :=
  match r with 2 => Some (100, 4) | 3 => Some (110, 3) | 6 => Some (130, 3) | _ => None end.
Example ex_datainfo_hyps :
  Forall (fun t => fst t <> 0) ex_pre /\ first_ok ex_blk true (List.concat (map snd ex_pre) ++ ex_last) 4 3 /\
  extents_of_slots ex_blk 11 (block_slots (List.concat (map snd ex_pre) ++ ex_last) 0 4 3 true)
    = Some [(100, 4); (110, 3); (130, 1)].
Proof.
  split; [repeat constructor; discriminate|]. split; [intro; simpl; exists 100; reflexivity | vm_compute; reflexivity].
Qed.
Example ex_datainfo_run :
  hl_getdatainfo ex_blk (ex_pre ++ [(0, ex_last)]) 3 11 (Some 2) = Some (2, [(100, 4); (110, 3)]) /\
  hl_getdatainfo ex_blk (ex_pre ++ [(0, ex_last)]) 3 11 (Some 9) = Some (3, [(100, 4); (110, 3); (130, 1)]) /\
  hl_getdatainfo ex_blk (ex_pre ++ [(0, ex_last)]) 3 11 None = Some (3, []).
Proof. repeat split; vm_compute; reflexivity. Qed.

(** three palette descriptors, an array of two entries; two attributes of which one name is a prefix of the other *)
Example ex_palinfo :
  gr_getpalinfo [mkdd 201 1 100 768; mkdd 30 1 58 92; mkdd 301 1 100 768; mkdd 301 2 900 768] 2
  = (2, [mkdd 201 1 100 768; mkdd 301 1 100 768]).
Proof. vm_compute. reflexivity. Qed.
Example ex_attr_prefix :
  sd_attr_lookup [(attr_class, [117; 110; 105; 116; 115; 95; 108], 7); (attr_class, [117; 110; 105; 116; 115], 9)]
                 [117; 110; 105; 116; 115] = Some 9.
Proof. vm_compute. reflexivity. Qed.

(** attributes of the vdata (-1) and of fields 0 and 1 set in interleaved order: attribute 1 of field 0 is entry 3 *)
Example ex_vsattr :
  vs_getattdatainfo_entry [mkva 0 1962 5; mkva (-1) 1962 6; mkva 1 1962 7; mkva 0 1962 8] 0 1 = Some (mkva 0 1962 8).
Proof. vm_compute. reflexivity. Qed.

(** a 16-byte element reserved at offset 296 of a 298-byte file: after the flush it is inside the file *)
Example ex_hisync : in_image (hi_sync (repeat 0 298%nat) [] 312 true true) (mkdd 1107 1 296 16).
Proof. right. vm_compute. repeat split; discriminate. Qed.
