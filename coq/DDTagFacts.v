(** C12 -- facts about the generated tag macros BASETAG / SPECIALTAG / MKSPECIALTAG, by a sweep over all 65536 tags. *)
From Coq Require Import ZArith List Bool Lia.
Require Import H4.gen.Gen_DD H4.DDSpec.
Import ListNotations.
Local Open Scope Z_scope.

(* ------------------------------------------------------------------------------------------ *)
(** * Facts about the generated tag macros, by a sweep over all 65536 tags *)

Definition tag_facts (t : Z) : bool :=
  let b := BASETAG t in let sp := MKSPECIALTAG t in
  uint16 b && uint16 sp && (BASETAG b =? b) &&
  ((sp =? DFTAG_NULL) || ((BASETAG sp =? b) && negb (SPECIALTAG sp =? 0) && (MKSPECIALTAG sp =? sp))) &&
  ((SPECIALTAG t =? 0) && (b =? t) || negb (SPECIALTAG t =? 0) && (sp =? t) && negb (b =? t)) &&
  (SPECIALTAG b =? 0) &&
  (negb (t =? 0) || (b =? 0)) && (negb (t =? 1) || (b =? 1)) && (negb (t =? 108) || (b =? 108)) &&
  (negb (sp =? 0)) && (negb (sp =? 108)).

Fixpoint zlist (fuel : nat) (z : Z) : list Z :=
  match fuel with O => [] | S f => z :: zlist f (z + 1) end.

Lemma zlist_in : forall fuel z x, z <= x < z + Z.of_nat fuel -> In x (zlist fuel z).
Proof.
  induction fuel as [|f IH]; intros z x H; [lia|]. cbn [zlist]. destruct (Z.eq_dec x z) as [->|]; [left; auto|].
  right. apply IH. lia.
Qed.

Lemma tag_facts_sweep : forallb tag_facts (zlist (Z.to_nat 65536) 0) = true.
Proof. vm_compute. reflexivity. Qed.

Lemma tag_facts_all : forall t, uint16 t = true -> tag_facts t = true.
Proof.
  intros t Ht. unfold uint16 in Ht. apply andb_true_iff in Ht. destruct Ht as [H0 H1].
  apply Z.leb_le in H0. apply Z.leb_le in H1.
  apply (proj1 (forallb_forall _ _) tag_facts_sweep). apply zlist_in. lia.
Qed.

Ltac tag_facts_of t Hu :=
  let H := fresh "Hf" in
  pose proof (tag_facts_all t Hu) as H; unfold tag_facts in H; repeat rewrite andb_true_iff in H.

