(** C17 -- A crash while adding objects never damages what was already in the file.

    S = CrashSpec.v (byte image, atomic ordered writes, format reader [parse_file], observable [preserves]).
    M = CrashModel.v (file record, DD blocks, end-of-file allocator, descriptor caching, flush; emits the write log).
    Only statements here; proofs are in CrashProofs.v / CrashFlush.v / CrashReach.v / CrashBytes.v / CrashExamples.v. *)
From Coq Require Import ZArith List Bool.
Require Import H4.gen.Gen_Crash H4.CrashSpec H4.CrashModel H4.CrashBytes H4.CrashProofs H4.CrashFlush H4.CrashReach
  H4.CrashExamples.
Import ListNotations.
Local Open Scope Z_scope.

(** 1. FULL.  In a session with descriptor caching that creates new elements (any history of
    Hstartwrite/Hwrite/Hendaccess and appendable writes on new tag/refs, Hputelement under a reference number chosen by
    Hnewref, any number of new DD blocks) and possibly DELETES old ones first (Hdeldd: delete-then-append, as SDend does
    with its metadata; [op_ok1]), every write issued before the flush has an offset at or above the old end of file
    -- the maximum over all old DD blocks and all old elements, as HTPstart computes it -- and the end of file never
    decreases (space of a deleted element is not handed out again: see allocator_state_writers). *)
Theorem append_only_above_old_end :
  forall img bl fr ops fr1 pre,
    parse_file img = Some bl -> load img true = Some fr -> forallb op_ok1 ops = true ->
    run_ops fr ops = (fr1, pre) ->
    log_above (old_end bl) pre = true /\ old_end bl <= f_end fr1.
Proof. exact append_only_above_old_end_lemma. Qed.
Print Assumptions append_only_above_old_end.

(** 1a. FULL.  The other half of the first sentence, for EVERY prefix j of the pre-flush write log and for the wide
    class of sessions (creations under explicit or library-chosen refs, reads and copies, deletions, rewrites of the
    records of existing objects through descriptor reuse as Vdetach / VSdetach do them): if the process dies after any
    j of these writes, the file still opens and every previously stored object reads back unchanged.  (Writes at or
    above the old end cannot touch an old DD block or old data of a well-formed file.) *)
Theorem prefix_safe_before_flush :
  forall img bl fr ops fr1 pre j,
    wf_image img = true -> parse_file img = Some bl -> load img true = Some fr -> forallb op_ok1 ops = true ->
    run_ops fr ops = (fr1, pre) ->
    preserves img (apply_log img (firstn j pre)) = true.
Proof. exact prefix_safe_before_flush_lemma. Qed.
Print Assumptions prefix_safe_before_flush.

(** the only old element of the 36-byte example file is (30,1): the session rewrites its record through descriptor
    reuse, reads, adds an element under a library-chosen ref and copies one (a new DD block is needed): 7 writes,
    all at or above 36 *)
Example prefix_safe_before_flush_hypotheses_met :
  wf_image ex_img = true /\ parse_file ex_img = Some ex_bl /\ load ex_img true = Some ex_fr /\
  forallb op_ok1 [OpRewrite 30 1 3 [7; 8; 9]; OpGet; OpPutNew 800 2 [7; 7]; OpCopy 801 5 1 [9]] = true /\
  map fst (snd (run_ops ex_fr [OpRewrite 30 1 3 [7; 8; 9]; OpGet; OpPutNew 800 2 [7; 7]; OpCopy 801 5 1 [9]])) =
    [36; 39; 39; 41; 47; 72; 71].
Proof.
  destruct ex_hyps_theorem1 as (A & B & _ & _ & _ & _ & W).
  split; [exact W|]. split; [exact A|]. split; [exact B|]. vm_compute. split; reflexivity.
Qed.

Example append_only_above_old_end_with_delete_hypotheses_met :
  forallb op_ok1 [OpDel 30 1; OpPutNew 800 2 [7; 7]; OpPut 801 5 1 [9]] = true /\
  length (snd (run_ops ex_fr [OpDel 30 1; OpPutNew 800 2 [7; 7]; OpPut 801 5 1 [9]])) = 2%nat.
Proof. vm_compute. split; reflexivity. Qed.

Example append_only_above_old_end_hypotheses_met :
  parse_file ex_img = Some ex_bl /\ load ex_img true = Some ex_fr /\ forallb op_ok ex_ops = true /\
  run_ops ex_fr ex_ops = (ex_fr1, ex_pre) /\ (length ex_pre = 9)%nat /\ old_end ex_bl = 36 /\
  wf_image ex_img = true.
Proof. exact ex_hyps_theorem1. Qed.

(** 2. FULL.  For every well-formed existing file (wf_image: bytes in range, DD blocks pairwise disjoint and disjoint
    from element data), every append-only session of new-element operations with caching on whose end of file stays
    below 2^31, and EVERY prefix k of the writes the flush (HIsync: HTPsync, HIextend_file) issues: the image
    consisting of the old bytes, all pre-flush writes and the first k flush writes still opens (the descriptor chain
    parses) and every previously stored object is intact (its descriptor is listed, its bytes are unchanged). *)
Theorem prefix_safe_flush :
  forall img bl fr ops fr1 pre k,
    wf_image img = true -> parse_file img = Some bl -> load img true = Some fr -> forallb op_ok ops = true ->
    run_ops fr ops = (fr1, pre) -> f_end fr1 < 2147483648 ->
    preserves img (apply_log img (pre ++ firstn k (snd (sync fr1)))) = true.
Proof. exact prefix_safe_flush_full. Qed.
Print Assumptions prefix_safe_flush.

(** 2a. FULL.  The invariant behind it: every such session reaches, at the start of the flush, a state in which each
    DD block has a disk version and a memory version that are compatible (same place and size, old descriptors
    kept, only NIL slots filled, the disk next-offset equal to memory's or 0), memory versions are linked, block
    regions are pairwise disjoint and disjoint from old data, everything lies below f_end_off (induction over the
    history: raising f_end_off, writes above everything stored, filling a NIL slot, creating a DD block). *)
Theorem run_ops_reaches_flush_state :
  forall img bl fr ops fr1 pre,
    wf_image img = true -> parse_file img = Some bl -> load img true = Some fr -> forallb op_ok ops = true ->
    run_ops fr ops = (fr1, pre) -> f_end fr1 < 2147483648 ->
    exists T, flush_state img bl (apply_log img pre) fr1 T.
Proof. exact run_ops_reaches_flush_state_lemma. Qed.
Print Assumptions run_ops_reaches_flush_state.

(** 2b. FULL.  From such a state ANY prefix of the flush is safe; the proof does not use the order of the flush's
    writes (each header / DD-list / extension write keeps the image readable on its own). *)
Theorem prefix_safe_flush_from_state :
  forall img0 bl0 pre fr T k,
    flush_state img0 bl0 (apply_log img0 pre) fr T ->
    preserves img0 (apply_log img0 (pre ++ firstn k (snd (sync fr)))) = true.
Proof. exact prefix_safe_flush_lemma. Qed.
Print Assumptions prefix_safe_flush_from_state.

(** the hypotheses are met by a concrete non-trivial session: a 36-byte well-formed file with one element and one
    NIL slot; four new elements, the slot filled and TWO new DD blocks created; 9 writes before the flush, 7 inside *)
Example prefix_safe_flush_hypotheses_met :
  wf_image ex_img = true /\ parse_file ex_img = Some ex_bl /\ load ex_img true = Some ex_fr /\
  forallb op_ok ex_ops = true /\ run_ops ex_fr ex_ops = (ex_fr1, ex_pre) /\ f_end ex_fr1 < 2147483648 /\
  snd (sync ex_fr1) = ex_flush /\ (length ex_flush = 7)%nat /\ (length (f_blocks ex_fr1) = 3)%nat /\
  flush_state ex_img ex_bl (apply_log ex_img ex_pre) ex_fr1 (mk_T ex_bl (map m_blk (f_blocks ex_fr1))).
Proof.
  destruct ex_hyps_theorem1 as (A & B & C & D & _ & _ & W). destruct ex_flush_shape as (F1 & F2 & F3).
  split; [exact W|]. split; [exact A|]. split; [exact B|]. split; [exact C|]. split; [exact D|].
  split; [vm_compute; reflexivity|]. split; [exact F1|]. split; [exact F2|]. split; [exact F3|exact ex_flush_state].
Qed.

(** 3. FULL.  Round trip of the DD-block writer (header + DD list, as HTInew_dd_block / HTPsync emit them) and the
    format reader, at any offset of any image. *)
Theorem dd_block_roundtrip :
  forall img b, blk_in_range b ->
    read_block (write_at (write_at img (b_off b) (enc_hdr (b_ndds b) (b_next b))) (b_off b + hdr_sz) (enc_dds (b_dds b)))
               (b_off b) = Some b.
Proof. exact dd_block_roundtrip_lemma. Qed.
Print Assumptions dd_block_roundtrip.

Example dd_block_roundtrip_hypotheses_met :
  blk_in_range (mkblock 36 2 74 [mkdd 800 2 69 2; nil_dd]).
Proof. unfold blk_in_range, nil_dd. simpl. repeat split; try apply Z.leb_le; try apply Z.ltb_lt; try reflexivity;
  repeat constructor; unfold dd_in_range; simpl; repeat split; try apply Z.leb_le; try apply Z.ltb_lt; reflexivity. Qed.

(** 4. FULL (tie to the sources).  The control skeletons the model was written against are the ones of the current
    hfile.c / hfiledd.c (regenerated into gen/Gen_Crash.v on every run): which writes exist, in which order, under
    which cache test. *)
Require Coq.Strings.String.
Import Coq.Strings.String.StringSyntax.
Local Open Scope string_scope.
Theorem model_follows_sources :
  HTInew_dd_block_skel =
    ["HPgetdiskblock(file_rec,2+4+(ndds*12),(!0))"; "if(file_rec->cache)"; "HP_write(file_rec,ddhead,2+4)";
     "HP_write(file_rec,tbuf,ndds*12)"; "if(file_rec->cache)"; "else"; "else"; "HPseek(file_rec,offset)";
     "HP_write(file_rec,ddhead,4)"] /\
  HTPsync_skel =
    ["if(block->dirty==(!0))"; "HPseek(file_rec,block->myoffset)"; "HP_write(file_rec,ddhead,2+4)";
     "HP_write(file_rec,tbuf,ndds*12)"] /\
  HTIupdate_dd_skel = ["if(file_rec->cache)"; "else"; "HPseek(file_rec,offset)"; "HP_write(file_rec,tbuf,12)"] /\
  HPgetdiskblock_skel =
    ["if(block_size>0)"; "if(file_rec->cache)"; "else"; "HPseek(file_rec,ret_value+block_size-1)";
     "HP_write(file_rec,&temp,1)"; "if(moveto==(!0))"; "HPseek(file_rec,ret_value)"] /\
  HIsync_skel =
    ["if(file_rec->cache&&file_rec->dirty)"; "if(file_rec->dirty&0x01)"; "HTPsync(file_rec)";
     "if(file_rec->dirty&0x02)"; "HIextend_file(file_rec)"] /\
  HIextend_file_skel = ["HPseek(file_rec,file_rec->f_end_off)"; "HP_write(file_rec,&temp,1)"] /\
  HTPcreate_skel =
    ["HTIfind_dd(file_rec,tag,ref,&dd_ptr,1)"; "HTIfind_dd(file_rec,(uint16)1,(uint16)0,&dd_ptr,1)";
     "HTInew_dd_block(file_rec)"; "else"; "HTIupdate_dd(file_rec,dd_ptr)"] /\
  (forall a b, getdiskblock_mark_off a b = a + b - 1 /\ getdiskblock_advance b = b /\ newblock_size b = 6 + b * 12 /\
     newblock_end a b = a + 6 + b * 12 /\ prev_next_field_off a = a + 2 /\ dd_disk_off a b = a + 6 + b * 12 /\
     start_block_end a b = a + 6 + b * 12).
Proof.
  exact (conj skel_HTInew_dd_block (conj skel_HTPsync (conj skel_HTIupdate_dd (conj skel_HPgetdiskblock
        (conj skel_HIsync (conj skel_HIextend_file (conj skel_HTPcreate exprs_sources))))))).
Qed.
Print Assumptions model_follows_sources.

(** 5. FULL (tie, round 2).  The allocator state has exactly the writers the model knows: every assignment to
    f_end_off and to maxref in hfile.c / hfiledd.c (regenerated census), HPfreediskblock releases nothing, Hdeldd /
    HTPdelete / Hnewref have the modelled skeletons, and every forward walk of HTIfind_dd covers ALL DD blocks
    (outer loop over the block list, index reset before the next block); Hnewref searches every candidate from the head
    of the DD list; Hread extends the file over reserved space first; the raw stream macros are used only inside
    HPseek / HP_write / HP_read (and the magic-number check), which keep the recorded position. *)
Theorem allocator_state_writers :
  f_end_off_writers =
    ["Hwrite: file_rec->f_end_off=file_rec->f_cur_off";
     "HPgetdiskblock: file_rec->f_end_off+=block_size";
     "HTPstart: file_rec->f_end_off=end_off";
     "HTPinit: file_rec->f_end_off=block->myoffset+(NDDS_SZ+OFFSET_SZ)+(block->ndds*DD_SZ)";
     "HTInew_dd_block: file_rec->f_end_off=block->myoffset+(NDDS_SZ+OFFSET_SZ)+(block->ndds*DD_SZ)";
     "HTIupdate_dd: file_rec->f_end_off=dd_ptr->offset+dd_ptr->length"] /\
  maxref_writers =
    ["Hopen: file_rec->maxref=0"; "Hstartaccess: file_rec->maxref=new_ref"; "HTPstart: file_rec->maxref=0";
     "HTPstart: file_rec->maxref=curr_dd_ptr->ref"; "HTPinit: file_rec->maxref=0"; "HTPcreate: file_rec->maxref=ref";
     "Hnewref: ++(file_rec->maxref)"] /\
  HPfreediskblock_skel = [] /\
  Hdeldd_skel = ["HTPselect(file_rec,tag,ref)"; "HTPdelete(ddid)"] /\
  HTPdelete_skel =
    ["HPfreediskblock(file_rec,dd_ptr->offset,dd_ptr->length)"; "HTIunregister_tag_ref(file_rec,dd_ptr)";
     "HTIupdate_dd(file_rec,dd_ptr)"] /\
  Hnewref_skel =
    ["if(file_rec->maxref<((uint16)65535))"; "ret_value=++(file_rec->maxref);"; "else";
     "for(i_ref=1;i_ref<=(uint32)((uint16)65535);i_ref++)"; "dd_t*dd_ptr=((void*)0);";
     "HTIfind_dd(file_rec,(uint16)0,ref,&dd_ptr,1)"; "ret_value=ref;"; "break;"] /\
  raw_stream_users =
    ["HIvalid_magic: HI_SEEK("; "HIvalid_magic: HI_READ("; "HP_read: HI_READ("; "HPseek: HI_SEEK("; "HP_write: HI_WRITE("] /\
  Hread_skel =
    ["if(file_rec->cache&&(file_rec->dirty&0x02))"; "HIextend_file(file_rec)"; "file_rec->dirty&=~0x02;";
     "HPseek(file_rec,access_rec->posn+data_off)"; "HP_read(file_rec,data,length)"] /\
  HP_write_skel =
    ["if(file_rec->last_op==H4_OP_READ||file_rec->last_op==H4_OP_UNKNOWN)"; "file_rec->last_op=H4_OP_UNKNOWN;";
     "HPseek(file_rec,file_rec->f_cur_off)"; "file_rec->f_cur_off+=bytes;"; "file_rec->last_op=H4_OP_WRITE;"] /\
  HPseek_skel =
    ["if(file_rec->f_cur_off!=offset||file_rec->last_op==H4_OP_UNKNOWN)"; "file_rec->f_cur_off=offset;";
     "file_rec->last_op=H4_OP_SEEK;"] /\
  (List.length HTIfind_dd_skel = 47)%nat /\
  (List.length (filter (String.eqb "idx=0;") HTIfind_dd_skel) = 8)%nat /\
  (List.length (filter (String.eqb "for(;block;block=block->next)") HTIfind_dd_skel) = 6)%nat.
Proof.
  split; [exact census_f_end_off|]. split; [exact census_maxref|]. split; [exact skel_HPfreediskblock|].
  split; [exact skel_Hdeldd|]. split; [exact skel_HTPdelete|]. split; [exact skel_Hnewref|].
  split; [exact census_raw_stream|]. split; [exact skel_Hread|]. split; [exact skel_HP_write|]. split; [exact skel_HPseek|].
  rewrite skel_HTIfind_dd. repeat split; reflexivity.
Qed.
Print Assumptions allocator_state_writers.

(** 6. FULL.  Hnewref (model [newref]) never returns a reference number that a live descriptor of any DD block uses,
    provided maxref dominates the references in use (HTPstart, HTPcreate and Hnewref keep it so). *)
Theorem newref_fresh :
  forall fr, (forall d, In d (all_mem_dds fr) -> d_ref d <= f_maxref fr) ->
    fst (newref fr) = 0 \/ ref_used fr (fst (newref fr)) = false.
Proof. exact newref_fresh_lemma. Qed.
Print Assumptions newref_fresh.

Example newref_fresh_hypotheses_met :
  (forall d, In d (all_mem_dds ex_fr1) -> d_ref d <= f_maxref ex_fr1) /\ fst (newref ex_fr1) = 3.
Proof. split; [|vm_compute; reflexivity]. intros d Hd. vm_compute in Hd.
  repeat (destruct Hd as [<-|Hd]; [vm_compute; intro; discriminate|]). destruct Hd. Qed.

(** 7. FULL (tie, round 4).  How a session starts and how a refused request ends: Hopen reads the descriptors of an
    existing file for every access mode except exactly DFACC_CREATE and creates (truncates) only for that mode or for
    a file that did not exist; Hdupdd goes through HTPcreate, which (model_follows_sources) refuses a tag/ref in use
    BEFORE claiming a descriptor slot, so a refused request leaves the descriptor blocks untouched. *)
Theorem session_entry_follows_sources :
  Hopen_skel =
    ["if(!path||((acc_mode&7)!=acc_mode))"; "HIget_filerec_node(path)"; "if(acc_mode==4)";
     "if((acc_mode&2)&&!(file_rec->access&2))"; "else"; "if(acc_mode!=4)"; "if((acc_mode&2)&&(*__errno_location())==2)";
     "else"; "else"; "HTPstart(file_rec)"; "if(acc_mode==4||new_file)"; "else"; "HTPinit(file_rec,ndds)"; "else"] /\
  Hdupdd_skel =
    ["HTPselect(file_rec,old_tag,old_ref)"; "HTPcreate(file_rec,tag,ref)";
     "HTPinquire(old_dd,((void*)0),((void*)0),&old_off,&old_len)"; "HTPupdate(new_dd,old_off,old_len)"] /\
  (forall fr t r ot orf, has_dd fr t r = true -> run_op fr (OpDup t r ot orf) = (fr, []) \/
                         snd (run_op fr (OpDup t r ot orf)) = []).
Proof. exact session_entry_lemma. Qed.
Print Assumptions session_entry_follows_sources.

Example session_entry_refused_dup_hypotheses_met :
  has_dd ex_fr 30 1 = true /\ run_op ex_fr (OpDup 30 1 30 1) = (ex_fr, []).
Proof. vm_compute. split; reflexivity. Qed.
