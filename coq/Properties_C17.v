(** C17 -- placeholder until the proofs land (replaced in the next commit). *)
Require Import H4.CrashSpec H4.CrashModel.
