(** C18 -- specification S of hrepack: the canonical content tree of a file, storage layouts, structured repacking
    requests, and what a request demands of the output ("the requested layout where applicable").
    Total computable definitions only; proofs are in RepackProofs.v. *)
From Coq Require Import ZArith List Bool.
Require Import H4.gen.Gen_Repack.
Import ListNotations.
Local Open Scope Z_scope.

(** Strings are lists of character codes. *)
Definition str := list Z.

Fixpoint str_eqb (a b : str) : bool :=
  match a, b with
  | [], [] => true
  | x :: a', y :: b' => (x =? y) && str_eqb a' b'
  | _, _ => false
  end.

(** * Content tree

    A file is a tree: the root (file attributes, file annotations, lone palettes), vgroups, and the leaves SDS / GR
    image / Vdata.  [content] of a node is an opaque canonical encoding of everything the property calls content
    (type, dimensions, attributes, dimension names and scales, palette, annotations, data values); the harness
    computes it through the public API.  [objinfo] is what is *not* content: the storage layout and the facts the
    layout decision depends on. *)
Inductive kind := KRoot | KVg | KSds | KGr | KVs.

(** compression type (a COMP_CODE value) with its parameter (skipping size / deflate level, 0 otherwise); chunk lengths
    if chunked; unlimited first dimension (a storage property: hrepack turns a record variable into a fixed-size
    one when it has to compress it). *)
Record layout := { l_comp : Z; l_info : Z; l_chunk : option (list Z); l_rec : bool }.

Record objinfo := { o_empty : bool; o_rank : Z; o_bytes : Z; o_lay : layout }.

Inductive node := Node (k : kind) (name : str) (content : list Z) (info : objinfo) (children : list node).

Inductive cnode := CNode (k : kind) (name : str) (content : list Z) (children : list cnode).

Fixpoint content_of (t : node) : cnode :=
  match t with Node k n c _ ch => CNode k n c (map content_of ch) end.

(** * Requests (the options, already structured) *)
Record comp_entry := { ce_names : list str; ce_type : Z; ce_info : Z }.
Record chunk_entry := { ke_names : list str; ke_rank : Z; ke_lens : list Z }.   (* rank -2 = NONE *)
Inductive entry := ET (e : comp_entry) | EC (e : chunk_entry).

Definition star : str := [42].

Definition mentions (p : str) (names : list str) : bool :=
  existsb (str_eqb p) names || existsb (str_eqb star) names.

(** the request in force for path [p]: the last -t (resp. -c) option that names [p] or "*" *)
Fixpoint req_comp (es : list entry) (p : str) (acc : option (Z * Z)) : option (Z * Z) :=
  match es with
  | [] => acc
  | ET e :: r => req_comp r p (if mentions p (ce_names e) then Some (ce_type e, ce_info e) else acc)
  | EC _ :: r => req_comp r p acc
  end.

Fixpoint req_chunk (es : list entry) (p : str) (acc : option (Z * list Z)) : option (Z * list Z) :=
  match es with
  | [] => acc
  | EC e :: r => req_chunk r p (if mentions p (ke_names e) then Some (ke_rank e, ke_lens e) else acc)
  | ET _ :: r => req_chunk r p acc
  end.

(** was [p] named explicitly (not only through "*") by some option?  hrepack's size threshold is applied to chunking
    only for explicitly named objects *)
Fixpoint named (es : list entry) (p : str) : bool :=
  match es with
  | [] => false
  | ET e :: r => existsb (str_eqb p) (ce_names e) || named r p
  | EC e :: r => existsb (str_eqb p) (ke_names e) || named r p
  end.

(** compression parameter as it can be observed on a stored object *)
Definition obs_info (t i : Z) : Z :=
  if (t =? COMP_CODE_SKPHUFF) || (t =? COMP_CODE_DEFLATE) then i else 0.

(** lossless coders hrepack can be asked for (JPEG is lossy and outside the property; SZIP is not built) *)
Definition lossless_request (t : Z) : bool :=
  (t =? COMP_CODE_NONE) || (t =? COMP_CODE_RLE) || (t =? COMP_CODE_SKPHUFF) || (t =? COMP_CODE_DEFLATE).

(** * When a request is applicable, and what it demands

    A compression request applies to a non-empty SDS or image of at least [threshold] bytes.
    A chunking request (lengths) applies to a non-empty object of the same rank, of at least [threshold] bytes when
    the object is named explicitly, that does not stay a record variable (an unlimited dimension cannot be
    chunked; it stays unlimited exactly when the resulting compression is "none").
    "NONE" (unchunk) applies to every non-empty object. *)
Definition comp_applicable (th : Z) (k : kind) (o : objinfo) (t : Z) : bool :=
  match k with
  | KSds | KGr => negb (o_empty o) && negb (o_bytes o <? th) && lossless_request t
  | _ => false
  end.

(** the compression the output will have, as far as the specification can tell: the applicable request, else unknown *)
Definition expect_comp (es : list entry) (th : Z) (k : kind) (p : str) (o : objinfo) : option (Z * Z) :=
  match req_comp es p None with
  | Some (t, i) => if comp_applicable th k o t then Some (t, obs_info t i) else None
  | None => None
  end.

Definition stays_record (es : list entry) (th : Z) (k : kind) (p : str) (o : objinfo) : option bool :=
  if negb (l_rec (o_lay o)) then Some false
  else match req_comp es p None with
       | Some (t, _) => if comp_applicable th k o t then Some (t <=? COMP_CODE_NONE) else None
       | None => None
       end.

Inductive chunk_expect := KeepUnknown | MustChunk (lens : list Z) | MustNotChunk.

Definition expect_chunk (es : list entry) (th : Z) (k : kind) (p : str) (o : objinfo) : chunk_expect :=
  match k with
  | KSds | KGr =>
      if o_empty o then KeepUnknown
      else match req_chunk es p None with
           | None => KeepUnknown
           | Some (r, lens) =>
               if named es p && (o_bytes o <? th) then KeepUnknown
               else if r =? -2 then MustNotChunk
               else if negb ((r =? o_rank o) && (0 <? r)) then KeepUnknown
               else match stays_record es th k p o with
                    | Some false => MustChunk (firstn (Z.to_nat r) lens)
                    | _ => KeepUnknown
                    end
           end
  | _ => KeepUnknown
  end.

(** Does an observed output layout meet the specification's demands? *)
Definition list_eqb (a b : list Z) : bool := str_eqb a b.

Definition meets (es : list entry) (th : Z) (k : kind) (p : str) (o : objinfo) (out : layout) : bool :=
  (match expect_comp es th k p o with
   | Some (t, i) => (l_comp out =? t) && (l_info out =? i)
   | None => true
   end) &&
  (match expect_chunk es th k p o with
   | KeepUnknown => true
   | MustChunk lens => match l_chunk out with Some l => list_eqb l lens | None => false end
   | MustNotChunk => match l_chunk out with Some _ => false | None => true end
   end).

(** * The specification of repacking itself: the same tree, every object keeping its content, with some layout that
    meets the request.  [spec_repack] is parameterised by the layout choice [f]; any choice preserves content. *)
Definition path_join (prefix : option str) (name : str) : str :=
  match prefix with None => name | Some p => p ++ [47] ++ name end.

Fixpoint map_layout (f : kind -> str -> objinfo -> objinfo) (prefix : option str) (t : node) : node :=
  match t with
  | Node k n c o ch =>
      match k with
      | KRoot => Node k n c o (map (map_layout f None) ch)
      | _ => let p := path_join prefix n in Node k n c (f k p o) (map (map_layout f (Some p)) ch)
      end
  end.
