(** C04 -- implementation model M of the chunk index arithmetic of hdf/src/hchunks.c.
    Every integer expression comes from coq/gen/Gen_Chunk.v (regenerated from the C source on every run);
    only the loop/branch skeleton is written by hand (loop headers are pinned by [skeleton_headers] in
    ChunkProofs.v; the skeleton is tied to the code by the function-level correspondence).
    Total computable definitions only. *)
From Coq Require Import ZArith List Bool String.
Require Import H4.gen.Gen_Chunk.
Import ListNotations.
Local Open Scope Z_scope.

(** DIM_REC (the fields the arithmetic uses) *)
Record dimrec := mkdim { d_len : Z; c_len : Z; n_chunks : Z; last_len : Z }.

(** HMCcreate / HMCIstaccess: num_chunks = dim/chunk (+1 if there is a remainder), last_chunk_length = the
    remainder, or chunk_length when it divides.  (hand-modelled, C integer division) *)
Definition mk_dim (d c : Z) : dimrec :=
  let odd := Z.rem d c in
  mkdim d c (if odd =? 0 then Z.quot d c else Z.quot d c + 1) (if odd =? 0 then c else odd).

Definition truthy (z : Z) : bool := negb (z =? 0).

(** The C loops run from the last (fastest) dimension to the first; the models work on the reversed
    dimension list [rdd] (fastest first) and reverse the results back. *)

(** update_chunk_indices_seek: for (i = ndims-1; i >= 0; i--) { sbi[i]=..; spb[i]=..; stmp = stmp / dim_length } *)
Fixpoint ucis_rev (rdd : list dimrec) (stmp : Z) : list (Z * Z) :=
  match rdd with
  | [] => []
  | d :: r => (update_chunk_indices_seek_q_sbi_i_0 (c_len d) (d_len d) stmp,
               update_chunk_indices_seek_q_spb_i_0 (c_len d) (d_len d) stmp)
              :: ucis_rev r (update_chunk_indices_seek_q_stmp_1 (d_len d) stmp)
  end.

(** result: (sbi, spb) in C order *)
Definition update_chunk_indices_seek (sloc nt_size : Z) (dd : list dimrec) : list Z * list Z :=
  let l := rev (ucis_rev (rev dd) (update_chunk_indices_seek_q_stmp_0 nt_size sloc)) in
  (map fst l, map snd l).

(** the common shape of calculate_chunk_num / calculate_seek_in_chunk / compute_array_to_seek:
      acc = v[ndims-1]; if (ndims > 1) { cnum = 1; for (j = ndims-2; j >= 0; j--) { cnum *= r[j+1]; acc += v[j]*cnum; } }
    on reversed lists: [prev_r] is the radix of the previous (faster) dimension *)
Section Accumulate.
  Variable cnum_step : Z -> Z -> Z.      (* generated: cnum *= radix_next *)
  Variable acc_step : Z -> Z -> Z -> Z.  (* hand-ordered wrapper: acc cnum v *)
  Fixpoint acc_loop (prev_r : Z) (rest : list (Z * Z)) (cnum acc : Z) : Z :=
    match rest with
    | [] => acc
    | (v, r) :: tl => let cnum' := cnum_step cnum prev_r in acc_loop r tl cnum' (acc_step acc cnum' v)
    end.
End Accumulate.

Definition accumulate (cnum_step : Z -> Z -> Z) (acc_step : Z -> Z -> Z -> Z) (init0 : Z -> Z) (cnum0 : Z)
           (ifnd : Z -> Z) (rv rr : list Z) : Z :=
  match combine rv rr with
  | [] => 0
  | (v0, r0) :: tl =>
      if truthy (ifnd (Z.of_nat (List.length rv))) then acc_loop cnum_step acc_step r0 tl cnum0 (init0 v0) else init0 v0
  end.

Definition calculate_chunk_num (sbi : list Z) (dd : list dimrec) : Z :=
  accumulate (fun cnum nxt => calculate_chunk_num_q_cnum_1 cnum nxt)
             (fun acc cnum v => calculate_chunk_num_q_chunk_num_1 acc cnum v)
             calculate_chunk_num_q_chunk_num_0 calculate_chunk_num_q_cnum_0 calculate_chunk_num_q_if_0
             (rev sbi) (rev (map n_chunks dd)).

Definition calculate_seek_in_chunk (nt_size : Z) (spb : list Z) (dd : list dimrec) : Z :=
  calculate_seek_in_chunk_q_chunk_seek_2
    (accumulate (fun cnum nxt => calculate_seek_in_chunk_q_cnum_1 nxt cnum)
                (fun acc cnum v => calculate_seek_in_chunk_q_chunk_seek_1 acc cnum v)
                calculate_seek_in_chunk_q_chunk_seek_0 calculate_seek_in_chunk_q_cnum_0 calculate_seek_in_chunk_q_if_0
                (rev spb) (rev (map c_len dd)))
    nt_size.

Definition compute_array_to_seek (nt_size : Z) (idx : list Z) (dd : list dimrec) : Z :=
  compute_array_to_seek_q_user_seek_2 nt_size
    (accumulate (fun cnum nxt => compute_array_to_seek_q_cnum_1 cnum nxt)
                (fun acc cnum v => compute_array_to_seek_q_user_seek_1 v cnum acc)
                compute_array_to_seek_q_user_seek_0 compute_array_to_seek_q_cnum_0 compute_array_to_seek_q_if_0
                (rev idx) (rev (map d_len dd))).

(** update_seek_pos_chunk: for (i = ndims-1; i >= 0; i--) { spb[i] = stmp % chunk_length; stmp /= chunk_length } *)
Fixpoint uspc_rev (rdd : list dimrec) (stmp : Z) : list Z :=
  match rdd with
  | [] => []
  | d :: r => update_seek_pos_chunk_q_spb_i_0 (c_len d) stmp :: uspc_rev r (update_seek_pos_chunk_q_stmp_1 (c_len d) stmp)
  end.
Definition update_seek_pos_chunk (chunk_seek nt_size : Z) (dd : list dimrec) : list Z :=
  rev (uspc_rev (rev dd) (update_seek_pos_chunk_q_stmp_0 chunk_seek nt_size)).

(** compute_chunk_to_array: for (j = 0; j < ndims; j++) *)
Fixpoint compute_chunk_to_array (ci ca : list Z) (dd : list dimrec) : list Z :=
  match ci, ca, dd with
  | i :: ci', a :: ca', d :: dd' =>
      let base := compute_chunk_to_array_q_array_indices_j_0 i (c_len d) in
      (if truthy (compute_chunk_to_array_q_if_0 i (n_chunks d))
       then compute_chunk_to_array_q_array_indices_j_1 base a (last_len d)
       else compute_chunk_to_array_q_array_indices_j_2 base a)
      :: compute_chunk_to_array ci' ca' dd'
  | _, _, _ => []
  end.

(** calculate_chunk_for_chunk: bytes that can be transferred to/from the current chunk in one piece *)
Definition calculate_chunk_for_chunk (nt_size len bytes_finished : Z) (sbi spb : list Z) (dd : list dimrec) : Z :=
  let sbi_last := last sbi 0 in
  let spb_last := last spb 0 in
  let d := last dd (mkdim 0 0 0 0) in
  if truthy (calculate_chunk_for_chunk_q_if_0 (n_chunks d) sbi_last) then
    if truthy (calculate_chunk_for_chunk_q_if_1 bytes_finished (last_len d) len nt_size spb_last)
    then calculate_chunk_for_chunk_q_chunk_size_0 bytes_finished len
    else calculate_chunk_for_chunk_q_chunk_size_1 (last_len d) nt_size spb_last
  else
    if truthy (calculate_chunk_for_chunk_q_if_2 bytes_finished (c_len d) len nt_size spb_last)
    then calculate_chunk_for_chunk_q_chunk_size_2 bytes_finished len
    else calculate_chunk_for_chunk_q_chunk_size_3 (c_len d) nt_size spb_last.

(** position -> (chunk number, byte offset inside the chunk): what HMCPread/HMCPwrite compute for every piece *)
Definition chunk_locate (nt_size : Z) (dd : list dimrec) (pos : Z) : Z * Z :=
  let (sbi, spb) := update_chunk_indices_seek pos nt_size dd in
  (calculate_chunk_num sbi dd, calculate_seek_in_chunk nt_size spb dd).

(** the piece length HMCPread/HMCPwrite use at position [pos] with [remaining] bytes still to transfer *)
Definition chunk_piece (nt_size : Z) (dd : list dimrec) (pos remaining : Z) : Z :=
  let (sbi, spb) := update_chunk_indices_seek pos nt_size dd in
  calculate_chunk_for_chunk nt_size remaining 0 sbi spb dd.

(** the position HMCreadChunk/HMCwriteChunk leave behind: origin -> user seek after a whole chunk *)
Definition chunk_end_posn (nt_size : Z) (dd : list dimrec) (origin : list Z) : Z :=
  let csize := fold_right Z.mul 1 (map c_len dd) * nt_size in
  compute_array_to_seek nt_size (compute_chunk_to_array origin (update_seek_pos_chunk csize nt_size dd) dd) dd.

(** the element stream over a chunk table, piece by piece, exactly as the while loops of HMCPwrite/HMCPread walk it
    (the cache is MCacheModel.v; here a chunk table is a function chunk number -> byte offset -> value, absent
    chunks being the fill page) *)
Definition ctable := Z -> Z -> Z.
Definition ct_set (t : ctable) (cn off v : Z) : ctable :=
  fun c o => if (c =? cn) && (o =? off) then v else t c o.

(** write/read ONE element of nt_size 1 "byte" per step: element-granular stream semantics *)
Definition chunk_write_elem (nt_size : Z) (dd : list dimrec) (t : ctable) (pos v : Z) : ctable :=
  let (cn, off) := chunk_locate nt_size dd pos in ct_set t cn off v.
Definition chunk_read_elem (nt_size : Z) (dd : list dimrec) (t : ctable) (pos : Z) : Z :=
  let (cn, off) := chunk_locate nt_size dd pos in t cn off.

(** test entry points for the function-level correspondence (lists in C order) *)
Definition fn_case (nt_size : Z) (dims cls : list Z) (pos len done_ : Z) : list Z :=
  let dd := map (fun p => mk_dim (fst p) (snd p)) (combine dims cls) in
  let (sbi, spb) := update_chunk_indices_seek pos nt_size dd in
  [calculate_chunk_num sbi dd; calculate_seek_in_chunk nt_size spb dd;
   calculate_chunk_for_chunk nt_size len done_ sbi spb dd] ++ sbi ++ spb.

Definition fn_case_chunk (nt_size : Z) (dims cls origin : list Z) : list Z :=
  let dd := map (fun p => mk_dim (fst p) (snd p)) (combine dims cls) in
  let csize := fold_right Z.mul 1 cls * nt_size in
  let spb := update_seek_pos_chunk csize nt_size dd in
  let ai := compute_chunk_to_array origin spb dd in
  [calculate_chunk_num origin dd; compute_array_to_seek nt_size ai dd] ++ spb ++ ai ++
  flat_map (fun d => [n_chunks d; last_len d]) dd.
