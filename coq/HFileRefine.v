(** C01 -- the contiguous path of hfile.c (HFileModel.v) refines the byte-array specification (EStoreSpec.v):
    a successful Hwrite turns the content of the element into exactly what the specification's [write_at]
    says (after the gap marker has settled to zero), whether it stays inside the element or appends in place at
    the end of the file; a gap skipped over by seeking reads as zeros because nothing beyond the end of the
    file has ever been written ([ZeroBeyond], an invariant of every history). *)
From Coq Require Import ZArith List Bool Lia.
From H4 Require Import HFileModel HFileProofs.
From H4 Require EStoreSpec.
Import ListNotations.
Local Open Scope Z_scope.

(** ---- peek, piecewise ---------------------------------------------------------- *)

Lemma peek_length m a n : length (peek m a n) = n.
Proof. unfold peek. now rewrite map_length, seq_length. Qed.

Lemma map_seq_shift (m : Z -> Z) : forall n a k,
  map (fun i => m (a + Z.of_nat i)) (seq k n) = peek m (a + Z.of_nat k) n.
Proof.
  unfold peek. induction n as [|n IH]; intros a k; [reflexivity|].
  cbn [seq map]. f_equal; [f_equal; lia|].
  rewrite (IH a (S k)). rewrite (IH (a + Z.of_nat k) 1%nat).
  apply map_ext. intros i. f_equal. lia.
Qed.

Lemma peek_app m a n1 n2 : peek m a (n1 + n2) = peek m a n1 ++ peek m (a + Z.of_nat n1) n2.
Proof.
  unfold peek at 1 2. rewrite seq_app, map_app. f_equal. cbn [Nat.add]. apply map_seq_shift.
Qed.

Lemma firstn_peek m a n k : (k <= n)%nat -> firstn k (peek m a n) = peek m a k.
Proof.
  intros H. replace n with (k + (n - k))%nat by lia. rewrite peek_app, firstn_app, peek_length.
  rewrite firstn_all2 by (rewrite peek_length; lia). rewrite Nat.sub_diag. cbn [firstn]. apply app_nil_r.
Qed.

Lemma skipn_peek m a n k : (k <= n)%nat -> skipn k (peek m a n) = peek m (a + Z.of_nat k) (n - k).
Proof.
  intros H. replace n with (k + (n - k))%nat at 1 by lia. rewrite peek_app, skipn_app, peek_length.
  rewrite skipn_all2 by (rewrite peek_length; lia). rewrite Nat.sub_diag. reflexivity.
Qed.

Lemma map_const_seq : forall n k, map (fun _ : nat => 0) (seq k n) = repeat 0 n.
Proof. induction n as [|n IH]; intros k; cbn; [reflexivity|]. now rewrite IH. Qed.

Lemma peek_zero m a n : (forall x, a <= x -> m x = 0) -> peek m a n = repeat 0 n.
Proof.
  intros H. rewrite <- (map_const_seq n 0). unfold peek. apply map_ext. intros i. apply H. lia.
Qed.

(** ---- nothing beyond the end of the file has ever been written ---------------------- *)

Definition ZeroBeyond (s : fs) : Prop := forall x, fend s <= x -> img s x = 0.

Lemma ZB_init e : ZeroBeyond (finit e).
Proof. intros x _. reflexivity. Qed.

Lemma ZB_write s k pos app bytes s' r :
  ZeroBeyond s -> 0 <= pos -> hwrite s k pos app bytes = (s', r) -> ZeroBeyond s'.
Proof.
  intros HZ Hp. unfold hwrite.
  destruct (dfind k (dds s)) as [d|]; [|intros Hinj; injection Hinj as <- _; exact HZ].
  destruct ((zlen bytes <=? 0) || (negb app && (dlen d <? zlen bytes + pos)));
    [intros Hinj; injection Hinj as <- _; exact HZ|].
  destruct (app && (dlen d <? zlen bytes + pos)).
  - destruct (Z.eqb_spec (dlen d + doff d) (fend s)) as [Eend|]; cbn [negb]; intros Hinj; injection Hinj as <- _;
      [|exact HZ].
    intros x Hx. cbn [fend img] in *. rewrite poke_outside by lia.
    destruct (Z.le_gt_cases pos (dlen d)) as [Hle|Hgt].
    + replace (Z.to_nat (pos - dlen d)) with 0%nat by lia. cbn [repeat poke]. apply HZ. lia.
    + rewrite poke_outside by (unfold zlen in *; rewrite repeat_length; lia). apply HZ. unfold zlen in *. lia.
  - intros Hinj; injection Hinj as <- _.
    intros x Hx. cbn [fend img] in *. rewrite poke_outside by lia. apply HZ. lia.
Qed.

Lemma ZB_step s o : ZeroBeyond s -> ZeroBeyond (fstep s o).
Proof.
  intros HZ. destruct o as [k len|n|k pos app bytes|k len|nk ok|k]; cbn [fstep].
  - unfold hcreate. destruct (dfind k (dds s)); [exact HZ|].
    destruct (Z.ltb_spec len 0); [exact HZ|]. cbn. intros x Hx. apply HZ. cbn in Hx. lia.
  - destruct (Z.ltb_spec n 0); [exact HZ|]. cbn. intros x Hx. apply HZ. cbn in Hx. lia.
  - destruct (Z.ltb_spec pos 0); [exact HZ|].
    destruct (hwrite s k pos app bytes) as [s' r] eqn:E. cbn [fst]. eapply ZB_write; eauto.
  - unfold htrunc. destruct (dfind k (dds s)) as [d|]; [|exact HZ].
    destruct ((len <? dlen d) && (0 <=? len)); exact HZ.
  - unfold hdup. destruct (dfind nk (dds s)); [exact HZ|]. destruct (dfind ok (dds s)); exact HZ.
  - unfold hdel. destruct (dfind k (dds s)); exact HZ.
Qed.

Theorem zero_beyond_end_lemma : forall ops e, ZeroBeyond (fold_left fstep ops (finit e)).
Proof.
  intros ops e. assert (H : ZeroBeyond (finit e)) by apply ZB_init.
  revert H. generalize (finit e). induction ops as [|o ops IH]; intros s H; cbn [fold_left]; [assumption|].
  apply IH. now apply ZB_step.
Qed.

(** ---- the specification's write, with the gap already settled to zero ------------------ *)

Definition write_at0 (data : list Z) (pos : Z) (bytes : list Z) : list Z :=
  let p := Z.to_nat pos in
  let padded := data ++ repeat 0 (p - length data) in
  firstn p padded ++ bytes ++ skipn (p + length bytes) padded.

Definition is_byte (b : Z) : Prop := 0 <= b < 256.

Lemma settle_bytes l : Forall is_byte l -> EStoreSpec.settle l = l.
Proof.
  unfold EStoreSpec.settle. induction 1 as [|b l Hb _ IH]; cbn [map]; [reflexivity|].
  rewrite IH. unfold is_byte in Hb.
  destruct (Z.eqb_spec b (-1)); [lia|]. destruct (Z.eqb_spec b (-2)); [lia|]. reflexivity.
Qed.

Lemma settle_gap n : EStoreSpec.settle (repeat (-1) n) = repeat 0 n.
Proof. unfold EStoreSpec.settle. induction n as [|n IH]; cbn; [reflexivity|]. now rewrite <- IH. Qed.

(** for byte-valued data the specification's result, once settled (close and reopen), is [write_at0] *)
Lemma settle_write_at data pos bytes : Forall is_byte data -> Forall is_byte bytes ->
  EStoreSpec.settle (EStoreSpec.write_at data pos bytes) = write_at0 data pos bytes.
Proof.
  intros Hd Hb. unfold EStoreSpec.write_at, write_at0.
  pose proof (settle_bytes _ Hd) as Sd. pose proof (settle_bytes _ Hb) as Sb.
  pose proof (settle_gap (Z.to_nat pos - length data)) as Sg.
  unfold EStoreSpec.settle in *.
  rewrite !map_app, <- firstn_map, <- skipn_map, !map_app, Sd, Sb, Sg. reflexivity.
Qed.

(** ---- the refinement ----------------------------------------------------------------- *)

Theorem contig_write_refines_lemma : forall s k pos app bytes s' n c,
  Inv s -> 0 <= pos -> hwrite s k pos app bytes = (s', WOk n) ->
  content s k = Some c ->
  content s' k = Some (write_at0 c pos bytes).
Proof.
  intros s k pos app bytes s' n c (He & Hr & Ho) Hp Hw Hc.
  unfold content in Hc. unfold hwrite in Hw.
  destruct (dfind k (dds s)) as [d|] eqn:Hd; [|discriminate].
  injection Hc as <-.
  destruct (dfind_in _ _ _ Hd) as [Hin Hk]. destruct (Hr d Hin) as (R1 & R2 & R3).
  destruct ((zlen bytes <=? 0) || (negb app && (dlen d <? zlen bytes + pos))) eqn:E1; [discriminate|].
  apply orb_false_iff in E1. destruct E1 as [En E1]. apply Z.leb_gt in En.
  unfold zlen in *. unfold write_at0. rewrite peek_length.
  set (p := Z.to_nat pos). set (lb := length bytes) in *. set (lc := Z.to_nat (dlen d)).
  assert (Hpp : Z.of_nat p = pos) by (unfold p; lia).
  assert (Hlc : Z.of_nat lc = dlen d) by (unfold lc; lia).
  destruct (app && (dlen d <? Z.of_nat lb + pos)) eqn:E2.
  - (* append in place at the end of the file; a gap is written out as zeros *)
    apply andb_true_iff in E2. destruct E2 as [-> E2]. apply Z.ltb_lt in E2.
    destruct (Z.eqb_spec (dlen d + doff d) (fend s)) as [Eend|]; cbn [negb] in Hw; [|discriminate].
    injection Hw as <- _. unfold content. cbn [dds img]. unfold dset. cbn [dfind dk]. rewrite key_eqb_refl.
    cbn [dlen doff]. f_equal.
    replace (Z.to_nat (pos + Z.of_nat lb)) with (p + lb)%nat by lia.
    rewrite peek_app. rewrite Hpp. unfold lb at 1. rewrite peek_poke.
    rewrite (skipn_all2 (n := (p + lb)%nat)) by (rewrite app_length, peek_length, repeat_length; lia).
    rewrite app_nil_r. f_equal.
    rewrite (peek_ext (poke (poke (img s) (doff d + dlen d) (repeat 0 (Z.to_nat (pos - dlen d)))) (doff d + pos) bytes)
                      (poke (img s) (doff d + dlen d) (repeat 0 (Z.to_nat (pos - dlen d)))))
      by (intros x Hx; apply poke_outside; lia).
    destruct (Nat.le_gt_cases p lc) as [Hle|Hgt].
    + replace (Z.to_nat (pos - dlen d)) with 0%nat by lia. replace (p - lc)%nat with 0%nat by lia.
      cbn [repeat poke]. rewrite app_nil_r. symmetry. now apply firstn_peek.
    + replace (Z.to_nat (pos - dlen d)) with (p - lc)%nat by lia.
      rewrite firstn_all2 by (rewrite app_length, peek_length, repeat_length; lia).
      assert (Hg : p = (lc + (p - lc))%nat) by lia.
      set (g := (p - lc)%nat) in *. clearbody g. rewrite Hg. rewrite peek_app. f_equal.
      * apply peek_ext. intros x Hx. apply poke_outside. lia.
      * rewrite Hlc. rewrite <- (repeat_length 0 g) at 2. apply peek_poke.
  - (* inside the element *)
    assert (Hfit : pos + Z.of_nat lb <= dlen d).
    { destruct app; cbn in E1, E2; [apply Z.ltb_ge in E2; lia | apply Z.ltb_ge in E1; lia]. }
    injection Hw as <- _. unfold content. cbn [dds img]. rewrite Hd. f_equal. fold lc.
    replace (p - lc)%nat with 0%nat by lia. cbn [repeat]. rewrite app_nil_r.
    rewrite firstn_peek by lia. rewrite skipn_peek by lia.
    replace lc with (p + (lb + (lc - (p + lb))))%nat at 1 by lia.
    rewrite !peek_app. rewrite Hpp.
    rewrite (peek_ext (poke (img s) (doff d + pos) bytes) (img s) (doff d) p)
      by (intros x Hx; apply poke_outside; lia).
    f_equal. unfold lb at 1. rewrite peek_poke. f_equal.
    replace (doff d + Z.of_nat (p + lb)) with (doff d + pos + Z.of_nat lb) by lia.
    apply peek_ext. intros x Hx. apply poke_outside. unfold zlen. subst lb. lia.
Qed.

(** the same through the specification's own functions, for byte-valued data *)
Theorem contig_write_refines_spec_lemma : forall s k pos app bytes s' n c,
  Inv s -> 0 <= pos -> Forall is_byte c -> Forall is_byte bytes ->
  hwrite s k pos app bytes = (s', WOk n) -> content s k = Some c ->
  content s' k = Some (EStoreSpec.settle (EStoreSpec.write_at c pos bytes)).
Proof.
  intros s k pos app bytes s' n c HI Hp Hc Hb Hw Hcont.
  rewrite settle_write_at by assumption. eapply contig_write_refines_lemma; eauto.
Qed.

(** for EVERY history of the contiguous path, from any initial end of file *)
Theorem contig_history_write_refines_lemma : forall ops e k pos app bytes s' n c,
  0 <= e -> 0 <= pos -> Forall is_byte c -> Forall is_byte bytes ->
  hwrite (fold_left fstep ops (finit e)) k pos app bytes = (s', WOk n) ->
  content (fold_left fstep ops (finit e)) k = Some c ->
  content s' k = Some (EStoreSpec.settle (EStoreSpec.write_at c pos bytes)).
Proof.
  intros ops e k pos app bytes s' n c He Hp Hc Hb Hw Hcont.
  eapply contig_write_refines_spec_lemma; eauto.
  now apply alloc_disjoint_lemma.
Qed.

(** Hread inside the element returns the specification's [read_at] *)
Theorem contig_read_refines_lemma : forall s k pos n c,
  content s k = Some c -> 0 <= pos -> 0 < n -> pos + n <= zlen c ->
  hread s k pos n = Some (EStoreSpec.read_at c pos n).
Proof.
  intros s k pos n c Hc Hp Hn Hfit. unfold content in Hc. unfold hread.
  destruct (dfind k (dds s)) as [d|]; [|discriminate]. injection Hc as <-.
  unfold zlen in Hfit. rewrite peek_length in Hfit.
  destruct (Z.ltb_spec n 0); [lia|]. destruct (Z.eqb_spec n 0); [lia|]. cbn [orb].
  destruct (Z.ltb_spec (dlen d) (n + pos)); [lia|].
  f_equal. unfold EStoreSpec.read_at. rewrite skipn_peek by lia. rewrite firstn_peek by lia.
  rewrite Z.max_r by lia. f_equal. lia.
Qed.

(** Htrunc keeps exactly the first [len] bytes *)
Theorem contig_trunc_refines_lemma : forall s k len s' c,
  htrunc s k len = Some s' -> content s k = Some c ->
  content s' k = Some (firstn (Z.to_nat len) c).
Proof.
  intros s k len s' c Ht Hc. unfold content in Hc. unfold htrunc in Ht.
  destruct (dfind k (dds s)) as [d|]; [|discriminate]. injection Hc as <-.
  destruct ((len <? dlen d) && (0 <=? len)) eqn:E; [|discriminate].
  apply andb_true_iff in E. destruct E as [E1 E2]. apply Z.ltb_lt in E1. apply Z.leb_le in E2.
  injection Ht as <-. unfold content. cbn [dds img]. unfold dset. cbn [dfind dk]. rewrite key_eqb_refl.
  cbn [doff dlen]. f_equal. symmetry. apply firstn_peek. lia.
Qed.

(** Hdupdd: the new descriptor shows the content of the old one *)
Theorem contig_dup_refines_lemma : forall s nk ok s',
  hdup s nk ok = Some s' -> content s' nk = content s ok /\ content s ok <> None.
Proof.
  intros s nk ok s' Hd. unfold hdup in Hd.
  destruct (dfind nk (dds s)); [discriminate|].
  destruct (dfind ok (dds s)) as [d|] eqn:E; [|discriminate].
  injection Hd as <-. unfold content. cbn [dds img]. unfold dset. cbn [dfind dk]. rewrite key_eqb_refl.
  cbn [doff dlen]. rewrite E. split; [reflexivity|discriminate].
Qed.
