(** C09 -- raster images and palettes: theorem statements (proofs in GRProofs.v).
    Model and specification: GRModel.v; address arithmetic of mfgr.c: gen/Gen_GR.v (regenerated each run). *)
From Coq Require Import List Arith Bool ZArith.
Import ListNotations.
Require Import H4.gen.Gen_GR H4.gen.Gen_Conv H4.GRModel H4.GRProofs.

(** Each of the three interlace index functions is a bijection between the (row, column, component)
    triples of an X x Y x nc buffer and [0, X*Y*nc), with inverse il_decode. *)
Theorem il_index_bijective : forall il X Y nc,
    (forall y x c, y < Y -> x < X -> c < nc -> il_index il X Y nc y x c < X * Y * nc) /\
    (forall y x c y' x' c', y < Y -> x < X -> c < nc -> y' < Y -> x' < X -> c' < nc ->
                            il_index il X Y nc y x c = il_index il X Y nc y' x' c' -> (y, x, c) = (y', x', c')) /\
    (forall q, q < X * Y * nc -> exists y x c, y < Y /\ x < X /\ c < nc /\ il_index il X Y nc y x c = q) /\
    (forall y x c, y < Y -> x < X -> c < nc -> il_decode il X Y nc (il_index il X Y nc y x c) = (y, x, c)).
Proof. exact il_index_bijective_lemma. Qed.
Print Assumptions il_index_bijective.

(** The pointer walk of GRIil_convert (initial pointers, per-pixel and per-line increments, loop bounds and
    wrap-around condition regenerated from mfgr.c) copies, in row / column / component order, exactly from
    byte offset cs * il_index inil to byte offset cs * il_index outil -- for all 3x3 interlace pairs, all
    dimensions, any component size cs, ncomp >= 1. *)
Theorem il_walk_eq_index : forall inil outil X Y nc cs,
    1 <= nc ->
    il_walk_trace inil outil X Y nc cs =
    map (fun t => let '(y, (x, c)) := t in (cs * il_index inil X Y nc y x c, cs * il_index outil X Y nc y x c))
        (list_prod (seq 0 Y) (list_prod (seq 0 X) (seq 0 nc))).
Proof. exact il_walk_eq_index_lemma. Qed.
Print Assumptions il_walk_eq_index.

(** GRIil_convert computes the closed-form permutation, whatever the output buffer contained. *)
Theorem il_convert_correct : forall (A : Type) (d : A) inil outil X Y nc cs (src dst : list A),
    1 <= nc -> 1 <= cs -> length src = X * Y * nc * cs -> length dst = X * Y * nc * cs ->
    il_convert_walk inil outil X Y nc cs src dst = il_convert_spec d inil outil X Y nc cs src.
Proof. intros A. exact (@il_convert_correct_lemma A). Qed.
Print Assumptions il_convert_correct.

(** Converting from interlace a to b and back is the identity on the buffer. *)
Theorem il_convert_inverse : forall (A : Type) a b X Y nc cs (buf t1 t2 : list A),
    1 <= nc -> 1 <= cs -> length buf = X * Y * nc * cs -> length t1 = X * Y * nc * cs -> length t2 = X * Y * nc * cs ->
    il_convert_walk b a X Y nc cs (il_convert_walk a b X Y nc cs buf t1) t2 = buf.
Proof. intros A. exact (@il_convert_inverse_lemma A). Qed.
Print Assumptions il_convert_inverse.

(** region_refines_image, read side (full): the Hseek/Hread stream of GRreadimage (whole image, solid block,
    strided; offsets regenerated from mfgr.c) returns, for every region inside the image, the pixels of the
    height x width array at the requested lattice points. *)
Theorem region_read_refines_image : forall (P : Type) (d : P) (e : list P) xdim ydim r,
    length e = xdim * ydim -> rgn_inside xdim ydim r = true ->
    gr_read_px e xdim ydim r = spec_read_px d e xdim r.
Proof. intros P. exact (@region_read_refines_lemma P). Qed.
Print Assumptions region_read_refines_image.

(** region_refines_image (full): for every image, every region inside it and every data buffer, the Hseek/Hwrite
    stream of GRwriteimage on an image that already has data (whole image; one seek+write per row of a solid
    block; one per pixel when sub-sampling; offsets regenerated from mfgr.c) produces exactly the
    height x width array in which the lattice points hold the data and every other pixel is unchanged; and
    GRreadimage returns the lattice pixels of the array. *)
Theorem region_refines_image : forall (P : Type) (d : P) (e data : list P) xdim ydim r (f : P),
    length e = xdim * ydim -> rgn_inside xdim ydim r = true -> length data = r_cx r * r_cy r ->
    gr_write_px (Some e) xdim ydim r f data = spec_write_px d e xdim ydim r data /\
    gr_read_px e xdim ydim r = spec_read_px d e xdim r.
Proof. exact region_refines_image_lemma. Qed.
Print Assumptions region_refines_image.

(** first_write_fills_image (full): the first write of a new image -- one sequential stream of leading fill
    lines, low block, rows with stride gaps, y-stride lines and high+low wrap-around, final high block and
    trailing lines, for the solid and the sub-sampling branch -- produces exactly the array that holds the data
    at the lattice points and the fill pixel everywhere else (never-written pixels equal the fill value).
    wr_trail_from_1 / wr_trail_to_1 exist only in the repaired source (DESIGN section 8 #7). *)
Theorem first_write_fills_image : forall (P : Type) (d f : P) (data : list P) xdim ydim r,
    rgn_inside xdim ydim r = true -> length data = r_cx r * r_cy r ->
    gr_write_px None xdim ydim r f data = spec_write_px d (repeat f (xdim * ydim)) xdim ydim r data.
Proof. intros P. exact (@first_write_fills_image_lemma P). Qed.
Print Assumptions first_write_fills_image.

(** shape of that stream: it never seeks and has exactly xdim*ydim pixels *)
Theorem first_write_stream_shape : forall (P : Type) (fl : list P) xdim ydim r (data : list P),
    length fl = xdim -> rgn_inside xdim ydim r = true -> whole_image xdim ydim r = false ->
    length data = r_cx r * r_cy r ->
    let ops := gr_write_ops true xdim ydim 1 r fl data in
    noseekb ops = true /\ wlen ops = xdim * ydim /\ run_wops ops [] 0 = (wdata ops, xdim * ydim).
Proof. intros P. exact (@first_write_covers_image_lemma P). Qed.
Print Assumptions first_write_stream_shape.

(** read after write (consequence used by the property text): what GRreadimage returns after a region write
    is the written data on the common lattice points *)
Theorem read_after_write_same_region : forall (P : Type) (d : P) (e data : list P) xdim ydim r (f : P),
    length e = xdim * ydim -> rgn_inside xdim ydim r = true -> length data = r_cx r * r_cy r ->
    gr_read_px (gr_write_px (Some e) xdim ydim r f data) xdim ydim r =
    spec_read_px d (spec_write_px d e xdim ydim r data) xdim r.
Proof. exact read_after_write_lemma. Qed.
Print Assumptions read_after_write_same_region.

(** Palettes: GRreadlut with a requested interlace returns the closed-form permutation of the 256 x 3 entries
    written (geometry 1 x nentries regenerated from GRreadlut); pixel and line interlace coincide. *)
Theorem lut_read_correct : forall (A : Type) (d : A) lil (l dst : list A),
    length l = 768 -> length dst = 768 ->
    il_convert_walk ILpixel lil (lut_dimX 256) (lut_dimY 256) 3 1 l dst = il_convert_spec d ILpixel lil 1 256 3 1 l.
Proof. intros A. exact (@lut_read_lemma A). Qed.
Print Assumptions lut_read_correct.

(** Old-style RLE rasters (dfrle.c; run window, run threshold, literal flush limit, flag and mask regenerated from
    the source): DFCIunrle (DFCIrle row) = row for EVERY byte row, and row-by-row for every image
    (DFputcomp / DFgetcomp as used by hcompri.c when such a raster is read through GRreadimage). *)
Theorem dfrle_roundtrip : forall row : list nat, dfrle_decode (dfrle_encode row) = row.
Proof. exact dfrle_roundtrip_lemma. Qed.
Print Assumptions dfrle_roundtrip.

Theorem rle_image_roundtrip : forall w h bytes,
    length bytes = w * h -> rle_image_decode (rle_image_encode w h bytes) = bytes.
Proof. exact rle_image_roundtrip_lemma. Qed.
Print Assumptions rle_image_roundtrip.

(** Image metadata persistence, number type: for each of the 20 number types of the domain (bound in the
    statement: gr_number_types = 10 standard + 10 DFNT_LITEND) the type is known to DFKNTsize (selector
    regenerated from dfconv.c) and an image created with it comes back from GRend / reopen -- DFTAG_NT record
    bytes regenerated from GRIupdatemeta, read back as GRIget_image_list does -- with the same number type, also
    after a second save, and with the same byte order of its components. *)
Theorem nt_persists_reopen : forall nt,
    In nt gr_number_types ->
    (exists cs, nt_size nt = Some cs /\ 1 <= cs /\
                nt_swapped (fst (reopen_nt nt DFNTF_HDFDEFAULT)) cs = nt_swapped nt cs) /\
    fst (reopen_nt nt DFNTF_HDFDEFAULT) = nt /\
    fst (reopen_nt (fst (reopen_nt nt DFNTF_HDFDEFAULT)) (snd (reopen_nt nt DFNTF_HDFDEFAULT))) = nt.
Proof. exact nt_persists_lemma. Qed.
Print Assumptions nt_persists_reopen.

(** ---- whole operations (deepening round): interlace conversion (pointer walk) + per-component number
    conversion (any enc/dec with dec (enc c) = c) + region engine refine the raster specification s_write /
    s_read for ALL regions inside the image, strides, the 3x3 interlaces, component counts and images ---- *)

(** GRwriteimage on an image with data ([Some l]) or a new image ([None]; never-written pixels = fill pixel) *)
Theorem image_write_refines : forall (C D : Type) (enc : C -> D) (dec : D -> C) (d0 : C),
    (forall c, dec (enc c) = c) ->
    forall (e : option (list (list D))) xdim ydim nc wil r (fillpx user : list C),
      1 <= nc -> rgn_inside xdim ydim r = true -> length user = r_cx r * r_cy r * nc ->
      (forall l, e = Some l -> length l = xdim * ydim) ->
      map (map dec) (m_write enc d0 e xdim ydim nc wil r fillpx user) =
      s_write d0 (match e with Some l => map (map dec) l | None => repeat fillpx (xdim * ydim) end)
              xdim ydim nc wil r user.
Proof. intros C D. exact (@image_write_refines_lemma C D). Qed.
Print Assumptions image_write_refines.

(** GRreadimage (strided reads of existing data included) *)
Theorem image_read_refines : forall (C D : Type) (enc : C -> D) (dec : D -> C) (d0 : C)
                                    (e : list (list D)) xdim ydim nc ril r,
    1 <= nc -> rgn_inside xdim ydim r = true -> length e = xdim * ydim ->
    (forall px, In px e -> length px = nc) ->
    m_read dec d0 e xdim ydim nc ril r = s_read d0 (map (map dec) e) xdim nc ril r.
Proof. intros C D. exact (@image_read_refines_lemma C D). Qed.
Print Assumptions image_read_refines.

(** GRreadimage of a never-written image: every requested pixel is the fill pixel, in the requested interlace *)
Theorem read_nodata_refines : forall (C : Type) (d0 : C) xdim ydim nc ril r (fillpx : list C),
    1 <= nc -> rgn_inside xdim ydim r = true -> length fillpx = nc ->
    m_read_nodata d0 nc ril r fillpx = s_read d0 (repeat fillpx (xdim * ydim)) xdim nc ril r.
Proof. intros C. exact (@read_nodata_refines_lemma C). Qed.
Print Assumptions read_nodata_refines.

(** GRwritechunk / GRreadchunk: interlace conversion over the chunk lengths and number conversion *)
Theorem chunk_write_refines : forall (C D : Type) (enc : C -> D) (dec : D -> C) (d0 : C),
    (forall c, dec (enc c) = c) ->
    forall (e : list (list D)) xdim ydim nc wil c0 c1 o0 o1 (user : list C),
      1 <= nc -> length user = c0 * c1 * nc ->
      map (map dec) (put_chunk [] e xdim ydim c0 c1 o0 o1
                               (chunk_px (enc d0) nc (c0 * c1) (map enc (pixbuf_of d0 wil c0 c1 nc user)))) =
      put_chunk [] (map (map dec) e) xdim ydim c0 c1 o0 o1 (user_pixels d0 wil c0 c1 nc user).
Proof. intros C D. exact (@chunk_write_refines_lemma C D). Qed.
Print Assumptions chunk_write_refines.

Theorem chunk_read_refines : forall (C D : Type) (dec : D -> C) (d0 : C)
                                    (e : list (list D)) xdim ydim nc ril c0 c1 o0 o1,
    1 <= nc -> chunk_inside xdim ydim c0 c1 o0 o1 = true -> length e = xdim * ydim ->
    (forall px, In px e -> length px = nc) ->
    let mem := map dec (concat (get_chunk [] e ydim c0 c1 o0 o1)) in
    (if il_eqb ril ILpixel then mem else il_convert_walk ILpixel ril c0 c1 nc 1 mem (repeat d0 (length mem))) =
    il_convert_spec d0 ILpixel ril c0 c1 nc 1 (concat (get_chunk [] (map (map dec) e) ydim c0 c1 o0 o1)).
Proof. intros C D. exact (@chunk_read_refines_lemma C D). Qed.
Print Assumptions chunk_read_refines.

(** History level, the functions the correspondence run executes: a new image is related to its specification
    (img_rel), every GRwriteimage the specification accepts is performed by the model and keeps the relation
    (invariant: element length, pixel lengths, fill length), and every GRreadimage returns the specified bytes.
    By induction this covers every sequence of region writes and region / strided reads, on written and
    never-written images, in any of the 3x3 interlace combinations. *)
Theorem img_rel_create : forall g il, 1 <= gnc g -> img_rel (m_create g il) (s_create g il).
Proof. exact img_rel_create_lemma. Qed.
Print Assumptions img_rel_create.

Theorem img_rel_reqil : forall m s il, img_rel m s -> img_rel (m_reqil m il) (s_reqil s il).
Proof. exact img_rel_reqil_lemma. Qed.
Print Assumptions img_rel_reqil.

Theorem sim_writeimage : forall m s r bytes s',
    img_rel m s -> s_writeimage s r bytes = Some s' ->
    exists m' tr, m_writeimage m r bytes = Some (m', tr) /\ img_rel m' s'.
Proof. exact sim_writeimage_lemma. Qed.
Print Assumptions sim_writeimage.

Theorem sim_readimage : forall m s r out,
    img_rel m s -> s_readimage s r = Some out -> exists tr, m_readimage m r = Some (out, tr).
Proof. exact sim_readimage_lemma. Qed.
Print Assumptions sim_readimage.

(** GRIget_image_list marks a compressed image of the file for the buffered driver: the code it compares
    GRIisspecial_type's result with is SPECIAL_COMP and GRIisspecial_type reports it (both regenerated from
    mfgr.c); without it region writes to such an image are refused (comp_write_refused) and sim_writeimage fails. *)
Theorem compressed_selected_is_buffered : selected_comp_buffered = true.
Proof. exact selected_comp_buffered_lemma. Qed.
Print Assumptions compressed_selected_is_buffered.

(** Non-vacuity and concrete instances. *)
Example walk_line_to_pixel :
  il_convert_walk ILline ILpixel 3 2 2 1 [1;2;3;4;5;6;7;8;9;10;11;12] (repeat 0 12)
  = [1;4;2;5;3;6;7;10;8;11;9;12].
Proof. vm_compute. reflexivity. Qed.
Example walk_comp_to_line_2byte :
  il_convert_walk ILcomp ILline 2 2 2 2 [1;2;3;4;5;6;7;8;11;12;13;14;15;16;17;18] (repeat 0 16)
  = il_convert_spec 0 ILcomp ILline 2 2 2 2 [1;2;3;4;5;6;7;8;11;12;13;14;15;16;17;18].
Proof. vm_compute. reflexivity. Qed.
(** the trigger of DESIGN section 8 #7: 6 x 8 image, start (1,1), stride (2,2), count (2,2), fill 119 *)
Definition r7 := {| r_sx := 1; r_sy := 1; r_tx := 2; r_ty := 2; r_cx := 2; r_cy := 2 |}.
Example defect7_domain : rgn_inside 6 8 r7 = true /\ whole_image 6 8 r7 = false.
Proof. vm_compute. auto. Qed.
Example defect7_first_write :
  gr_write_px None 6 8 r7 119 [1;2;3;4] = spec_write_px 0 (repeat 119 48) 6 8 r7 [1;2;3;4].
Proof. vm_compute. reflexivity. Qed.
Example defect7_second_write_and_read :
  let e := gr_write_px None 6 8 r7 119 [1;2;3;4] in
  gr_write_px (Some e) 6 8 r7 119 [5;6;7;8] = spec_write_px 0 e 6 8 r7 [5;6;7;8] /\
  gr_read_px e 6 8 r7 = [1;2;3;4].
Proof. vm_compute. auto. Qed.
Example solid_first_write :
  let r := {| r_sx := 1; r_sy := 2; r_tx := 1; r_ty := 1; r_cx := 2; r_cy := 2 |} in
  gr_write_px None 4 5 r 9 [1;2;3;4] = spec_write_px 0 (repeat 9 20) 4 5 r [1;2;3;4].
Proof. vm_compute. reflexivity. Qed.
Example rle_long_run :
  dfrle_encode (repeat 7 130 ++ [1; 2; 2; 2; 2]) = [248; 7; 138; 7; 1; 1; 132; 2]
  /\ dfrle_decode [248; 7; 138; 7; 1; 1; 132; 2] = repeat 7 130 ++ [1; 2; 2; 2; 2].
Proof. vm_compute. auto. Qed.
Example litend_type_in_domain :
  In (Z.lor DFNT_UINT16 DFNT_LITEND) gr_number_types /\ nt_size (Z.lor DFNT_UINT16 DFNT_LITEND) = Some 2
  /\ reopen_nt (Z.lor DFNT_UINT16 DFNT_LITEND) DFNTF_HDFDEFAULT = (Z.lor DFNT_UINT16 DFNT_LITEND, DFNTF_PC).
Proof. vm_compute. intuition. Qed.
(** deepening round: the hypotheses of the simulation theorems are met by a real history -- 3 x 2 image of
    two uint16 components, line interlace, strided first write, then strided read in component interlace *)
Definition g_ex : geom := {| gx := 3; gy := 2; gnc := 2; gcs := 2; gswap := true; gnt := DFNT_UINT16; gsub := DFNTF_HDFDEFAULT |}.
Definition r_ex := {| r_sx := 0; r_sy := 1; r_tx := 2; r_ty := 1; r_cx := 2; r_cy := 1 |}.
Example sim_hypotheses_met :
  mk_geom 3 2 2 DFNT_UINT16 = Some g_ex /\ img_rel (m_create g_ex ILline) (s_create g_ex ILline) /\
  s_writeimage (s_create g_ex ILline) r_ex [1;2;3;4;5;6;7;8]%Z <> None /\
  (forall s', s_writeimage (s_create g_ex ILline) r_ex [1;2;3;4;5;6;7;8]%Z = Some s' ->
              s_readimage (s_reqil s' ILcomp) r_ex = Some [1;2;3;4;5;6;7;8]%Z).
Proof.
  split; [vm_compute; reflexivity|]. split; [apply img_rel_create; vm_compute; auto|].
  split; [vm_compute; discriminate|]. intros s' H. vm_compute in H. injection H as <-. vm_compute. reflexivity.
Qed.
Example write_read_compose_instance :
  m_read (@rev Z) [0%Z] (m_write (@rev Z) [0%Z] None 3 2 2 ILline r_ex [[9]%Z; [9]%Z] [[1;2]; [3;4]; [5;6]; [7;8]]%Z)
         3 2 2 ILcomp r_ex = [[1;2]; [3;4]; [5;6]; [7;8]]%Z
  /\ chunk_inside 4 6 2 3 1 0 = true /\ rgn_inside 3 2 r_ex = true.
Proof. vm_compute. auto. Qed.
