(** C09 -- raster images and palettes: theorem statements (proofs in GRProofs.v). *)
From Coq Require Import List Arith Bool ZArith.
Import ListNotations.
Require Import H4.gen.Gen_GR H4.GRModel H4.GRProofs.

Theorem il_code_roundtrip : forall il, il_of_code (il_code il) = Some il.
Proof. exact il_code_roundtrip_lemma. Qed.
Print Assumptions il_code_roundtrip.
