(** C16 -- I/O failures are reported, never silently swallowed, never corrupt memory.
    Property theorems only (each closed by [exact]); proofs in FaultProofs.v.

    What is PROVED here
    (1) [fault_visible_generic], [fault_visible_workload], [all_ok_implies_same_run]: for EVERY state type, EVERY
        program of the error-flow language (arbitrary branching, loops and nesting of calls) in which no call site
        drops a result, EVERY state and EVERY fault oracle: if some device call failed then the function / some API
        call of the workload returns its failure value; and when every call reports success the run (results, final
        record, sequence of device calls, hence the bytes they put on the device) is identical to the fault-free
        run.  These are the two formulations of the property text.
    (2) [fault_visible_L1]: the faithful model of Hclose (hfile.c after the fix: commits), including HIsync,
        HTPsync, HIextend_file, HP_write, HPseek, hi_close_stdio, HTPend and HIrelease_filerec_node -- which DOES
        contain a dropped close -- has the property for every file record and every oracle.
        [hclose_before_fix_refuted]: the code as it was (close result ignored) does not; the witness is the failing
        final flush inside fclose, replayed on the library by the harness.
    (3) [model_matches_source], [hi_macros_checked], [anchored_sites_checked], [anchored_covers]: the call-site
        skeleton of every modelled function equals the one regenerated from the current C source, the wrapper
        macros have the expected success tests, and no I/O call site of any of the 25 anchored functions drops its
        result (one site excused, see FaultProofs.v).
    PARTIAL: [anchored_table_fault_visible_partial] -- for the anchored functions that have no control-flow model
    (Vdetach, VSdetach, HMCPcloseAID, HMCPendaccess, mcache_sync, ncclose, NC_free_cdf, hdf_close, hdf_xdr_cdf,
    xdr_cdf, SDend, SDendaccess, HPread_drec) the theorem is about ANY program over the classified sites; that the C
    function's control flow is such a program rests on the translator's classification and on the workload-level
    correspondence (every fault index of 20 workloads), not on a proof.  Crash / hang / memory safety is decided by
    the sanitizer runs only. *)
From Coq Require Import ZArith List Bool String.
Require Import H4.gen.Gen_Faults H4.FaultSpec H4.FaultModel H4.FaultProofs.
Import ListNotations.
Local Open Scope string_scope.
Local Open Scope list_scope.
Local Open Scope Z_scope.

(** (1) function level: SUCCEED implies no device call failed *)
Theorem fault_visible_generic : forall (St : Type) (p : prog St), no_dropped St p = true ->
  forall st o st' o' tr, run_fn St p st o = (true, st', o', tr) -> clean tr = true.
Proof. exact fault_visible_generic_lemma. Qed.
Print Assumptions fault_visible_generic.

(** (1) workload level, first formulation: some device call failed -> some API call returns its failure value *)
Theorem fault_visible_workload : forall (St : Type) (ps : list (prog St)), Forall (visible_prog St) ps ->
  forall st o oks st' o' tr, run_hist St ps st o = (oks, st', o', tr) ->
  clean tr = false -> existsb negb oks = true.
Proof. exact run_hist_fault_visible. Qed.
Print Assumptions fault_visible_workload.

(** (1) workload level, second formulation: every call reports success -> the run is the fault-free run *)
Theorem all_ok_implies_same_run : forall (St : Type) (ps : list (prog St)), Forall (visible_prog St) ps ->
  forall st o oks st' o' tr, run_hist St ps st o = (oks, st', o', tr) ->
  forallb (fun b => b) oks = true -> clean tr = true /\ run_hist St ps st [] = (oks, st', [], tr).
Proof. exact run_hist_visible. Qed.
Print Assumptions all_ok_implies_same_run.

(** (2) Hclose of the fixed library, every file record, every fault placement *)
Theorem fault_visible_L1 : forall st o st' o' tr,
  run_fn frec Hclose_prog st o = (true, st', o', tr) ->
  clean tr = true /\ run_fn frec Hclose_prog st [] = (true, st', [], tr).
Proof. exact hclose_fault_visible_lemma. Qed.
Print Assumptions fault_visible_L1.

Theorem l1_functions_fault_visible :
  (forall off, visible_prog frec (HPseek_prog off)) /\ (forall n, visible_prog frec (HP_write_prog n)) /\
  (forall n, visible_prog frec (HP_read_prog n)) /\ visible_prog frec hi_close_prog /\
  visible_prog frec HIextend_file_prog /\ visible_prog frec HTPsync_prog /\ visible_prog frec HIsync_prog /\
  visible_prog frec HTPend_prog /\ visible_prog frec HIupdate_version_prog /\ visible_prog frec Hsync_prog /\
  visible_prog frec Hclose_prog.
Proof. exact l1_functions_fault_visible_lemma. Qed.
Print Assumptions l1_functions_fault_visible.

(** (2) the code before the fix: a failing fclose is swallowed *)
Theorem hclose_before_fix_refuted :
  exists st o st' o' tr, run_fn frec Hclose_prog_orig st o = (true, st', o', tr) /\ clean tr = false.
Proof. exact hclose_orig_refuted_lemma. Qed.
Print Assumptions hclose_before_fix_refuted.

(** (3) tie to the current C source *)
Theorem model_matches_source :
  sites frec (HP_read_prog (fun _ => 1)) = norm_sites sites_HP_read /\
  sites frec (HP_write_prog (fun _ => 1)) = norm_sites sites_HP_write /\
  sites frec (HPseek_prog cur_off) = norm_sites sites_HPseek /\
  sites frec hi_close_prog = norm_sites sites_hi_close_stdio /\
  sites frec HIextend_file_prog = norm_sites sites_HIextend_file /\
  sites frec HIsync_prog = norm_sites sites_HIsync /\
  sites frec HTPsync_prog = norm_sites sites_HTPsync /\
  sites frec HTPend_prog = norm_sites sites_HTPend /\
  sites frec Release_prog = norm_sites sites_HIrelease_filerec_node /\
  sites frec HIupdate_version_prog = norm_sites sites_HIupdate_version /\
  sites frec Hclose_prog = norm_sites sites_Hclose /\
  sites frec Hsync_prog = norm_sites sites_Hsync.
Proof. exact model_matches_source_lemma. Qed.
Print Assumptions model_matches_source.

Theorem hi_macros_checked : HI_macros = HI_macros_expected.
Proof. exact hi_macros_checked_lemma. Qed.
Print Assumptions hi_macros_checked.

Theorem anchored_sites_checked : forallb fn_sites_ok anchored = true.
Proof. exact anchored_sites_checked_lemma. Qed.
Print Assumptions anchored_sites_checked.

Theorem anchored_covers :
  map fst anchored =
  ["HP_read"; "HP_write"; "HPseek"; "hi_close_stdio"; "HIextend_file"; "HIsync"; "HTPsync"; "HTPend";
   "HIrelease_filerec_node"; "HIupdate_version"; "Hclose"; "Hsync"; "HPread_drec"; "Vdetach"; "VSdetach";
   "HMCPcloseAID"; "HMCPendaccess"; "mcache_sync"; "ncclose"; "NC_free_cdf"; "hdf_close"; "hdf_xdr_cdf"; "xdr_cdf";
   "SDend"; "SDendaccess"].
Proof. exact anchored_covers_lemma. Qed.
Print Assumptions anchored_covers.

(** PARTIAL (see header): any control flow over call sites none of which is dropped is fault-visible, and its own
    site list is then free of dropped sites; missing: a proof that each table-only C function IS such a program. *)
Theorem anchored_table_fault_visible_partial : forall (St : Type) (p : prog St), no_dropped St p = true ->
  visible_prog St p /\ forallb (fun s => cls_ok (snd s)) (sites St p) = true.
Proof. exact anchored_table_fault_visible_partial_lemma. Qed.
Print Assumptions anchored_table_fault_visible_partial.

(** S-level: the two formulations of the property on observations *)
Theorem visible_implies_judge : forall o,
  safe o = true ->
  (o_faults o = 0%N -> o_same_file o = true /\ o_same_data o = true) ->
  visible o = true -> judge o = Holds.
Proof. exact visible_implies_judge_lemma. Qed.
Print Assumptions visible_implies_judge.

Theorem judge_holds_iff : forall o,
  judge o = Holds <-> (safe o = true /\ (all_ok (o_rets o) = true -> o_same_file o = true /\ o_same_data o = true)).
Proof. exact judge_holds_iff_lemma. Qed.
Print Assumptions judge_holds_iff.

(* ---- non-vacuity ------------------------------------------------------------------------------------------- *)
Definition okof (x : bool * frec * oracle * list event) : bool := fst (fst (fst x)).
Definition trof (x : bool * frec * oracle * list event) : list event := snd x.

(** a cached file with two dirty DD blocks, a dirty end of file and a version element to write: the fault-free close
    succeeds after 12 device calls ... *)
Example hclose_faultfree :
  okof (run_fn frec Hclose_prog st_cached []) = true /\
  map fst (trof (run_fn frec Hclose_prog st_cached [])) =
  [DAny; DAny; DAny; DSeek; DWrite; DWrite; DSeek; DWrite; DWrite; DSeek; DWrite; DClose].
Proof. split; vm_compute; reflexivity. Qed.

(** ... a single fault at ANY of the 12 calls makes Hclose return FAIL (hypotheses of fault_visible_L1 are met by
    runs that do fail), a fault placed after the last call changes nothing ... *)
Example hclose_every_fault_reported :
  map (fun k => okof (run_fn frec Hclose_prog st_cached (plan k false 0))) (seq 0 14) =
  [false; false; false; false; false; false; false; false; false; false; false; false; true; true].
Proof. vm_compute. reflexivity. Qed.

(** ... whereas the code before the fixes reported success for faults at calls 0-2 (version element) and 11 (fclose) *)
Example hclose_orig_swallows :
  map (fun k => okof (run_fn frec Hclose_prog_orig st_cached (plan k false 0))) (seq 0 13) =
  [true; true; true; false; false; false; false; false; false; false; false; true; true].
Proof. vm_compute. reflexivity. Qed.

(** the workload theorem's hypothesis is met by a real list of API calls *)
Example workload_hypothesis_met : Forall (visible_prog frec) [Hsync_prog; Hclose_prog].
Proof. exact workload_hypothesis_met_lemma. Qed.

(** S: an observation with a swallowed failure is judged Silent; a crash Unsafe; a reported failure Holds *)
Example judge_examples :
  judge {| o_status := StOk; o_rets := [true; true]; o_faults := 1%N; o_same_file := false; o_same_data := true |} = Silent /\
  judge {| o_status := StSanitizer; o_rets := [true]; o_faults := 1%N; o_same_file := true; o_same_data := true |} = Unsafe /\
  judge {| o_status := StOk; o_rets := [true; false]; o_faults := 1%N; o_same_file := false; o_same_data := true |} = Holds.
Proof. repeat split. Qed.
