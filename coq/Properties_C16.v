(** C16 -- I/O failures are reported, never silently swallowed, never corrupt memory.
    Property theorems only (each closed by [exact]); proofs in FaultProofs.v.

    What is PROVED here
    (1) [fault_visible_generic], [fault_visible_workload], [all_ok_implies_same_run]: for EVERY state type, EVERY
        program of the error-flow language (arbitrary branching, loops and nesting of calls) in which no call site
        drops a result, EVERY state and EVERY fault oracle: if some device call failed then the function / some API
        call of the workload returns its failure value; and when every call reports success the run (results, final
        record, sequence of device calls, hence the bytes they put on the device) is identical to the fault-free
        run.  These are the two formulations of the property text.
    (2) [fault_visible_L1]: the faithful model of Hclose (hfile.c after the fix: commits), including HIsync,
        HTPsync, HIextend_file, HP_write, HPseek, hi_close_stdio, HTPend and HIrelease_filerec_node -- which DOES
        contain a dropped close -- has the property for every file record and every oracle.
        [hclose_before_fix_refuted]: the code as it was (close result ignored) does not; the witness is the failing
        final flush inside fclose, replayed on the library by the harness.
    (3) [model_matches_source], [hi_macros_checked], [anchored_sites_checked], [anchored_covers]: the call-site
        skeleton of every modelled function equals the one regenerated from the current C source, the wrapper
        macros have the expected success tests, and no I/O call site of any of the anchored functions (40 by now) drops its
        result (one site excused, see FaultProofs.v).
    (4) [upper_model_matches_source], [anchored_functions_fault_visible]: the 13 anchored functions above L1 (Vdetach,
        VSdetach, HMCPcloseAID, HMCPendaccess, mcache_sync, ncclose, NC_free_cdf, hdf_close, hdf_xdr_cdf, xdr_cdf,
        SDend, SDendaccess, HPread_drec) have control-flow terms too -- branches on library data, loop counts and
        the behaviour of callees outside the model are taken from an environment of choices over which the theorem
        quantifies -- with call-site skeletons equal to the generated tables, and all 25 are fault-visible.
        Preconditions that remain: ncclose / SDend not in netCDF define mode ([ncclose_define_mode_refuted] shows
        why); hdf_xdr_cdf's XDR_DECODE branch (SDstart, not the close path) is not modelled; callees outside the
        model (Hputelement, Vend, VSwrite, Hclose seen from NC_free_cdf ...) are assumed to make checked device
        calls, i.e. to be fault-visible themselves.
    (5) round 2 -- [ddgrow_matches_source], [ddgrow_fault_visible], [newblock_never_dangling]: HPgetdiskblock,
        HTIupdate_dd and HTInew_dd_block (the write-through branches that only run with DD caching off) are modelled,
        tied to the generated tables and fault-visible; and the one memory-safety fact that is about error flow --
        the DD block linked into the list before the last I/O step is never freed by the error clean-up -- is a
        theorem over the regenerated clean-up.
    Otherwise crash / hang / memory safety is decided by the sanitizer runs only. *)
From Coq Require Import ZArith List Bool String.
Require Import H4.gen.Gen_Faults H4.FaultSpec H4.FaultModel H4.FaultProofs.
Import ListNotations.
Local Open Scope string_scope.
Local Open Scope list_scope.
Local Open Scope Z_scope.

(** (1) function level: SUCCEED implies no device call failed *)
Theorem fault_visible_generic : forall (St : Type) (p : prog St), no_dropped St p = true ->
  forall st o st' o' tr, run_fn St p st o = (true, st', o', tr) -> clean tr = true.
Proof. exact fault_visible_generic_lemma. Qed.
Print Assumptions fault_visible_generic.

(** (1) workload level, first formulation: some device call failed -> some API call returns its failure value *)
Theorem fault_visible_workload : forall (St : Type) (ps : list (prog St)), Forall (visible_prog St) ps ->
  forall st o oks st' o' tr, run_hist St ps st o = (oks, st', o', tr) ->
  clean tr = false -> existsb negb oks = true.
Proof. exact run_hist_fault_visible. Qed.
Print Assumptions fault_visible_workload.

(** (1) workload level, second formulation: every call reports success -> the run is the fault-free run *)
Theorem all_ok_implies_same_run : forall (St : Type) (ps : list (prog St)), Forall (visible_prog St) ps ->
  forall st o oks st' o' tr, run_hist St ps st o = (oks, st', o', tr) ->
  forallb (fun b => b) oks = true -> clean tr = true /\ run_hist St ps st [] = (oks, st', [], tr).
Proof. exact run_hist_visible. Qed.
Print Assumptions all_ok_implies_same_run.

(** (2) Hclose of the fixed library, every file record, every fault placement *)
Theorem fault_visible_L1 : forall st o st' o' tr,
  run_fn frec Hclose_prog st o = (true, st', o', tr) ->
  clean tr = true /\ run_fn frec Hclose_prog st [] = (true, st', [], tr).
Proof. exact hclose_fault_visible_lemma. Qed.
Print Assumptions fault_visible_L1.

Theorem l1_functions_fault_visible :
  (forall off, visible_prog frec (HPseek_prog off)) /\ (forall n, visible_prog frec (HP_write_prog n)) /\
  (forall n, visible_prog frec (HP_read_prog n)) /\ visible_prog frec hi_close_prog /\
  visible_prog frec HIextend_file_prog /\ visible_prog frec HTPsync_prog /\ visible_prog frec HIsync_prog /\
  visible_prog frec HTPend_prog /\ visible_prog frec HIupdate_version_prog /\ visible_prog frec Hsync_prog /\
  visible_prog frec Hclose_prog.
Proof. exact l1_functions_fault_visible_lemma. Qed.
Print Assumptions l1_functions_fault_visible.

(** (2) the code before the fix: a failing fclose is swallowed *)
Theorem hclose_before_fix_refuted :
  exists st o st' o' tr, run_fn frec Hclose_prog_orig st o = (true, st', o', tr) /\ clean tr = false.
Proof. exact hclose_orig_refuted_lemma. Qed.
Print Assumptions hclose_before_fix_refuted.

(** (3) tie to the current C source *)
Theorem model_matches_source :
  sites frec (HP_read_prog (fun _ => 1)) = norm_sites sites_HP_read /\
  sites frec (HP_write_prog (fun _ => 1)) = norm_sites sites_HP_write /\
  sites frec (HPseek_prog cur_off) = norm_sites sites_HPseek /\
  sites frec hi_close_prog = norm_sites sites_hi_close_stdio /\
  sites frec HIextend_file_prog = norm_sites sites_HIextend_file /\
  sites frec HIsync_prog = norm_sites sites_HIsync /\
  sites frec HTPsync_prog = norm_sites sites_HTPsync /\
  sites frec HTPend_prog = norm_sites sites_HTPend /\
  sites frec Release_prog = norm_sites sites_HIrelease_filerec_node /\
  sites frec HIupdate_version_prog = norm_sites sites_HIupdate_version /\
  sites frec Hclose_prog = norm_sites sites_Hclose /\
  sites frec Hsync_prog = norm_sites sites_Hsync.
Proof. exact model_matches_source_lemma. Qed.
Print Assumptions model_matches_source.

Theorem hi_macros_checked : HI_macros = HI_macros_expected.
Proof. exact hi_macros_checked_lemma. Qed.
Print Assumptions hi_macros_checked.

Theorem anchored_sites_checked : forallb fn_sites_ok anchored = true.
Proof. exact anchored_sites_checked_lemma. Qed.
Print Assumptions anchored_sites_checked.

Theorem anchored_covers :
  map fst anchored =
  ["HP_read"; "HP_write"; "HPseek"; "hi_close_stdio"; "HIextend_file"; "HIsync"; "HTPsync"; "HTPend";
   "HIrelease_filerec_node"; "HIupdate_version"; "Hclose"; "Hsync"; "HPread_drec"; "Vdetach"; "VSdetach";
   "HMCPcloseAID"; "HMCPendaccess"; "mcache_sync"; "ncclose"; "NC_free_cdf"; "hdf_close"; "hdf_xdr_cdf"; "xdr_cdf";
   "SDend"; "SDendaccess"; "HPgetdiskblock"; "HTIupdate_dd"; "HTInew_dd_block"; "Hopen"; "SDgetchunkinfo";
   "SDIfreevarAID"; "SDsetchunkcache"; "SDgetcompinfo"; "SDgetdatasize"; "SDcheckempty"; "SDsetaccesstype";
   "SDwritedata"; "SDreaddata"; "SDwritechunk"; "SDreadchunk"].
Proof. exact anchored_covers_lemma. Qed.
Print Assumptions anchored_covers.

(** (4) every one of the anchored functions (40 by now): a control-flow term whose call-site skeleton equals the generated
    table ([model_matches_source] for L1, [upper_model_matches_source] for the rest) and which is fault-visible for
    every state / every resolution of its data-dependent branches, loop counts and callee behaviour; ncclose and
    SDend outside netCDF define mode (SDstart clears NC_INDEF: regenerated fact) *)
Theorem upper_model_matches_source :
  sites genv HPread_drec_prog = norm_sites sites_HPread_drec /\
  sites genv Vdetach_prog = norm_sites sites_Vdetach /\
  sites genv VSdetach_prog = norm_sites sites_VSdetach /\
  sites genv mcache_sync_prog = norm_sites sites_mcache_sync /\
  sites genv HMCPcloseAID_prog = norm_sites sites_HMCPcloseAID /\
  sites genv HMCPendaccess_prog = norm_sites sites_HMCPendaccess /\
  sites genv NC_free_cdf_prog = norm_sites sites_NC_free_cdf /\
  sites genv hdf_close_prog = norm_sites sites_hdf_close /\
  sites genv hdf_xdr_cdf_prog = norm_sites sites_hdf_xdr_cdf /\
  sites genv xdr_cdf_prog = norm_sites sites_xdr_cdf /\
  sites genv ncclose_prog = norm_sites sites_ncclose /\
  sites genv SDend_prog = norm_sites sites_SDend /\
  sites genv SDendaccess_prog = norm_sites sites_SDendaccess.
Proof. exact upper_model_matches_source_lemma. Qed.
Print Assumptions upper_model_matches_source.

Theorem anchored_functions_fault_visible :
  ((forall off, visible_prog frec (HPseek_prog off)) /\ (forall n, visible_prog frec (HP_write_prog n)) /\
   (forall n, visible_prog frec (HP_read_prog n)) /\ visible_prog frec hi_close_prog /\
   visible_prog frec HIextend_file_prog /\ visible_prog frec HTPsync_prog /\ visible_prog frec HIsync_prog /\
   visible_prog frec HTPend_prog /\ visible_prog frec HIupdate_version_prog /\ visible_prog frec Hsync_prog /\
   visible_prog frec Hclose_prog) /\
  (visible_prog genv HPread_drec_prog /\ visible_prog genv Vdetach_prog /\ visible_prog genv VSdetach_prog /\
   visible_prog genv mcache_sync_prog /\ visible_prog genv HMCPcloseAID_prog /\
   visible_prog genv HMCPendaccess_prog /\ visible_prog genv NC_free_cdf_prog /\ visible_prog genv hdf_close_prog /\
   visible_prog genv hdf_xdr_cdf_prog /\ visible_prog genv xdr_cdf_prog /\ visible_prog genv SDendaccess_prog) /\
  (fact_SDstart_clears_NC_INDEF = true /\ visible_from genv not_indef ncclose_prog /\
   visible_from genv not_indef SDend_prog).
Proof. exact anchored_functions_fault_visible_lemma. Qed.
Print Assumptions anchored_functions_fault_visible.

(** in netCDF define mode ncclose as written does swallow a failure (NC_endef fails, ncabort succeeds, 0 returned):
    the reason for the precondition above; not reachable through the SD interface *)
Theorem ncclose_define_mode_refuted :
  exists st o st' o' tr, indef st = true /\ run_fn genv ncclose_prog st o = (true, st', o', tr) /\ clean tr = false.
Proof. exact ncclose_indef_refuted_lemma. Qed.
Print Assumptions ncclose_define_mode_refuted.

(** the generic form behind (4): any control flow over call sites none of which is dropped *)
Theorem anchored_table_fault_visible : forall (St : Type) (p : prog St), no_dropped St p = true ->
  visible_prog St p /\ forallb (fun s => cls_ok (snd s)) (sites St p) = true.
Proof. exact anchored_table_fault_visible_lemma. Qed.
Print Assumptions anchored_table_fault_visible.

(** (5) round 2: DD-block growth and write-through descriptor updates (the code that only runs with DD caching off) *)
Theorem ddgrow_matches_source :
  sites frec (HPgetdiskblock_prog (fun _ => 1) true) = norm_sites sites_HPgetdiskblock /\
  sites frec (HTIupdate_dd_prog cur_off) = norm_sites sites_HTIupdate_dd /\
  sites frec HTInew_dd_block_prog = norm_sites sites_HTInew_dd_block /\
  fact_HTInew_dd_block_io_after_publication = true.
Proof. exact ddgrow_matches_source_lemma. Qed.
Print Assumptions ddgrow_matches_source.

Theorem ddgrow_fault_visible :
  (forall size mv, visible_prog frec (HPgetdiskblock_prog size mv)) /\
  (forall off, visible_prog frec (HTIupdate_dd_prog off)) /\ visible_prog frec HTInew_dd_block_prog.
Proof. exact ddgrow_visible_lemma. Qed.
Print Assumptions ddgrow_fault_visible.

(** memory safety of HTInew_dd_block's error path, for every file record and every fault placement: the block that
    has been linked into the in-memory list (before the last I/O step: fact above) is never freed by the clean-up at
    `done:`.  The clean-up in the model is what the translator finds in the current source. *)
Theorem newblock_never_dangling : forall st o r l st' o' tr,
  nb_freed st = false -> exec frec HTInew_dd_block_prog st o = (r, l, st', o', tr) -> nb_dangling st' = false.
Proof. exact newblock_never_dangling_lemma. Qed.
Print Assumptions newblock_never_dangling.

(** (6) round 3: callers and callees agree on the failure value (a check `FAIL == f()` of a function that returns
    FALSE on failure never fires) -- over the call sites of 35 I/O-path functions in six files, regenerated *)
Theorem conventions_consistent : forallb conv_ok conventions = true /\ (40 <= List.length conventions)%nat.
Proof. exact conventions_consistent_lemma. Qed.
Print Assumptions conventions_consistent.

(** (7) round 4: Hopen's reopen branch (read-only file opened again with write access): for every file record and
    every fault placement the record shared by the file ids keeps a stream, and a failure is reported; the order
    "open the new stream, then close the old one" is regenerated from hfile.c *)
Theorem hopen_reopen_keeps_stream : forall st o r l st' o' tr,
  file_open st = true -> exec frec Hopen_reopen_prog st o = (r, l, st', o', tr) -> file_open st' = true.
Proof. exact hopen_reopen_keeps_stream_lemma. Qed.
Print Assumptions hopen_reopen_keeps_stream.

Theorem hopen_reopen_fault_visible : visible_prog frec Hopen_reopen_prog.
Proof. exact hopen_reopen_visible_lemma. Qed.
Print Assumptions hopen_reopen_fault_visible.

(** S-level: the two formulations of the property on observations *)
Theorem visible_implies_judge : forall o,
  safe o = true ->
  (o_faults o = 0%N -> o_same_file o = true /\ o_same_data o = true) ->
  visible o = true -> judge o = Holds.
Proof. exact visible_implies_judge_lemma. Qed.
Print Assumptions visible_implies_judge.

Theorem judge_holds_iff : forall o,
  judge o = Holds <-> (safe o = true /\ (all_ok (o_rets o) = true -> o_same_file o = true /\ o_same_data o = true)).
Proof. exact judge_holds_iff_lemma. Qed.
Print Assumptions judge_holds_iff.

(* ---- non-vacuity ------------------------------------------------------------------------------------------- *)
Definition okof (x : bool * frec * oracle * list event) : bool := fst (fst (fst x)).
Definition trof (x : bool * frec * oracle * list event) : list event := snd x.

(** a cached file with two dirty DD blocks, a dirty end of file and a version element to write: the fault-free close
    succeeds after 12 device calls ... *)
Example hclose_faultfree :
  okof (run_fn frec Hclose_prog st_cached []) = true /\
  map fst (trof (run_fn frec Hclose_prog st_cached [])) =
  [DAny; DAny; DAny; DSeek; DWrite; DWrite; DSeek; DWrite; DWrite; DSeek; DWrite; DClose].
Proof. split; vm_compute; reflexivity. Qed.

(** ... a single fault at ANY of the 12 calls makes Hclose return FAIL (hypotheses of fault_visible_L1 are met by
    runs that do fail), a fault placed after the last call changes nothing ... *)
Example hclose_every_fault_reported :
  map (fun k => okof (run_fn frec Hclose_prog st_cached (plan k false 0))) (seq 0 14) =
  [false; false; false; false; false; false; false; false; false; false; false; false; true; true].
Proof. vm_compute. reflexivity. Qed.

(** ... whereas the code before the fixes reported success for faults at calls 0-2 (version element) and 11 (fclose) *)
Example hclose_orig_swallows :
  map (fun k => okof (run_fn frec Hclose_prog_orig st_cached (plan k false 0))) (seq 0 13) =
  [true; true; true; false; false; false; false; false; false; false; false; true; true].
Proof. vm_compute. reflexivity. Qed.

(** the workload theorem's hypothesis is met by a real list of API calls *)
Example workload_hypothesis_met : Forall (visible_prog frec) [Hsync_prog; Hclose_prog].
Proof. exact workload_hypothesis_met_lemma. Qed.

(** S: an observation with a swallowed failure is judged Silent; a crash Unsafe; a reported failure Holds *)
Example judge_examples :
  judge {| o_status := StOk; o_rets := [true; true]; o_faults := 1%N; o_same_file := false; o_same_data := true |} = Silent /\
  judge {| o_status := StSanitizer; o_rets := [true]; o_faults := 1%N; o_same_file := true; o_same_data := true |} = Unsafe /\
  judge {| o_status := StOk; o_rets := [true; false]; o_faults := 1%N; o_same_file := false; o_same_data := true |} = Holds.
Proof. repeat split. Qed.

(** the upper functions: SDend through xdr_cdf, hdf_close (two open variables) and NC_free_cdf makes 15 device calls in
    this environment; a single fault at any of them makes SDend return FAIL *)
Example sdend_every_fault_reported :
  (let '(ok, _, _, tr) := run_fn genv SDend_prog env_sdend [] in (ok, List.length tr)) = (true, 15%nat) /\
  map (fun k => let '(ok, _, _, _) := run_fn genv SDend_prog env_sdend (plan k false 0) in ok) (seq 0 17) =
  [false; false; false; false; false; false; false; false; false; false; false; false; false; false; false; true; true] /\
  not_indef env_sdend.
Proof. repeat split; vm_compute; reflexivity. Qed.

(** HTInew_dd_block, not caching, one full block: seven device calls; a fault at the last two (the link update in the
    file) makes it fail AFTER the block has been published -- the state the safety theorem is about *)
Example newblock_runs :
  (let '(ok, st, _, tr) := run_fn frec HTInew_dd_block_prog st_nocache_full [] in (ok, map fst tr, nb_published st)) =
  (true, [DSeek; DWrite; DSeek; DWrite; DWrite; DSeek; DWrite], true) /\
  map (fun k => let '(ok, st, _, _) := run_fn frec HTInew_dd_block_prog st_nocache_full (plan k false 0) in
                (ok, nb_published st)) (seq 0 8) =
  [(false, false); (false, false); (false, false); (false, false); (false, false); (false, true); (false, true);
   (true, true)].
Proof. split; vm_compute; reflexivity. Qed.
