(** C12 -- the reference-count bookkeeping of Hclose on its refusal path (access elements still attached).
    The order of the statements of Hclose is regenerated (Gen_DD.Hclose_tokens: 0 = the decrement --refcount,
    1 = refcount++, 2 = an exit with DFE_OPENAID, 3 HIsync, 5 HTPend, 6 HIrelease_filerec_node, 7 HAremove_atom).
    BADFREC(r) is r == NULL || r->refcount == 0: a record whose count reaches 0 is dead to every H-level call.
    No proofs here. *)
From Coq Require Import ZArith List Bool.
Require Import H4.gen.Gen_DD.
Import ListNotations.
Local Open Scope Z_scope.

Fixpoint after_dec (l : list Z) : list Z :=
  match l with [] => [] | x :: l' => if x =? 0 then l' else after_dec l' end.
Fixpoint upto_err (l : list Z) : list Z :=
  match l with [] => [] | x :: l' => if x =? 2 then [] else x :: upto_err l' end.

(** the statements executed between the decrement and the DFE_OPENAID exit *)
Definition refusal_segment : list Z := upto_err (after_dec Hclose_tokens).

(** refcount left behind by an Hclose that is refused because access elements are attached *)
Definition hclose_refused_refcount (rc : Z) : Z :=
  fold_left (fun a t => if t =? 1 then a + 1 else if t =? 0 then a - 1 else a) refusal_segment (rc - 1).

(** the refusal must not have released anything *)
Definition refusal_releases : bool := existsb (fun t => (t =? 3) || (t =? 5) || (t =? 6) || (t =? 7)) refusal_segment.

Definition badfrec (rc : Z) : bool := rc =? 0.
