(** C20 -- the limit machine: for ALL histories the machine as the C code computes it (wrapping arithmetic, regenerated
    guards) is the machine over unbounded integers; every counter stays in the range of its C type; a refused
    operation leaves the whole state unchanged. *)
From Coq Require Import ZArith List Bool Lia.
Require Import H4.LimitsWidth H4.gen.Gen_Limits H4.LimitsSpec H4.LimitsModel H4.LimitsProofs H4.LimitsMachine.
Import ListNotations.
Local Open Scope Z_scope.

Arguments wrap32 : simpl never.
Arguments add32 : simpl never.
Arguments Z.add : simpl never.
Arguments Z.mul : simpl never.
Arguments Z.sub : simpl never.

Definition def_ok (d : Z * Z) : Prop := 1 <= fst d <= 65535 /\ 1 <= snd d <= 65535 /\ fst d * snd d <= MAX_FIELD_SIZE.

(** every counter within the range of its C type, the element inside the file *)
Definition minv (st : mst) : Prop :=
  0 <= q_eof st <= INT32_MAX /\ 0 <= q_nvelt st <= 65535 /\
  0 <= q_off st /\ 0 <= q_elen st /\ q_off st + q_elen st <= q_eof st /\ 0 <= q_posn st <= INT32_MAX /\
  (q_app st = false -> q_posn st <= q_elen st) /\
  0 <= q_maxref st <= 65535 /\ Forall def_ok (q_defs st) /\ 0 <= q_nf st <= VSFIELDMAX /\ 0 <= q_iv st <= 65535 /\
  (q_nf st = 0 -> q_iv st = 0) /\ 0 <= q_vpos st <= INT32_MAX /\ 0 <= q_namelen st <= 65535 /\ 0 <= q_attr st <= 65535 /\
  0 <= q_nsets st <= H4_MAX_NC_VARS.

(** the arguments of an operation are values of their C types *)
Definition op_ok (o : mop) : Prop :=
  match o with
  | MAlloc size => is_int32 size
  | MFdefine sz order => (sz = -1 \/ 0 < sz <= 32767) /\ is_int32 order
  | MSeekRec p => is_int32 p
  | MWriteRecs n => is_int32 n
  | MWrite len => is_int32 len
  | MSeek origin offset => (origin = DF_START \/ origin = DF_CURRENT \/ origin = DF_END) /\ is_int32 offset
  | MSetName len => 0 <= len
  | MSetAttr sz count => 0 < sz <= 8 /\ is_int32 count
  | _ => True
  end.

Lemma mst_eta : forall st, mkM (q_eof st) (q_nvelt st) (q_app st) (q_off st) (q_elen st) (q_posn st) (q_maxref st) (q_defs st)
  (q_nf st) (q_iv st) (q_vpos st) (q_namelen st) (q_attr st) (q_nsets st) (q_slots st) = st.
Proof. destruct st; reflexivity. Qed.

Lemma lookup_ok : forall defs l fs, Forall def_ok defs -> lookup_fields defs l = Some fs -> Forall field_ok fs.
Proof.
  intros defs l. induction l as [|i t IH]; intros fs Hd; simpl.
  - intro H; inversion H; constructor.
  - destruct (lookup_fields defs t) as [r|]; [|discriminate].
    destruct i as [k|].
    + destruct (nth_error defs k) as [d|] eqn:En; [|discriminate].
      intro H; inversion H; subst. constructor; [|apply IH; [assumption | reflexivity]].
      apply nth_error_In in En. rewrite Forall_forall in Hd. specialize (Hd d En). destruct d as [od isz].
      unfold def_ok in Hd. simpl in *. lia.
    + intro H; inversion H; subst. constructor; [exact I | apply IH; [assumption | reflexivity]].
Qed.

Lemma vssetfields_range : forall fs n iv, Forall field_ok fs -> s_vssetfields fs = Some (n, iv) ->
  0 <= n <= VSFIELDMAX /\ 0 <= iv <= 65535 /\ (n = 0 -> iv = 0).
Proof.
  intros fs n iv Hf. unfold s_vssetfields.
  destruct (Z.ltb_spec VSFIELDMAX (Z.of_nat (length fs))); [discriminate|].
  destruct (s_record_size fs 0) as [t|] eqn:Er; [|discriminate].
  intro H1; inversion H1; subst.
  destruct (setfields_loop_lemma fs 0 0 Hf) as [_ Hr]; [lia|].
  split; [lia|]. split; [apply Hr; exact Er|].
  intro Hz. assert (length fs = 0%nat) by lia. destruct fs; [|discriminate]. simpl in Er. inversion Er; reflexivity.
Qed.

Lemma vswrite_total_zero : forall n, is_int32 n -> m_vswrite_total 0 n = if n <=? 0 then None else s_product 0 n.
Proof.
  intros n Hn. unfold m_vswrite_total, s_product, truth, vswrite_too_many, vswrite_total.
  destruct (n <=? 0); [reflexivity|]. simpl.
  rewrite mul32_id by (unfold is_int32; lia). replace (0 * n) with 0 by lia. reflexivity.
Qed.

Lemma reset_negative_keeps : forall req sys cur slots,
  fst (m_reset_maxopen req sys cur slots) < 0 -> snd (m_reset_maxopen req sys cur slots) = slots.
Proof.
  intros req sys cur slots. unfold m_reset_maxopen.
  destruct (Z.ltb_spec req 0); [reflexivity|].
  destruct (truth (resetmax_keeps req cur)); [reflexivity|].
  destruct (truth (resetmax_too_small (if truth (resetmax_caps req sys) then sys else req) (highest slots 0 (-1)))) eqn:Et;
    [reflexivity|].
  simpl. intro Hneg. exfalso.
  unfold truth, resetmax_too_small in Et.
  destruct (Z.leb_spec (if negb (resetmax_caps req sys =? 0) then sys else req) (highest slots 0 (-1))); simpl in Et; [discriminate|].
  pose proof (highest_mono slots 0 (-1) ltac:(lia)). unfold truth in Hneg. lia.
Qed.

(* ------------------------------------------------------------------ one step *)
Lemma step_refines : forall st o, minv st -> op_ok o -> m_step st o = s_step st o.
Proof.
  intros st o Hi Ho.
  destruct Hi as (Heof & Hnv & Hoff & Hel & Hin & Hpos & Hna & Hmr & Hdefs & Hnf & Hiv & Hnf0 & Hvp & Hnl & Hat & Hns).
  destruct o; simpl in Ho; unfold m_step, s_step.
  - (* MAlloc *)
    rewrite (getdiskblock_lemma (q_eof st) size Heof Ho).
    destruct (s_getdiskblock (q_eof st) size) as [[off e]|]; [reflexivity|].
    unfold set_eof. rewrite mst_eta. reflexivity.
  - (* MInsert *)
    rewrite (vinsertpair_lemma (q_nvelt st) Hnv).
    destruct (s_vinsertpair (q_nvelt st)); [reflexivity|]. unfold set_nvelt. rewrite mst_eta. reflexivity.
  - (* MFdefine *)
    destruct Ho as [Hsz Hord]. rewrite (vsfdefine_lemma sz order Hord Hsz). reflexivity.
  - (* MSetFields *)
    destruct (Z.eqb_spec (q_nf st) 0) as [Hz|]; simpl; [|reflexivity].
    destruct (lookup_fields (q_defs st) l) as [fs|] eqn:El.
    + rewrite (vssetfields_lemma fs (lookup_ok _ _ _ Hdefs El)).
      destruct (s_vssetfields fs) as [[n iv]|]; [reflexivity|].
      unfold set_fields. rewrite <- Hz at 1. rewrite <- (Hnf0 Hz) at 1. rewrite mst_eta. reflexivity.
    + unfold set_fields. rewrite <- Hz at 1. rewrite <- (Hnf0 Hz) at 1. rewrite mst_eta. reflexivity.
  - (* MSeekRec *)
    destruct (q_nf st <=? 0); simpl; [reflexivity|].
    rewrite (vsseek_lemma (q_iv st) p Hiv Ho). destruct (p <? 0); reflexivity.
  - (* MWriteRecs *)
    destruct (q_nf st <=? 0); simpl; [reflexivity|].
    destruct (Z.eq_dec (q_iv st) 0) as [Hz|Hnz].
    + rewrite Hz. rewrite (vswrite_total_zero n Ho). destruct (n <=? 0); reflexivity.
    + destruct (vswrite_total_lemma (q_iv st) n ltac:(lia) Ho) as [H1 _]. rewrite H1. destruct (n <=? 0); reflexivity.
  - (* MWrite *)
    rewrite (hwrite_lemma (q_app st) (q_posn st) len (q_off st) (q_elen st) (q_eof st) Hpos Ho Hoff Hel Hin ltac:(lia)).
    reflexivity.
  - (* MSeek *)
    destruct Ho as [Hor Hofs].
    rewrite (hseek_lemma (q_app st) origin offset (q_posn st) (q_elen st) Hpos ltac:(unfold INT32_MAX in *; lia) Hna Hofs Hor).
    rewrite (add32_id (q_elen st) (q_off st)) by (unfold is_int32, INT32_MAX in *; lia). reflexivity.
  - (* MNewRef *)
    destruct (newref_lemma (q_maxref st) Hmr) as [H1 _]. rewrite H1. reflexivity.
  - (* MSetName *)
    destruct (vsetname_lemma len Ho) as [H1 _]. rewrite H1. reflexivity.
  - (* MSetAttr *)
    destruct Ho as [Hsz Hc]. destruct (setattr_lemma sz count Hc Hsz) as [H1 _]. rewrite H1. reflexivity.
  - (* MSdCreate *)
    rewrite sdcreate_lemma. unfold truth, sdcreate_too_many_vars, H4_MAX_NC_VARS.
    destruct (Z.leb_spec 5000 (q_nsets st)); destruct (Z.ltb_spec (q_nsets st) 5000); try lia; reflexivity.
  - (* MResetMax *)
    pose proof (reset_negative_keeps req sys (open_count (q_slots st)) (q_slots st)) as Hk.
    destruct (m_reset_maxopen req sys (open_count (q_slots st)) (q_slots st)) as [r slots]. simpl in Hk.
    destruct (Z.ltb_spec r 0); [|reflexivity].
    rewrite (Hk ltac:(lia)). unfold set_slots. rewrite mst_eta. reflexivity.
Qed.

Ltac inv_split := unfold minv; simpl; repeat split; try assumption; try lia.

Lemma step_inv : forall st o, minv st -> op_ok o -> minv (fst (s_step st o)).
Proof.
  intros st o Hi0 Ho. pose proof Hi0 as Hi.
  destruct Hi as (Heof & Hnv & Hoff & Hel & Hin & Hpos & Hna & Hmr & Hdefs & Hnf & Hiv & Hnf0 & Hvp & Hnl & Hat & Hns).
  destruct o; simpl in Ho; unfold s_step.
  - (* MAlloc *)
    destruct (s_getdiskblock (q_eof st) size) as [[off e]|] eqn:Eg; [|exact Hi0].
    destruct (getdiskblock_range (q_eof st) size off e Heof Eg) as (_ & He & _). inv_split.
  - (* MInsert *)
    unfold s_vinsertpair, UINT16_MAX. destruct (Z.ltb_spec (q_nvelt st) 65535); [|exact Hi0]. inv_split.
  - (* MFdefine *)
    unfold s_vsfdefine, MAX_ORDER, MAX_FIELD_SIZE.
    destruct (Z.leb_spec 1 order); simpl; [|exact Hi0].
    destruct (Z.leb_spec order 65535); simpl; [|exact Hi0].
    destruct (Z.ltb_spec 0 sz); simpl; [|exact Hi0].
    destruct (Z.leb_spec (sz * order) 65535); simpl; [|exact Hi0].
    inv_split. apply Forall_app. split; [assumption|]. constructor; [|constructor].
    unfold def_ok, MAX_FIELD_SIZE. simpl. nia.
  - (* MSetFields *)
    destruct (negb (q_nf st =? 0)); [exact Hi0|].
    destruct (lookup_fields (q_defs st) l) as [fs|] eqn:El; [|exact Hi0].
    destruct (s_vssetfields fs) as [[n iv]|] eqn:Es; [|exact Hi0].
    destruct (vssetfields_range fs n iv (lookup_ok _ _ _ Hdefs El) Es) as (Hn & Hv & Hz). inv_split.
  - (* MSeekRec *)
    destruct (Z.leb_spec (q_nf st) 0); simpl; [exact Hi0|]. destruct (Z.ltb_spec p 0); [exact Hi0|].
    unfold s_product. destruct (Z.leb_spec (p * q_iv st) INT32_MAX); [|exact Hi0]. inv_split; try nia.
  - (* MWriteRecs *)
    destruct ((q_nf st <=? 0) || (n <=? 0)); [exact Hi0|]. destruct (s_product (q_iv st) n); exact Hi0.
  - (* MWrite *)
    unfold hwrite_expected_s.
    destruct (s_hwrite (q_app st) (q_off st + q_elen st =? q_eof st) (q_posn st) len (q_off st) (q_elen st) (q_eof st))
      as [[[p l] e]|] eqn:Ew.
    + assert (Hate : (q_off st + q_elen st =? q_eof st) = true -> q_off st + q_elen st = q_eof st) by (apply Z.eqb_eq).
      assert (Hp0 : 0 <= q_posn st) by lia. assert (He0 : q_eof st <= INT32_MAX) by lia.
      destruct (hwrite_ok_range _ _ _ _ _ _ _ _ _ _ Hp0 Hoff Hel Hin He0 Hate Ew) as (Hp & Hpr & Hl & Hle & He).
      inv_split.
      (* not appendable: the write stayed inside the element *)
      intro Hfalse. unfold s_hwrite in Ew. rewrite Hfalse in Ew.
      destruct (Z.leb_spec len 0); simpl in Ew; [discriminate|].
      destruct (Z.ltb_spec INT32_MAX (q_posn st + len)); [discriminate|].
      destruct (Z.leb_spec (q_posn st + len) (q_elen st)); simpl in Ew; [|discriminate].
      inversion Ew; subst. lia.
    + match goal with |- context [if ?c then _ else _] => destruct c end; exact Hi0.
  - (* MSeek *)
    unfold s_hseek.
    match goal with |- context [if ?c then Some ?t else None] => destruct c eqn:Ec; [|exact Hi0] end.
    match goal with |- context [if ?c then (st, MOther) else _] => destruct c; [exact Hi0|] end.
    apply andb_true_iff in Ec. destruct Ec as [Ec Eapp]. apply andb_true_iff in Ec. destruct Ec as [E0 E1].
    apply Z.leb_le in E0. apply Z.leb_le in E1.
    inv_split. intro Hfalse. rewrite Hfalse in Eapp. simpl in Eapp. apply Z.leb_le in Eapp. exact Eapp.
  - (* MNewRef *)
    unfold s_newref_next, MAX_REF. destruct (Z.ltb_spec (q_maxref st) 65535); [|exact Hi0]. inv_split.
  - (* MSetName *)
    unfold s_vsetname, UINT16_MAX. destruct (Z.leb_spec len 65535); [|exact Hi0]. inv_split.
  - (* MSetAttr *)
    unfold s_setattr, MAX_ORDER. destruct (Z.leb_spec 1 count); simpl; [|exact Hi0].
    destruct (Z.leb_spec count 65535); simpl; [|exact Hi0]. destruct (count * sz <=? MAX_FIELD_SIZE); [|exact Hi0]. inv_split.
  - (* MSdCreate *)
    destruct (s_sdcreate_ok rank namelen); simpl; [|exact Hi0].
    destruct (Z.ltb_spec (q_nsets st) H4_MAX_NC_VARS); [|exact Hi0]. inv_split.
  - (* MResetMax *)
    destruct (m_reset_maxopen req sys (open_count (q_slots st)) (q_slots st)) as [r slots].
    destruct (r <? 0); [exact Hi0|]. inv_split.
Qed.

(* ------------------------------------------------------------------ all histories *)
Lemma run_refines : forall ops st, minv st -> Forall op_ok ops ->
  m_run st ops = s_run st ops /\ minv (fst (s_run st ops)).
Proof.
  induction ops as [|o t IH]; intros st Hi Hops; simpl.
  - split; [reflexivity | exact Hi].
  - inversion Hops as [|? ? Ho Ht]; subst.
    rewrite (step_refines st o Hi Ho).
    pose proof (step_inv st o Hi Ho) as Hi1.
    destruct (s_step st o) as [st1 r]. simpl in Hi1.
    destruct (IH st1 Hi1 Ht) as [IH1 IH2]. rewrite IH1.
    destruct (s_run st1 t) as [st2 rs]. simpl in *. split; [reflexivity | exact IH2].
Qed.

(* ------------------------------------------------------------------ frame: a refused operation changes nothing *)
Lemma step_frame : forall st o, minv st -> op_ok o -> snd (m_step st o) = MRefused -> fst (m_step st o) = st.
Proof.
  intros st o Hi Ho. rewrite (step_refines st o Hi Ho). clear Hi Ho.
  destruct o; unfold s_step;
  repeat match goal with
         | |- context [match ?x with _ => _ end] => destruct x
         end; simpl; intro H; try discriminate; reflexivity.
Qed.

(** without the detour through the specification: the frame property of the machine as the C code computes it, for
    ANY state and arguments with no field set (the guards alone make a refusal leave every field as it was) *)
Lemma step_frame_raw : forall st o, (q_nf st = 0 -> q_iv st = 0) ->
  snd (m_step st o) = MRefused -> fst (m_step st o) = st.
Proof.
  intros st o Hz. destruct o; unfold m_step.
  - pose proof (getdiskblock_fail_unchanged (q_eof st) size) as Hg.
    destruct (m_getdiskblock (q_eof st) size) as [[off|] e]; simpl in *; intro Hrf; [discriminate|].
    rewrite (Hg eq_refl). unfold set_eof. apply mst_eta.
  - unfold m_vinsertpair. destruct (truth (vinsertpair_full (q_nvelt st))); simpl; intro Hrf; [|discriminate].
    unfold set_nvelt. apply mst_eta.
  - destruct (m_vsfdefine sz order) as [[s od]|]; simpl; intro Hrf; [discriminate | reflexivity].
  - destruct (Z.eqb_spec (q_nf st) 0) as [Hn|]; simpl; [|reflexivity].
    destruct (lookup_fields (q_defs st) l) as [fs|].
    + pose proof (proj1 (proj2 (proj2 sites_refusal_lemma)) fs) as Hs.
      destruct (m_vssetfields fs) as [[|] [n iv]]; simpl in *; intro Hrf; [discriminate|].
      specialize (Hs eq_refl). inversion Hs; subst. unfold set_fields. rewrite <- Hn at 1. rewrite <- (Hz Hn) at 1. apply mst_eta.
    + simpl. intros _. unfold set_fields. rewrite <- Hn at 1. rewrite <- (Hz Hn) at 1. apply mst_eta.
  - destruct (q_nf st <=? 0); simpl; [reflexivity|]. destruct (m_vsseek (q_iv st) p); simpl; intro Hrf; [discriminate | reflexivity].
  - destruct (q_nf st <=? 0); simpl; [reflexivity|]. destruct (m_vswrite_total (q_iv st) n); simpl; intro Hrf; [discriminate | reflexivity].
  - destruct (m_hwrite (q_app st) (q_posn st) len (q_off st) (q_elen st) (q_eof st)); simpl; intro Hrf; try discriminate; reflexivity.
  - destruct (m_hseek (q_app st) origin offset (q_posn st) (q_elen st)); simpl; [|reflexivity].
    match goal with |- context [if ?c then _ else _] => destruct c end; simpl; intro Hrf; discriminate.
  - destruct (m_newref_next (q_maxref st)); simpl; intro Hrf; discriminate.
  - destruct (m_vsetname len); simpl; intro Hrf; [discriminate | reflexivity].
  - destruct (m_sdsetattr sz count); simpl; intro Hrf; [discriminate | reflexivity].
  - match goal with |- context [if ?c then _ else _] => destruct c end; simpl; intro Hrf; [discriminate | reflexivity].
  - pose proof (reset_negative_keeps req sys (open_count (q_slots st)) (q_slots st)) as Hk.
    destruct (m_reset_maxopen req sys (open_count (q_slots st)) (q_slots st)) as [r slots]. simpl in Hk.
    destruct (Z.ltb_spec r 0); simpl; intro Hrf; [|discriminate].
    rewrite (Hk ltac:(lia)). unfold set_slots. apply mst_eta.
Qed.

Lemma init_inv : forall eof0 app off elen, 0 <= eof0 <= INT32_MAX -> 0 <= off -> 0 <= elen -> off + elen <= eof0 ->
  minv (m_init eof0 app off elen).
Proof.
  intros. unfold m_init, minv, VSFIELDMAX, H4_MAX_NC_VARS, INT32_MAX in *. simpl. repeat split; try lia; try constructor.
Qed.

Lemma run_counters_in_range : forall ops st, minv st -> Forall op_ok ops -> minv (fst (m_run st ops)).
Proof. intros ops st Hi Ho. destruct (run_refines ops st Hi Ho) as [H1 H2]. rewrite H1. exact H2. Qed.
