(** Extraction of the C16 specification (judge) and the L1 error-flow model (ExtrOcamlBasic only). *)
Require Import H4.FaultSpec H4.FaultModel.
Require Extraction.
Require ExtrOcamlBasic.
Extraction "../extract/gen/fault_model.ml" FaultSpec.judge FaultSpec.absorbed FaultSpec.visible
  FaultModel.run_fn FaultModel.plan FaultModel.HPseek_prog FaultModel.HP_write_prog FaultModel.HP_read_prog
  FaultModel.HIextend_file_prog FaultModel.HTPsync_prog FaultModel.HIsync_prog FaultModel.HTPend_prog
  FaultModel.Hsync_prog FaultModel.Hclose_prog FaultModel.Hclose_prog_orig FaultModel.hi_close_prog
  FaultModel.HTInew_dd_block_prog FaultModel.HPgetdiskblock_prog FaultModel.HTIupdate_dd_prog.
