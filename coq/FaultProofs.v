(** C16 -- proofs about the error-flow model (FaultModel.v) and the observation specification (FaultSpec.v). *)
From Coq Require Import ZArith List Bool String Lia.
Import ListNotations.
Require Import H4.gen.Gen_Faults H4.FaultSpec H4.FaultModel.
Local Open Scope string_scope.
Local Open Scope list_scope.
Local Open Scope Z_scope.

(* ------------------------------------------------------------------------------------------------------------ *)
(** * S-level laws *)

Lemma visible_implies_judge_lemma : forall o,
  safe o = true ->
  (o_faults o = 0%N -> o_same_file o = true /\ o_same_data o = true) ->   (* the run without a fault is the fault-free run *)
  visible o = true -> judge o = Holds.
Proof.
  intros o Hs Hdet Hv. unfold judge. rewrite Hs. simpl.
  unfold visible in Hv. unfold silent_free.
  destruct (all_ok (o_rets o)); simpl in *; [|reflexivity].
  rewrite orb_false_r in Hv. apply N.eqb_eq in Hv. destruct (Hdet Hv) as [-> ->]. reflexivity.
Qed.

Lemma judge_holds_iff_lemma : forall o,
  judge o = Holds <-> (safe o = true /\ (all_ok (o_rets o) = true -> o_same_file o = true /\ o_same_data o = true)).
Proof.
  intros o. unfold judge, silent_free. destruct (safe o); simpl.
  - destruct (all_ok (o_rets o)); simpl.
    + destruct (o_same_file o), (o_same_data o); simpl; split; try discriminate; intuition congruence.
    + split; [intros _; split; [reflexivity|discriminate]|reflexivity].
  - split; [discriminate|intros [H _]; discriminate].
Qed.

(* ------------------------------------------------------------------------------------------------------------ *)
(** * The error-flow language: generic theorems (for every state type, program, state and oracle) *)

Section Generic.
  Variable St : Type.
  Notation prog := (prog St).
  Notation outcome := (outcome St).

  Lemma clean_app : forall a b, clean (a ++ b) = clean a && clean b.
  Proof. intros. unfold clean. apply forallb_app. Qed.

  (** semantic form of "a failure is visible": SUCCEED implies that no device call failed *)
  Definition visible_body (f : St -> oracle -> outcome) : Prop :=
    forall st o st' o' tr, f st o = (ROk, false, st', o', tr) -> clean tr = true.
  Definition visible_prog (p : prog) : Prop := visible_body (exec St p).

  Ltac orb_false :=
    repeat match goal with
           | H : _ || _ = false |- _ => apply orb_false_iff in H; destruct H
           end.

  Lemma iter_visible : forall f, visible_body f -> forall k, visible_body (iter St f k).
  Proof.
    intros f Hf k. induction k as [|k IH]; intros st o st' o' tr H; simpl in H.
    - inversion H; subst. reflexivity.
    - destruct (f st o) as [[[[r1 l1] st1] o1] t1] eqn:E1.
      destruct r1.
      + destruct (iter St f k st1 o1) as [[[[r2 l2] st2] o2] t2] eqn:E2.
        inversion H; subst. orb_false. subst.
        rewrite clean_app. rewrite (Hf _ _ _ _ _ E1). rewrite (IH _ _ _ _ _ E2). reflexivity.
      + inversion H.
  Qed.

  Lemma io_checked_visible : forall d onfail, visible_body (io_checked St d onfail).
  Proof.
    intros d onfail st o st' o' tr H. unfold io_checked in H.
    destruct (next o) as [b o1]. destruct b; inversion H; subst; reflexivity.
  Qed.

  Lemma fn_ok_true : forall r l, fn_ok r l = true -> r = ROk /\ l = false.
  Proof. intros [] []; simpl; intros; try discriminate; auto. Qed.

  Lemma visible_seq : forall a b, visible_prog a -> visible_prog b -> visible_prog (Seq a b).
  Proof.
    intros a b Ha Hb st o st' o' tr H. simpl in H.
    destruct (exec St a st o) as [[[[r1 l1] st1] o1] t1] eqn:E1. destruct r1.
    - destruct (exec St b st1 o1) as [[[[r2 l2] st2] o2] t2] eqn:E2.
      inversion H; subst. orb_false. subst.
      rewrite clean_app, (Ha _ _ _ _ _ E1), (Hb _ _ _ _ _ E2). reflexivity.
    - inversion H.
  Qed.

  Lemma visible_if : forall c a b, visible_prog a -> visible_prog b -> visible_prog (If c a b).
  Proof.
    intros c a b Ha Hb st o st' o' tr H. simpl in H. destruct (c st); [eapply Ha|eapply Hb]; eauto.
  Qed.

  Lemma visible_call : forall n q, visible_prog q -> visible_prog (Call n q).
  Proof.
    intros n q Hq st o st' o' tr H. simpl in H.
    destruct (exec St q st o) as [[[[r1 l1] st1] o1] t1] eqn:E1.
    destruct (fn_ok r1 l1) eqn:F; [|inversion H].
    apply fn_ok_true in F. destruct F as [-> ->]. inversion H; subst. eapply Hq; eauto.
  Qed.

  Lemma visible_calllate : forall n q, visible_prog q -> visible_prog (CallLate n q).
  Proof.
    intros n q Hq st o st' o' tr H. simpl in H.
    destruct (exec St q st o) as [[[[r1 l1] st1] o1] t1] eqn:E1.
    destruct (fn_ok r1 l1) eqn:F; [|inversion H].
    apply fn_ok_true in F. destruct F as [-> ->]. inversion H; subst. eapply Hq; eauto.
  Qed.

  (** THE generic theorem: a program without dropped results makes every device failure visible *)
  Lemma no_dropped_visible : forall p, no_dropped St p = true -> visible_prog p.
  Proof.
    induction p; intros Hnd; simpl in Hnd; try discriminate.
    - intros st o st' o' tr H. simpl in H. inversion H; subst. reflexivity.
    - intros st o st' o' tr H. simpl in H. inversion H; subst. reflexivity.
    - intros st o st' o' tr H. simpl in H. eapply io_checked_visible; eauto.
    - apply visible_call; auto.
    - apply visible_calllate; auto.
    - apply andb_true_iff in Hnd. destruct Hnd. apply visible_seq; auto.
    - apply andb_true_iff in Hnd. destruct Hnd. apply visible_if; auto.
    - intros st o st' o' tr H. simpl in H.
      eapply (iter_visible (exec St p) (IHp Hnd)); eauto.
    - intros st o st' o' tr H. simpl in H.
      eapply (iter_visible _ (io_checked_visible DAny (fun s => s))); eauto.
    - intros st o st' o' tr H. simpl in H.
      destruct (exec St p1 st o) as [[[[r1 l1] st1] o1] t1] eqn:E1. destruct r1.
      + inversion H; subst. eapply IHp1; eauto.
      + destruct (exec St p2 st1 o1) as [[[[r2 l2] st2] o2] t2]. inversion H.
  Qed.

  (** a run in which no device call failed does not depend on the oracle: it IS the fault-free run *)
  Definition oracle_free (f : St -> oracle -> outcome) : Prop :=
    forall st o r l st' o' tr, f st o = (r, l, st', o', tr) -> clean tr = true -> f st [] = (r, l, st', [], tr).

  Lemma io_checked_free : forall d onfail, oracle_free (io_checked St d onfail).
  Proof.
    intros d onfail st o r l st' o' tr H Hc. unfold io_checked in *.
    destruct o as [|b o1]; simpl in *.
    - inversion H; subst. reflexivity.
    - destruct b; inversion H; subst; simpl in Hc; [discriminate|reflexivity].
  Qed.

  Lemma iter_free : forall f, oracle_free f -> forall k, oracle_free (iter St f k).
  Proof.
    intros f Hf k. induction k as [|k IH]; intros st o r l st' o' tr H Hc; simpl in *.
    - inversion H; subst. reflexivity.
    - destruct (f st o) as [[[[r1 l1] st1] o1] t1] eqn:E1. destruct r1.
      + destruct (iter St f k st1 o1) as [[[[r2 l2] st2] o2] t2] eqn:E2.
        inversion H; subst. rewrite clean_app in Hc. apply andb_true_iff in Hc. destruct Hc as [C1 C2].
        rewrite (Hf _ _ _ _ _ _ _ E1 C1). rewrite (IH _ _ _ _ _ _ _ E2 C2). reflexivity.
      + inversion H; subst. rewrite (Hf _ _ _ _ _ _ _ E1 Hc). reflexivity.
  Qed.

  Lemma exec_oracle_free : forall p, oracle_free (exec St p).
  Proof.
    induction p; intros st o r l st' o' tr H Hc; simpl in *.
    - inversion H; subst; reflexivity.
    - inversion H; subst; reflexivity.
    - inversion H; subst; reflexivity.
    - eapply io_checked_free; eauto.
    - destruct o as [|b o1]; simpl in *; inversion H; subst; [reflexivity|].
      simpl in Hc. destruct b; [discriminate|reflexivity].
    - destruct (exec St p st o) as [[[[r1 l1] st1] o1] t1] eqn:E1. inversion H; subst.
      rewrite (IHp _ _ _ _ _ _ _ E1 Hc). reflexivity.
    - destruct (exec St p st o) as [[[[r1 l1] st1] o1] t1] eqn:E1. inversion H; subst.
      rewrite (IHp _ _ _ _ _ _ _ E1 Hc). reflexivity.
    - destruct (exec St p st o) as [[[[r1 l1] st1] o1] t1] eqn:E1. inversion H; subst.
      rewrite (IHp _ _ _ _ _ _ _ E1 Hc). reflexivity.
    - destruct (exec St p1 st o) as [[[[r1 l1] st1] o1] t1] eqn:E1. destruct r1.
      + destruct (exec St p2 st1 o1) as [[[[r2 l2] st2] o2] t2] eqn:E2.
        inversion H; subst. rewrite clean_app in Hc. apply andb_true_iff in Hc. destruct Hc as [C1 C2].
        rewrite (IHp1 _ _ _ _ _ _ _ E1 C1), (IHp2 _ _ _ _ _ _ _ E2 C2). reflexivity.
      + inversion H; subst. rewrite (IHp1 _ _ _ _ _ _ _ E1 Hc). reflexivity.
    - destruct (c st); eauto.
    - eapply (iter_free _ IHp); eauto.
    - eapply (iter_free _ (io_checked_free DAny (fun s => s))); eauto.
    - destruct (exec St p1 st o) as [[[[r1 l1] st1] o1] t1] eqn:E1. destruct r1.
      + inversion H; subst. rewrite (IHp1 _ _ _ _ _ _ _ E1 Hc). reflexivity.
      + destruct (exec St p2 st1 o1) as [[[[r2 l2] st2] o2] t2] eqn:E2.
        inversion H; subst. rewrite clean_app in Hc. apply andb_true_iff in Hc. destruct Hc as [C1 C2].
        rewrite (IHp1 _ _ _ _ _ _ _ E1 C1), (IHp2 _ _ _ _ _ _ _ E2 C2). reflexivity.
    - destruct (exec St p1 st o) as [[[[r1 l1] st1] o1] t1] eqn:E1.
      destruct (fn_ok r1 l1) eqn:F.
      + inversion H; subst. rewrite (IHp1 _ _ _ _ _ _ _ E1 Hc), F. reflexivity.
      + destruct (exec St p2 st1 o1) as [[[[r2 l2] st2] o2] t2] eqn:E2.
        inversion H; subst. rewrite clean_app in Hc. apply andb_true_iff in Hc. destruct Hc as [C1 C2].
        rewrite (IHp1 _ _ _ _ _ _ _ E1 C1), F, (IHp2 _ _ _ _ _ _ _ E2 C2). reflexivity.
  Qed.

  Lemma exec_seq_ok : forall a b st o st' o' tr,
    exec St (Seq a b) st o = (ROk, false, st', o', tr) ->
    exists s1 o1 t1 t2, exec St a st o = (ROk, false, s1, o1, t1) /\ exec St b s1 o1 = (ROk, false, st', o', t2) /\
                        tr = t1 ++ t2.
  Proof.
    intros a b st o st' o' tr H. simpl in H.
    destruct (exec St a st o) as [[[[r1 l1] s1] o1] t1] eqn:E1. destruct r1; [|discriminate].
    destruct (exec St b s1 o1) as [[[[r2 l2] s2] o2] t2] eqn:E2.
    inversion H; subst.
    repeat match goal with
           | H : _ || _ = false |- _ => apply orb_false_iff in H; destruct H
           end. subst.
    exists s1, o1, t1, t2. repeat split; auto.
  Qed.

  Lemma exec_call_ok : forall n q st o st' o' tr,
    exec St (Call n q) st o = (ROk, false, st', o', tr) -> exec St q st o = (ROk, false, st', o', tr).
  Proof.
    intros n q st o st' o' tr H. simpl in H.
    destruct (exec St q st o) as [[[[r1 l1] s1] o1] t1] eqn:E1.
    destruct (fn_ok r1 l1) eqn:F; [|discriminate].
    apply fn_ok_true in F. destruct F as [-> ->]. inversion H; subst. reflexivity.
  Qed.

  Lemma exec_calllate_ok : forall n q st o st' o' tr,
    exec St (CallLate n q) st o = (ROk, false, st', o', tr) -> exec St q st o = (ROk, false, st', o', tr).
  Proof.
    intros n q st o st' o' tr H. simpl in H.
    destruct (exec St q st o) as [[[[r1 l1] s1] o1] t1] eqn:E1.
    destruct (fn_ok r1 l1) eqn:F; [|discriminate].
    apply fn_ok_true in F. destruct F as [-> ->]. inversion H; subst. reflexivity.
  Qed.

  (** function level *)
  Lemma run_fn_visible : forall p, visible_prog p ->
    forall st o st' o' tr, run_fn St p st o = (true, st', o', tr) -> clean tr = true.
  Proof.
    intros p Hp st o st' o' tr H. unfold run_fn in H.
    destruct (exec St p st o) as [[[[r l] s1] o1] t1] eqn:E.
    assert (F : fn_ok r l = true) by (inversion H; reflexivity).
    apply fn_ok_true in F. destruct F as [-> ->]. inversion H; subst. eapply Hp; eauto.
  Qed.

  Lemma run_fn_same_run : forall p st o ok st' o' tr,
    run_fn St p st o = (ok, st', o', tr) -> clean tr = true -> run_fn St p st [] = (ok, st', [], tr).
  Proof.
    intros p st o ok st' o' tr H Hc. unfold run_fn in *.
    destruct (exec St p st o) as [[[[r l] s1] o1] t1] eqn:E. inversion H; subst.
    rewrite (exec_oracle_free p _ _ _ _ _ _ _ E Hc). reflexivity.
  Qed.

  (** workload level: API calls in sequence *)
  Lemma run_hist_visible : forall ps, Forall visible_prog ps ->
    forall st o oks st' o' tr, run_hist St ps st o = (oks, st', o', tr) ->
    forallb (fun b => b) oks = true -> clean tr = true /\ run_hist St ps st [] = (oks, st', [], tr).
  Proof.
    induction ps as [|p ps IH]; intros Hall st o oks st' o' tr H Hok; simpl in *.
    - inversion H; subst. split; reflexivity.
    - inversion Hall as [|? ? Hp Hps]; subst.
      destruct (run_fn St p st o) as [[[ok s1] o1] t1] eqn:E1.
      destruct (run_hist St ps s1 o1) as [[[oks2 s2] o2] t2] eqn:E2.
      inversion H; subst. simpl in Hok. apply andb_true_iff in Hok. destruct Hok as [Hok1 Hok2]. subst ok.
      pose proof (run_fn_visible p Hp _ _ _ _ _ E1) as C1.
      destruct (IH Hps _ _ _ _ _ _ E2 Hok2) as [C2 R2].
      split; [rewrite clean_app, C1, C2; reflexivity|].
      rewrite (run_fn_same_run p _ _ _ _ _ _ E1 C1). rewrite R2. reflexivity.
  Qed.

  Lemma run_hist_fault_visible : forall ps, Forall visible_prog ps ->
    forall st o oks st' o' tr, run_hist St ps st o = (oks, st', o', tr) ->
    clean tr = false -> existsb negb oks = true.
  Proof.
    intros ps Hall st o oks st' o' tr H Hc.
    destruct (forallb (fun b => b) oks) eqn:F.
    - destruct (run_hist_visible ps Hall _ _ _ _ _ _ H F) as [C _]. congruence.
    - clear -F. induction oks as [|b oks IH]; simpl in *; [discriminate|].
      destruct b; simpl in *; auto.
  Qed.

  (** state predicates preserved by every update of a program *)
  Fixpoint upd_pres (Q : St -> Prop) (p : prog) : Prop :=
    match p with
    | Upd f => forall s, Q s -> Q (f s)
    | Io _ onfail => forall s, Q s -> Q (onfail s)
    | Call _ q | CallLate _ q | CallDrop _ q | Loop _ q => upd_pres Q q
    | Seq a b | If _ a b | OnFail a b => upd_pres Q a /\ upd_pres Q b
    | CallElse _ a _ b onret => upd_pres Q a /\ upd_pres Q b /\ (forall s, Q s -> Q (onret s))
    | _ => True
    end.

  Definition pres_body (Q : St -> Prop) (f : St -> oracle -> outcome) : Prop :=
    forall st o r l st' o' tr, f st o = (r, l, st', o', tr) -> Q st -> Q st'.

  Lemma iter_pres : forall Q f, pres_body Q f -> forall k, pres_body Q (iter St f k).
  Proof.
    intros Q f Hf k. induction k as [|k IH]; intros st o r l st' o' tr H HQ; simpl in *.
    - inversion H; subst; auto.
    - destruct (f st o) as [[[[r1 l1] st1] o1] t1] eqn:E1. destruct r1.
      + destruct (iter St f k st1 o1) as [[[[r2 l2] st2] o2] t2] eqn:E2. inversion H; subst. eauto.
      + inversion H; subst. eauto.
  Qed.

  Lemma exec_pres : forall Q p, upd_pres Q p -> pres_body Q (exec St p).
  Proof.
    intros Q. induction p; intros Hp st o r l st' o' tr H HQ; simpl in *.
    - inversion H; subst; auto.
    - inversion H; subst; auto.
    - inversion H; subst; auto.
    - unfold io_checked in H. destruct (next o) as [b o1]. destruct b; inversion H; subst; auto.
    - destruct (next o) as [b o1]. inversion H; subst; auto.
    - destruct (exec St p st o) as [[[[r1 l1] st1] o1] t1] eqn:E1. inversion H; subst. eapply IHp; eauto.
    - destruct (exec St p st o) as [[[[r1 l1] st1] o1] t1] eqn:E1. inversion H; subst. eapply IHp; eauto.
    - destruct (exec St p st o) as [[[[r1 l1] st1] o1] t1] eqn:E1. inversion H; subst. eapply IHp; eauto.
    - destruct Hp as [Ha Hb].
      destruct (exec St p1 st o) as [[[[r1 l1] st1] o1] t1] eqn:E1. destruct r1.
      + destruct (exec St p2 st1 o1) as [[[[r2 l2] st2] o2] t2] eqn:E2. inversion H; subst.
        eapply IHp2; eauto. eapply IHp1; eauto.
      + inversion H; subst. eapply IHp1; eauto.
    - destruct Hp as [Ha Hb]. destruct (c st); [eapply IHp1|eapply IHp2]; eauto.
    - eapply (iter_pres Q _ (IHp Hp)); eauto.
    - eapply (iter_pres Q (io_checked St DAny (fun s => s))); eauto.
      intros s1 oo r1 l1 s2 o2 t1 E HQ1. unfold io_checked in E. destruct (next oo) as [b o3].
      destruct b; inversion E; subst; auto.
    - destruct Hp as [Ha Hb].
      destruct (exec St p1 st o) as [[[[r1 l1] st1] o1] t1] eqn:E1. destruct r1.
      + inversion H; subst. eapply IHp1; eauto.
      + destruct (exec St p2 st1 o1) as [[[[r2 l2] st2] o2] t2] eqn:E2. inversion H; subst.
        eapply IHp2; eauto. eapply IHp1; eauto.
    - destruct Hp as (Ha & Hb & Hr).
      destruct (exec St p1 st o) as [[[[r1 l1] st1] o1] t1] eqn:E1.
      destruct (fn_ok r1 l1).
      + inversion H; subst. eapply IHp1; eauto.
      + destruct (exec St p2 st1 o1) as [[[[r2 l2] st2] o2] t2] eqn:E2. inversion H; subst.
        assert (Q st2) by (eapply IHp2; eauto; eapply IHp1; eauto).
        destruct (fn_ok r2 l2); auto.
  Qed.

  (** visibility from the states that satisfy a precondition *)
  Definition visible_from (Q : St -> Prop) (p : prog) : Prop :=
    forall st o st' o' tr, Q st -> exec St p st o = (ROk, false, st', o', tr) -> clean tr = true.

  Lemma visible_from_any : forall (Q : St -> Prop) p, visible_prog p -> visible_from Q p.
  Proof. intros Q p H st o st' o' tr _ E. eapply H; eauto. Qed.

  Lemma visible_from_seq : forall (Q : St -> Prop) a b, visible_from Q a -> upd_pres Q a -> visible_from Q b ->
    visible_from Q (Seq a b).
  Proof.
    intros Q a b Ha Hpa Hb st o st' o' tr HQ H.
    apply exec_seq_ok in H. destruct H as (s1 & o1 & t1 & t2 & E1 & E2 & ->).
    rewrite clean_app, (Ha _ _ _ _ _ HQ E1).
    rewrite (Hb _ _ _ _ _ (exec_pres Q a Hpa _ _ _ _ _ _ _ E1 HQ) E2). reflexivity.
  Qed.

  Lemma visible_from_if_false : forall (Q : St -> Prop) c a b, (forall st, Q st -> c st = false) -> visible_from Q b ->
    visible_from Q (If c a b).
  Proof.
    intros Q c a b Hc Hb st o st' o' tr HQ H. simpl in H. rewrite (Hc _ HQ) in H. eapply Hb; eauto.
  Qed.

  Lemma visible_from_call : forall (Q : St -> Prop) n q, visible_from Q q -> visible_from Q (Call n q).
  Proof.
    intros Q n q Hq st o st' o' tr HQ H. apply exec_call_ok in H. eapply Hq; eauto.
  Qed.
End Generic.

(* ------------------------------------------------------------------------------------------------------------ *)
(** * The L1 model: Hclose *)

Lemma hi_close_closes : forall st o r l st' o' tr,
  exec frec hi_close_prog st o = (r, l, st', o', tr) -> file_open st' = false.
Proof.
  intros st o r l st' o' tr H. unfold hi_close_prog in H. simpl in H. unfold io_checked in H.
  destruct (next o) as [b o1]. destruct b; inversion H; subst; reflexivity.
Qed.

Lemma HTPend_keeps_closed : upd_pres frec (fun s => file_open s = false) HTPend_prog.
Proof.
  unfold HTPend_prog, HTPsync_prog, HPseek_prog, HP_write_prog, id_st, clear_cur_dirty. simpl.
  repeat split; intros s Hs; try exact Hs; destruct s; simpl in *; exact Hs.
Qed.

Lemma release_closed_silent : forall st o r l st' o' tr,
  file_open st = false -> exec frec (Call "HIrelease_filerec_node" Release_prog) st o = (r, l, st', o', tr) -> tr = [].
Proof.
  intros st o r l st' o' tr Hc H. simpl in H. rewrite Hc in H. simpl in H. inversion H; subst. reflexivity.
Qed.

Lemma hclose_tail_visible : visible_prog frec Hclose_tail.
Proof.
  intros st o st' o' tr H. unfold Hclose_tail in H.
  apply exec_seq_ok in H. destruct H as (sA & oA & tA & tBC & EA & EBC & ->).
  apply exec_seq_ok in EBC. destruct EBC as (sB & oB & tB & tC & EB & EC & ->).
  assert (CA : clean tA = true).
  { eapply (no_dropped_visible frec (CallLate "HI_CLOSE" hi_close_prog)); [reflexivity|exact EA]. }
  assert (CB : clean tB = true).
  { eapply (no_dropped_visible frec (Call "HTPend" HTPend_prog)); [reflexivity|exact EB]. }
  assert (HcA : file_open sA = false).
  { apply exec_calllate_ok in EA. eapply hi_close_closes; eauto. }
  assert (HcB : file_open sB = false).
  { eapply (exec_pres frec (fun s => file_open s = false) (Call "HTPend" HTPend_prog)); eauto.
    simpl. exact HTPend_keeps_closed. }
  assert (tC = []).
  { eapply release_closed_silent; eauto. }
  subst tC. rewrite !clean_app, CA, CB. reflexivity.
Qed.

Lemma hclose_visible : visible_prog frec Hclose_prog.
Proof.
  unfold Hclose_prog.
  apply visible_seq; [apply no_dropped_visible; reflexivity|].
  apply visible_seq; [apply no_dropped_visible; reflexivity|].
  apply visible_seq; [apply no_dropped_visible; reflexivity|].
  apply visible_seq; [apply no_dropped_visible; reflexivity|].
  apply visible_if; [|apply no_dropped_visible; reflexivity].
  apply visible_seq; [apply no_dropped_visible; reflexivity|].
  apply visible_seq; [apply no_dropped_visible; reflexivity|].
  exact hclose_tail_visible.
Qed.

Lemma hclose_fault_visible_lemma : forall st o st' o' tr,
  run_fn frec Hclose_prog st o = (true, st', o', tr) ->
  clean tr = true /\ run_fn frec Hclose_prog st [] = (true, st', [], tr).
Proof.
  intros st o st' o' tr H.
  pose proof (run_fn_visible frec Hclose_prog hclose_visible _ _ _ _ _ H) as C.
  split; [exact C|]. eapply run_fn_same_run; eauto.
Qed.

(** the other modelled functions have no dropped site at all *)
Lemma l1_functions_visible :
  visible_prog frec (HPseek_prog cur_off) /\ visible_prog frec (HP_write_prog (fun _ => 1)) /\
  visible_prog frec (HP_read_prog (fun _ => 1)) /\ visible_prog frec hi_close_prog /\
  visible_prog frec HIextend_file_prog /\ visible_prog frec HTPsync_prog /\ visible_prog frec HIsync_prog /\
  visible_prog frec HTPend_prog /\ visible_prog frec HIupdate_version_prog /\ visible_prog frec Hsync_prog.
Proof. repeat split; apply no_dropped_visible; reflexivity. Qed.

Lemma hpwrite_visible : forall n, visible_prog frec (HP_write_prog n).
Proof. intros. apply no_dropped_visible. reflexivity. Qed.
Lemma hpread_visible : forall n, visible_prog frec (HP_read_prog n).
Proof. intros. apply no_dropped_visible. reflexivity. Qed.
Lemma hpseek_visible : forall off, visible_prog frec (HPseek_prog off).
Proof. intros. apply no_dropped_visible. reflexivity. Qed.

(* ------------------------------------------------------------------------------------------------------------ *)
(** * The code before the fixes: refuted *)

Definition st_plain : frec :=
  {| cur_off := 0; last_op := OpUnknown; end_off := 100; cache := false; dirty_dd := false; dirty_end := false;
     blocks := [ {| b_off := 2; b_dirty := false; b_ndds := 16 |} ]; cursor := 0%nat; refcount := 1; attach := 0;
     vmod := false; vcalls := 0%nat; file_open := true; writable := true; own_aid := false;
     nb_published := false; nb_freed := false |}.

Lemma hclose_orig_refuted_lemma :
  exists st o st' o' tr, run_fn frec Hclose_prog_orig st o = (true, st', o', tr) /\ clean tr = false.
Proof. exists st_plain, [true]. eexists. eexists. eexists. split; [vm_compute; reflexivity|reflexivity]. Qed.

(* ------------------------------------------------------------------------------------------------------------ *)
(** * Tie to the current C source: the generated tables *)

Lemma model_matches_source_lemma :
  sites frec (HP_read_prog (fun _ => 1)) = norm_sites sites_HP_read /\
  sites frec (HP_write_prog (fun _ => 1)) = norm_sites sites_HP_write /\
  sites frec (HPseek_prog cur_off) = norm_sites sites_HPseek /\
  sites frec hi_close_prog = norm_sites sites_hi_close_stdio /\
  sites frec HIextend_file_prog = norm_sites sites_HIextend_file /\
  sites frec HIsync_prog = norm_sites sites_HIsync /\
  sites frec HTPsync_prog = norm_sites sites_HTPsync /\
  sites frec HTPend_prog = norm_sites sites_HTPend /\
  sites frec Release_prog = norm_sites sites_HIrelease_filerec_node /\
  sites frec HIupdate_version_prog = norm_sites sites_HIupdate_version /\
  sites frec Hclose_prog = norm_sites sites_Hclose /\
  sites frec Hsync_prog = norm_sites sites_Hsync.
Proof. repeat split; reflexivity. Qed.

(** the wrapper macros: which stdio function, and the test that turns its result into SUCCEED / FAIL *)
Definition HI_macros_expected : list (string * (string * string)) :=
  [("HI_OPEN", ("fopen", "ptr")); ("HI_CREATE", ("fopen", "ptr")); ("HI_READ", ("fread", "eq_count"));
   ("HI_WRITE", ("fwrite", "eq_count")); ("HI_CLOSE", ("hi_close_stdio", "call")); ("HI_FLUSH", ("fflush", "eq_zero"));
   ("HI_SEEK", ("fseek", "eq_zero")); ("HI_SEEKEND", ("fseek", "eq_zero")); ("HI_TELL", ("ftell", "raw"))].

Lemma hi_macros_checked_lemma : HI_macros = HI_macros_expected.
Proof. reflexivity. Qed.

(** every I/O call site of every anchored function hands a failure on (checked, late or returned), except the one
    site listed here: HIrelease_filerec_node's HI_CLOSE, which [hclose_tail_visible] shows is never reached with an
    open file on the close path (the file was closed, and forgotten, just before) *)
Definition cls_ok (c : cls) : bool := match c with Dropped | Diverted => false | _ => true end.
(** ... and ncclose's NC_endef (on failure ncclose returns ncabort's result): only in netCDF define mode, which an SD
    file never is in ([fact_SDstart_clears_NC_INDEF], regenerated from mfsd.c) *)
Definition excused (fn callee : string) : bool :=
  (String.eqb fn "HIrelease_filerec_node" && String.eqb callee "HI_CLOSE") ||
  (String.eqb fn "ncclose" && String.eqb callee "NC_endef" && fact_SDstart_clears_NC_INDEF).
Definition fn_sites_ok (f : string * list (string * cls)) : bool :=
  forallb (fun s => cls_ok (snd s) || excused (fst f) (fst s)) (snd f).

Lemma anchored_sites_checked_lemma : forallb fn_sites_ok anchored = true.
Proof. vm_compute. reflexivity. Qed.

Lemma anchored_covers_lemma :
  map fst anchored =
  ["HP_read"; "HP_write"; "HPseek"; "hi_close_stdio"; "HIextend_file"; "HIsync"; "HTPsync"; "HTPend";
   "HIrelease_filerec_node"; "HIupdate_version"; "Hclose"; "Hsync"; "HPread_drec"; "Vdetach"; "VSdetach";
   "HMCPcloseAID"; "HMCPendaccess"; "mcache_sync"; "ncclose"; "NC_free_cdf"; "hdf_close"; "hdf_xdr_cdf"; "xdr_cdf";
   "SDend"; "SDendaccess"; "HPgetdiskblock"; "HTIupdate_dd"; "HTInew_dd_block"; "Hopen"; "SDgetchunkinfo";
   "SDIfreevarAID"; "SDsetchunkcache"; "SDgetcompinfo"; "SDgetdatasize"; "SDcheckempty"; "SDsetaccesstype";
   "SDwritedata"; "SDreaddata"; "SDwritechunk"; "SDreadchunk"].
Proof. reflexivity. Qed.

(** a table without dropped sites gives, for ANY control flow over those sites, a visible program: the link between
    the generated tables and the semantic theorem *)
Lemma sites_ok_no_dropped_shallow : forall St (p : prog St),
  no_dropped St p = true -> forallb (fun s => cls_ok (snd s)) (sites St p) = true.
Proof.
  induction p; simpl; intros H; try reflexivity; try discriminate; auto.
  - apply andb_true_iff in H. destruct H. rewrite forallb_app, IHp1, IHp2; auto.
  - apply andb_true_iff in H. destruct H. rewrite forallb_app, IHp1, IHp2; auto.
  - rewrite forallb_app, IHp1; auto. simpl. clear. induction (sites St p2); simpl; auto.
Qed.

(* ------------------------------------------------------------------------------------------------------------ *)
(** * Non-vacuity: concrete runs *)

Definition st_cached : frec :=
  {| cur_off := 40; last_op := OpWrite; end_off := 700; cache := true; dirty_dd := true; dirty_end := true;
     blocks := [ {| b_off := 2; b_dirty := true; b_ndds := 4 |}; {| b_off := 300; b_dirty := false; b_ndds := 4 |};
                 {| b_off := 500; b_dirty := true; b_ndds := 4 |} ];
     cursor := 0%nat; refcount := 1; attach := 0; vmod := true; vcalls := 3%nat; file_open := true;
     writable := true; own_aid := false;
     nb_published := false; nb_freed := false |}.

(* ------------------------------------------------------------------------------------------------------------ *)
(** * Statements exactly as they appear in Properties_C16.v *)

Lemma fault_visible_generic_lemma : forall (St : Type) (p : prog St), no_dropped St p = true ->
  forall st o st' o' tr, run_fn St p st o = (true, st', o', tr) -> clean tr = true.
Proof. intros St p H. exact (run_fn_visible St p (no_dropped_visible St p H)). Qed.

Lemma l1_functions_fault_visible_lemma :
  (forall off, visible_prog frec (HPseek_prog off)) /\ (forall n, visible_prog frec (HP_write_prog n)) /\
  (forall n, visible_prog frec (HP_read_prog n)) /\ visible_prog frec hi_close_prog /\
  visible_prog frec HIextend_file_prog /\ visible_prog frec HTPsync_prog /\ visible_prog frec HIsync_prog /\
  visible_prog frec HTPend_prog /\ visible_prog frec HIupdate_version_prog /\ visible_prog frec Hsync_prog /\
  visible_prog frec Hclose_prog.
Proof.
  split; [exact hpseek_visible|]. split; [exact hpwrite_visible|]. split; [exact hpread_visible|].
  destruct l1_functions_visible as (_ & _ & _ & H4 & H5 & H6 & H7 & H8 & H9 & H10).
  repeat split; try assumption. exact hclose_visible.
Qed.

Lemma anchored_table_fault_visible_lemma : forall (St : Type) (p : prog St), no_dropped St p = true ->
  visible_prog St p /\ forallb (fun s => cls_ok (snd s)) (sites St p) = true.
Proof. intros St p H. split; [exact (no_dropped_visible St p H)|exact (sites_ok_no_dropped_shallow St p H)]. Qed.

Lemma workload_hypothesis_met_lemma : Forall (visible_prog frec) [Hsync_prog; Hclose_prog].
Proof. repeat constructor; [apply no_dropped_visible; reflexivity|exact hclose_visible]. Qed.

(* ------------------------------------------------------------------------------------------------------------ *)
(** * The anchored functions above L1: call-site skeleton = generated table, and fault visibility *)

Lemma upper_model_matches_source_lemma :
  sites genv HPread_drec_prog = norm_sites sites_HPread_drec /\
  sites genv Vdetach_prog = norm_sites sites_Vdetach /\
  sites genv VSdetach_prog = norm_sites sites_VSdetach /\
  sites genv mcache_sync_prog = norm_sites sites_mcache_sync /\
  sites genv HMCPcloseAID_prog = norm_sites sites_HMCPcloseAID /\
  sites genv HMCPendaccess_prog = norm_sites sites_HMCPendaccess /\
  sites genv NC_free_cdf_prog = norm_sites sites_NC_free_cdf /\
  sites genv hdf_close_prog = norm_sites sites_hdf_close /\
  sites genv hdf_xdr_cdf_prog = norm_sites sites_hdf_xdr_cdf /\
  sites genv xdr_cdf_prog = norm_sites sites_xdr_cdf /\
  sites genv ncclose_prog = norm_sites sites_ncclose /\
  sites genv SDend_prog = norm_sites sites_SDend /\
  sites genv SDendaccess_prog = norm_sites sites_SDendaccess.
Proof. repeat split; reflexivity. Qed.

(** eleven of them have no dropped site at any depth *)
Lemma upper_functions_visible :
  visible_prog genv HPread_drec_prog /\ visible_prog genv Vdetach_prog /\ visible_prog genv VSdetach_prog /\
  visible_prog genv mcache_sync_prog /\ visible_prog genv HMCPcloseAID_prog /\
  visible_prog genv HMCPendaccess_prog /\ visible_prog genv NC_free_cdf_prog /\ visible_prog genv hdf_close_prog /\
  visible_prog genv hdf_xdr_cdf_prog /\ visible_prog genv xdr_cdf_prog /\ visible_prog genv SDendaccess_prog.
Proof. repeat split; apply no_dropped_visible; reflexivity. Qed.

(** ncclose and SDend: outside netCDF define mode *)
Definition not_indef (s : genv) : Prop := indef s = false.

Ltac pres_genv := simpl; repeat split; intros s Hs; try exact Hs; destruct s; simpl in *; exact Hs.

Lemma ncclose_visible : visible_from genv not_indef ncclose_prog.
Proof.
  unfold ncclose_prog.
  apply visible_from_seq; [apply visible_from_any, no_dropped_visible; reflexivity|unfold not_indef; pres_genv|].
  apply visible_from_seq.
  - apply visible_from_if_false; [intros st H; exact H|].
    apply visible_from_any, no_dropped_visible; reflexivity.
  - unfold not_indef; pres_genv.
  - apply visible_from_any, no_dropped_visible; reflexivity.
Qed.

Lemma SDend_visible : visible_from genv not_indef SDend_prog.
Proof.
  unfold SDend_prog.
  apply visible_from_seq; [apply visible_from_any, no_dropped_visible; reflexivity|unfold not_indef; pres_genv|].
  apply visible_from_seq; [apply visible_from_any, no_dropped_visible; reflexivity|unfold not_indef; pres_genv|].
  apply visible_from_call. exact ncclose_visible.
Qed.

(** in define mode the property FAILS for ncclose as written: NC_endef fails, ncabort succeeds, ncclose returns 0 *)
Definition env_indef : genv :=
  {| choices := [false]; trips := []; counts := [1%nat; 0%nat]; cur := O; indef := true; decode := false;
     returned := false |}.
Lemma ncclose_indef_refuted_lemma :
  exists st o st' o' tr, indef st = true /\ run_fn genv ncclose_prog st o = (true, st', o', tr) /\ clean tr = false.
Proof. exists env_indef, [true]. eexists. eexists. eexists. split; [reflexivity|]. split; [vm_compute; reflexivity|reflexivity]. Qed.

Lemma anchored_functions_fault_visible_lemma :
  (* L1 (file record) *)
  ((forall off, visible_prog frec (HPseek_prog off)) /\ (forall n, visible_prog frec (HP_write_prog n)) /\
   (forall n, visible_prog frec (HP_read_prog n)) /\ visible_prog frec hi_close_prog /\
   visible_prog frec HIextend_file_prog /\ visible_prog frec HTPsync_prog /\ visible_prog frec HIsync_prog /\
   visible_prog frec HTPend_prog /\ visible_prog frec HIupdate_version_prog /\ visible_prog frec Hsync_prog /\
   visible_prog frec Hclose_prog) /\
  (* above L1 (every resolution of the data-dependent branches) *)
  (visible_prog genv HPread_drec_prog /\ visible_prog genv Vdetach_prog /\ visible_prog genv VSdetach_prog /\
   visible_prog genv mcache_sync_prog /\ visible_prog genv HMCPcloseAID_prog /\
   visible_prog genv HMCPendaccess_prog /\ visible_prog genv NC_free_cdf_prog /\ visible_prog genv hdf_close_prog /\
   visible_prog genv hdf_xdr_cdf_prog /\ visible_prog genv xdr_cdf_prog /\ visible_prog genv SDendaccess_prog) /\
  (* the two that need "not in netCDF define mode" *)
  (fact_SDstart_clears_NC_INDEF = true /\ visible_from genv not_indef ncclose_prog /\
   visible_from genv not_indef SDend_prog).
Proof.
  split; [exact l1_functions_fault_visible_lemma|]. split; [exact upper_functions_visible|].
  split; [reflexivity|]. split; [exact ncclose_visible|exact SDend_visible].
Qed.

(** non-vacuity for the upper functions: an environment in which SDend really walks through xdr_cdf, hdf_close and
    NC_free_cdf *)
Definition env_sdend : genv :=
  {| choices := [false; true; true; true; true; true; false; false; false; true; false; true; false; true; true; true;
                 false; true; false; false; true; false; true; false; false; false];
     trips := [2%nat]; counts := [2%nat; 3%nat; 1%nat; 1%nat; 1%nat; 1%nat; 2%nat; 4%nat]; cur := O; indef := false;
     decode := false; returned := false |}.

(* ------------------------------------------------------------------------------------------------------------ *)
(** * DD-block growth (round 2): HPgetdiskblock, HTIupdate_dd, HTInew_dd_block *)

Lemma ddgrow_matches_source_lemma :
  sites frec (HPgetdiskblock_prog (fun _ => 1) true) = norm_sites sites_HPgetdiskblock /\
  sites frec (HTIupdate_dd_prog cur_off) = norm_sites sites_HTIupdate_dd /\
  sites frec HTInew_dd_block_prog = norm_sites sites_HTInew_dd_block /\
  fact_HTInew_dd_block_io_after_publication = true.
Proof. repeat split; reflexivity. Qed.

Lemma ddgrow_visible_lemma :
  (forall size mv, visible_prog frec (HPgetdiskblock_prog size mv)) /\
  (forall off, visible_prog frec (HTIupdate_dd_prog off)) /\ visible_prog frec HTInew_dd_block_prog.
Proof.
  repeat split; intros; apply no_dropped_visible; try reflexivity. destruct mv; reflexivity.
Qed.

(** memory safety of the error path: the new DD block is linked into the list BEFORE the last I/O step, so the error
    clean-up must not free it.  [HTInew_dd_block_prog]'s clean-up is whatever the translator finds in the source. *)
Lemma newblock_never_dangling_lemma : forall st o r l st' o' tr,
  nb_freed st = false -> exec frec HTInew_dd_block_prog st o = (r, l, st', o', tr) -> nb_dangling st' = false.
Proof.
  intros st o r l st' o' tr Hf H.
  assert (nb_freed st' = false).
  { eapply (exec_pres frec (fun s => nb_freed s = false) HTInew_dd_block_prog); eauto.
    unfold HTInew_dd_block_prog, HPgetdiskblock_prog, HPseek_prog, HP_write_prog, publish_block, id_st. simpl.
    repeat split; intros s Hs; try exact Hs; destruct s; simpl in *; exact Hs. }
  unfold nb_dangling. rewrite H0. apply andb_false_r.
Qed.

(** non-vacuity: not caching, one full block: six device calls; a fault at the last two (the link update) leaves the
    function with FAIL and the block published *)
Definition st_nocache_full : frec :=
  {| cur_off := 200; last_op := OpWrite; end_off := 200; cache := false; dirty_dd := false; dirty_end := false;
     blocks := [ {| b_off := 4; b_dirty := false; b_ndds := 4 |} ]; cursor := 0%nat; refcount := 1; attach := 0;
     vmod := false; vcalls := 0%nat; file_open := true; writable := true; own_aid := false;
     nb_published := false; nb_freed := false |}.

(* ------------------------------------------------------------------------------------------------------------ *)
(** * Failure-value conventions (round 3): every caller tests a callee's result for the value the callee returns on
      failure (FAIL = -1 versus FALSE = 0).  Table regenerated from putget.c, cdf.c, file.c, mfsd.c, hfile.c,
      hfiledd.c; rows whose result is returned unchanged or tested elsewhere are not decided here. *)
Definition conv_ok (r : string * string * string * string) : bool :=
  let '(_, _, kind, test) := r in
  if String.eqb test "UNTESTED" || String.eqb test "RETURNED" then true
  else if String.eqb test "NOTSUCCEED" then String.eqb kind "FAIL"
  else String.eqb kind test.

Lemma conventions_consistent_lemma : forallb conv_ok conventions = true /\ (40 <= List.length conventions)%nat.
Proof. split; [vm_compute; reflexivity|vm_compute; repeat constructor]. Qed.

(* ------------------------------------------------------------------------------------------------------------ *)
(** * Round 4: state shared between file ids -- Hopen's reopen branch never leaves the file record without a stream *)
Lemma hopen_reopen_keeps_stream_lemma : forall st o r l st' o' tr,
  file_open st = true -> exec frec Hopen_reopen_prog st o = (r, l, st', o', tr) -> file_open st' = true.
Proof.
  intros st o r l st' o' tr Hf H.
  eapply (exec_pres frec (fun s => file_open s = true) Hopen_reopen_prog); eauto.
  unfold Hopen_reopen_prog, HIsync_prog, HTPsync_prog, HIextend_file_prog, HPseek_prog, HP_write_prog, id_st,
    clear_cur_dirty. simpl.
  repeat split; intros s Hs; try exact Hs; try reflexivity; destruct s; simpl in *; exact Hs.
Qed.
Lemma hopen_reopen_visible_lemma : visible_prog frec Hopen_reopen_prog.
Proof. apply no_dropped_visible. reflexivity. Qed.
