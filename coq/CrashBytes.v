(** C17 -- byte-level lemmas: read_bytes / write_at (read-after-write, frame), big-endian round trips. *)
From Coq Require Import ZArith List Bool Lia.
Require Import H4.gen.Gen_Crash H4.CrashSpec.
Import ListNotations.
Local Open Scope Z_scope.

(** ---- nth characterisation of write_at *)
Lemma my_nth_skipn {A} n (l : list A) i d : nth i (skipn n l) d = nth (n + i) l d.
Proof. revert l; induction n; intros; simpl; auto. destruct l; simpl; auto. destruct i; auto. Qed.

Lemma my_nth_firstn {A} n (l : list A) i d : (i < n)%nat -> nth i (firstn n l) d = nth i l d.
Proof. revert l i; induction n; intros; [lia|]. destruct l; simpl; auto. destruct i; auto. apply IHn. lia. Qed.

Lemma nth_repeat0 n i : nth i (repeat 0 n) 0 = 0.
Proof. revert i; induction n; destruct i; simpl; auto. Qed.

Lemma nth_padded (img : list Z) k i : nth i (img ++ repeat 0 k) 0 = nth i img 0.
Proof.
  destruct (Nat.lt_ge_cases i (length img)).
  - now rewrite app_nth1.
  - rewrite app_nth2 by lia. rewrite nth_repeat0. now rewrite nth_overflow.
Qed.

Lemma nth_write_at img off bs i :
  nth i (write_at img off bs) 0 =
  if (Z.to_nat off <=? i)%nat && (i <? Z.to_nat off + length bs)%nat then nth (i - Z.to_nat off) bs 0 else nth i img 0.
Proof.
  unfold write_at. set (o := Z.to_nat off). set (p := img ++ repeat 0 (o - length img)).
  assert (Hp : (o <= length p)%nat) by (unfold p; rewrite app_length, repeat_length; lia).
  assert (Hf : length (firstn o p) = o) by (rewrite firstn_length; lia).
  destruct (Nat.leb_spec o i); simpl.
  - rewrite app_nth2 by lia. rewrite Hf.
    destruct (Nat.ltb_spec i (o + length bs)).
    + now rewrite app_nth1 by lia.
    + rewrite app_nth2 by lia.
      destruct (Nat.le_gt_cases (o + length bs) (length p)).
      * rewrite my_nth_skipn. replace (o + length bs + (i - o - length bs))%nat with i by lia.
        unfold p. apply nth_padded.
      * rewrite skipn_all2 by lia. destruct (i - o - length bs)%nat; simpl.
        -- rewrite nth_overflow; auto. unfold p in *. rewrite app_length in *. lia.
        -- rewrite nth_overflow; auto. unfold p in *. rewrite app_length in *. lia.
  - rewrite app_nth1 by lia. rewrite my_nth_firstn by lia.
    unfold p. apply nth_padded.
Qed.

Lemma length_write_at img off bs :
  length (write_at img off bs) = Nat.max (length img) (Z.to_nat off + length bs).
Proof.
  unfold write_at. set (o := Z.to_nat off). set (p := img ++ repeat 0 (o - length img)).
  assert (Hp : length p = Nat.max (length img) o) by (unfold p; rewrite app_length, repeat_length; lia).
  rewrite !app_length, firstn_length, skipn_length. lia.
Qed.

Lemma list_ext (a b : list Z) : length a = length b -> (forall i, (i < length a)%nat -> nth i a 0 = nth i b 0) -> a = b.
Proof. intros. apply nth_ext with (d := 0) (d' := 0); auto. Qed.

Lemma nth_sub img o n j : (j < n)%nat -> nth j (firstn n (skipn o img)) 0 = nth (o + j) img 0.
Proof. intros. rewrite my_nth_firstn by lia. apply my_nth_skipn. Qed.

Lemma read_bytes_some img off n x :
  read_bytes img off n = Some x ->
  0 <= off /\ 0 <= n /\ off + n <= zlen img /\ x = firstn (Z.to_nat n) (skipn (Z.to_nat off) img) /\ zlen x = n.
Proof.
  unfold read_bytes, zlen. destruct (0 <=? off) eqn:A; destruct (0 <=? n) eqn:B; simpl; try discriminate.
  destruct (off + n <=? Z.of_nat (length img)) eqn:C; try discriminate.
  intros H; inversion H; subst. apply Z.leb_le in A, B, C. repeat split; auto.
  rewrite firstn_length, skipn_length. lia.
Qed.

Lemma read_bytes_intro img off n :
  0 <= off -> 0 <= n -> off + n <= zlen img ->
  read_bytes img off n = Some (firstn (Z.to_nat n) (skipn (Z.to_nat off) img)).
Proof.
  intros. unfold read_bytes.
  destruct (Z.leb_spec 0 off); destruct (Z.leb_spec 0 n); destruct (Z.leb_spec (off + n) (zlen img)); simpl; auto; lia.
Qed.

Lemma zlen_write_at img off bs : 0 <= off -> zlen (write_at img off bs) = Z.max (zlen img) (off + zlen bs).
Proof. intros. unfold zlen. rewrite length_write_at. lia. Qed.

Lemma read_write_same img off bs : 0 <= off -> read_bytes (write_at img off bs) off (zlen bs) = Some bs.
Proof.
  intros. rewrite read_bytes_intro; auto; try (unfold zlen; lia).
  2: { rewrite zlen_write_at by auto. lia. }
  f_equal. apply list_ext.
  - rewrite firstn_length, skipn_length, length_write_at. unfold zlen. lia.
  - intros i Hi. rewrite firstn_length, skipn_length, length_write_at in Hi. unfold zlen in *.
    rewrite nth_sub by lia. rewrite nth_write_at.
    destruct (Nat.leb_spec (Z.to_nat off) (Z.to_nat off + i)); try lia.
    destruct (Nat.ltb_spec (Z.to_nat off + i) (Z.to_nat off + length bs)); try lia. simpl.
    f_equal. lia.
Qed.

Lemma read_write_other img off bs o n x :
  0 <= off -> read_bytes img o n = Some x -> (o + n <= off \/ off + zlen bs <= o) ->
  read_bytes (write_at img off bs) o n = Some x.
Proof.
  intros Hoff Hr Hd. apply read_bytes_some in Hr. destruct Hr as (A & B & C & D & E).
  rewrite read_bytes_intro; auto.
  2: { rewrite zlen_write_at by auto. lia. }
  f_equal. subst x. apply list_ext.
  - rewrite !firstn_length, !skipn_length, length_write_at. unfold zlen in *. lia.
  - intros i Hi. rewrite firstn_length, skipn_length, length_write_at in Hi. unfold zlen in *.
    assert (i < Z.to_nat n)%nat by lia.
    rewrite !nth_sub by lia. rewrite nth_write_at.
    destruct (Nat.leb_spec (Z.to_nat off) (Z.to_nat o + i)); simpl; auto.
    destruct (Nat.ltb_spec (Z.to_nat o + i) (Z.to_nat off + length bs)); simpl; auto. lia.
Qed.

(** ---- big-endian round trip *)
Lemma be_app l x : be (l ++ [x]) = be l * 256 + x.
Proof. unfold be. now rewrite fold_left_app. Qed.

Lemma length_enc_be n z : length (enc_be n z) = n.
Proof. revert z; induction n; intros; simpl; auto. rewrite app_length, IHn. simpl. lia. Qed.

Lemma be_enc_be n z : 0 <= z < 256 ^ Z.of_nat n -> be (enc_be n z) = z.
Proof.
  revert z; induction n; intros z Hz.
  - simpl in *. unfold be; simpl. lia.
  - simpl enc_be. rewrite be_app. rewrite IHn.
    + pose proof (Z.div_mod z 256). lia.
    + rewrite Nat2Z.inj_succ, Z.pow_succ_r in Hz by lia. split.
      * apply Z.div_pos; lia.
      * apply Z.div_lt_upper_bound; lia.
Qed.

Lemma be_enc16 z : 0 <= z < 65536 -> be (enc16 z) = z.
Proof. intros. unfold enc16. rewrite Z.mod_small by lia. apply (be_enc_be 2). simpl. lia. Qed.

Lemma s32_be_enc32 z : -2147483648 <= z < 2147483648 -> s32 (be (enc32 z)) = z.
Proof.
  intros. unfold enc32. rewrite (be_enc_be 4).
  2: { change (256 ^ Z.of_nat 4) with 4294967296. apply Z.mod_pos_bound. lia. }
  unfold s32. destruct (Z.ltb_spec (z mod 4294967296) 2147483648).
  - destruct (Z.le_gt_cases 0 z).
    + now rewrite Z.mod_small by lia.
    + assert ((z + 4294967296) mod 4294967296 = z + 4294967296) by (apply Z.mod_small; lia).
      assert (z mod 4294967296 = (z + 4294967296) mod 4294967296).
      { replace (z + 4294967296) with (z + 1 * 4294967296) by lia. now rewrite Z.mod_add by lia. }
      lia.
  - destruct (Z.le_gt_cases 0 z).
    + rewrite Z.mod_small in H0 by lia. lia.
    + assert ((z + 4294967296) mod 4294967296 = z + 4294967296) by (apply Z.mod_small; lia).
      assert (z mod 4294967296 = (z + 4294967296) mod 4294967296).
      { replace (z + 4294967296) with (z + 1 * 4294967296) by lia. now rewrite Z.mod_add by lia. }
      lia.
Qed.

Lemma length_enc16 z : length (enc16 z) = 2%nat.
Proof. apply length_enc_be. Qed.
Lemma length_enc32 z : length (enc32 z) = 4%nat.
Proof. apply length_enc_be. Qed.

Lemma length_enc_dd d : length (enc_dd d) = 12%nat.
Proof. unfold enc_dd. rewrite !app_length, !length_enc16, !length_enc32. reflexivity. Qed.

Lemma length_enc_dds l : length (enc_dds l) = (12 * length l)%nat.
Proof.
  induction l; [reflexivity|]. change (enc_dds (a :: l)) with (enc_dd a ++ enc_dds l).
  rewrite app_length, length_enc_dd, IHl. simpl length. lia.
Qed.

Lemma length_enc_hdr n x : length (enc_hdr n x) = 6%nat.
Proof. unfold enc_hdr. rewrite app_length, length_enc16, length_enc32. reflexivity. Qed.

Definition dd_in_range (d : dd) : Prop :=
  0 <= d_tag d < 65536 /\ 0 <= d_ref d < 65536 /\
  -2147483648 <= d_off d < 2147483648 /\ -2147483648 <= d_len d < 2147483648.

Lemma firstn_app_exact {A} (a b : list A) n : length a = n -> firstn n (a ++ b) = a.
Proof. intros. subst. rewrite firstn_app, Nat.sub_diag, firstn_all. simpl. apply app_nil_r. Qed.

Lemma skipn_app_exact {A} (a b : list A) n : length a = n -> skipn n (a ++ b) = b.
Proof. intros. subst. rewrite skipn_app, Nat.sub_diag, skipn_all. reflexivity. Qed.

Lemma parse_enc_dd d : dd_in_range d -> parse_dd (enc_dd d) = d.
Proof.
  intros (A & B & C & D). unfold parse_dd, enc_dd. destruct d as [t r o l]; cbn [d_tag d_ref d_off d_len] in *.
  rewrite (firstn_app_exact (enc16 t)) by apply length_enc16.
  rewrite (skipn_app_exact (enc16 t)) by apply length_enc16.
  rewrite (firstn_app_exact (enc16 r)) by apply length_enc16.
  assert (E4 : skipn 4 (enc16 t ++ enc16 r ++ enc32 o ++ enc32 l) = enc32 o ++ enc32 l).
  { rewrite app_assoc. apply skipn_app_exact. rewrite app_length, !length_enc16. reflexivity. }
  assert (E8 : skipn 8 (enc16 t ++ enc16 r ++ enc32 o ++ enc32 l) = enc32 l).
  { rewrite app_assoc. rewrite (app_assoc (enc16 t ++ enc16 r)). apply skipn_app_exact.
    rewrite !app_length, !length_enc16, length_enc32. reflexivity. }
  rewrite E4, E8.
  rewrite (firstn_app_exact (enc32 o)) by apply length_enc32.
  rewrite firstn_all2 by (rewrite length_enc32; lia).
  rewrite !be_enc16, !s32_be_enc32 by lia. reflexivity.
Qed.

Lemma parse_enc_dds l : Forall dd_in_range l -> parse_dds (length l) (enc_dds l) = l.
Proof.
  induction 1; [reflexivity|].
  change (enc_dds (x :: l)) with (enc_dd x ++ enc_dds l).
  change (parse_dds (length (x :: l)) (enc_dd x ++ enc_dds l)) with
    (parse_dd (firstn 12 (enc_dd x ++ enc_dds l)) :: parse_dds (length l) (skipn 12 (enc_dd x ++ enc_dds l))).
  rewrite (firstn_app_exact (enc_dd x)) by apply length_enc_dd.
  rewrite (skipn_app_exact (enc_dd x)) by apply length_enc_dd.
  rewrite parse_enc_dd by auto. now rewrite IHForall.
Qed.

Lemma parse_enc_hdr n x :
  0 < n < 32768 -> -2147483648 <= x < 2147483648 ->
  s16 (be (firstn 2 (enc_hdr n x))) = n /\ s32 (be (skipn 2 (enc_hdr n x))) = x.
Proof.
  intros. unfold enc_hdr.
  rewrite (firstn_app_exact (enc16 n)) by apply length_enc16.
  rewrite (skipn_app_exact (enc16 n)) by apply length_enc16.
  rewrite be_enc16 by lia. rewrite s32_be_enc32 by lia.
  unfold s16. destruct (Z.ltb_spec n 32768); try lia; auto.
Qed.
