(** C12 -- implementation model of hdf/src/bitvect.c (per-tag "ref in use" bit-vector).
    Faithful to the C: byte buffer grown in BV_CHUNK_SIZE chunks, bits_used, the last_zero cache,
    bv_find_next_zero with the bv_first_zero[256] table, the slush bits and the extension step.
    The three tables and the constants come from coq/gen/Gen_DD.v (regenerated from bitvect.c).
    No proofs here (model file). *)
From Coq Require Import ZArith List Bool.
Require Import H4.gen.Gen_DD.
Import ListNotations.
Local Open Scope Z_scope.

Record bv := mkbv { bits_used : Z; last_zero : Z; buffer : list Z }.

Definition array_size (b : bv) : Z := Z.of_nat (length (buffer b)).
Definition tbl (t : list Z) (i : Z) : Z := nth (Z.to_nat i) t 0.
Definition byte_at (l : list Z) (i : Z) : Z := nth (Z.to_nat i) l 0.

Fixpoint set_nth (l : list Z) (n : nat) (v : Z) : list Z :=
  match l, n with
  | [], _ => []
  | _ :: l', O => v :: l'
  | x :: l', S n' => x :: set_nth l' n' v
  end.

(** bv_new(num_bits); num_bits = -1 asks for the default size *)
Definition bv_new (num_bits : Z) : option bv :=
  if (num_bits <? -1) || (num_bits =? 0) then None else
  let nb := if num_bits =? -1 then BV_DEFAULT_BITS else num_bits in
  let base_elements := if 0 <? nb mod BV_BASE_BITS then nb / BV_BASE_BITS + 1 else nb / BV_BASE_BITS in
  let asz := (base_elements / BV_CHUNK_SIZE + 1) * BV_CHUNK_SIZE in
  Some (mkbv nb 0 (repeat 0 (Z.to_nat asz))).

(** the "bit beyond the end" part of bv_set: use more of the current buffer, or realloc in chunks *)
Definition bv_extend (b : bv) (bit_num : Z) : bv :=
  let base_elem := bit_num / BV_BASE_BITS in
  if bit_num >=? bits_used b then
    if base_elem <? array_size b then mkbv (bit_num + 1) (last_zero b) (buffer b)
    else
      let num_chunks := (bit_num / BV_BASE_BITS + 1 - array_size b) / BV_CHUNK_SIZE + 1 in
      mkbv (bit_num + 1) (last_zero b) (buffer b ++ repeat 0 (Z.to_nat (num_chunks * BV_CHUNK_SIZE)))
  else b.

Definition bv_set (b : bv) (bit_num value : Z) : option bv :=
  if bit_num <? 0 then None else
  let base_elem := bit_num / BV_BASE_BITS in
  let bit_elem := bit_num mod BV_BASE_BITS in
  let b1 := bv_extend b bit_num in
  let old := byte_at (buffer b1) base_elem in
  if value =? BV_FALSE then
    Some (mkbv (bits_used b1)
               (if base_elem <? last_zero b1 then base_elem else last_zero b1)
               (set_nth (buffer b1) (Z.to_nat base_elem) (Z.land old (Z.lnot (tbl bv_bit_value bit_elem)))))
  else
    Some (mkbv (bits_used b1) (last_zero b1)
               (set_nth (buffer b1) (Z.to_nat base_elem) (Z.lor old (tbl bv_bit_value bit_elem)))).

Definition bv_get (b : bv) (bit_num : Z) : Z :=
  if bit_num <? 0 then FAIL else
  if bit_num >=? bits_used b then BV_FALSE else
  let bit_elem := bit_num mod BV_BASE_BITS in
  Z.shiftr (Z.land (byte_at (buffer b) (bit_num / BV_BASE_BITS)) (tbl bv_bit_value bit_elem)) bit_elem.

(** while (i < bytes_used && *tmp_buf == 255) { i++; tmp_buf++; }   -- l is the buffer from index i on *)
Fixpoint scan_full (l : list Z) (i bytes_used : Z) : Z :=
  match l with
  | x :: l' => if (i <? bytes_used) && (x =? 255) then scan_full l' (i + 1) bytes_used else i
  | [] => i
  end.

(** bv_find_next_zero: returns the updated vector (last_zero cache, possible extension) and the bit number *)
Definition bv_find_next_zero (b : bv) : option (bv * Z) :=
  let bytes_used := bits_used b / BV_BASE_BITS in
  let i0 := if last_zero b >=? 0 then last_zero b else 0 in
  let i := scan_full (skipn (Z.to_nat i0) (buffer b)) i0 bytes_used in
  if i <? bytes_used then
    Some (mkbv (bits_used b) i (buffer b), i * BV_BASE_BITS + tbl bv_first_zero (byte_at (buffer b) i))
  else
    let slush :=
      if bytes_used * BV_BASE_BITS <? bits_used b then
        let s := Z.land (byte_at (buffer b) i) (tbl bv_bit_mask (bits_used b - bytes_used * BV_BASE_BITS)) in
        if negb (s =? 255) then Some s else None
      else None in
    match slush with
    | Some s => Some (mkbv (bits_used b) i (buffer b), i * BV_BASE_BITS + tbl bv_first_zero s)
    | None =>
        match bv_set b (bits_used b) BV_FALSE with
        | Some b' => Some (b', bits_used b)
        | None => None
        end
    end.

(** what a bit-vector means: bit n is in use *)
Definition bv_bit (b : bv) (n : Z) : bool := Z.testbit (byte_at (buffer b) (n / 8)) (n mod 8).

(** driver for the correspondence with the real bitvect.c (harness/drive_bv.c):
    ops: (0, n, v) = bv_set n v ; (1, n, _) = bv_get n ; (2, _, _) = bv_find_next_zero.
    Output per op: (result, bits_used, array_size, last_zero). *)
Definition bv_step (b : bv) (o : Z * Z * Z) : bv * (Z * Z * Z * Z) :=
  let '(k, n, v) := o in
  let out (b' : bv) (r : Z) := (b', (r, bits_used b', array_size b', last_zero b')) in
  if k =? 0 then match bv_set b n v with Some b' => out b' SUCCEED | None => out b FAIL end
  else if k =? 1 then out b (bv_get b n)
  else match bv_find_next_zero b with Some (b', r) => out b' r | None => out b FAIL end.

Fixpoint bv_run (b : bv) (h : list (Z * Z * Z)) : list (Z * Z * Z * Z) :=
  match h with
  | [] => []
  | o :: h' => let '(b', r) := bv_step b o in r :: bv_run b' h'
  end.

Definition bv_run_new (num_bits : Z) (h : list (Z * Z * Z)) : option (list (Z * Z * Z * Z)) :=
  match bv_new num_bits with Some b => Some (bv_run b h) | None => None end.
