(** C03 -- implementation model M of the SD hyperslab engine (mfsd.c, putget.c, putgetg.c, var.c).
    No proofs in this file.  Constants, the number-type tables and every boundary condition come from
    gen/Gen_Slab.v, regenerated from the current C sources on every run. *)
From Coq Require Import ZArith List Bool.
Require Import H4.SlabSpec H4.gen.Gen_Slab.
Import ListNotations.
Local Open Scope Z_scope.

Fixpoint assocZ (k : Z) (l : list (Z * Z)) : option Z :=
  match l with [] => None | (a, b) :: r => if a =? k then Some b else assocZ k r end.

(** element size in bytes (DFKNTsize) and netCDF type (hdf_unmap_type) of an HDF number type *)
Definition nt_size (nt : Z) : option Z := assocZ (Z.land nt (Z.lnot DFNT_LITEND)) DFKNTsize_switch.
Definition nc_type_of (nt : Z) : option Z := assocZ (Z.land nt 255) hdf_unmap_type_switch.

(** NC_arrayfill: default fill value of the type, as the unsigned little-endian integer of its memory image *)
Definition default_fill (nt : Z) : Z :=
  match nc_type_of nt with
  | Some t =>
      if t =? NC_BYTE then FILL_BYTE mod 256
      else if t =? NC_CHAR then FILL_CHAR mod 256
      else if t =? NC_SHORT then FILL_SHORT mod 65536
      else if t =? NC_LONG then FILL_LONG mod 4294967296
      else if t =? NC_FLOAT then FILL_FLOAT_bits
      else if t =? NC_DOUBLE then FILL_DOUBLE_bits
      else 0
  | None => 0
  end.

(* ---- observable output of the model -------------------------------------------------------- *)
Inductive transfer := TSetlen (n : Z) | TWrite (pos n : Z) | TRead (pos n : Z).
Inductive mout :=
| MNone
| MRet (r : Z) (tr : list transfer)
| MRead (r : Z) (cells : list cell) (tr : list transfer)
| MInfo (dims : list Z) (fv : option Z).

Definition truth (z : Z) : bool := negb (z =? 0).     (* a C truth value *)

(* ---- state of one variable (NC_var + its data element) ------------------------------------ *)
Record mstate := mkM {
  m_shape : list Z;        (* vp->shape; shape[0] = NC_UNLIMITED (0) for a record variable *)
  m_esz : Z;               (* vp->HDFsize = vp->szof *)
  m_numrecs : Z;           (* vp->numrecs *)
  m_fillattr : option Z;   (* the _FillValue attribute *)
  m_dfill : Z;             (* NC_arrayfill value of the type *)
  m_nofill : bool;         (* handle->flags & NC_NOFILL *)
  m_store : list cell;     (* the data element, one entry per stored number; its length is elem_length / esz *)
  m_recsize : Z;           (* handle->recsize: 0 in the creating session, after an open the sum of the lengths of
                              the file's record variables (NC_computeshapes) *)
  m_rdonly : bool          (* handle->hdf_mode == DFACC_RDONLY: the file was opened with DFACC_READ *)
}.

Definition is_recvar (m : mstate) : bool :=
  match m_shape m with d :: _ => d =? NC_UNLIMITED | [] => false end.

(** NC_var_shape: dsizes and len, computed from the last dimension backwards *)
Fixpoint var_shape (shape : list Z) (xszof : Z) (first : bool) : list Z * Z :=
  match shape with
  | [] => ([], xszof)
  | d :: rest =>
      let (ds, l) := var_shape rest xszof false in
      (l :: ds, if first && (d =? 0) then l else l * d)
  end.
Definition dsizes (m : mstate) : list Z := fst (var_shape (m_shape m) (m_esz m) true).
Definition var_len (m : mstate) : Z := snd (var_shape (m_shape m) (m_esz m) true).

(** NC_varoffset (HDF_FILE): sum of dsizes[i] * coords[i] *)
Fixpoint dot (a b : list Z) : Z :=
  match a, b with x :: a', y :: b' => x * y + dot a' b' | _, _ => 0 end.
Definition varoffset (m : mstate) (coords : list Z) : Z := dot (dsizes m) coords.

Definition fill_of (m : mstate) : Z := match m_fillattr m with Some v => v | None => m_dfill m end.
Definition elem_length (m : mstate) : Z := m_esz m * Z.of_nat (length (m_store m)).

(** Hwrite of vals at element index idx (a gap reads as undefined, the element grows as needed) *)
Definition write_cells (st : list cell) (idx : Z) (vals : list cell) : list cell :=
  let i := Z.to_nat idx in
  let n := length vals in
  firstn i st ++ repeat Undef (i - length st) ++ vals ++ skipn (i + n) st.

Definition set_store (m : mstate) (st : list cell) (nr : Z) : mstate :=
  mkM (m_shape m) (m_esz m) nr (m_fillattr m) (m_dfill m) (m_nofill m) st (m_recsize m) (m_rdonly m).

(* ---- NCcoordck ------------------------------------------------------------------------------ *)
Fixpoint any2 (f : Z -> Z -> Z) (a b : list Z) : bool :=
  match a, b with x :: a', y :: b' => truth (f x y) || any2 f a' b' | _, _ => false end.

Fixpoint fill_iters (fuel : nat) (unfilled : Z) : Z :=
  match fuel with
  | O => 0
  | S k => if truth (coordck_fill_more unfilled) then 1 + fill_iters k (unfilled - 1) else 0
  end.

Definition zseq (n : Z) : list Z := zrange 0 1 (Z.to_nat n).

(** returns None for "bad coordinates" (FALSE), else the new state and the fill transfers *)
Definition coordck (m : mstate) (writing : bool) (coords : list Z) : option (mstate * list transfer) :=
  let rec := is_recvar m in
  let bad := if rec then truth (coordck_bad_rec (hd 0 coords)) || any2 coordck_bad (tl coords) (tl (m_shape m))
             else any2 coordck_bad coords (m_shape m) in
  if bad then None
  else if rec then
    let c0 := hd 0 coords in
    let unfilled := c0 - m_numrecs m in
    if unfilled <? 0 then Some (m, [])
    else if negb writing then None
    else
      let len := var_len m in
      if m_nofill m then Some (set_store m (m_store m) (coordck_new_numrecs (m_numrecs m) c0), [])
      else
        let k := fill_iters (Z.to_nat (unfilled + 2)) unfilled in
        let tr := map (fun j => TWrite ((m_numrecs m + j) * len) len) (zseq k) in
        let st := write_cells (m_store m) (m_numrecs m * (len / m_esz m))
                              (repeat (Val (fill_of m)) (Z.to_nat (k * (len / m_esz m)))) in
        Some (set_store m st (coordck_new_numrecs (m_numrecs m + k) c0), tr)
  else Some (m, []).

(* ---- hdf_xdr_NCvdata ------------------------------------------------------------------------ *)
(** The do/while loops that write the leading / trailing fill values in pieces of at most MAX_SIZE bytes.
    [step] and [more] are the loop body's updates (in source order) and the loop test, regenerated from
    putget.c.  Result: the sizes of the Hwrite calls, in order; None when the fuel (an a-priori bound on the
    number of pieces) runs out, which the caller turns into FAIL. *)
Fixpoint fill_chunks (step : Z -> Z -> Z * Z) (more : Z -> Z -> Z) (fuel : nat) (buf_size chunk_size : Z)
  : option (list Z) :=
  match fuel with
  | O => None
  | S k =>
      let (b, c) := step buf_size chunk_size in
      if truth (more b c) then
        match fill_chunks step more k b c with Some l => Some (chunk_size :: l) | None => None end
      else Some [chunk_size]
  end.

Definition sumZ (l : list Z) : Z := fold_right Z.add 0 l.

(** consecutive Hwrite calls of the given sizes starting at byte position pos *)
Fixpoint chunk_transfers (pos : Z) (l : list Z) : list transfer :=
  match l with [] => [] | c :: r => TWrite pos c :: chunk_transfers (pos + c) r end.

Definition chunk_fuel (bytes : Z) : nat := Z.to_nat (bytes / MAX_SIZE + 1).

(** one contiguous transfer of [count] numbers at byte offset [where_]; None = FAIL.
    Writing: vals are the numbers; reading: the result carries the cells read.
    Note that no seek follows the leading fill: the data go where the fill loop left the position. *)
Definition xdr_vdata (m : mstate) (writing : bool) (where_ count : Z) (vals : list cell)
  : option (mstate * list transfer * list cell) :=
  let el := elem_length m in
  let esz := m_esz m in
  let byte_count := count * esz in
  if (el <=? 0) && negb writing then
    (* no data yet: the caller's buffer is filled with the fill value -- in a read-only session by the branch
       "hdf_get_vp_aid failed, data_ref == 0, DFACC_RDONLY", otherwise by the "template" branch; a user-set fill
       value goes through HDmemfill (element count), the type's default through NC_arrayfill (BYTE length);
       both arguments are regenerated from putget.c.  Elements the call does not reach keep the buffer's content. *)
    let filled :=
      match m_fillattr m with
      | Some _ => if m_rdonly m then vdata_rdonly_memfill_count count esz else vdata_template_memfill_count count esz
      | None => (if m_rdonly m then vdata_rdonly_arrayfill_bytes count esz
                 else vdata_template_arrayfill_bytes count esz) / esz
      end in
    Some (m, [], repeat (Val (fill_of m)) (Z.to_nat (Z.min filled count)) ++
                 repeat Undef (Z.to_nat (count - filled)))
  else if writing then
    let lead := truth (vdata_lead_fill el where_) && negb (m_nofill m) in
    match (if lead then fill_chunks vdata_lead_loop_step vdata_lead_loop_more (chunk_fuel where_)
                                    where_ (vdata_lead_loop_init where_)
           else Some []) with
    | None => None
    | Some lchunks =>
        let pos := if lead then sumZ lchunks else where_ in
        let st1 := if lead then repeat (Val (fill_of m)) (Z.to_nat (pos / esz)) else m_store m in
        let st2 := write_cells st1 (pos / esz) vals in
        let bytes_left := vdata_bytes_left (var_len m) where_ byte_count in
        let trail := truth (vdata_trail_fill el bytes_left) && negb (m_nofill m) in
        match (if trail then fill_chunks vdata_trail_loop_step vdata_trail_loop_more (chunk_fuel bytes_left)
                                         bytes_left (vdata_trail_loop_init bytes_left)
               else Some []) with
        | None => None
        | Some tchunks =>
            let st3 := if trail then write_cells st2 ((pos + byte_count) / esz)
                                                 (repeat (Val (fill_of m)) (Z.to_nat (sumZ tchunks / esz))) else st2 in
            Some (set_store m st3 (m_numrecs m),
                  chunk_transfers 0 lchunks ++ [TWrite pos byte_count] ++ chunk_transfers (pos + byte_count) tchunks, [])
        end
    end
  else
    if el <? where_ + byte_count then None      (* short Hread *)
    else Some (m, [TRead where_ byte_count],
               firstn (Z.to_nat count) (skipn (Z.to_nat (where_ / esz)) (m_store m))).

(* ---- NCvcmaxcontig -------------------------------------------------------------------------- *)
(** scan from the last dimension down to [boundary]; l = (edge, shape, origin) triples in that order,
    i = index of the dimension at the head.  None = invalid edge; Some k = index the returned pointer has *)
Fixpoint maxcontig_scan (l : list (Z * Z * Z)) (i : nat) (boundary : nat) : option nat :=
  match l with
  | [] => Some boundary
  | (e, s, o) :: r =>
      if truth (maxcontig_bad e s o) then None
      else if truth (maxcontig_break e s) then Some i
      else maxcontig_scan r (Nat.pred i) boundary
  end.

Definition vcmaxcontig (m : mstate) (origin edges : list Z) : option nat :=
  let b := if is_recvar m then 1%nat else 0%nat in
  let tr := combine (combine (skipn b edges) (skipn b (m_shape m))) (skipn b origin) in
  maxcontig_scan (rev tr) (Nat.pred (length (m_shape m))) b.

(* ---- NCvario -------------------------------------------------------------------------------- *)
(** odometer over the leading dimensions: every index vector with start_i <= x_i < start_i + edges_i,
    last index fastest (the ripple counter of NCvario) *)
Fixpoint odometer (start edges : list Z) : list (list Z) :=
  match start, edges with
  | s :: ss, e :: es => flat_map (fun i => map (cons i) (odometer ss es)) (zrange s 1 (Z.to_nat e))
  | _, _ => [[]]
  end.

(** the transfer plan of NCvario for a multi-dimensional request: the positions at which the ripple counter
    issues an I/O, and the number of elements of each (None: NCvcmaxcontig rejected an edge) *)
Definition vario_plan (m : mstate) (start edges : list Z) : option (list (list Z) * Z) :=
  match vcmaxcontig m start edges with
  | None => None
  | Some k =>
      Some (match k with
            | O => [start]
            | _ => map (fun p => p ++ skipn k start) (odometer (firstn k start) (firstn k edges))
            end, prod (skipn k edges))
  end.

(** byte offsets of the elements moved by one transfer *)
Definition block (m : mstate) (iocount : Z) (p : list Z) : list Z :=
  map (fun j => varoffset m p + j * m_esz m) (zseq iocount).

Record io_acc := mkAcc { acc_m : mstate; acc_tr : list transfer; acc_cells : list cell; acc_vals : list cell }.

(** the "doit" block of the ripple counter at every position; stops at the first failure (return -1) *)
Fixpoint vario_loop (writing : bool) (iocount : Z) (positions : list (list Z)) (a : io_acc) : bool * io_acc :=
  match positions with
  | [] => (true, a)
  | p :: rest =>
      match coordck (acc_m a) writing p with
      | None => (false, a)
      | Some (m1, tr1) =>
          let vals := firstn (Z.to_nat iocount) (acc_vals a) in
          match xdr_vdata m1 writing (varoffset m1 p) iocount vals with
          | None => (false, mkAcc m1 (acc_tr a ++ tr1 ++ (if writing then [] else [TRead (varoffset m1 p) (iocount * m_esz m1)]))
                                  (acc_cells a) (acc_vals a))
          | Some (m2, tr2, cs) =>
              vario_loop writing iocount rest
                         (mkAcc m2 (acc_tr a ++ tr1 ++ tr2) (acc_cells a ++ cs) (skipn (Z.to_nat iocount) (acc_vals a)))
          end
      end
  end.

Definition simplerecio (writing : bool) (start edges : list Z) (a : io_acc) : bool * io_acc :=
  let m := acc_m a in
  let s0 := hd 0 start in let e0 := hd 0 edges in
  if truth (simplerec_bad_edge e0) then (false, a)
  else
    let newrecs := simplerec_newrecs s0 e0 (m_numrecs m) in
    if negb writing && (0 <? newrecs) then (false, a)
    else
      match xdr_vdata m writing (varoffset m start) e0 (firstn (Z.to_nat e0) (acc_vals a)) with
      | None => (false, mkAcc m (acc_tr a ++ (if writing then [] else [TRead (varoffset m start) (e0 * m_esz m)]))
                              (acc_cells a) (acc_vals a))
      | Some (m2, tr2, cs) =>
          let m3 := if 0 <? newrecs then set_store m2 (m_store m2) (m_numrecs m2 + newrecs) else m2 in
          (true, mkAcc m3 (acc_tr a ++ tr2) (acc_cells a ++ cs) (skipn (Z.to_nat e0) (acc_vals a)))
      end.

(** NCvario: (ok, accumulated state) ; ok = false is the C return value -1 *)
Definition vario (writing : bool) (start edges : list Z) (a : io_acc) : bool * io_acc :=
  let m := acc_m a in
  match m_shape m with
  | [] =>   (* scalar: hdf_xdr_NCv1data at vp->begin = 0 *)
      match xdr_vdata m writing 0 1 (firstn 1 (acc_vals a)) with
      | None => (false, mkAcc m (acc_tr a ++ (if writing then [] else [TRead 0 (m_esz m)])) (acc_cells a) (acc_vals a))
      | Some (m2, tr2, cs) => (true, mkAcc m2 (acc_tr a ++ tr2) (acc_cells a ++ cs) (skipn 1 (acc_vals a)))
      end
  | _ =>
      match coordck m writing start with
      | None => (false, a)
      | Some (m1, tr1) =>
          let a1 := mkAcc m1 (acc_tr a ++ tr1) (acc_cells a) (acc_vals a) in
          if is_recvar m1 && (length (m_shape m1) =? 1)%nat && (m_recsize m1 <=? var_len m1)
          then simplerecio writing start edges a1   (* one-dimensional and the only record variable *)
          else
            match vario_plan m1 start edges with
            | None => (false, a1)
            | Some (positions, iocount) =>
                if iocount =? 0 then (true, a1)
                else
                  let (ok, a2) := vario_loop writing iocount positions a1 in
                  if ok then
                    (* kludge at the end of NCvario: numrecs follows the upper corner *)
                    let upper0 := hd 0 start + hd 0 edges in
                    let m2 := acc_m a2 in
                    let m3 := if m_numrecs m2 <? upper0 then set_store m2 (m_store m2) upper0 else m2 in
                    (true, mkAcc m3 (acc_tr a2) (acc_cells a2) (acc_vals a2))
                  else (false, a2)
            end
      end
  end.

(* ---- NCgenio -------------------------------------------------------------------------------- *)
(** positions visited along one dimension by the odometer: start, then +stride while below stop *)
Fixpoint axis_from (fuel : nat) (p stride stop : Z) : list Z :=
  match fuel with
  | O => []
  | S k => let p' := p + stride in
           if truth (genio_carry p' stop) then [] else p' :: axis_from k p' stride stop
  end.
Definition genio_axis (s c t : Z) : list Z := s :: axis_from (Z.to_nat c) s t (genio_stop s c t).

Fixpoint cartesian (axes : list (list Z)) : list (list Z) :=
  match axes with
  | [] => [[]]
  | ax :: rest => flat_map (fun i => map (cons i) (cartesian rest)) ax
  end.

Fixpoint genio_loop (writing : bool) (iocount : list Z) (positions : list (list Z)) (a : io_acc) : bool * io_acc :=
  match positions with
  | [] => (true, a)
  | p :: rest =>
      let (ok, a1) := vario writing p iocount a in
      if ok then genio_loop writing iocount rest a1 else (false, a1)
  end.

Fixpoint map3 {A} (f : Z -> Z -> Z -> A) (a b c : list Z) : list A :=
  match a, b, c with x :: a', y :: b', z :: c' => f x y z :: map3 f a' b' c' | _, _, _ => [] end.

Definition genio (writing : bool) (start count stride : list Z) (a : io_acc) : bool * io_acc :=
  let m := acc_m a in
  match m_shape m with
  | [] => vario writing start count a
  | _ =>
      if existsb (fun t => truth (genio_bad_stride t)) stride then (false, a)
      else if existsb (fun c => c <? 0) count then (false, a)
      else if existsb (fun c => c =? 0) count then (true, a)
      else
        let n := length start in
        let unit_last := truth (genio_unit_last (last stride 1) (m_esz m) (m_esz m)) in
        let axes := map3 genio_axis start count stride in
        let axes' := if unit_last then firstn (Nat.pred n) axes ++ [[last start 0]] else axes in
        let iocount := if unit_last then repeat 1 (Nat.pred n) ++ [last count 1] else repeat 1 n in
        genio_loop writing iocount (cartesian axes') a
  end.

(* ---- SDwritedata / SDreaddata and the rest of the interface ------------------------------- *)
Definition sd_write (m : mstate) (us : bool) (start stride count : list Z) (vals : list Z) : mstate * mout :=
  let a := mkAcc m [] [] (map Val vals) in
  let no_strides := forallb (fun t => t =? 1) stride in
  let (ok, a') := if us && negb no_strides then genio true start count stride a else vario true start count a in
  (acc_m a', MRet (if ok then 0 else -1) (acc_tr a')).

Fixpoint stride_bad_rest (stride count shape start : list Z) : bool :=
  match stride, count, shape, start with
  | t :: ts, c :: cs, d :: ds, s :: ss => truth (sdread_stride_badi t c d s) || stride_bad_rest ts cs ds ss
  | _, _, _, _ => false
  end.

Definition sd_read (m : mstate) (us : bool) (start stride count : list Z) : mstate * mout :=
  let a := mkAcc m [] [] [] in
  let rank := length (m_shape m) in
  let stride_bad :=
    if us && (0 <? rank)%nat then
      let dimsize := if is_recvar m then m_numrecs m else hd 0 (m_shape m) in
      truth (sdread_stride_bad0 (hd 1 stride) (hd 1 count) dimsize (hd 0 start)) ||
      stride_bad_rest (tl stride) (tl count) (tl (m_shape m)) (tl start)
    else false in
  if stride_bad then (m, MRead (-1) [] [])
  else
    let (ok, a') := if us then genio false start count stride a else vario false start count a in
    (acc_m a', MRead (if ok then 0 else -1) (acc_cells a') (acc_tr a')).

Definition m_init (shape : list Z) (unlim : bool) (nt : Z) : mstate :=
  mkM shape (match nt_size nt with Some s => s | None => 1 end) 0 None (default_fill nt) false [] 0 false.

Definition ceil_div (a b : Z) : Z := (a + b - 1) / b.

Definition m_step (m : mstate) (o : op) : mstate * mout :=
  match o with
  | OpMode md =>
      (* ncsetfill: refused for a file that is not writable; NC_NOFILL sets the flag; NC_FILL while the flag is set
         syncs and clears it -- provided the clearing statement is reached (regenerated from file.c) *)
      let nf := if m_rdonly m then m_nofill m
                else if md =? NC_NOFILL then true
                else if md =? NC_FILL then
                  (if m_nofill m then negb (truth ncsetfill_back_to_fill_clears_nofill) else false)
                else m_nofill m in
      (mkM (m_shape m) (m_esz m) (m_numrecs m) (m_fillattr m) (m_dfill m) nf (m_store m) (m_recsize m) (m_rdonly m), MNone)
  | OpFillv v => (mkM (m_shape m) (m_esz m) (m_numrecs m) (Some v) (m_dfill m) (m_nofill m) (m_store m) (m_recsize m) (m_rdonly m), MNone)
  | OpBlock _ => (m, MNone)
  | OpWrite us start stride count vals => sd_write m us start stride count vals
  | OpRead us start stride count => sd_read m us start stride count
  | OpInfo =>
      (m, MInfo (match m_shape m with d :: ds => (if is_recvar m then m_numrecs m else d) :: ds | [] => [] end)
                (m_fillattr m))
  | OpReopen =>
      (* hdf_read_vars: numrecs from the length of the data element; the fill mode is per session *)
      let nr := if is_recvar m then ceil_div (elem_length m) (hd 1 (dsizes m)) else m_numrecs m in
      (mkM (m_shape m) (m_esz m) nr (m_fillattr m) (m_dfill m) false (m_store m) (m_recsize m) false, MNone)
  | OpReopenRO =>
      let nr := if is_recvar m then ceil_div (elem_length m) (hd 1 (dsizes m)) else m_numrecs m in
      (mkM (m_shape m) (m_esz m) nr (m_fillattr m) (m_dfill m) false (m_store m) (m_recsize m) true, MNone)
  end.

Fixpoint m_run (m : mstate) (ops : list op) : list mout :=
  match ops with
  | [] => []
  | o :: r => let (m', out) := m_step m o in out :: m_run m' r
  end.

(** file level: what NC_computeshapes leaves in handle->recsize when a file is opened, and its effect on a variable *)
Definition file_recsize (ms : list mstate) : Z :=
  fold_right (fun m acc => if is_recvar m then var_len m + acc else acc) 0 ms.
Definition m_set_recsize (m : mstate) (rs : Z) : mstate :=
  mkM (m_shape m) (m_esz m) (m_numrecs m) (m_fillattr m) (m_dfill m) (m_nofill m) (m_store m) rs (m_rdonly m).
