(** C03 -- implementation model M of the SD hyperslab engine (mfsd.c, putget.c, putgetg.c, var.c).
    No proofs in this file.  Constants, the number-type tables and every boundary condition come from
    gen/Gen_Slab.v, regenerated from the current C sources on every run. *)
From Coq Require Import ZArith List Bool.
Require Import H4.SlabSpec H4.gen.Gen_Slab.
Import ListNotations.
Local Open Scope Z_scope.

Fixpoint assocZ (k : Z) (l : list (Z * Z)) : option Z :=
  match l with [] => None | (a, b) :: r => if a =? k then Some b else assocZ k r end.

(** element size in bytes (DFKNTsize) and netCDF type (hdf_unmap_type) of an HDF number type *)
Definition nt_size (nt : Z) : option Z := assocZ (Z.land nt (Z.lnot DFNT_LITEND)) DFKNTsize_switch.
Definition nc_type_of (nt : Z) : option Z := assocZ (Z.land nt 255) hdf_unmap_type_switch.

(** NC_arrayfill: default fill value of the type, as the unsigned little-endian integer of its memory image *)
Definition default_fill (nt : Z) : Z :=
  match nc_type_of nt with
  | Some t =>
      if t =? NC_BYTE then FILL_BYTE mod 256
      else if t =? NC_CHAR then FILL_CHAR mod 256
      else if t =? NC_SHORT then FILL_SHORT mod 65536
      else if t =? NC_LONG then FILL_LONG mod 4294967296
      else if t =? NC_FLOAT then FILL_FLOAT_bits
      else if t =? NC_DOUBLE then FILL_DOUBLE_bits
      else 0
  | None => 0
  end.

(* ---- observable output of the model -------------------------------------------------------- *)
Inductive transfer := TSetlen (n : Z) | TWrite (pos n : Z) | TRead (pos n : Z).
Inductive mout :=
| MNone
| MRet (r : Z) (tr : list transfer)
| MRead (r : Z) (cells : list cell) (tr : list transfer)
| MInfo (dims : list Z) (fv : option Z).

Record mstate := mkM { m_dummy : Z }.
Definition m_init (shape : list Z) (unlim : bool) (nt : Z) : mstate := mkM 0.
Definition m_run (m : mstate) (ops : list op) : list mout := map (fun _ => MNone) ops.
