(** C13 -- handle safety.  Definitions only (no proofs): they still build and extract when a proof breaks.

    M  : implementation model of hdf/src/atom.c (groups, hash buckets, 32-bit counters, MAKE_ATOM with the
         28-bit mask, the 4-entry move-toward-front lookup cache), over the macros regenerated in Gen_Atom.v.
    S  : the abstract specification: one finite map  id -> (group, object)  plus a per-group issue counter.
    FM : the file reference-count / attached-element machine of hfile.c (Hopen/Hclose/Hstartaccess/Hendaccess),
         written against S (ids are looked up in the finite map, never in the hash table).
    SD : SD id encoding / validation (mfsd.c SDIhandle_from_id, file.c NC_check_id) over regenerated expressions.
    HT : the abstract handle table used as the oracle (monitor) for the mixed-interface histories. *)
From Coq Require Import ZArith List Bool.
Require Import H4.gen.Gen_Atom.
Import ListNotations.
Local Open Scope Z_scope.

(* ------------------------------------------------------------------------------------------------ *)
(** * Small association lists keyed by Z (arrays of pointers: a missing key is a NULL slot) *)

Fixpoint aget {A} (k : Z) (l : list (Z * A)) : option A :=
  match l with
  | [] => None
  | (k', v) :: t => if k =? k' then Some v else aget k t
  end.

Fixpoint aset {A} (k : Z) (v : A) (l : list (Z * A)) : list (Z * A) :=
  match l with
  | [] => [(k, v)]
  | (k', v') :: t => if k =? k' then (k, v) :: t else (k', v') :: aset k v t
  end.

Fixpoint adel {A} (k : Z) (l : list (Z * A)) : list (Z * A) :=
  match l with
  | [] => []
  | (k', v') :: t => if k =? k' then t else (k', v') :: adel k t
  end.

(* ------------------------------------------------------------------------------------------------ *)
(** * Integer widths *)

Definition wrap32 (z : Z) : Z := (z + 2147483648) mod 4294967296 - 2147483648.   (* value of an int32 *)
Definition u32 (z : Z) : Z := z mod 4294967296.                                  (* value of an unsigned *)

(** atom_t HAregister_atom(...) returns MAKE_ATOM(grp, nextid) as an atom_t (int32). *)
Definition atom_of (g i : Z) : Z := wrap32 (MAKE_ATOM g i).
Definition group_of (a : Z) : Z := ATOM_TO_GROUP a.
Definition loc_of (a s : Z) : Z := ATOM_TO_LOC a s.

(* ------------------------------------------------------------------------------------------------ *)
(** * M: the atom table as atom.c implements it *)

Record node := mkNode { nid : Z; nobj : Z }.                 (* atom_info_t: id, obj_ptr (next = list tail) *)
Record grp := mkGrp { gcount : Z; ghash : Z; gatoms : Z; gnext : Z; gbk : list (Z * list node) }.
Record centry := mkC { cid : Z; cobj : Z }.                  (* atom_id_cache[i], atom_obj_cache[i] *)
Record mstate := mkM { mgroups : list (Z * grp); mc0 : centry; mc1 : centry; mc2 : centry; mc3 : centry }.

Definition cempty : centry := mkC (-1) 0.
Definition m_init : mstate := mkM [] cempty cempty cempty cempty.

Definition valid_group (g : Z) : bool := (BADGROUP <? g) && (g <? MAXGROUP).
Definition bucket (gp : grp) (loc : Z) : list node := match aget loc (gbk gp) with Some b => b | None => [] end.
Definition set_group (g : Z) (gp : grp) (m : mstate) : mstate := mkM (aset g gp (mgroups m)) (mc0 m) (mc1 m) (mc2 m) (mc3 m).
Definition set_cache (m : mstate) (a b c d : centry) : mstate := mkM (mgroups m) a b c d.

(** the group pointer, but only when it is usable: [grp_ptr == NULL || grp_ptr->count <= 0] fails *)
Definition live_group (g : Z) (m : mstate) : option grp :=
  if valid_group g then
    match aget g (mgroups m) with
    | Some gp => if gcount gp <=? 0 then None else Some gp
    | None => None
    end
  else None.

(** HAinit_group *)
Definition ha_init (g hs : Z) (m : mstate) : Z * mstate :=
  if negb (valid_group g) || (hs =? 0) then (FAIL, m)
  else if negb (Z.land hs (hs - 1) =? 0) then (FAIL, m)
  else
    let gp := match aget g (mgroups m) with Some gp => gp | None => mkGrp 0 0 0 0 [] end in
    let gp1 := if gcount gp =? 0 then mkGrp 0 hs 0 0 [] else gp in
    (SUCCEED, set_group g (mkGrp (u32 (gcount gp1 + 1)) (ghash gp1) (gatoms gp1) (gnext gp1) (gbk gp1)) m).

(** HAdestroy_group: on the last release the group's cache entries are dropped and the table freed *)
Definition cclear_group (g : Z) (c : centry) : centry := if group_of (cid c) =? g then cempty else c.

Definition ha_destroy (g : Z) (m : mstate) : Z * mstate :=
  match live_group g m with
  | None => (FAIL, m)
  | Some gp =>
      let c := u32 (gcount gp - 1) in
      if c =? 0 then
        let m1 := set_cache m (cclear_group g (mc0 m)) (cclear_group g (mc1 m)) (cclear_group g (mc2 m)) (cclear_group g (mc3 m)) in
        (SUCCEED, set_group g (mkGrp 0 (ghash gp) (gatoms gp) (gnext gp) []) m1)
      else (SUCCEED, set_group g (mkGrp c (ghash gp) (gatoms gp) (gnext gp) (gbk gp)) m)
  end.

(** HAregister_atom: id = MAKE_ATOM(grp, nextid); prepended to bucket nextid % hash_size; atoms++, nextid++ *)
Definition ha_register (g obj : Z) (m : mstate) : Z * mstate :=
  match live_group g m with
  | None => (FAIL, m)
  | Some gp =>
      let id := atom_of g (gnext gp) in
      let loc := (gnext gp) mod (ghash gp) in
      let gp' := mkGrp (gcount gp) (ghash gp) (u32 (gatoms gp + 1)) (u32 (gnext gp + 1))
                       (aset loc (mkNode id obj :: bucket gp loc) (gbk gp)) in
      (id, set_group g gp' m)
  end.

(** the while loop of HAIfind_atom / HAremove_atom over one bucket *)
Fixpoint find_node (id : Z) (b : list node) : option Z :=
  match b with
  | [] => None
  | n :: t => if nid n =? id then Some (nobj n) else find_node id t
  end.

Fixpoint remove_node (id : Z) (b : list node) : list node :=
  match b with
  | [] => []
  | n :: t => if nid n =? id then t else n :: remove_node id t
  end.

(** uncached lookup: the search part of HAIfind_atom (no side effect) *)
Definition m_find (id : Z) (m : mstate) : option Z :=
  match live_group (group_of id) m with
  | None => None
  | Some gp => find_node id (bucket gp (loc_of id (ghash gp)))
  end.

(** HAIatom_object = HAIfind_atom + "add it to the end of the cached list" *)
Definition hai_object (id : Z) (m : mstate) : Z * mstate :=
  match m_find id m with
  | None => (0, m)
  | Some o => (o, set_cache m (mc0 m) (mc1 m) (mc2 m) (mkC id o))
  end.

(** HAatom_object: the four-way conditional with SWAP_CACHE *)
Definition ha_object (id : Z) (m : mstate) : Z * mstate :=
  if cid (mc0 m) =? id then (cobj (mc0 m), m)
  else if cid (mc1 m) =? id then (cobj (mc1 m), set_cache m (mc1 m) (mc0 m) (mc2 m) (mc3 m))
  else if cid (mc2 m) =? id then (cobj (mc2 m), set_cache m (mc0 m) (mc2 m) (mc1 m) (mc3 m))
  else if cid (mc3 m) =? id then (cobj (mc3 m), set_cache m (mc0 m) (mc1 m) (mc3 m) (mc2 m))
  else hai_object id m.

(** the "delete object from cache" loop of HAremove_atom: first match only, then break *)
Definition cache_drop (id : Z) (m : mstate) : mstate :=
  if cid (mc0 m) =? id then set_cache m cempty (mc1 m) (mc2 m) (mc3 m)
  else if cid (mc1 m) =? id then set_cache m (mc0 m) cempty (mc2 m) (mc3 m)
  else if cid (mc2 m) =? id then set_cache m (mc0 m) (mc1 m) cempty (mc3 m)
  else if cid (mc3 m) =? id then set_cache m (mc0 m) (mc1 m) (mc2 m) cempty
  else m.

(** HAremove_atom *)
Definition ha_remove (id : Z) (m : mstate) : Z * mstate :=
  let g := group_of id in
  match live_group g m with
  | None => (0, m)
  | Some gp =>
      let loc := loc_of id (ghash gp) in
      match find_node id (bucket gp loc) with
      | None => (0, m)
      | Some o =>
          let gp' := mkGrp (gcount gp) (ghash gp) (u32 (gatoms gp - 1)) (gnext gp)
                           (aset loc (remove_node id (bucket gp loc)) (gbk gp)) in
          (o, cache_drop id (set_group g gp' m))
      end
  end.

(** HAsearch_atom with the comparison "object == key" (the result does not depend on bucket order) *)
Definition ha_search (g key : Z) (m : mstate) : Z :=
  match live_group g m with
  | None => 0
  | Some gp => if existsb (fun kb => existsb (fun n => nobj n =? key) (snd kb)) (gbk gp) then key else 0
  end.

(** HAatom_group *)
Definition ha_group (id : Z) : Z := let g := group_of id in if valid_group g then g else BADGROUP.

(* ------------------------------------------------------------------------------------------------ *)
(** * Histories of atom operations and the two interpreters *)

Inductive aop :=
| AInit (g hs : Z) | ADestroy (g : Z) | AReg (g obj : Z) | ALookup (id : Z) | ARemove (id : Z)
| ASearch (g key : Z) | AGroup (id : Z).

Definition m_step (o : aop) (m : mstate) : Z * mstate :=
  match o with
  | AInit g hs => ha_init g hs m
  | ADestroy g => ha_destroy g m
  | AReg g obj => ha_register g obj m
  | ALookup id => ha_object id m
  | ARemove id => ha_remove id m
  | ASearch g key => (ha_search g key m, m)
  | AGroup id => (ha_group id, m)
  end.

Fixpoint m_run (h : list aop) (m : mstate) : list Z * mstate :=
  match h with
  | [] => ([], m)
  | o :: t => let '(r, m1) := m_step o m in let '(rs, m2) := m_run t m1 in (r :: rs, m2)
  end.

(** ** S: finite map id -> (group, object) and, per group, the number of initialisations and of ids issued *)
Record sgrp := mkS { scount : Z; snext : Z }.
Record sstate := mkSS { sgroups : list (Z * sgrp); slive : list (Z * (Z * Z)) }.
Definition s_init : sstate := mkSS [] [].

Definition enc (g n : Z) : Z := wrap32 (g * 268435456 + n).       (* the id of the n-th registration of group g *)

Definition s_live_group (g : Z) (s : sstate) : option sgrp :=
  if valid_group g then
    match aget g (sgroups s) with
    | Some sg => if scount sg <=? 0 then None else Some sg
    | None => None
    end
  else None.

Definition s_lookup (id : Z) (s : sstate) : option Z := option_map snd (aget id (slive s)).

Definition s_step (o : aop) (s : sstate) : Z * sstate :=
  match o with
  | AInit g hs =>
      if negb (valid_group g) || (hs =? 0) || negb (Z.land hs (hs - 1) =? 0) then (FAIL, s)
      else
        let sg := match aget g (sgroups s) with Some sg => sg | None => mkS 0 0 end in
        let sg1 := if scount sg =? 0 then mkS 0 0 else sg in
        (SUCCEED, mkSS (aset g (mkS (scount sg1 + 1) (snext sg1)) (sgroups s)) (slive s))
  | ADestroy g =>
      match s_live_group g s with
      | None => (FAIL, s)
      | Some sg =>
          if scount sg - 1 =? 0
          then (SUCCEED, mkSS (aset g (mkS 0 (snext sg)) (sgroups s))
                              (filter (fun e => negb (fst (snd e) =? g)) (slive s)))
          else (SUCCEED, mkSS (aset g (mkS (scount sg - 1) (snext sg)) (sgroups s)) (slive s))
      end
  | AReg g obj =>
      match s_live_group g s with
      | None => (FAIL, s)
      | Some sg => let id := enc g (snext sg) in
                   (id, mkSS (aset g (mkS (scount sg) (snext sg + 1)) (sgroups s)) ((id, (g, obj)) :: slive s))
      end
  | ALookup id => (match s_lookup id s with Some o => o | None => 0 end, s)
  | ARemove id => (match s_lookup id s with Some o => o | None => 0 end, mkSS (sgroups s) (adel id (slive s)))
  | ASearch g key =>
      match s_live_group g s with
      | None => (0, s)
      | Some _ => (if existsb (fun e => (fst (snd e) =? g) && (snd (snd e) =? key)) (slive s) then key else 0, s)
      end
  | AGroup id => ((let g := (wrap32 id / 268435456) mod 16 in if valid_group g then g else BADGROUP), s)
  end.

Fixpoint s_run (h : list aop) (s : sstate) : list Z * sstate :=
  match h with
  | [] => ([], s)
  | o :: t => let '(r, s1) := s_step o s in let '(rs, s2) := s_run t s1 in (r :: rs, s2)
  end.

(** ** The histories the refinement theorem quantifies over: objects are non-NULL pointers, hash sizes and
    counts stay in their C types, and no group issues 2^28 ids within one lifetime (checked along the
    specification run, so it is a property of the history alone). *)
Definition ATOM_LIMIT : Z := 268435456.   (* 2^ATOM_BITS *)

Definition op_ok (o : aop) (s : sstate) : bool :=
  match o with
  | AInit g hs => (0 <=? hs) && (hs <=? ATOM_LIMIT) &&       (* ATOM_TO_LOC "assumes s is smaller than ATOM_MASK" *)
                  match aget g (sgroups s) with Some sg => scount sg <? 1000000 | None => true end
  | AReg g obj => negb (obj =? 0) &&
                  match s_live_group g s with Some sg => snext sg <? ATOM_LIMIT | None => true end
  | ASearch g key => negb (key =? 0)
  | _ => true
  end.

Fixpoint hist_ok (h : list aop) (s : sstate) : bool :=
  match h with
  | [] => true
  | o :: t => op_ok o s && hist_ok t (snd (s_step o s))
  end.

(** the churn used by the wrap-around witness: register an object and remove it again, n times *)
Definition churn_step (g obj : Z) (s : sstate) : list aop :=
  match s_live_group g s with
  | Some sg => [AReg g obj; ARemove (enc g (snext sg))]
  | None => []
  end.

(* ------------------------------------------------------------------------------------------------ *)
(** * FM: file records, reference counts and attached access elements (hfile.c), over the id map S *)

Record frec := mkF { fpath : Z; frefcount : Z; fattach : Z; faccess : Z }.
Inductive fobj := OFile (rec : Z) | OAid (fid : Z).       (* what an id designates: a file record / an access element *)
Record fstate := mkFS { frecs : list (Z * frec);          (* file records by record number *)
                        fids : list (Z * fobj);           (* the id map (S level): live ids only *)
                        fnext : Z }.                      (* ids issued so far (fresh-id supply of S) *)
Definition f_init : fstate := mkFS [] [] 0.

Inductive fop := FOpen (path acc : Z) | FClose (fid : Z) | FStart (fid : Z) (write : bool) | FEnd (aid : Z)
               | FInq (fid : Z)
               | FOpenDenied (path acc : Z).   (* Hopen whose HI_OPEN / HI_CREATE is refused by the system *)
Inductive fres := RFail | ROk (v : Z).

Definition rec_of_path (p : Z) (st : fstate) : option (Z * frec) :=
  find (fun kr => (fpath (snd kr) =? p) && (0 <? frefcount (snd kr))) (frecs st).

Definition file_of (fid : Z) (st : fstate) : option (Z * frec) :=
  match aget fid (fids st) with
  | Some (OFile r) => match aget r (frecs st) with
                      | Some fr => if frefcount fr =? 0 then None else Some (r, fr)     (* BADFREC *)
                      | None => None
                      end
  | _ => None
  end.

(** does any live access element name this file id?  (added by the repair of Hclose; see design.d/C13.md) *)
Definition aid_through (fid : Z) (st : fstate) : bool :=
  existsb (fun e => match snd e with OAid f => f =? fid | _ => false end) (fids st).

Definition f_step_open_shared (p acc r : Z) (fr : frec) (st : fstate) : fres * fstate :=
  let id := fnext st in
  let fr' := mkF p (frefcount fr + 1) (fattach fr)
                 (if (0 <? Z.land acc DFACC_WRITE) then Z.lor (faccess fr) DFACC_WRITE else faccess fr) in
  (ROk id, mkFS (aset r fr' (frecs st)) ((id, OFile r) :: fids st) (id + 1)).

Definition f_step (o : fop) (st : fstate) : fres * fstate :=
  match o with
  | FOpen p acc =>
      if negb (Z.land acc DFACC_ALL =? acc) then (RFail, st) else
      let id := fnext st in
      match rec_of_path p st with
      | Some (r, fr) =>                                         (* already open: share the record *)
          if acc =? DFACC_CREATE then (RFail, st)
          else f_step_open_shared p acc r fr st
      | None =>
          let r := Z.of_nat (length (frecs st)) in
          let fr := mkF p 1 0 (if acc =? DFACC_CREATE then DFACC_ALL else Z.lor acc DFACC_READ) in
          (ROk id, mkFS (aset r fr (frecs st)) ((id, OFile r) :: fids st) (id + 1))
      end
  | FClose fid =>
      match file_of fid st with
      | None => (RFail, st)
      | Some (r, fr) =>
          if (frefcount fr =? 1) && (0 <? fattach fr) then (RFail, st)          (* --refcount == 0 && attach > 0: restored *)
          else if (1 <? frefcount fr) && aid_through fid st then (RFail, st)    (* other opens remain, AIDs name this id *)
          else (ROk 0, mkFS (aset r (mkF (fpath fr) (frefcount fr - 1) (fattach fr) (faccess fr)) (frecs st))
                            (adel fid (fids st)) (fnext st))
      end
  | FStart fid w =>
      match file_of fid st with
      | None => (RFail, st)
      | Some (r, fr) =>
          if w && (Z.land (faccess fr) DFACC_WRITE =? 0) then (RFail, st)
          else let id := fnext st in
               (ROk id, mkFS (aset r (mkF (fpath fr) (frefcount fr) (fattach fr + 1) (faccess fr)) (frecs st))
                             ((id, OAid fid) :: fids st) (id + 1))
      end
  | FEnd aid =>
      match aget aid (fids st) with
      | Some (OAid fid) =>
          match file_of fid st with
          | Some (r, fr) => (ROk 0, mkFS (aset r (mkF (fpath fr) (frefcount fr) (fattach fr - 1) (faccess fr)) (frecs st))
                                         (adel aid (fids st)) (fnext st))
          | None => (RFail, mkFS (frecs st) (adel aid (fids st)) (fnext st))
          end
      | _ => (RFail, st)
      end
  | FInq fid =>
      match file_of fid st with
      | Some (r, fr) => (ROk (fpath fr), st)
      | None => (RFail, st)
      end
  | FOpenDenied p acc =>
      if negb (Z.land acc DFACC_ALL =? acc) then (RFail, st) else
      match rec_of_path p st with
      | Some (r, fr) =>
          if acc =? DFACC_CREATE then (RFail, st)
          else if (0 <? Z.land acc DFACC_WRITE) && (Z.land (faccess fr) DFACC_WRITE =? 0) then
            (* the shared record is read-only and must be reopened: that is the stream the system refuses.
               Opened-before-closed: nothing has happened yet.  Closed-before-opened: the record is left without a
               stream -- every id of this file is dead (modelled as the record being gone) *)
            if Hopen_reopen_opens_before_closing =? 1 then (RFail, st)
            else (RFail, mkFS (adel r (frecs st)) (fids st) (fnext st))
          else                                                  (* no stream is opened: the denial is not even noticed *)
            f_step_open_shared p acc r fr st
      | None => (RFail, st)                                     (* first open of the path refused: no record is kept *)
      end
  end.

Fixpoint f_run (h : list fop) (st : fstate) : list fres * fstate :=
  match h with
  | [] => ([], st)
  | o :: t => let '(r, s1) := f_step o st in let '(rs, s2) := f_run t s1 in (r :: rs, s2)
  end.

(** every record closed and no id live: nothing of the past is visible to later opens *)
Definition f_quiescent (st : fstate) : bool :=
  forallb (fun kr => (frefcount (snd kr) =? 0)) (frecs st) && match fids st with [] => true | _ => false end.

(* ------------------------------------------------------------------------------------------------ *)
(** * SD ids (mfsd.c): file slot, kind, index *)

Definition sd_valid_slot (slot ncdf : Z) (open : Z -> bool) : bool := (0 <=? slot) && (slot <? ncdf) && open slot.

(** SDIhandle_from_id(id, typ): id != -1, kind field = typ, then NC_check_id(slot) *)
Definition sd_check (id typ ncdf : Z) (open : Z -> bool) : option Z :=
  if id =? -1 then None
  else if negb (SD_id_type id =? typ) then None
  else let slot := SD_id_slot id in if sd_valid_slot slot ncdf open then Some slot else None.

(* ------------------------------------------------------------------------------------------------ *)
(** * CT: the table of open SD files (mfhdf file.c: _cdfs, _cdfs_size, _ncdf, _curr_opened, max_NC_open).
    The position of a file in this table is the slot field of every SD id, so whatever reorganises the table
    (NC_open growing it, NC_reset_maxopenfiles behind SDreset_maxopenfiles, ncclose freeing it) must leave every
    open file at its position.  The guards and loop conditions are the expressions regenerated in Gen_Atom.v. *)

Record cdftab := mkCT { ctab : list (option Z);      (* _cdfs ([] = NULL); Some o = NC* of object o *)
                        cmax : Z;                     (* max_NC_open *)
                        cncdf : Z;                    (* _ncdf: high water mark *)
                        ccurr : Z }.                  (* _curr_opened *)
Definition ct_init : cdftab := mkCT [] 32 0 0.

Definition ct_size (t : cdftab) : Z := Z.of_nat (length (ctab t)).
Definition slot_at (l : list (option Z)) (p : nat) : option Z :=
  match nth_error l p with Some (Some o) => Some o | _ => None end.

(** NC_check_id *)
Definition ct_check (cdfid : Z) (t : cdftab) : option Z :=
  if NC_check_range cdfid (cncdf t) =? 0 then None else slot_at (ctab t) (Z.to_nat cdfid).

(** the backwards scan "for (old_idx = _cdfs_size - 1; old_idx >= 0 && _cdfs[old_idx] == NULL; old_idx--)" *)
Fixpoint highest (l : list (option Z)) (i : Z) (acc : Z) : Z :=
  match l with
  | [] => acc
  | x :: t => highest t (i + 1) (match x with Some _ => i | None => acc end)
  end.

(** the new list: NULL everywhere, then newlist[i] = _cdfs[i] while the copy condition holds
    (one pass: position i of the new list looks at position i of the old one) *)
Fixpoint ct_build (n : nat) (i size alloc : Z) (l : list (option Z)) : list (option Z) :=
  match n with
  | O => []
  | S k => (if NC_reset_copy_cond i size alloc =? 0 then None else match l with x :: _ => x | [] => None end)
           :: ct_build k (i + 1) size alloc (tl l)
  end.
Definition ct_newlist (alloc : Z) (l : list (option Z)) : list (option Z) :=
  ct_build (Z.to_nat alloc) 0 (Z.of_nat (length l)) alloc l.

(** NC_reset_maxopenfiles(req_max); lim = MAX_AVAIL_OPENFILES *)
Definition ct_reset (req lim : Z) (t : cdftab) : Z * cdftab :=
  if negb (NC_reset_neg_guard req =? 0) then (-1, t)
  else match ctab t with
  | [] => let size := if req =? 0 then cmax t else req in
          (size, mkCT (repeat None (Z.to_nat size)) size (cncdf t) (ccurr t))
  | _ =>
      if negb (NC_reset_curr_guard req (ccurr t) =? 0) then (ct_size t, t)
      else
        let alloc := if NC_reset_limit_cond req lim =? 0 then req else lim in
        let old := highest (ctab t) 0 (-1) in
        if negb (NC_reset_guard alloc old =? 0) then (ct_size t, t)
        else (alloc, mkCT (ct_newlist alloc (ctab t)) alloc
                          (if NC_reset_clamp_cond (cncdf t) alloc =? 0 then cncdf t else alloc) (ccurr t))
  end.

Fixpoint first_free (l : list (option Z)) (i n : Z) : Z :=          (* for (cdfid = 0; cdfid < _ncdf; cdfid++) if NULL break *)
  match l with
  | [] => n
  | x :: t => if n <=? i then n else match x with None => i | Some _ => first_free t (i + 1) n end
  end.

Fixpoint set_slot (l : list (option Z)) (p : nat) (v : option Z) : list (option Z) :=
  match l, p with
  | [], _ => []
  | _ :: t, O => v :: t
  | x :: t, S k => x :: set_slot t k v
  end.

(** NC_open: returns the position (or -1) *)
Definition ct_open (obj lim : Z) (t : cdftab) : Z * cdftab :=
  let '(pos, t1, ok) :=
    match ctab t with
    | [] => let '(r, t1) := ct_reset 0 lim t in (0, t1, negb (r =? -1))
    | _ => let pos := first_free (ctab t) 0 (cncdf t) in
           if NC_open_grow_cond pos (ct_size t) (cncdf t) (cmax t) =? 0 then (pos, t, true)
           else if cmax t =? lim then (pos, t, false)
           else let '(r, t1) := ct_reset lim lim t in (pos, t1, negb (r =? -1))
    end in
  if ok then
    (pos, mkCT (set_slot (ctab t1) (Z.to_nat pos) (Some obj)) (cmax t1)
               (if pos =? cncdf t1 then cncdf t1 + 1 else cncdf t1) (ccurr t1 + 1))
  else (-1, t1).

(** ncclose (the part that touches the table) *)
Definition ct_close (cdfid : Z) (t : cdftab) : Z * cdftab :=
  match ct_check cdfid t with
  | None => (-1, t)
  | Some _ =>
      let n := if NC_close_top_cond cdfid (cncdf t) =? 0 then cncdf t else cncdf t - 1 in
      if ccurr t - 1 =? 0 then (0, mkCT [] (cmax t) 0 0)                  (* ncreset_cdflist: list freed, _ncdf = 0 *)
      else (0, mkCT (set_slot (ctab t) (Z.to_nat cdfid) None) (cmax t) n (ccurr t - 1))
  end.

Inductive ctop := CTOpen (obj : Z) | CTClose (cdfid : Z) | CTReset (req : Z).
Definition ct_step (lim : Z) (o : ctop) (t : cdftab) : Z * cdftab :=
  match o with
  | CTOpen obj => ct_open obj lim t
  | CTClose c => ct_close c t
  | CTReset r => ct_reset r lim t
  end.

(* ------------------------------------------------------------------------------------------------ *)
(** * HT: the abstract handle table -- oracle (monitor) for the mixed-interface histories.

    The monitor reads the trace of the real library: for every call, which handle kind the call expects,
    the id it was given, whether the remaining arguments are plainly valid, and what the library answered
    (failure, or success with the id it issued / the identity of the object it reported).  It keeps the
    finite map id -> handle and says whether that answer is admissible.  Object identities are numbers:
    a root object (file opened by path p) is p+1; an object reached under a handle is 100 * parent + sub. *)

Inductive hkind := KFile | KAid | KBit | KVg | KVs | KGr | KRi | KAn | KAnn | KSd | KSds | KDim.

Definition hkind_eqb (a b : hkind) : bool :=
  match a, b with
  | KFile, KFile | KAid, KAid | KBit, KBit | KVg, KVg | KVs, KVs | KGr, KGr | KRi, KRi | KAn, KAn
  | KAnn, KAnn | KSd, KSd | KSds, KSds | KDim, KDim => true
  | _, _ => false
  end.

(** ids of these kinds are positional / shared by design: issuing a live id again is legal if it names the same object *)
Definition shareable (k : hkind) : bool :=
  match k with KAn | KAnn | KSds | KDim => true | _ => false end.

(** handles that keep an access element attached to the file: Hclose must refuse while one is live *)
Definition blocking (k : hkind) : bool :=
  match k with KAid | KBit | KVs => true | _ => false end.

Record handle := mkH { hk : hkind; hobj : Z; hparent : Z; hcnt : Z; hmode : Z }.   (* kind, object identity, parent id, issue count, 1 = exclusive (write) attachment *)
Definition htable := list (Z * handle).

Inductive hcall :=
| CRoot (k : hkind) (obj : Z) (argsok : bool)                              (* open by path: no parent handle *)
| CIssue (k : hkind) (parent : Z) (pk : hkind) (sub : Z) (argsok : bool) (mode : Z)  (* open/attach/select/create under a parent handle; mode 1 = for writing *)
| CUse (k : hkind) (id : Z)                                                (* inquiry on a handle: reports the object identity *)
| CRelease (k : hkind) (id : Z)                                            (* the kind's release call *)
| CPair (k1 : hkind) (id1 : Z) (k2 : hkind) (id2 : Z) (argsok : bool).     (* a call that takes two ids (Vinsert) *)

Inductive hans := AFail | AOk (v : Z).            (* library answer: v = issued id (issue) / identity (use) / 0 (release) *)
Inductive verdict := VOk | VBad (code : Z).       (* code: 1 stale/foreign id accepted, 2 valid call refused, 3 wrong object,
                                                     4 issued id aliases a live handle, 5 file closed under attached elements,
                                                     6 ids of two different files accepted together, 7 attachment issued against the exclusivity of a write attachment *)

Definition hget (k : hkind) (id : Z) (t : htable) : option handle :=
  match aget id t with
  | Some h => if hkind_eqb (hk h) k then Some h else None
  | None => None
  end.

Definition has_blocking_children (id : Z) (t : htable) : bool :=
  existsb (fun e => (hparent (snd e) =? id) && blocking (hk (snd e))) t.

(** handles whose parent is gone are gone too (release of an interface invalidates what was issued under it) *)
Definition prune (t : htable) : htable :=
  filter (fun e => (hparent (snd e) =? -1) || match aget (hparent (snd e)) t with Some _ => true | None => false end) t.

(** the root handle (file / SD file) a handle was issued under, with its object identity *)
Fixpoint root_of (fuel : nat) (id : Z) (t : htable) : option (Z * Z) :=
  match fuel with
  | O => None
  | S f => match aget id t with
           | None => None
           | Some h => if hparent h =? -1 then Some (id, hobj h) else root_of f (hparent h) t
           end
  end.

Definition issue (k : hkind) (id parent obj mode : Z) (t : htable) : verdict * htable :=
  match aget id t with
  | None => (VOk, (id, mkH k obj parent 1 mode) :: t)
  | Some h =>
      if shareable k && hkind_eqb (hk h) k && (hobj h =? obj)
      then (VOk, aset id (mkH k obj parent (hcnt h + 1) mode) t)
      else (VBad 4, t)
  end.

(** Vdatas: a write attachment is exclusive.  While an id of the object is attached under the same file id, a new
    attachment must be refused if it is for writing or if the existing one is. *)
Definition exclusive_kind (k : hkind) : bool := match k with KVs => true | _ => false end.
Definition excl_conflict (k : hkind) (parent obj mode : Z) (t : htable) : bool :=
  exclusive_kind k &&
  existsb (fun e => hkind_eqb (hk (snd e)) k && (hparent (snd e) =? parent) && (hobj (snd e) =? obj) &&
                    ((mode =? 1) || (hmode (snd e) =? 1))) t.

Definition h_step (c : hcall) (a : hans) (t : htable) : verdict * htable :=
  match c with
  | CRoot k obj argsok =>
      match a with
      | AFail => (if argsok then VBad 2 else VOk, t)
      | AOk id => issue k id (-1) obj 0 t
      end
  | CIssue k parent pk sub argsok mode =>
      match hget pk parent t, a with
      | None, AFail => (VOk, t)
      | None, AOk _ => (VBad 1, t)
      | Some p, AFail => (if argsok && negb (excl_conflict k parent (100 * hobj p + sub) mode t) then VBad 2 else VOk, t)
      | Some p, AOk id => if excl_conflict k parent (100 * hobj p + sub) mode t then (VBad 7, t)
                          else issue k id parent (100 * hobj p + sub) mode t
      end
  | CUse k id =>
      match hget k id t, a with
      | None, AFail => (VOk, t)
      | None, AOk _ => (VBad 1, t)
      | Some _, AFail => (VBad 2, t)
      | Some h, AOk v => (if v =? hobj h then VOk else VBad 3, t)
      end
  | CRelease k id =>
      match hget k id t, a with
      | None, AFail => (VOk, t)
      | None, AOk _ => (VBad 1, t)
      | Some h, AFail => (if has_blocking_children id t then VOk else VBad 2, t)
      | Some h, AOk _ =>
          if has_blocking_children id t then (VBad 5, t)
          else if 1 <? hcnt h then (VOk, aset id (mkH (hk h) (hobj h) (hparent h) (hcnt h - 1) (hmode h)) t)
          else (VOk, prune (prune (prune (adel id t))))
      end
  | CPair k1 id1 k2 id2 argsok =>
      match hget k1 id1 t, hget k2 id2 t with
      | Some _, Some _ =>
          match root_of 5 id1 t, root_of 5 id2 t with
          | Some (r1, o1), Some (r2, o2) =>
              if negb (o1 =? o2) then (match a with AOk _ => VBad 6 | AFail => VOk end, t)     (* two different files *)
              else if (r1 =? r2) && argsok then (match a with AOk _ => VOk | AFail => VBad 2 end, t)
              else (VOk, t)
          | _, _ => (VOk, t)
          end
      | _, _ => (match a with AOk _ => VBad 1 | AFail => VOk end, t)
      end
  end.

Fixpoint h_run (tr : list (hcall * hans)) (t : htable) : list verdict :=
  match tr with
  | [] => []
  | (c, a) :: rest => let '(v, t1) := h_step c a t in v :: h_run rest t1
  end.
