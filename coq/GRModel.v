(** C09 -- general raster images (hdf/src/mfgr.c): implementation model M and abstract specification S.

    No proofs in this file (they are in GRProofs.v).  Everything is total and computable; it is
    extracted to OCaml (Extract_C09.v) and run against the real library by checks/C09.py.

    M follows the C code:
      - [il_walk_trace] / [il_convert_walk] : GRIil_convert as the pointer walk it performs (per component
        pointers, per pixel and per line increments).  The initial offsets, increments, loop bounds, copy
        length and wrap-around condition are the expressions regenerated from mfgr.c (Gen_GR ilc_...).
      - [gr_write_ops] / [gr_read_ops] : the Hseek/Hwrite/Hread calls GRwriteimage / GRreadimage issue on the
        image element (whole image, solid block, strided; first write of a new image surrounded by fill
        pixels), with the address arithmetic regenerated from mfgr.c (Gen_GR wr_... and rd_...).  The element
        is a stream of pixels; every offset and length of the C code is a multiple of the pixel size
        (lemma gr_expr_scaling in GRProofs.v), and the byte trace printed for the correspondence check uses
        the regenerated expressions at the real pixel size.
    S is a height x width array of pixels (each a list of ncomp components) with pointwise definitions
    using the closed-form interlace index functions [il_index] / [il_decode]. *)
From Coq Require Import List Arith Bool ZArith.
Import ListNotations.
Require Import H4.gen.Gen_GR H4.gen.Gen_Conv.

(* ------------------------------------------------------------------------------------------ *)
(** * Interlace                                                                                 *)

Inductive ilace := ILpixel | ILline | ILcomp.

Definition il_code (il : ilace) : nat :=
  Z.to_nat (match il with
            | ILpixel => MFGR_INTERLACE_PIXEL
            | ILline => MFGR_INTERLACE_LINE
            | ILcomp => MFGR_INTERLACE_COMPONENT
            end).

Definition il_of_code (n : nat) : option ilace :=
  if n =? il_code ILpixel then Some ILpixel
  else if n =? il_code ILline then Some ILline
  else if n =? il_code ILcomp then Some ILcomp
  else None.

Definition il_eqb (a b : ilace) : bool :=
  match a, b with
  | ILpixel, ILpixel | ILline, ILline | ILcomp, ILcomp => true
  | _, _ => false
  end.

(** Closed form: position (in components) of component [c] of the pixel in row [y], column [x] of an
    [X] wide, [Y] high, [nc] component buffer. *)
Definition il_index (il : ilace) (X Y nc y x c : nat) : nat :=
  match il with
  | ILpixel => (y * X + x) * nc + c
  | ILline => (y * nc + c) * X + x
  | ILcomp => (c * Y + y) * X + x
  end.

(** Inverse: (row, column, component) of position [q]. *)
Definition il_decode (il : ilace) (X Y nc q : nat) : nat * nat * nat :=
  match il with
  | ILpixel => (q / (X * nc), (q / nc) mod X, q mod nc)
  | ILline => (q / (nc * X), q mod X, (q / X) mod nc)
  | ILcomp => ((q / X) mod Y, q mod X, q / (Y * X))
  end.

(** ** GRIil_convert as the pointer walk *)

Definition vadd (a b : list nat) : list nat := map (fun p => fst p + snd p) (combine a b).

(** one line of pixels: for j < n, for every component k: copy, then advance both pointers by the
    per-pixel increments.  Returns the copies (source offset, destination offset) and the pointers. *)
Fixpoint walk_row (n : nat) (ip op ipa opa : list nat) : list (nat * nat) * (list nat * list nat) :=
  match n with
  | 0 => ([], (ip, op))
  | S n' => let '(tr, st) := walk_row n' (vadd ip ipa) (vadd op opa) ipa opa in
            (combine ip op ++ tr, st)
  end.

Fixpoint walk_rows (n X : nat) (wrap : bool) (ip op ipa opa ila ola : list nat) : list (nat * nat) :=
  match n with
  | 0 => []
  | S n' => let '(tr, (ip', op')) := walk_row X ip op ipa opa in
            let ip'' := if wrap then vadd ip' ila else ip' in
            let op'' := if wrap then vadd op' ola else op' in
            tr ++ walk_rows n' X wrap ip'' op'' ipa opa ila ola
  end.

(** [cs] = comp_size (bytes per component), pixel_size = cs * nc. *)
Definition il_walk_trace (inil outil : ilace) (X Y nc cs : nat) : list (nat * nat) :=
  let ps := cs * nc in
  let ci := il_code inil in
  let co := il_code outil in
  let v (f : nat -> nat) := map f (seq 0 nc) in
  walk_rows (ilc_loop_outer nc X Y) (ilc_loop_mid nc X Y) (ilc_wrap_cond ci co)
            (v (fun i => ilc_in_comp_ptr ci i cs ps nc X Y))
            (v (fun i => ilc_out_comp_ptr co i cs ps nc X Y))
            (v (fun i => ilc_in_pixel_add ci i cs ps nc X Y))
            (v (fun i => ilc_out_pixel_add co i cs ps nc X Y))
            (v (fun i => ilc_in_line_add ci i cs ps nc X Y))
            (v (fun i => ilc_out_line_add co i cs ps nc X Y)).

Definition memcpy_at {A} (src : list A) (s : nat) (dst : list A) (d n : nat) : list A :=
  firstn d dst ++ firstn n (skipn s src) ++ skipn (d + n) dst.

Definition apply_trace {A} (n : nat) (src : list A) (tr : list (nat * nat)) (dst : list A) : list A :=
  fold_left (fun o sd => memcpy_at src (fst sd) o (snd sd) n) tr dst.

(** [dst] is the (uninitialised) output buffer; the result does not depend on its contents
    (il_convert_correct). *)
Definition il_convert_walk {A} (inil outil : ilace) (X Y nc cs : nat) (src dst : list A) : list A :=
  if ilc_same_cond (il_code inil) (il_code outil)
  then memcpy_at src 0 dst 0 (ilc_same_len (cs * nc) X Y)
  else apply_trace (ilc_copy_len cs (cs * nc)) src (il_walk_trace inil outil X Y nc cs) dst.

(** ** Specification of the conversion (closed form) *)
Definition il_convert_spec {A} (d : A) (inil outil : ilace) (X Y nc cs : nat) (src : list A) : list A :=
  map (fun q => let '(y, x, c) := il_decode outil X Y nc (q / cs) in
                nth (cs * il_index inil X Y nc y x c + q mod cs) src d)
      (seq 0 (X * Y * nc * cs)).

(* ------------------------------------------------------------------------------------------ *)
(** * Region engine of GRwriteimage / GRreadimage (element = stream of pixels)                  *)

Record rgn := { r_sx : nat; r_sy : nat; r_tx : nat; r_ty : nat; r_cx : nat; r_cy : nat }.

(** regenerated address expression at pixel size [psz] *)
Definition G (f : nat -> nat -> nat -> nat -> nat -> nat -> nat -> nat -> nat -> nat)
           (xdim ydim psz : nat) (r : rgn) : nat :=
  f xdim ydim psz (r_sx r) (r_sy r) (r_tx r) (r_ty r) (r_cx r) (r_cy r).
Definition Gb (f : nat -> nat -> nat -> nat -> nat -> nat -> nat -> nat -> nat -> bool)
           (xdim ydim psz : nat) (r : rgn) : bool :=
  f xdim ydim psz (r_sx r) (r_sy r) (r_tx r) (r_ty r) (r_cx r) (r_cy r).

Definition solid_block (r : rgn) : bool := (r_tx r =? 1) && (r_ty r =? 1).
Definition whole_image (xdim ydim : nat) (r : rgn) : bool :=
  solid_block r && (r_sx r =? 0) && (r_sy r =? 0) && (r_cx r =? xdim) && (r_cy r =? ydim).

(** the region lies inside the image (the property's domain; the library does not check it) *)
Definition rgn_inside (xdim ydim : nat) (r : rgn) : bool :=
  (1 <=? r_tx r) && (1 <=? r_ty r) && (1 <=? r_cx r) && (1 <=? r_cy r) &&
  (r_sx r + (r_cx r - 1) * r_tx r <? xdim) && (r_sy r + (r_cy r - 1) * r_ty r <? ydim).

Section Region.
  Context {P : Type}.

  Inductive wop := WSeek (off : nat) | WWrite (l : list P).

  (** Hwrite at [pos] (the layer below: an element is a growable stream) *)
  Definition stream_write (e : list P) (pos : nat) (l : list P) : list P :=
    firstn pos e ++ l ++ skipn (pos + length l) e.

  Fixpoint run_wops (ops : list wop) (e : list P) (pos : nat) : list P * nat :=
    match ops with
    | [] => (e, pos)
    | WSeek o :: r => run_wops r e o
    | WWrite l :: r => run_wops r (stream_write e pos l) (pos + length l)
    end.

  (** solid block, image data already in the file: per row Hseek + Hwrite *)
  Fixpoint solid_seek_ops (n off rowadd plen : nat) (tmp : list P) : list wop :=
    match n with
    | 0 => []
    | S n' => WSeek off :: WWrite (firstn plen tmp)
                    :: solid_seek_ops n' (off + rowadd) rowadd plen (skipn plen tmp)
    end.

  (** sub-sampling, image data already in the file: per pixel Hseek + Hwrite *)
  Fixpoint strided_row_ops (n loff sadd one : nat) (tmp : list P) : list wop * list P :=
    match n with
    | 0 => ([], tmp)
    | S n' => let '(ops, t) := strided_row_ops n' (loff + sadd) sadd one (skipn one tmp) in
              (WSeek loff :: WWrite (firstn one tmp) :: ops, t)
    end.

  Fixpoint strided_seek_ops (n cxn off srowadd sadd one : nat) (tmp : list P) : list wop :=
    match n with
    | 0 => []
    | S n' => let '(ops, t) := strided_row_ops cxn off sadd one tmp in
              ops ++ strided_seek_ops n' cxn (off + srowadd) srowadd sadd one t
    end.

  (** first write of a new image: everything is written sequentially, surrounded by fill pixels taken
      from the fill line [fl] *)
  Definition wfill (fl : list P) (n : nat) : wop := WWrite (firstn n fl).
  Definition opt_w (b : bool) (o : wop) : list wop := if b then [o] else [].
  Definition fill_lines (fl : list P) (lsz n : nat) : list wop := repeat (wfill fl lsz) n.

  (** [n] rows remaining; "i < count[YDIM]-1" is "rows remain after this one" *)
  Fixpoint solid_fill_rows (n plen hl : nat) (fl tmp : list P) : list wop :=
    match n with
    | 0 => []
    | S n' => WWrite (firstn plen tmp)
                     :: opt_w ((0 <? hl) && (0 <? n')) (wfill fl hl)
                     ++ solid_fill_rows n' plen hl fl (skipn plen tmp)
    end.

  Fixpoint strided_fill_px (n gap one : nat) (fx : bool) (fl tmp : list P) : list wop * list P :=
    match n with
    | 0 => ([], tmp)
    | S n' => let '(ops, t) := strided_fill_px n' gap one fx fl (skipn one tmp) in
              (WWrite (firstn one tmp) :: opt_w (fx && (0 <? n')) (wfill fl gap) ++ ops, t)
    end.

  Fixpoint strided_fill_rows (n cxn gap one : nat) (fx fy : bool) (tyn lsz hl : nat) (fl tmp : list P) : list wop :=
    match n with
    | 0 => []
    | S n' => let '(ops, t) := strided_fill_px cxn gap one fx fl tmp in
              ops ++ (if fy && (0 <? n') then fill_lines fl lsz (tyn - 1) else [])
                  ++ opt_w ((0 <? hl) && (0 <? n')) (wfill fl hl)
                  ++ strided_fill_rows n' cxn gap one fx fy tyn lsz hl fl t
    end.

  (** The calls of GRwriteimage on the image element.  [psz] is the pixel size the regenerated
      expressions are evaluated at (1 for the pixel stream).  [newfill]: new image and fill_img. *)
  Definition gr_write_ops (newfill : bool) (xdim ydim psz : nat) (r : rgn) (fl data : list P) : list wop :=
    if whole_image xdim ydim r then [WSeek 0; WWrite (firstn (psz * r_cx r * r_cy r) data)]
    else
      let lo := if Gb wr_fill_lo_cond xdim ydim psz r then G wr_fill_lo_size xdim ydim psz r else 0 in
      let hi := if Gb wr_fill_hi_cond xdim ydim psz r then G wr_fill_hi_size xdim ydim psz r else 0 in
      let lsz := G wr_fill_line_size xdim ydim psz r in
      if solid_block r then
        if newfill then
          fill_lines fl lsz (r_sy r) ++ opt_w (0 <? lo) (wfill fl lo)
            ++ solid_fill_rows (r_cy r) (G wr_pix_len xdim ydim psz r) (hi + lo) fl data
            ++ opt_w (0 <? hi) (wfill fl hi)
            ++ fill_lines fl lsz (G wr_trail_to_0 xdim ydim psz r - G wr_trail_from_0 xdim ydim psz r)
        else
          solid_seek_ops (r_cy r) (G wr_img_offset xdim ydim psz r) (G wr_row_add xdim ydim psz r)
                         (G wr_pix_len xdim ydim psz r) data
      else
        if newfill then
          fill_lines fl lsz (r_sy r) ++ opt_w (0 <? lo) (wfill fl lo)
            ++ strided_fill_rows (r_cy r) (r_cx r) (G wr_fill_stride_size xdim ydim psz r) psz
                                 (1 <? r_tx r) (1 <? r_ty r) (r_ty r) lsz (hi + lo) fl data
            ++ opt_w (0 <? hi) (wfill fl hi)
            ++ fill_lines fl lsz (G wr_trail_to_1 xdim ydim psz r - G wr_trail_from_1 xdim ydim psz r)
        else
          strided_seek_ops (r_cy r) (r_cx r) (G wr_img_offset xdim ydim psz r)
                           (G wr_srow_add xdim ydim psz r) (G wr_stride_add xdim ydim psz r) psz data.

  (** GRwriteimage on the pixel stream: [e] = None when no image data is in the file yet. *)
  Definition gr_write_px (e : option (list P)) (xdim ydim : nat) (r : rgn) (fillpx : P) (data : list P) : list P :=
    match e with
    | None => fst (run_wops (gr_write_ops true xdim ydim 1 r (repeat fillpx xdim) data) [] 0)
    | Some l => fst (run_wops (gr_write_ops false xdim ydim 1 r (repeat fillpx xdim) data) l 0)
    end.

  (** reads *)
  Inductive rop := RSeek (off : nat) | RRead (n : nat).

  Fixpoint run_rops (ops : list rop) (e : list P) (pos : nat) : list P :=
    match ops with
    | [] => []
    | RSeek o :: r => run_rops r e o
    | RRead n :: r => firstn n (skipn pos e) ++ run_rops r e (pos + n)
    end.

  Fixpoint solid_read_ops (n off rowadd plen : nat) : list rop :=
    match n with
    | 0 => []
    | S n' => RSeek off :: RRead plen :: solid_read_ops n' (off + rowadd) rowadd plen
    end.

  Fixpoint strided_read_row (n loff sadd one : nat) : list rop :=
    match n with
    | 0 => []
    | S n' => RSeek loff :: RRead one :: strided_read_row n' (loff + sadd) sadd one
    end.

  Fixpoint strided_read_ops (n cxn off srowadd sadd one : nat) : list rop :=
    match n with
    | 0 => []
    | S n' => strided_read_row cxn off sadd one ++ strided_read_ops n' cxn (off + srowadd) srowadd sadd one
    end.

  Definition gr_read_ops (xdim ydim psz : nat) (r : rgn) : list rop :=
    if whole_image xdim ydim r then [RSeek 0; RRead (psz * r_cx r * r_cy r)]
    else if solid_block r then
      solid_read_ops (r_cy r) (G rd_img_offset xdim ydim psz r) (G rd_row_add xdim ydim psz r)
                     (G rd_pix_len xdim ydim psz r)
    else
      strided_read_ops (r_cy r) (r_cx r) (G rd_img_offset xdim ydim psz r) (G rd_srow_add xdim ydim psz r)
                       (G rd_stride_add xdim ydim psz r) psz.

  Definition gr_read_px (e : list P) (xdim ydim : nat) (r : rgn) : list P :=
    run_rops (gr_read_ops xdim ydim 1 r) e 0.

  (** ** Specification: the image is a [ydim] x [xdim] array of pixels *)
  Definition in_lattice (s t c v : nat) : option nat :=
    if (s <=? v) && ((v - s) mod t =? 0) && ((v - s) / t <? c) then Some ((v - s) / t) else None.

  Definition spec_write_px (d : P) (img : list P) (xdim ydim : nat) (r : rgn) (data : list P) : list P :=
    map (fun p => match in_lattice (r_sy r) (r_ty r) (r_cy r) (p / xdim),
                        in_lattice (r_sx r) (r_tx r) (r_cx r) (p mod xdim) with
                  | Some i, Some j => nth (i * r_cx r + j) data d
                  | _, _ => nth p img d
                  end)
        (seq 0 (xdim * ydim)).

  Definition spec_read_px (d : P) (img : list P) (xdim : nat) (r : rgn) : list P :=
    map (fun q => nth ((r_sy r + (q / r_cx r) * r_ty r) * xdim + r_sx r + (q mod r_cx r) * r_tx r) img d)
        (seq 0 (r_cx r * r_cy r)).
End Region.

Arguments wop : clear implicits.
Arguments rop : clear implicits.

(** byte trace of the calls, for the correspondence with the wrapped Hseek/Hwrite/Hread of the library:
    the ops are recomputed with the regenerated expressions at the real pixel size on a data buffer of
    unit elements (only offsets and lengths are printed). *)
Inductive tr_item := TS (off : nat) | TW (len : nat) | TR (len : nat).
Definition wtrace (newfill : bool) (xdim ydim psz : nat) (r : rgn) : list tr_item :=
  map (fun o => match o with WSeek n => TS n | WWrite l => TW (length l) end)
      (gr_write_ops newfill xdim ydim psz r (repeat tt (psz * xdim)) (repeat tt (psz * r_cx r * r_cy r))).
Definition rtrace (xdim ydim psz : nat) (r : rgn) : list tr_item :=
  map (fun o => match o with RSeek n => TS n | RRead n => TR n end) (gr_read_ops xdim ydim psz r).

(* ------------------------------------------------------------------------------------------ *)
(** * Whole operations on components, with interlace and number-type conversion                 *)

Section Image.
  Context {C D : Type}.           (* component in memory / on disk *)
  Variable enc : C -> D.          (* DFKconvert, DFACC_WRITE (per component) *)
  Variable dec : D -> C.          (* DFKconvert, DFACC_READ *)
  Variable d0 : C.

  Definition chunk_px {T} (t0 : T) (nc n : nat) (flat : list T) : list (list T) :=
    map (fun k => map (fun c => nth (k * nc + c) flat t0) (seq 0 nc)) (seq 0 n).

  (** GRwriteimage: user buffer [user] (components, interlace [wil]) -> new element *)
  Definition m_write (e : option (list (list D))) (xdim ydim nc : nat) (wil : ilace) (r : rgn)
             (fillpx : list C) (user : list C) : list (list D) :=
    let pixbuf := if il_eqb wil ILpixel then user
                  else il_convert_walk wil ILpixel (r_cx r) (r_cy r) nc 1 user (repeat d0 (length user)) in
    let disk := map enc pixbuf in
    gr_write_px e xdim ydim r (map enc fillpx) (chunk_px (enc d0) nc (r_cx r * r_cy r) disk).

  (** GRreadimage on an image with data *)
  Definition m_read (e : list (list D)) (xdim ydim nc : nat) (ril : ilace) (r : rgn) : list C :=
    let mem := map dec (concat (gr_read_px e xdim ydim r)) in
    if il_eqb ril ILpixel then mem
    else il_convert_walk ILpixel ril (r_cx r) (r_cy r) nc 1 mem (repeat d0 (length mem)).

  (** GRreadimage on an image without data: the fill pixel, replicated *)
  Definition m_read_nodata (nc : nat) (ril : ilace) (r : rgn) (fillpx : list C) : list C :=
    let mem := concat (repeat fillpx (r_cx r * r_cy r)) in
    if il_eqb ril ILpixel then mem
    else il_convert_walk ILpixel ril (r_cx r) (r_cy r) nc 1 mem (repeat d0 (length mem)).

  (** Specification *)
  Definition user_pixels (wil : ilace) (cx cy nc : nat) (user : list C) : list (list C) :=
    map (fun k => map (fun c => nth (il_index wil cx cy nc (k / cx) (k mod cx) c) user d0) (seq 0 nc))
        (seq 0 (cx * cy)).

  Definition s_write (img : list (list C)) (xdim ydim nc : nat) (wil : ilace) (r : rgn) (user : list C)
    : list (list C) :=
    spec_write_px [] img xdim ydim r (user_pixels wil (r_cx r) (r_cy r) nc user).

  Definition s_read (img : list (list C)) (xdim nc : nat) (ril : ilace) (r : rgn) : list C :=
    map (fun q => let '(i, j, c) := il_decode ril (r_cx r) (r_cy r) nc q in
                  nth c (nth ((r_sy r + i * r_ty r) * xdim + r_sx r + j * r_tx r) img []) d0)
        (seq 0 (r_cx r * r_cy r * nc)).
End Image.

(* ------------------------------------------------------------------------------------------ *)
(** * Old-style run-length coder of 8-bit rasters (hdf/src/dfrle.c), limits regenerated from the source *)

(** number of leading elements of [l] equal to [b], at most [cap] (the scan loop of DFCIrle) *)
Fixpoint run_len (b : nat) (l : list nat) (cap : nat) : nat :=
  match cap, l with
  | S c, x :: r => if x =? b then S (run_len b r c) else 0
  | _, _ => 0
  end.

(** pending literal bytes: count byte (uint8) followed by the bytes *)
Definition rle_flush (lit : list nat) : list nat :=
  match lit with [] => [] | _ => (length lit mod 256) :: lit end.

(** DFCIrle: [data] = bytes still to encode, [lit] = literal bytes copied since [begp].  A run of more than
    dfrle_min_run equal bytes (scanned while "i + dfrle_run_window > len") is emitted as
    (uint8)(dfrle_run_flag | run), byte; other bytes are copied and flushed when more than dfrle_lit_flush. *)
Fixpoint rle_go (fuel : nat) (data lit : list nat) : list nat :=
  match fuel with
  | 0 => rle_flush lit
  | S f =>
    match data with
    | [] => rle_flush lit
    | b :: rest =>
      let r := S (run_len b rest (dfrle_run_window - 1)) in
      if dfrle_min_run <? r then
        rle_flush lit ++ [Nat.lor dfrle_run_flag (r mod 256) mod 256; b] ++ rle_go f (skipn r data) []
      else
        let lit' := lit ++ [b] in
        if dfrle_lit_flush <? length lit' then rle_flush lit' ++ rle_go f rest [] else rle_go f rest lit'
    end
  end.

Definition dfrle_encode (row : list nat) : list nat := rle_go (length row) row [].

(** DFCIunrle as a byte-at-a-time decoder: count byte, then literals or the byte to repeat *)
Inductive dstate := DIdle | DLit (k : nat) | DRun (c : nat).

Fixpoint unrle_sm (st : dstate) (enc : list nat) : list nat :=
  match enc with
  | [] => []
  | x :: r =>
    match st with
    | DIdle => if Nat.land x dfrle_dec_flag =? 0
               then match x with 0 => unrle_sm DIdle r | _ => unrle_sm (DLit x) r end
               else unrle_sm (DRun (Nat.land x dfrle_dec_mask)) r
    | DLit k => x :: unrle_sm (match k with S (S k') => DLit (S k') | _ => DIdle end) r
    | DRun c => repeat x c ++ unrle_sm DIdle r
    end
  end.

Definition dfrle_decode (enc : list nat) : list nat := unrle_sm DIdle enc.

(** an RLE raster is compressed row by row (DFputcomp) and expanded row by row (DFgetcomp) *)
Definition rows_of (w h : nat) (bytes : list nat) : list (list nat) :=
  map (fun y => map (fun x => nth (y * w + x) bytes 0) (seq 0 w)) (seq 0 h).
Definition rle_image_encode (w h : nat) (bytes : list nat) : list (list nat) := map dfrle_encode (rows_of w h bytes).
Definition rle_image_decode (enc : list (list nat)) : list nat := concat (map dfrle_decode enc).

(* ------------------------------------------------------------------------------------------ *)
(** * History level (what the drivers run): images with bytes                                   *)

Definition comp := list Z.

Record geom := { gx : nat; gy : nat; gnc : nat; gcs : nat; gswap : bool; gnt : Z; gsub : Z }.

(** component size from the DFKNTsize table regenerated for C06; standard (big-endian) multi-byte types are
    byte-swapped on disk, DFNT_LITEND ones are not *)
Fixpoint zassoc (k : Z) (l : list (Z * Z)) : option Z :=
  match l with [] => None | (a, b) :: r => if Z.eqb a k then Some b else zassoc k r end.
Definition nt_size (nt : Z) : option nat := option_map Z.to_nat (zassoc (dfkntsize_selector nt) DFKNTsize_switch).
Definition nt_swapped (nt : Z) (cs : nat) : bool := Z.eqb (Z.land nt (DFNT_LITEND + DFNT_NATIVE)) 0 && (1 <? cs).
(** GRcreate: file_nt_subclass starts as DFNTF_HDFDEFAULT whatever the number type *)
Definition mk_geom (x y nc : nat) (nt : Z) : option geom :=
  match nt_size nt with
  | Some cs => if (1 <=? x) && (1 <=? y) && (1 <=? nc) && (1 <=? cs) then
                 Some {| gx := x; gy := y; gnc := nc; gcs := cs; gswap := nt_swapped nt cs; gnt := nt;
                         gsub := DFNTF_HDFDEFAULT |}
               else None
  | None => None
  end.

(** The number type across GRend / reopen: GRIupdatemeta writes the DFTAG_NT record (bytes regenerated from
    mfgr.c: nt_rec_type, nt_rec_class), GRIget_image_list reads it back: type byte, and the subclass byte decides
    the flavour (DFNTF_PC: little-endian; DFNTF_HDFDEFAULT or an unknown value: the plain type). *)
Definition nt_read_back (rec_type rec_class : Z) : Z * Z :=
  if Z.eqb rec_class DFNTF_PC then (Z.lor rec_type DFNT_LITEND, rec_class) else (rec_type, rec_class).
Definition reopen_nt (nt fsub : Z) : Z * Z := nt_read_back (nt_rec_type nt fsub) (nt_rec_class nt fsub).
Definition geom_reopen (g : geom) : geom :=
  let '(nt', sub') := reopen_nt (gnt g) (gsub g) in
  {| gx := gx g; gy := gy g; gnc := gnc g; gcs := gcs g; gswap := nt_swapped nt' (gcs g); gnt := nt'; gsub := sub' |}.

(** the number types of the property's domain: the ten standard types and their little-endian flavours *)
Definition gr_base_types : list Z :=
  [DFNT_UCHAR8; DFNT_CHAR8; DFNT_INT8; DFNT_UINT8; DFNT_INT16; DFNT_UINT16; DFNT_INT32; DFNT_UINT32;
   DFNT_FLOAT32; DFNT_FLOAT64].
Definition gr_number_types : list Z := gr_base_types ++ map (fun t => Z.lor t DFNT_LITEND) gr_base_types.

Definition group (cs n : nat) (bytes : list Z) : list comp :=
  map (fun k => map (fun b => nth (k * cs + b) bytes 0%Z) (seq 0 cs)) (seq 0 n).

Definition codec (swap : bool) (c : comp) : comp := if swap then rev c else c.

Inductive storage := StPlain | StComp | StChunk | StRle8 | StOld24.

Record mimg := { m_g : geom; m_wil : ilace; m_ril : ilace; m_fill : option (list comp);
                 m_elt : option (list (list comp)); m_store : storage;
                 m_lut : option (list comp); m_lil : ilace }.

Record simg := { s_g : geom; s_wil : ilace; s_ril : ilace; s_fill : option (list comp);
                 s_data : option (list (list comp));
                 s_lut : option (list comp); s_lil : ilace }.

Definition zero_px (g : geom) : list comp := repeat (repeat 0%Z (gcs g)) (gnc g).
Definition fill_of (g : geom) (f : option (list comp)) : list comp :=
  match f with Some p => p | None => zero_px g end.

Definition m_create (g : geom) (il : ilace) : mimg :=
  {| m_g := g; m_wil := il; m_ril := ILpixel; m_fill := None; m_elt := None; m_store := StPlain;
     m_lut := None; m_lil := ILpixel |}.
Definition s_create (g : geom) (il : ilace) : simg :=
  {| s_g := g; s_wil := il; s_ril := ILpixel; s_fill := None; s_data := None; s_lut := None; s_lil := ILpixel |}.

Definition m_setfill (m : mimg) (bytes : list Z) : mimg :=
  {| m_g := m_g m; m_wil := m_wil m; m_ril := m_ril m; m_fill := Some (group (gcs (m_g m)) (gnc (m_g m)) bytes);
     m_elt := m_elt m; m_store := m_store m; m_lut := m_lut m; m_lil := m_lil m |}.
Definition s_setfill (s : simg) (bytes : list Z) : simg :=
  {| s_g := s_g s; s_wil := s_wil s; s_ril := s_ril s; s_fill := Some (group (gcs (s_g s)) (gnc (s_g s)) bytes);
     s_data := s_data s; s_lut := s_lut s; s_lil := s_lil s |}.

Definition m_set_elt (m : mimg) (e : option (list (list comp))) (st : storage) : mimg :=
  {| m_g := m_g m; m_wil := m_wil m; m_ril := m_ril m; m_fill := m_fill m; m_elt := e; m_store := st;
     m_lut := m_lut m; m_lil := m_lil m |}.
Definition s_set_data (s : simg) (e : option (list (list comp))) : simg :=
  {| s_g := s_g s; s_wil := s_wil s; s_ril := s_ril s; s_fill := s_fill s; s_data := e;
     s_lut := s_lut s; s_lil := s_lil s |}.

(** GRsetcompress: storage only.  GRsetchunk: a chunked element reads as fill pixels until written. *)
Definition m_setcomp (m : mimg) : mimg := m_set_elt m (m_elt m) StComp.
Definition m_setchunk (m : mimg) : mimg :=
  let g := m_g m in
  m_set_elt m (match m_elt m with
               | Some e => Some e
               | None => Some (repeat (map (codec (gswap g)) (fill_of g (m_fill m))) (gx g * gy g))
               end) StChunk.
Definition s_setchunk (s : simg) : simg :=
  let g := s_g s in
  s_set_data s (match s_data s with
                | Some e => Some e
                | None => Some (repeat (fill_of g (s_fill s)) (gx g * gy g))
                end).

(** argument check of GRwriteimage / GRreadimage (strides and counts at least 1; starts are naturals) *)
Definition args_ok (r : rgn) : bool := (1 <=? r_tx r) && (1 <=? r_ty r) && (1 <=? r_cx r) && (1 <=? r_cy r).

(** A compressed image that already exists in the file is accessed through the buffered driver (which allows
    region writes) iff GRIget_image_list's test "GRIisspecial_type(..) == code" can succeed for compressed data:
    the code it compares with is SPECIAL_COMP and GRIisspecial_type reports that code. *)
Definition selected_comp_buffered : bool :=
  Z.eqb select_buffers_code SPECIAL_COMP && existsb (Z.eqb select_buffers_code) isspecial_reported.

(** the compression coders refuse random writes: without the buffered driver only whole-image writes succeed *)
Definition comp_write_refused (m : mimg) (r : rgn) : bool :=
  match m_store m, m_elt m with
  | StComp, Some _ => negb selected_comp_buffered && negb (whole_image (gx (m_g m)) (gy (m_g m)) r)
  | _, _ => false
  end.

Definition m_writeimage (m : mimg) (r : rgn) (bytes : list Z) : option (mimg * list tr_item) :=
  let g := m_g m in
  if negb (args_ok r) || comp_write_refused m r then None
  else
    let user := group (gcs g) (r_cx r * r_cy r * gnc g) bytes in
    let e' := m_write (codec (gswap g)) (repeat 0%Z (gcs g)) (m_elt m) (gx g) (gy g) (gnc g) (m_wil m) r
                      (fill_of g (m_fill m)) user in
    Some (m_set_elt m (Some e') (m_store m),
          wtrace (match m_elt m with None => true | Some _ => false end) (gx g) (gy g) (gcs g * gnc g) r).

Definition s_writeimage (s : simg) (r : rgn) (bytes : list Z) : option simg :=
  let g := s_g s in
  if rgn_inside (gx g) (gy g) r && (length bytes =? r_cx r * r_cy r * gnc g * gcs g) then
    let user := group (gcs g) (r_cx r * r_cy r * gnc g) bytes in
    let img := match s_data s with
               | Some i => i
               | None => repeat (fill_of g (s_fill s)) (gx g * gy g)
               end in
    Some (s_set_data s (Some (s_write (repeat 0%Z (gcs g)) img (gx g) (gy g) (gnc g) (s_wil s) r user)))
  else None.

Definition m_readimage (m : mimg) (r : rgn) : option (list Z * list tr_item) :=
  let g := m_g m in
  if negb (args_ok r) then None
  else match m_elt m with
       | None => (* no data: the fill pixel in force now (GRreadimage looks the attribute up on every call; a
                    cached pixel would be the stale default) *)
                 Some (concat (m_read_nodata (repeat 0%Z (gcs g)) (gnc g) (m_ril m) r
                                             (if rd_nodata_caches_fill then zero_px g else fill_of g (m_fill m))), [])
       | Some e => Some (concat (m_read (codec (gswap g)) (repeat 0%Z (gcs g)) e (gx g) (gy g) (gnc g) (m_ril m) r),
                         rtrace (gx g) (gy g) (gcs g * gnc g) r)
       end.

Definition s_readimage (s : simg) (r : rgn) : option (list Z) :=
  let g := s_g s in
  if rgn_inside (gx g) (gy g) r then
    let img := match s_data s with
               | Some i => i
               | None => repeat (fill_of g (s_fill s)) (gx g * gy g)
               end in
    Some (concat (s_read (repeat 0%Z (gcs g)) img (gx g) (gnc g) (s_ril s) r))
  else None.

Definition m_reqil (m : mimg) (il : ilace) : mimg :=
  {| m_g := m_g m; m_wil := m_wil m; m_ril := il; m_fill := m_fill m; m_elt := m_elt m; m_store := m_store m;
     m_lut := m_lut m; m_lil := m_lil m |}.
Definition s_reqil (s : simg) (il : ilace) : simg :=
  {| s_g := s_g s; s_wil := s_wil s; s_ril := il; s_fill := s_fill s; s_data := s_data s;
     s_lut := s_lut s; s_lil := s_lil s |}.
Definition m_reqlutil (m : mimg) (il : ilace) : mimg :=
  {| m_g := m_g m; m_wil := m_wil m; m_ril := m_ril m; m_fill := m_fill m; m_elt := m_elt m; m_store := m_store m;
     m_lut := m_lut m; m_lil := il |}.
Definition s_reqlutil (s : simg) (il : ilace) : simg :=
  {| s_g := s_g s; s_wil := s_wil s; s_ril := s_ril s; s_fill := s_fill s; s_data := s_data s;
     s_lut := s_lut s; s_lil := il |}.

(** GRend + reopen: data and palette persist; the stored interlace is always pixel, the requested
    read interlaces are per-session. *)
Definition m_reopen (m : mimg) : mimg :=
  {| m_g := geom_reopen (m_g m); m_wil := ILpixel; m_ril := ILpixel; m_fill := m_fill m; m_elt := m_elt m; m_store := m_store m;
     m_lut := m_lut m; m_lil := ILpixel |}.
Definition s_reopen (s : simg) : simg :=
  {| s_g := s_g s; s_wil := ILpixel; s_ril := ILpixel; s_fill := s_fill s; s_data := s_data s;
     s_lut := s_lut s; s_lil := ILpixel |}.

(** GRgetiminfo: ncomp, nt, interlace, xdim, ydim *)
Definition m_info (m : mimg) : nat * Z * nat * nat * nat :=
  (gnc (m_g m), gnt (m_g m), il_code (m_wil m), gx (m_g m), gy (m_g m)).
Definition s_info (s : simg) : nat * Z * nat * nat * nat :=
  (gnc (s_g s), gnt (s_g s), il_code (s_wil s), gx (s_g s), gy (s_g s)).

(** Palettes: only the classic 256 x 3 x uint8 pixel-interlaced palette is accepted by GRwritelut. *)
Definition lut_args_ok (ncomp : nat) (nt : Z) (il nentries : nat) : bool :=
  (ncomp =? 3) && ((nt =? 21)%Z || (nt =? 3)%Z) && (il =? il_code ILpixel) && (nentries =? 256).

Definition m_writelut (m : mimg) (ncomp : nat) (nt : Z) (il nentries : nat) (bytes : list Z) : option mimg :=
  if lut_args_ok ncomp nt il nentries then
    Some {| m_g := m_g m; m_wil := m_wil m; m_ril := m_ril m; m_fill := m_fill m; m_elt := m_elt m;
            m_store := m_store m; m_lut := Some (group 1 (3 * 256) bytes); m_lil := m_lil m |}
  else None.
Definition s_writelut (s : simg) (ncomp : nat) (nt : Z) (il nentries : nat) (bytes : list Z) : option simg :=
  if lut_args_ok ncomp nt il nentries && (length bytes =? 768) then
    Some {| s_g := s_g s; s_wil := s_wil s; s_ril := s_ril s; s_fill := s_fill s; s_data := s_data s;
            s_lut := Some (group 1 (3 * 256) bytes); s_lil := s_lil s |}
  else None.

(** GRreadlut: the palette as a [lut_dimX] x [lut_dimY] image of 3 components *)
Definition m_readlut (m : mimg) : option (list Z) :=
  match m_lut m with
  | None => None
  | Some l => Some (concat (if il_eqb (m_lil m) ILpixel then l
                            else il_convert_walk ILpixel (m_lil m) (lut_dimX 256) (lut_dimY 256) 3 1 l
                                                 (repeat [] (length l))))
  end.
Definition s_readlut (s : simg) : option (list Z) :=
  match s_lut s with
  | None => None
  | Some l => Some (concat (il_convert_spec [] ILpixel (s_lil s) 1 256 3 1 l))
  end.

(** raw element bytes (disk format) *)
Definition m_dump (m : mimg) : option (list Z) :=
  match m_elt m with None => None | Some e => Some (concat (concat e)) end.

(** direct GRIil_convert on bytes with the real component size *)
Definition v_walk (inil outil : ilace) (X Y nc cs : nat) (bytes : list Z) : list Z :=
  il_convert_walk inil outil X Y nc cs bytes (repeat 170%Z (length bytes)).
Definition v_spec (inil outil : ilace) (X Y nc cs : nat) (bytes : list Z) : list Z :=
  il_convert_spec 0%Z inil outil X Y nc cs bytes.

(** Old-style rasters written by DFR8addimage (1 component, optionally RLE) / DF24addimage (3 components,
    pixel interlace) and then accessed through GR: uint8 components (GRgetiminfo reports DFNT_UCHAR8). *)
Definition legacy_geom (w h nc : nat) : geom :=
  {| gx := w; gy := h; gnc := nc; gcs := 1; gswap := false; gnt := DFNT_UCHAR8; gsub := DFNTC_BYTE |}.

Definition m_legacy (w h nc : nat) (rle : bool) (bytes : list Z) : mimg :=
  let stored := if rle then map Z.of_nat (rle_image_decode (rle_image_encode w h (map Z.to_nat bytes))) else bytes in
  {| m_g := legacy_geom w h nc; m_wil := ILpixel; m_ril := ILpixel; m_fill := None;
     m_elt := Some (chunk_px [] nc (w * h) (group 1 (w * h * nc) stored));
     m_store := if rle then StRle8 else StOld24; m_lut := None; m_lil := ILpixel |}.

Definition s_legacy (w h nc : nat) (bytes : list Z) : simg :=
  {| s_g := legacy_geom w h nc; s_wil := ILpixel; s_ril := ILpixel; s_fill := None;
     s_data := Some (chunk_px [] nc (w * h) (group 1 (w * h * nc) bytes)); s_lut := None; s_lil := ILpixel |}.

(** raw element of an RLE raster: the rows' encodings, concatenated *)
Definition m_dump_rle (m : mimg) : option (list Z) :=
  match m_elt m with
  | None => None
  | Some e => Some (map Z.of_nat (concat (rle_image_encode (gx (m_g m)) (gy (m_g m))
                                                           (map Z.to_nat (concat (concat e))))))
  end.

(** direct DFCIrle / DFCIunrle on one row: (decoded, encoded) *)
Definition u_case (row : list Z) : list Z * list Z :=
  let enc := dfrle_encode (map Z.to_nat row) in
  (map Z.of_nat (dfrle_decode enc), map Z.of_nat enc).

(* ------------------------------------------------------------------------------------------ *)
(** * GRwritechunk / GRreadchunk
    GRsetchunk hands the chunked-element layer the dimensions (xdim, ydim) in that order, so the chunk grid is
    laid over the element seen as an [xdim] x [ydim] row-major array: chunk (o0, o1) with lengths (c0, c1) holds
    the pixels with linear index (o0*c0 + l / c1) * ydim + (o1*c1 + l mod c1), l < c0*c1, in that order.
    The caller's buffer is converted between its interlace and pixel interlace with GRIil_convert using the
    chunk lengths as dimensions.  Only chunk lengths that divide the image dimensions are in the domain. *)

Definition chunk_cell (ydim c0 c1 o0 o1 l : nat) : nat := (o0 * c0 + l / c1) * ydim + (o1 * c1 + l mod c1).

Definition chunk_inside (xdim ydim c0 c1 o0 o1 : nat) : bool :=
  (1 <=? c0) && (1 <=? c1) && ((o0 + 1) * c0 <=? xdim) && ((o1 + 1) * c1 <=? ydim).

(** chunk-local index of linear pixel [p], if it lies in chunk (o0, o1) *)
Definition cell_of (ydim c0 c1 o0 o1 p : nat) : option nat :=
  let a := p / ydim in
  let b := p mod ydim in
  if (a / c0 =? o0) && (b / c1 =? o1) then Some ((a mod c0) * c1 + b mod c1) else None.

Definition put_chunk {T} (t0 : T) (img : list T) (xdim ydim c0 c1 o0 o1 : nat) (px : list T) : list T :=
  map (fun p => match cell_of ydim c0 c1 o0 o1 p with Some l => nth l px t0 | None => nth p img t0 end)
      (seq 0 (xdim * ydim)).

Definition get_chunk {T} (t0 : T) (img : list T) (ydim c0 c1 o0 o1 : nat) : list T :=
  map (fun l => nth (chunk_cell ydim c0 c1 o0 o1 l) img t0) (seq 0 (c0 * c1)).

Definition m_writechunk (m : mimg) (c0 c1 o0 o1 : nat) (bytes : list Z) : option mimg :=
  let g := m_g m in
  match m_elt m with
  | Some e =>
    let user := group (gcs g) (c0 * c1 * gnc g) bytes in
    let pixbuf := if il_eqb (m_wil m) ILpixel then user
                  else il_convert_walk (m_wil m) ILpixel c0 c1 (gnc g) 1 user (repeat [] (length user)) in
    let px := chunk_px [] (gnc g) (c0 * c1) (map (codec (gswap g)) pixbuf) in
    Some (m_set_elt m (Some (put_chunk [] e (gx g) (gy g) c0 c1 o0 o1 px)) (m_store m))
  | None => None
  end.

Definition s_writechunk (s : simg) (c0 c1 o0 o1 : nat) (bytes : list Z) : option simg :=
  let g := s_g s in
  match s_data s with
  | Some img =>
    if chunk_inside (gx g) (gy g) c0 c1 o0 o1 && (length bytes =? c0 * c1 * gnc g * gcs g) then
      let user := group (gcs g) (c0 * c1 * gnc g) bytes in
      Some (s_set_data s (Some (put_chunk [] img (gx g) (gy g) c0 c1 o0 o1
                                          (user_pixels (repeat 0%Z (gcs g)) (s_wil s) c0 c1 (gnc g) user))))
    else None
  | None => None
  end.

Definition m_readchunk (m : mimg) (c0 c1 o0 o1 : nat) : option (list Z) :=
  let g := m_g m in
  match m_elt m with
  | Some e =>
    let mem := map (codec (gswap g)) (concat (get_chunk [] e (gy g) c0 c1 o0 o1)) in
    Some (concat (if il_eqb (m_ril m) ILpixel then mem
                  else il_convert_walk ILpixel (m_ril m) c0 c1 (gnc g) 1 mem (repeat [] (length mem))))
  | None => None
  end.

Definition s_readchunk (s : simg) (c0 c1 o0 o1 : nat) : option (list Z) :=
  let g := s_g s in
  match s_data s with
  | Some img =>
    if chunk_inside (gx g) (gy g) c0 c1 o0 o1 then
      Some (concat (il_convert_spec (repeat 0%Z (gcs g)) ILpixel (s_ril s) c0 c1 (gnc g) 1
                                    (concat (get_chunk [] img (gy g) c0 c1 o0 o1))))
    else None
  | None => None
  end.
