(** Extraction of the C10 specification (ExtrOcamlBasic only; Z/positive/nat stay inductive). *)
Require Import H4.AttrSpec.
Require Extraction.
Require ExtrOcamlBasic.
Extraction "../extract/gen/attr_spec.ml" AttrSpec.step AttrSpec.init.
