(** Extraction of the C10 specification and implementation model (ExtrOcamlBasic only; Z/positive/nat stay inductive). *)
Require Import H4.AttrSpec H4.AttrModel H4.AttrPersistModel.
Require Extraction.
Require ExtrOcamlBasic.
Extraction "../extract/gen/attr_spec.ml" AttrSpec.step AttrSpec.init AttrPersistModel.mstep.
Extraction "../extract/gen/attr_model.ml" AttrModel.sdi_putattr AttrModel.nc_findattr AttrModel.vs_setattr AttrModel.vg_setattr
  AttrModel.gr_setattr AttrModel.sd_setcal AttrModel.sd_getcal.
