(** C05 -- the n-bit bit-stream lemma: reading the encoder's stream with the encoder's widths returns exactly
    the fields the encoder extracted (composition of the mask-table sweep, the per-byte sweep and bitio_same_widths). *)
From Coq Require Import ZArith List Bool Lia.
Require Import H4.gen.Gen_Comp H4.CompSpec H4.CompRleProofs H4.CompCodecModel H4.CompCodecProofs H4.CompBitioProofs.
Import ListNotations.
Local Open Scope Z_scope.

Definition mi_wf (mi : mask_info) : Prop :=
  mi_len mi = 0 \/ (0 <= mi_off mi < 8 /\ 1 <= mi_len mi <= mi_off mi + 1 /\ mi_mask mi = nbit_byte_mask (mi_off mi) (mi_len mi)).
Definition field_ok (w : Z * Z) : Prop := 1 <= fst w <= 8 /\ 0 <= snd w < 2 ^ fst w.

Lemma one_field_ok mi b : mi_wf mi -> 0 <= b < 256 ->
  Forall field_ok (if 0 <? mi_len mi then [(mi_len mi, Z.shiftr (Z.land b (mi_mask mi)) (mi_off mi - mi_len mi + 1))] else []).
Proof.
  intros [Z0|(Ho & Hl & Hm)] Hb.
  - rewrite Z0. constructor.
  - destruct (Z.ltb_spec 0 (mi_len mi)); [|lia]. constructor; [|constructor].
    pose proof (nbit_byte_roundtrip_lemma (mi_off mi) (mi_len mi) b false Ho Hl Hb) as C.
    unfold nbit_byte_case in C. rewrite <- Hm in C. cbv zeta in C.
    rewrite !andb_true_iff in C. destruct C as [[[_ C2] C3] _]. apply Z.leb_le in C2. apply Z.ltb_lt in C3.
    unfold field_ok. cbn [fst snd]. lia.
Qed.

Lemma enc_fields_ok all : Forall mi_wf all -> forall bytes mis, Forall mi_wf mis -> Forall byte bytes ->
  Forall field_ok (nbit_encode_fields mis all bytes).
Proof.
  intros Ha. induction bytes as [|b t IH]; intros mis Hm Hb; cbn [nbit_encode_fields]; [constructor|].
  inversion Hb as [|? ? Hb1 Hbt]; subst. unfold byte in Hb1.
  destruct mis as [|mi rest].
  - destruct all as [|mi rest]; [constructor|]. inversion Ha as [|? ? Hmi Hr]; subst.
    apply Forall_app; split; [now apply one_field_ok | apply IH; auto].
  - inversion Hm as [|? ? Hmi Hr]; subst.
    apply Forall_app; split; [now apply one_field_ok | apply IH; auto].
Qed.

(** the mask table of every valid configuration is well-formed (from the complete parameter sweep) *)
Lemma forallb_combine_left {A B} (f : A * B -> bool) (P : A -> Prop) :
  (forall a b, f (a, b) = true -> P a) ->
  forall (l1 : list A) (l2 : list B), length l1 = length l2 -> forallb f (combine l1 l2) = true -> Forall P l1.
Proof.
  intros Hf. induction l1 as [|a t IH]; intros [|b t2] Hl Hall; try discriminate; constructor.
  - cbn in Hall. apply andb_true_iff in Hall. destruct Hall as [H1 _]. eauto.
  - cbn in Hall. apply andb_true_iff in Hall. destruct Hall as [_ H2]. cbn in Hl. apply (IH t2); congruence.
Qed.

Lemma nbit_mask_info_wf size start len se fo :
  In size [1; 2; 4; 8] -> 0 <= start < 8 * size -> 1 <= len <= start + 1 ->
  Forall mi_wf (nbit_mask_info (mk_nbit size start len se fo)).
Proof.
  intros Hs Hst Hl. pose proof (nbit_masks_lemma size start len Hs Hst Hl) as C. unfold nbit_cfg_case in C.
  cbv zeta in C. rewrite !andb_true_iff in C. destruct C as [[C1 C2] _]. apply Z.eqb_eq in C1.
  change (nbit_mask_info (mk_nbit size start len false false)) with (nbit_mask_info (mk_nbit size start len se fo)) in *.
  eapply forallb_combine_left; [| |exact C2].
  - intros mi fm H. rewrite !andb_true_iff, orb_true_iff, !andb_true_iff in H. destruct H as [_ [[H1 _]|[[[[H1 H2] H3] H4] H5]]].
    + left. now apply Z.eqb_eq.
    + right. apply Z.leb_le in H1, H2, H4. apply Z.ltb_lt in H3. apply Z.eqb_eq in H5. repeat split; auto; lia.
  - unfold zlen in C1. assert (0 <= size) by (cbn in Hs; lia).
    unfold be_bytes. rewrite map_length. unfold zseq.
    assert (L : forall n a, length (zseq_from a n) = n) by (induction n; intros; cbn; auto). rewrite L. lia.
Qed.

(** ** the bit-stream lemma *)
Lemma nbit_bitstream_lemma : forall size start len se fo bytes,
  In size [1; 2; 4; 8] -> 0 <= start < 8 * size -> 1 <= len <= start + 1 -> Forall byte bytes ->
  let c := mk_nbit size start len se fo in
  let fields := nbit_encode_fields (nbit_mask_info c) (nbit_mask_info c) bytes in
  br_run (nbit_encode c bytes) (bitr_init (nbit_encode c bytes)) (map (fun w => BOr (fst w)) fields) = Some (map snd fields).
Proof.
  intros size start len se fo bytes Hs Hst Hl Hb c fields.
  pose proof (nbit_mask_info_wf size start len se fo Hs Hst Hl) as Hw. fold c in Hw.
  pose proof (enc_fields_ok _ Hw bytes _ Hw Hb) as Hf. fold fields in Hf.
  assert (Hwr : Forall wr_ok fields).
  { eapply Forall_impl; [|exact Hf]. intros [l v] [H1 H2]. unfold wr_ok. cbn [fst snd] in *. lia. }
  unfold nbit_encode. fold c. fold fields.
  rewrite (bitio_same_widths_lemma fields Hwr). f_equal.
  apply map_ext_in. intros [l v] Hin. rewrite Forall_forall in Hf. destruct (Hf _ Hin) as [H1 H2]. cbn [fst snd] in *.
  apply Z.mod_small. lia.
Qed.
