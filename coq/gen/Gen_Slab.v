(* GENERATED: translator failed: mfhdf/src/putget.c:NCvcmaxcontig: anchor 'if\\s*\\((\\*edp < \\*shp)\\)\\s*\\{' matched 0 times (need exactly 1) *)
Definition translator_failed : True := I I.
