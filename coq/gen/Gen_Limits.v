(* GENERATED: translator failed: hdf/src/hfiledd.c:Htagnewref: anchor '\\|\\| (next_ref > [^;{]*?)\\)\\s*do\\b' matched 0 times (need exactly 1) *)
Definition translator_failed : True := I I.
