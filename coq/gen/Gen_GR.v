(* GENERATED: translator failed: gr_exprs: unexpected number-type record code in GRIupdatemeta: [('', '0'), ('img_ptr->img_dim.nt & 0x00001000', '(uint8)DFKgetPNSC(img_ptr->img_dim.nt & (~0x00001000), 0x4441)'), ('img_ptr->img_dim.nt & 0x00004000', '4')] *)
Definition translator_failed : True := I I.
