(* GENERATED: translator failed: hdf/src/hfile.c:Hclose: anchor 'if \\((\\(file_rec->refcount > 0\\) && \\(file_rec->version\\.modified == 1\\))\\)\\s*HIupdate_version' matched 0 times (need exactly 1) *)
Definition translator_failed : True := I I.
