(** Extraction of the C04 specification and models (ExtrOcamlBasic only; Z/nat stay inductive). *)
Require Import H4.LayoutSpec H4.ChunkModel H4.MCacheModel.
Require Extraction.
Require ExtrOcamlBasic.
Extraction "../extract/gen/layout_model.ml" spec_history apply_view nbit_proj fn_case fn_case_chunk mc_test.
