(** Extraction of the C04 specification and models (ExtrOcamlBasic only; Z/nat stay inductive). *)
Require Import H4.LayoutSpec.
Require Extraction.
Require ExtrOcamlBasic.
Extraction "../extract/gen/layout_model.ml" spec_history apply_view nbit_proj.
