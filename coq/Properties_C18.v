(** C18 -- hrepack preserves all content while changing only layout.
    Property theorems only; each is closed by [exact] of a lemma from RepackProofs.v.

    The theorems are about the model M (RepackModel.v: option parsing, option table, options_get_info, the layout
    decision of copy_sds/copy_gr) and the specification S (RepackSpec.v).  M is thin: it maps the layout decision
    over the objects and carries the content unchanged, so content preservation holds of M by construction; that
    the real copy loops of hrepack preserve content rests on the differential run (checks/C18.py).  The property is
    therefore claimed as PARTIAL. *)
From Coq Require Import ZArith List Bool Arith.
Require Import H4.gen.Gen_Repack H4.RepackSpec H4.RepackModel H4.RepackProofs H4.RepackStripProofs.
Import ListNotations.
Local Open Scope Z_scope.

(** Content: the repacked tree has the same objects, names, hierarchy and opaque content (type, dims, attributes,
    palettes, annotations, values) -- for every tree and every option table. *)
Theorem repack_preserves_content : forall o t t', repack o t = Some t' -> content_of t' = content_of t.
Proof. exact repack_preserves_content_lemma. Qed.
Print Assumptions repack_preserves_content.

(** Idempotent in content: repacking the output again with any other options still yields equal content. *)
Theorem repack_idempotent_content : forall o1 o2 t t1 t2,
  repack o1 t = Some t1 -> repack o2 t1 = Some t2 -> content_of t2 = content_of t.
Proof. exact repack_idempotent_content_lemma. Qed.
Print Assumptions repack_idempotent_content.

(** Totality of the layout decision: it fails (hrepack exits 1) only for a selected object whose -c rank does not
    match, or for JPEG on an SDS. *)
Theorem decide_total : forall o k p i,
  decide o k p i = None ->
  (k = KSds \/ k = KGr) /\
  ((exists e, all_chunk o = false /\ lookup p (tbl o) = Some e /\ 0 < k_rank (p_chunk e) /\
              k_rank (p_chunk e) <> rank_of k i)
   \/ (k = KSds /\ o_empty i = false /\
       (l_comp (o_lay i) = COMP_CODE_JPEG \/ exists c, tbl_req_comp o p = Some c /\ c_type c = COMP_CODE_JPEG))).
Proof. exact decide_total_lemma. Qed.
Print Assumptions decide_total.

(** The requested compression is the output's compression whenever it is applicable: a lossless request in force
    for the object (by name or by "*"), the object not empty and not below the size threshold -- whatever the input
    layout was (chunked, compressed, record variable). *)
Theorem decide_requested_comp : forall o k p i c l,
  (k = KSds \/ k = KGr) ->
  tbl_req_comp o p = Some c -> lossless_request (c_type c) = true ->
  o_empty i = false -> threshold o <= o_bytes i ->
  decide o k p i = Some l ->
  l_comp l = c_type c /\ l_info l = obs_info (c_type c) (c_info c).
Proof. exact decide_requested_comp_lemma. Qed.
Print Assumptions decide_requested_comp.

(** The requested chunking: NONE unchunks; a shape of the object's rank becomes the chunk shape, unless the object
    stays a record variable (unlimited dimension and no compression). *)
Theorem decide_requested_chunk : forall o k p i kq l,
  (k = KSds \/ k = KGr) ->
  tbl_req_chunk o p = Some kq -> o_empty i = false ->
  (tbl_named o p = true -> threshold o <= o_bytes i) ->
  decide o k p i = Some l ->
  (k_rank kq = -2 -> l_chunk l = None) /\
  (k_rank kq = rank_of k i -> 0 < rank_of k i ->
     (l_rec (o_lay i) = false \/ exists c, tbl_req_comp o p = Some c /\ 0 < c_type c) ->
     l_chunk l = Some (firstn (Z.to_nat (rank_of k i)) (k_lens kq))).
Proof. exact decide_requested_chunk_lemma. Qed.
Print Assumptions decide_requested_chunk.

(** The option table hrepack builds (hrepack_addcomp / hrepack_addchunk, options_add_comp / options_add_chunk with
    in-place update, refusal of a second setting, appended new names, "*" handling) answers every lookup with the
    last request that names the object or "*", for every list of requests it accepts. *)
Theorem build_reflects : forall es o,
  build_entries_from options_init es = Some o -> reflects o es (threshold o).
Proof. exact build_reflects_lemma. Qed.
Print Assumptions build_reflects.

(** decide_total_and_requested, full: for the option table built from ANY accepted list of requests, every
    successful layout decision of copy_sds / copy_gr meets the specification: the requested compression and the
    requested chunking are the output's whenever they are applicable ([meets], RepackSpec.v).  Together with
    [decide_total] (when the decision can fail).  The clause "else the input's layout" does not hold of the code as
    it stands and is not part of [meets]: an object below the threshold that is stored unchunked is written
    uncompressed even if the input was compressed, and an object named by -c only is uncompressed (its table entry
    carries the default type NONE). *)
Theorem decide_total_and_requested : forall es o k p i l,
  build_entries_from options_init es = Some o -> (k = KSds \/ k = KGr) -> o_rank i = rank_of k i ->
  decide o k p i = Some l -> meets es (threshold o) k p i l = true.
Proof. exact decide_total_and_requested_lemma. Qed.
Print Assumptions decide_total_and_requested.

(** parse_print_options: every -t option the parser can accept within its fixed buffers -- any non-empty list of
    names free of ':' and ',' and shorter than H4_MAX_NC_NAME, with NONE, RLE, HUFF 1..9999 or GZIP 0..9 -- is
    printed (with get_scomp's keyword table) to a string that parse_comp maps back to the same entry. *)
Theorem parse_print_comp : forall names t i,
  names <> [] -> Forall wf_name names -> In (t, i) comp_domain ->
  parse_comp (print_comp {| ce_names := names; ce_type := t; ce_info := i |}) =
  ROk {| ce_names := names; ce_type := t; ce_info := i |}.
Proof. exact parse_print_comp_lemma. Qed.
Print Assumptions parse_print_comp.

(** The same for -c, full: any non-empty list of well-formed names with NONE, or with a shape of 1 to
    H4_MAX_VAR_DIMS lengths, each between 1 and 10^9 - 1 (nine digits are all the parser's buffer takes). *)
Theorem parse_print_chunk : forall names r lens,
  names <> [] -> Forall wf_name names ->
  (r = -2 /\ lens = [] \/ r = zlen lens /\ lens <> [] /\ zlen lens <= H4_MAX_VAR_DIMS /\ Forall wf_len lens) ->
  parse_chunk (print_chunk {| ke_names := names; ke_rank := r; ke_lens := lens |}) =
  ROk {| ke_names := names; ke_rank := r; ke_lens := lens |}.
Proof. exact parse_print_chunk_lemma. Qed.
Print Assumptions parse_print_chunk.

(** The strip-mining copy loop of copy_sds (objects of H4TOOLS_MALLOCSIZE bytes or more): for EVERY rank, every
    positive extents, every element size and every buffer size that holds at least one element, the blocks the loop
    reads and writes, taken in order and each in row-major order, are exactly the cells 0, 1, ..., N-1 of the array
    -- every value is copied once, to its own place.  The loop's statements (strip size, hyperslab size, wrap test
    and carry rule of the next-offset loop) are regenerated from hrepack_sds.c; the buffer size is a parameter
    (H4TOOLS_BUFSIZE in the tool).  Proof: the strip sizes are slab-shaped (full extents below one cut dimension, 1
    above it), an aligned offset yields a block of consecutive cells, and the odometer advances the linear position
    by exactly the block size. *)
Theorem strips_partition_in_order : forall dims eltsz buf,
  Forall (fun d => 1 <= d) dims -> 0 < eltsz <= buf ->
  strip_order dims eltsz buf = Some (zcount 0 (Z.to_nat (zprod dims))).
Proof. exact strips_partition_in_order_lemma. Qed.
Print Assumptions strips_partition_in_order.

(** Data movement of copy_sds, whichever path it takes (one piece with the generated start / edges, or strip by
    strip; extents 0 -- a record variable without records -- included): every cell exactly once, in order.  Read and
    write use the same blocks (copy_plumbing). *)
Theorem copy_sds_moves_every_cell_once : forall dims eltsz buf flags comp,
  Forall (fun d => 0 <= d) dims -> 0 < eltsz <= buf ->
  copy_sds_moves dims eltsz buf flags comp = Some (zcount 0 (Z.to_nat (zprod dims))).
Proof. exact copy_sds_moves_lemma. Qed.
Print Assumptions copy_sds_moves_every_cell_once.

(** copy_gr: one read and one write of the whole image with the generated start / edges. *)
Theorem copy_gr_moves_every_cell_once : forall dims, Forall (fun d => 0 <= d) dims ->
  copy_gr_moves dims = zcount 0 (Z.to_nat (zprod dims)).
Proof. exact copy_gr_moves_lemma. Qed.
Print Assumptions copy_gr_moves_every_cell_once.

(** Every object is copied exactly once as far as the tag tables go: each member tag under which vgroup_insert
    copies an SDS / image / vdata is among the tags the top-level pass of that kind searches to skip objects already
    copied (so a member is not copied again as a lone object), SDS and image tags are accepted by the name check of
    the option table, and no tag is handled as both kinds.  All six lists are regenerated from hrepack_list.c and
    hrepack_lsttable.c (switch labels of vgroup_insert; list_table_search calls or static tag arrays of list_sds,
    list_gr, list_vs). *)
Theorem traversal_tags_consistent :
  (forall t, In t insert_sds_tags -> In t list_sds_search_tags /\ In t compressible_tags) /\
  (forall t, In t insert_image_tags -> In t list_gr_search_tags /\ In t compressible_tags) /\
  (forall t, In t insert_vs_tags -> In t list_vs_search_tags) /\
  (forall t, In t insert_sds_tags -> ~ In t insert_image_tags).
Proof. exact traversal_tags_lemma. Qed.
Print Assumptions traversal_tags_consistent.

(** Metadata plumbing of copy_gr, copy_sds, copy_vs (a syntactic model: the argument lists of the inquiring,
    creating and transferring calls, regenerated from the sources): what the input reports -- name, number type WITH
    its flavour flags, component count, rank, dimensions, interlace, field list, record count -- is the very
    variable the output is created / written with, none of them is assigned in between, and data are written from
    the buffer, with the geometry and in the interlace they were read. *)
Theorem copy_plumbing : copy_gr_plumbing = true /\ copy_sds_plumbing = true /\ copy_vs_plumbing = true.
Proof. exact copy_plumbing_lemma. Qed.
Print Assumptions copy_plumbing.

(** The per-dimension loop of copy_sds: the dimension keeps its name, and its scale -- whenever it has one, whatever
    size SDdiminfo reports (0 for an unlimited dimension) -- is written with the reported number type, from the buffer
    that was read, with as many values as the SDS extends along that dimension. *)
Theorem copy_sds_dim_scale_plumbing :
  copy_sds_dim_plumbing = true /\
  (forall dtype dim_size, truth (sds_scale_guard dtype dim_size) = negb (dtype =? 0)).
Proof. exact copy_sds_dim_plumbing_lemma. Qed.
Print Assumptions copy_sds_dim_scale_plumbing.

(** copy_gr reads and writes the palette of EVERY image that has one: the only condition around GRreadlut and
    GRwritelut is [has_pal == 1] (nothing that depends on other images, e.g. on the object table). *)
Theorem palette_written_for_every_image_with_palette :
  only_guard copy_gr_writelut_guards txt_has_pal = true /\ only_guard copy_gr_readlut_guards txt_has_pal = true.
Proof. exact palette_written_lemma. Qed.
Print Assumptions palette_written_for_every_image_with_palette.

(** The GR file attributes: the GR interface is started on the output whenever the input's GR interface holds
    anything (images OR file attributes), and on the copying trip list_glb reaches copy_gr_attrs unless a call fails
    (no enclosing condition; every early exit before it is the inspection-trip test or the failure test of a call). *)
Theorem gr_started_whenever_gr_content : forall ni na, 0 <= ni -> 0 <= na ->
  truth (has_gr_elems ni na) = false -> ni = 0 /\ na = 0.
Proof. exact gr_started_lemma. Qed.
Print Assumptions gr_started_whenever_gr_content.

Theorem gr_file_attrs_reached :
  list_glb_gr_attrs_guards = [] /\ forallb benign_exit list_glb_exits_before_gr_attrs = true.
Proof. exact gr_file_attrs_reached_lemma. Qed.
Print Assumptions gr_file_attrs_reached.

(** Non-vacuity: concrete, non-trivial states meeting the hypotheses. *)
Example exits_nonempty : length list_glb_exits_before_gr_attrs = 4%nat /\ benign_exit [103; 114; 95; 111; 117; 116; 61; 61; 70; 65; 73; 76] = false /\
  truth (has_gr_elems 0 2) = true /\ truth (has_gr_elems 0 0) = false.
Proof. vm_compute. intuition. Qed.
Example traversal_nonempty : In DFTAG_RI insert_image_tags /\ In DFTAG_RIG insert_image_tags /\ In DFTAG_NDG insert_sds_tags /\
  nth_error copy_gr_created 3 = Some [100; 116; 121; 112; 101] /\ nth_error copy_gr_inquired 3 = Some [100; 116; 121; 112; 101].
Proof. vm_compute. intuition. Qed.

Example strips_real_size : exists n, strips [3; 300; 1000] 4 H4TOOLS_BUFSIZE = Some n /\ length n = 6%nat /\
  copy_sds_moves [3; 0; 5] 4 H4TOOLS_BUFSIZE HDF_NONE COMP_CODE_NONE = Some [] /\
  copy_gr_moves [2; 3] = [0; 1; 2; 3; 4; 5].
Proof. eexists. split; [vm_compute; reflexivity|]. split; [reflexivity|]. split; vm_compute; reflexivity. Qed.

Example strip_walk_runs :
  strips [2; 3] 2 4 = Some [([0; 0], [1; 2]); ([0; 2], [1; 1]); ([1; 0], [1; 2]); ([1; 2], [1; 1])] /\
  strip_order [2; 3] 2 4 = Some [0; 1; 2; 3; 4; 5] /\
  strip_mined 3600000 HDF_NONE COMP_CODE_NONE = true /\ strip_mined 3600000 HDF_NONE COMP_CODE_DEFLATE = false /\
  strip_mined 1048575 HDF_CHUNK COMP_CODE_NONE = false.
Proof. vm_compute. repeat split; reflexivity. Qed.

Definition ex_names : list str := [[103; 49; 47; 65]; [90]].          (* "g1/A", "Z" *)
Definition ex_entries : list entry :=
  [ET {| ce_names := ex_names; ce_type := COMP_CODE_DEFLATE; ce_info := 6 |};
   EC {| ke_names := [[103; 49; 47; 65]]; ke_rank := 2; ke_lens := [10; 10] |}].
Definition ex_options : options :=
  match build [OT (print_comp {| ce_names := ex_names; ce_type := COMP_CODE_DEFLATE; ce_info := 6 |});
               OC (print_chunk {| ke_names := [[103; 49; 47; 65]]; ke_rank := 2; ke_lens := [10; 10] |});
               OM [49; 48; 48]] with
  | ROk o => o
  | _ => options_init
  end.
Definition ex_info : objinfo :=
  {| o_empty := false; o_rank := 2; o_bytes := 1600;
     o_lay := {| l_comp := COMP_CODE_RLE; l_info := 0; l_chunk := None; l_rec := false |} |}.
Definition ex_tree : node :=
  Node KRoot [] [0] ex_info
    [Node KVg [103; 49] [1] ex_info [Node KSds [65] [2] ex_info []]; Node KSds [90] [3] ex_info []].

Example options_built : tbl_req_comp ex_options [103; 49; 47; 65] = Some {| c_type := 4; c_info := 6 |} /\
  tbl_req_chunk ex_options [103; 49; 47; 65] = Some {| k_rank := 2; k_lens := [10; 10] |} /\
  threshold ex_options = 100 /\ options_consistent ex_options = true.
Proof. vm_compute. repeat split; reflexivity. Qed.

Example decision_made :
  decide ex_options KSds [103; 49; 47; 65] ex_info =
  Some {| l_comp := 4; l_info := 6; l_chunk := Some [10; 10]; l_rec := false |} /\
  meets ex_entries 100 KSds [103; 49; 47; 65] ex_info
        {| l_comp := 4; l_info := 6; l_chunk := Some [10; 10]; l_rec := false |} = true.
Proof. vm_compute. split; reflexivity. Qed.

Example repack_runs : exists t', repack ex_options ex_tree = Some t' /\ content_of t' = content_of ex_tree /\ t' <> ex_tree.
Proof. eexists. split; [vm_compute; reflexivity|]. split; [vm_compute; reflexivity|]. vm_compute. discriminate. Qed.

Example decision_fails : decide ex_options KSds [103; 49; 47; 65]
  {| o_empty := false; o_rank := 3; o_bytes := 1600; o_lay := o_lay ex_info |} = None.
Proof. vm_compute. reflexivity. Qed.

Example domains_inhabited : In (COMP_CODE_SKPHUFF, 8) comp_domain /\ In (COMP_CODE_DEFLATE, 9) comp_domain /\
  Forall wf_name ex_names /\ Forall wf_len [10; 999999999] /\
  parse_chunk (print_chunk {| ke_names := ex_names; ke_rank := 2; ke_lens := [10; 999999999] |}) =
  ROk {| ke_names := ex_names; ke_rank := 2; ke_lens := [10; 999999999] |}.
Proof.
  split.
  { unfold comp_domain. apply in_or_app. right. apply in_or_app. left.
    apply in_map_iff. exists 8. split; [reflexivity|]. unfold zrange. apply in_map_iff. exists 7%nat.
    split; [reflexivity|]. apply in_seq. split; [apply Nat.le_0_l|]. rewrite Nat.add_0_l.
    apply Nat2Z.inj_lt. rewrite Z2Nat.id by (vm_compute; discriminate). reflexivity. }
  split.
  { unfold comp_domain. apply in_or_app. right. apply in_or_app. right.
    apply in_map_iff. exists 9. split; [reflexivity|]. vm_compute. tauto. }
  split; [repeat constructor; vm_compute; try discriminate; intuition discriminate|].
  split; [repeat constructor; vm_compute; intuition discriminate|].
  vm_compute. reflexivity.
Qed.

Example entries_build : exists o, build_entries_from options_init ex_entries = Some o /\
  decide o KSds [103; 49; 47; 65] ex_info = Some {| l_comp := 4; l_info := 6; l_chunk := Some [10; 10]; l_rec := false |}.
Proof. eexists. split; vm_compute; reflexivity. Qed.

(** [reflects] holds of the table built from the example entries (checked pointwise for the paths that occur and,
    for every other path, because no entry names it and no global request is set). *)
Example reflects_example_named :
  req_comp ex_entries [103; 49; 47; 65] None = Some (4, 6) /\
  req_chunk ex_entries [103; 49; 47; 65] None = Some (2, [10; 10]) /\
  req_comp ex_entries [90] None = Some (4, 6) /\ req_chunk ex_entries [90] None = None /\
  tbl_req_comp ex_options [90] = Some {| c_type := 4; c_info := 6 |} /\
  named ex_entries [90] = true.
Proof. vm_compute. repeat split; reflexivity. Qed.
