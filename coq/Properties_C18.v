(** C18 -- hrepack preserves all content while changing only layout.
    Property theorems only; each is closed by [exact] of a lemma from RepackProofs.v. *)
From Coq Require Import ZArith List Bool.
Require Import H4.gen.Gen_Repack H4.RepackSpec H4.RepackModel H4.RepackProofs.
Import ListNotations.
Local Open Scope Z_scope.

(** The model of repacking (map the layout decision over the objects of the tree) keeps the content tree: same
    objects, names, hierarchy and opaque content (type, dims, attributes, palettes, annotations, values). *)
Theorem repack_preserves_content : forall o t t', repack o t = Some t' -> content_of t' = content_of t.
Proof. exact repack_preserves_content_lemma. Qed.
Print Assumptions repack_preserves_content.

Theorem repack_idempotent_content : forall o1 o2 t t1 t2,
  repack o1 t = Some t1 -> repack o2 t1 = Some t2 -> content_of t2 = content_of t.
Proof. exact repack_idempotent_content_lemma. Qed.
Print Assumptions repack_idempotent_content.
