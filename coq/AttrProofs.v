(** C10 -- proofs: laws of the attribute-list specification, and refinement of the implementation model to it. *)
From Coq Require Import ZArith List Bool Lia.
Require Import H4.gen.Gen_Attr H4.AttrSpec H4.AttrModel.
Import ListNotations.
Local Open Scope Z_scope.

(* ------------------------------------------------------------------------------------------------------- *)
(** * byte-string equality *)
Lemma beq_eq : forall a b, beq a b = true <-> a = b.
Proof.
  induction a as [|x a IH]; destruct b as [|y b]; simpl; split; intro H; try reflexivity; try discriminate.
  - apply andb_true_iff in H. destruct H as [H1 H2]. apply Z.eqb_eq in H1. apply IH in H2. subst. reflexivity.
  - inversion H; subst. rewrite Z.eqb_refl. simpl. apply IH. reflexivity.
Qed.
Lemma beq_refl : forall a, beq a a = true.
Proof. intro a. apply beq_eq. reflexivity. Qed.
Lemma beq_neq : forall a b, a <> b -> beq a b = false.
Proof. intros a b H. destruct (beq a b) eqn:E; [apply beq_eq in E; contradiction | reflexivity]. Qed.
Lemma beq_false_neq : forall a b, beq a b = false -> a <> b.
Proof. intros a b H E. subst. rewrite beq_refl in H. discriminate. Qed.

(* ------------------------------------------------------------------------------------------------------- *)
(** * the specification's list, with natural-number indices *)
Fixpoint findn (l : list attr) (n : bytes) : option nat :=
  match l with
  | [] => None
  | x :: r => if beq (a_name x) n then Some O else option_map S (findn r n)
  end.

Lemma find_from_findn : forall l n i, attr_find_from l n i = option_map (fun k => i + Z.of_nat k) (findn l n).
Proof.
  induction l as [|x l IH]; simpl; intros n i; [reflexivity|].
  destruct (beq (a_name x) n); simpl; [f_equal; lia|].
  rewrite IH. destruct (findn l n); simpl; [f_equal; lia | reflexivity].
Qed.
Lemma attr_find_findn : forall l n, attr_find l n = option_map Z.of_nat (findn l n).
Proof. intros. unfold attr_find. rewrite find_from_findn. destruct (findn l n); reflexivity. Qed.
Lemma attr_get_nat : forall l k, attr_get l (Z.of_nat k) = nth_error l k.
Proof.
  intros. unfold attr_get. destruct (Z.of_nat k <? 0) eqn:E; [apply Z.ltb_lt in E; lia|]. rewrite Nat2Z.id. reflexivity.
Qed.
Lemma attr_get_some_nat : forall l i x, attr_get l i = Some x -> exists k, i = Z.of_nat k /\ nth_error l k = Some x.
Proof.
  unfold attr_get. intros l i x H. destruct (i <? 0) eqn:E; [discriminate|]. apply Z.ltb_ge in E.
  exists (Z.to_nat i). split; [rewrite Z2Nat.id; lia | exact H].
Qed.

Lemma findn_sound : forall l n k, findn l n = Some k -> exists x, nth_error l k = Some x /\ a_name x = n.
Proof.
  induction l as [|y l IH]; simpl; intros n k H; [discriminate|].
  destruct (beq (a_name y) n) eqn:E.
  - inversion H; subst. exists y. split; [reflexivity | apply beq_eq; exact E].
  - destruct (findn l n) eqn:F; simpl in H; [|discriminate]. inversion H; subst. simpl. apply IH. exact F.
Qed.
Lemma findn_first : forall l n k, findn l n = Some k -> forall j y, (j < k)%nat -> nth_error l j = Some y -> a_name y <> n.
Proof.
  induction l as [|x l IH]; simpl; intros n k H j y Hj Hy; [discriminate|].
  destruct (beq (a_name x) n) eqn:E.
  - inversion H; subst. lia.
  - destruct (findn l n) eqn:F; simpl in H; [|discriminate]. inversion H; subst.
    destruct j; simpl in Hy.
    + inversion Hy; subst. apply beq_false_neq. exact E.
    + eapply IH; [exact F | | exact Hy]. lia.
Qed.
Lemma findn_none : forall l n, findn l n = None -> ~ In n (map a_name l).
Proof.
  induction l as [|x l IH]; simpl; intros n H; [tauto|].
  destruct (beq (a_name x) n) eqn:E; [discriminate|].
  destruct (findn l n) eqn:F; [discriminate|]. intros [H1 | H1].
  - apply beq_false_neq in E. contradiction.
  - eapply IH; eauto.
Qed.
Lemma findn_complete_nodup : forall l k x, NoDup (map a_name l) -> nth_error l k = Some x -> findn l (a_name x) = Some k.
Proof.
  induction l as [|y l IH]; intros k x Hnd H; [destruct k; discriminate|].
  simpl in Hnd. inversion Hnd as [|? ? Hni Hnd']; subst.
  destruct k; simpl in *.
  - inversion H; subst. rewrite beq_refl. reflexivity.
  - assert (In (a_name x) (map a_name l)) as Hin by (apply in_map; eapply nth_error_In; eauto).
    rewrite beq_neq by (intro E; rewrite E in Hni; contradiction).
    rewrite (IH _ _ Hnd' H). reflexivity.
Qed.

(** ** attr_set *)
Lemma set_same_n : forall p l a l', attr_set p l a = Some l' ->
  exists k, findn l' (a_name a) = Some k /\ nth_error l' k = Some a.
Proof.
  induction l as [|x l IH]; simpl; intros a l' H.
  - inversion H; subst. exists O. simpl. rewrite beq_refl. split; reflexivity.
  - destruct (beq (a_name x) (a_name a)) eqn:E.
    + destruct (compatible p x a); [|discriminate]. inversion H; subst. exists O. simpl. rewrite beq_refl. split; reflexivity.
    + destruct (attr_set p l a) eqn:F; simpl in H; [|discriminate]. inversion H; subst.
      destruct (IH _ _ F) as [k [H1 H2]]. exists (S k). simpl. rewrite E, H1. split; [reflexivity | exact H2].
Qed.
Lemma set_other_find : forall p l a l' n, attr_set p l a = Some l' -> n <> a_name a -> findn l' n = findn l n.
Proof.
  induction l as [|x l IH]; simpl; intros a l' n H Hn.
  - inversion H; subst. simpl. rewrite beq_neq by congruence. reflexivity.
  - destruct (beq (a_name x) (a_name a)) eqn:E.
    + destruct (compatible p x a); [|discriminate]. inversion H; subst. simpl.
      apply beq_eq in E. rewrite E. reflexivity.
    + destruct (attr_set p l a) eqn:F; simpl in H; [|discriminate]. inversion H; subst. simpl.
      destruct (beq (a_name x) n); [reflexivity|]. rewrite (IH _ _ _ F Hn). reflexivity.
Qed.
Lemma set_nth : forall p l a l', attr_set p l a = Some l' -> forall k x, nth_error l k = Some x ->
  exists y, nth_error l' k = Some y /\ a_name y = a_name x /\ (a_name x <> a_name a -> y = x).
Proof.
  induction l as [|z l IH]; simpl; intros a l' H k x Hk; [destruct k; discriminate|].
  destruct (beq (a_name z) (a_name a)) eqn:E.
  - destruct (compatible p z a); [|discriminate]. inversion H; subst. apply beq_eq in E.
    destruct k; simpl in *.
    + inversion Hk; subst. exists a. split; [reflexivity|]. split; [congruence|]. intro Hne. congruence.
    + exists x. tauto.
  - destruct (attr_set p l a) eqn:F; simpl in H; [|discriminate]. inversion H; subst.
    destruct k; simpl in *.
    + inversion Hk; subst. exists x. tauto.
    + eapply IH; eauto.
Qed.
Lemma set_shape : forall p l a l', attr_set p l a = Some l' ->
  (map a_name l' = map a_name l /\ findn l (a_name a) <> None) \/ (findn l (a_name a) = None /\ l' = l ++ [a]).
Proof.
  induction l as [|x l IH]; simpl; intros a l' H.
  - inversion H; subst. right. split; reflexivity.
  - destruct (beq (a_name x) (a_name a)) eqn:E.
    + destruct (compatible p x a); [|discriminate]. inversion H; subst. left. simpl. apply beq_eq in E. rewrite E.
      split; [reflexivity | discriminate].
    + destruct (attr_set p l a) eqn:F; simpl in H; [|discriminate]. inversion H; subst.
      destruct (IH _ _ F) as [[H1 H2] | [H1 H2]].
      * left. simpl. rewrite H1. split; [reflexivity|]. destruct (findn l (a_name a)); [discriminate | contradiction].
      * right. rewrite H1, H2. split; reflexivity.
Qed.
Lemma set_none : forall p l a, attr_set p l a = None ->
  exists k old, findn l (a_name a) = Some k /\ nth_error l k = Some old /\ compatible p old a = false.
Proof.
  induction l as [|x l IH]; simpl; intros a H; [discriminate|].
  destruct (beq (a_name x) (a_name a)) eqn:E.
  - destruct (compatible p x a) eqn:C; [discriminate|]. exists O, x. repeat split; assumption.
  - destruct (attr_set p l a) eqn:F; simpl in H; [discriminate|].
    destruct (IH _ F) as [k [old [H1 [H2 H3]]]]. exists (S k), old. rewrite H1. repeat split; assumption.
Qed.
Lemma NoDup_snoc : forall (A : Type) (l : list A) x, NoDup l -> ~ In x l -> NoDup (l ++ [x]).
Proof.
  induction l as [|y l IH]; simpl; intros x Hnd Hni.
  - constructor; [tauto | constructor].
  - inversion Hnd; subst. constructor.
    + intro Hin. apply in_app_or in Hin. destruct Hin as [Hin | [Hin | []]]; [contradiction | subst; tauto].
    + apply IH; tauto.
Qed.
Lemma set_nodup : forall p l a l', NoDup (map a_name l) -> attr_set p l a = Some l' -> NoDup (map a_name l').
Proof.
  intros p l a l' Hnd H. destruct (set_shape _ _ _ _ H) as [[H1 _] | [H1 H2]].
  - rewrite H1. exact Hnd.
  - subst. rewrite map_app. simpl. apply NoDup_snoc; [exact Hnd | apply findn_none; exact H1].
Qed.

(** ** the five laws, with the specification's Z indices *)
Lemma attr_get_set_same_lemma : forall p l a l', attr_set p l a = Some l' ->
  exists i, attr_find l' (a_name a) = Some i /\ attr_get l' i = Some a.
Proof.
  intros p l a l' H. destruct (set_same_n _ _ _ _ H) as [k [H1 H2]]. exists (Z.of_nat k).
  rewrite attr_find_findn, H1, attr_get_nat. split; [reflexivity | exact H2].
Qed.
Lemma attr_get_set_other_lemma : forall p l a l' n, attr_set p l a = Some l' -> n <> a_name a ->
  attr_find l' n = attr_find l n /\ (forall i, attr_find l n = Some i -> attr_get l' i = attr_get l i).
Proof.
  intros p l a l' n H Hn. rewrite !attr_find_findn, (set_other_find _ _ _ _ _ H Hn). split; [reflexivity|].
  intros i Hi. destruct (findn l n) as [k|] eqn:F; simpl in Hi; [|discriminate]. inversion Hi; subst.
  rewrite !attr_get_nat. destruct (findn_sound _ _ _ F) as [x [Hx Hnx]].
  destruct (set_nth _ _ _ _ H _ _ Hx) as [y [Hy [_ Hyx]]]. rewrite Hy, Hx. f_equal. apply Hyx. congruence.
Qed.
Lemma attr_index_stable_lemma : forall p l a l', attr_set p l a = Some l' ->
  (forall i x, attr_get l i = Some x ->
     exists y, attr_get l' i = Some y /\ a_name y = a_name x /\ (a_name x <> a_name a -> y = x)) /\
  ((zlen l' = zlen l /\ attr_find l (a_name a) <> None) \/ (attr_find l (a_name a) = None /\ l' = l ++ [a])).
Proof.
  intros p l a l' H. split.
  - intros i x Hi. destruct (attr_get_some_nat _ _ _ Hi) as [k [Hk Hx]]. subst.
    destruct (set_nth _ _ _ _ H _ _ Hx) as [y Hy]. exists y. rewrite attr_get_nat. exact Hy.
  - rewrite attr_find_findn. destruct (set_shape _ _ _ _ H) as [[H1 H2] | [H1 H2]].
    + left. split.
      * unfold zlen. f_equal. rewrite <- (map_length a_name l'), <- (map_length a_name l). rewrite H1. reflexivity.
      * destruct (findn l (a_name a)); [discriminate | contradiction].
    + right. rewrite H1. split; [reflexivity | exact H2].
Qed.
Lemma attr_set_refused_lemma : forall p l a, attr_set p l a = None ->
  exists i old, attr_find l (a_name a) = Some i /\ attr_get l i = Some old /\ compatible p old a = false.
Proof.
  intros p l a H. destruct (set_none _ _ _ H) as [k [old [H1 [H2 H3]]]]. exists (Z.of_nat k), old.
  rewrite attr_find_findn, H1, attr_get_nat. repeat split; assumption.
Qed.
Lemma attr_find_inverse_lemma : forall l,
  (forall n i, attr_find l n = Some i -> exists x, attr_get l i = Some x /\ a_name x = n) /\
  (NoDup (map a_name l) -> forall i x, attr_get l i = Some x -> attr_find l (a_name x) = Some i).
Proof.
  intro l. split.
  - intros n i H. rewrite attr_find_findn in H. destruct (findn l n) as [k|] eqn:F; simpl in H; [|discriminate].
    inversion H; subst. rewrite attr_get_nat. apply findn_sound. exact F.
  - intros Hnd i x H. destruct (attr_get_some_nat _ _ _ H) as [k [Hk Hx]]. subst.
    rewrite attr_find_findn, (findn_complete_nodup _ _ _ Hnd Hx). reflexivity.
Qed.
Lemma pany_never_refuses : forall l a, exists l', attr_set PAny l a = Some l'.
Proof.
  induction l as [|x l IH]; simpl; intro a; [eexists; reflexivity|].
  destruct (beq (a_name x) (a_name a)); [eexists; reflexivity|]. destruct (IH a) as [l' H]. rewrite H. eexists; reflexivity.
Qed.

(* ------------------------------------------------------------------------------------------------------- *)
(** * predefined metadata: what the getter returns is what the setter was given *)
Definition set_any (l : list attr) (a : attr) : list attr := match attr_set PAny l a with Some l' => l' | None => l end.
Lemma find_set_any_same : forall l a, find_attr (set_any l a) (a_name a) = Some a.
Proof.
  intros l a. unfold set_any, find_attr. destruct (pany_never_refuses l a) as [l' H]. rewrite H.
  destruct (attr_get_set_same_lemma _ _ _ _ H) as [i [H1 H2]]. rewrite H1. exact H2.
Qed.
Lemma find_set_any_other : forall l a n, n <> a_name a -> find_attr (set_any l a) n = find_attr l n.
Proof.
  intros l a n Hn. unfold set_any, find_attr. destruct (pany_never_refuses l a) as [l' H]. rewrite H.
  destruct (attr_get_set_other_lemma _ _ _ _ _ H Hn) as [H1 H2]. rewrite H1.
  destruct (attr_find l n) as [i|] eqn:F; [apply H2; reflexivity | reflexivity].
Qed.
Lemma put_all_cons : forall l a r, put_all l (a :: r) = put_all (set_any l a) r.
Proof. reflexivity. Qed.

Ltac names_differ := let H := fresh in intro H; vm_compute in H; discriminate H.

Lemma cal_roundtrip_lemma : forall l cal cale ioff ioffe nt,
  spec_getcal (spec_setcal l cal cale ioff ioffe nt) = Some (cal, cale, ioff, ioffe, int32_bytes nt).
Proof.
  intros. unfold spec_getcal, spec_setcal, cal_attrs. rewrite !put_all_cons. simpl put_all.
  set (a1 := mkAttr _HDF_ScaleFactor DFNT_FLOAT64 1 cal). set (a2 := mkAttr _HDF_ScaleFactorErr DFNT_FLOAT64 1 cale).
  set (a3 := mkAttr _HDF_AddOffset DFNT_FLOAT64 1 ioff). set (a4 := mkAttr _HDF_AddOffsetErr DFNT_FLOAT64 1 ioffe).
  set (a5 := mkAttr _HDF_CalibratedNt DFNT_INT32 1 (int32_bytes nt)).
  assert (find_attr (set_any (set_any (set_any (set_any (set_any l a1) a2) a3) a4) a5) _HDF_CalibratedNt = Some a5) as E5
    by (apply (find_set_any_same _ a5)).
  assert (find_attr (set_any (set_any (set_any (set_any (set_any l a1) a2) a3) a4) a5) _HDF_AddOffsetErr = Some a4) as E4.
  { rewrite (find_set_any_other _ a5) by names_differ. apply (find_set_any_same _ a4). }
  assert (find_attr (set_any (set_any (set_any (set_any (set_any l a1) a2) a3) a4) a5) _HDF_AddOffset = Some a3) as E3.
  { rewrite (find_set_any_other _ a5) by names_differ. rewrite (find_set_any_other _ a4) by names_differ.
    apply (find_set_any_same _ a3). }
  assert (find_attr (set_any (set_any (set_any (set_any (set_any l a1) a2) a3) a4) a5) _HDF_ScaleFactorErr = Some a2) as E2.
  { rewrite (find_set_any_other _ a5) by names_differ. rewrite (find_set_any_other _ a4) by names_differ.
    rewrite (find_set_any_other _ a3) by names_differ. apply (find_set_any_same _ a2). }
  assert (find_attr (set_any (set_any (set_any (set_any (set_any l a1) a2) a3) a4) a5) _HDF_ScaleFactor = Some a1) as E1.
  { rewrite (find_set_any_other _ a5) by names_differ. rewrite (find_set_any_other _ a4) by names_differ.
    rewrite (find_set_any_other _ a3) by names_differ. rewrite (find_set_any_other _ a2) by names_differ.
    apply (find_set_any_same _ a1). }
  fold (set_any l a1). fold (set_any (set_any l a1) a2). fold (set_any (set_any (set_any l a1) a2) a3).
  fold (set_any (set_any (set_any (set_any l a1) a2) a3) a4).
  fold (set_any (set_any (set_any (set_any (set_any l a1) a2) a3) a4) a5).
  rewrite E1, E2, E3, E4, E5. reflexivity.
Qed.

Lemma fixed_length : forall n d, 0 <= n -> length (fixed n d) = Z.to_nat n.
Proof.
  intros n d Hn. unfold fixed. rewrite firstn_length, app_length.
  assert (length (zeros (Z.to_nat n)) = Z.to_nat n) as Hz by (induction (Z.to_nat n); simpl; congruence).
  rewrite Hz. lia.
Qed.
Lemma range_roundtrip_lemma : forall l vnt sz mx mn, 0 <= sz ->
  spec_getrange (spec_setrange l vnt sz mx mn) sz = Some (fixed sz mx, fixed sz mn).
Proof.
  intros l vnt sz mx mn Hsz. unfold spec_getrange, spec_setrange. rewrite put_all_cons. simpl put_all.
  pose proof (find_set_any_same l (mkAttr _HDF_ValidRange vnt 2 (fixed sz mn ++ fixed sz mx))) as E.
  simpl a_name in E. rewrite E. clear E. simpl a_data.
  assert (length (fixed sz mn) = Z.to_nat sz) as L1 by (apply fixed_length; exact Hsz).
  assert (length (fixed sz mx) = Z.to_nat sz) as L2 by (apply fixed_length; exact Hsz).
  f_equal. f_equal.
  - rewrite <- L1 at 2. rewrite skipn_app, skipn_all, Nat.sub_diag. simpl. rewrite <- L2. apply firstn_all.
  - rewrite <- L1. rewrite firstn_app, firstn_all, Nat.sub_diag. simpl. apply app_nil_r.
Qed.
(** the netCDF convention: valid_max / valid_min set as two attributes of the variable's type are what SDgetrange's
    fall-back returns, maximum first *)
Lemma range_fallback_roundtrip_lemma : forall l vnt sz cmax cmin mx mn,
  spec_getrange_fb (put_all l [mkAttr valid_max_name vnt cmax mx; mkAttr valid_min_name vnt cmin mn]) vnt sz
  = Some (fixed sz mx, fixed sz mn).
Proof.
  intros. unfold spec_getrange_fb. rewrite !put_all_cons. simpl put_all.
  set (a1 := mkAttr valid_max_name vnt cmax mx). set (a2 := mkAttr valid_min_name vnt cmin mn).
  pose proof (find_set_any_same (set_any l a1) a2) as E2. simpl a_name in E2.
  assert (find_attr (set_any (set_any l a1) a2) valid_max_name = Some a1) as E1.
  { rewrite (find_set_any_other _ a2) by names_differ. apply (find_set_any_same l a1). }
  fold (set_any l a1). fold (set_any (set_any l a1) a2). rewrite E1, E2. simpl. rewrite !Z.eqb_refl. reflexivity.
Qed.

Lemma fill_roundtrip_lemma : forall l vnt sz v, spec_getfill (spec_setfill l vnt sz v) = Some (fixed sz v).
Proof.
  intros. unfold spec_getfill, spec_setfill. rewrite put_all_cons. simpl put_all.
  pose proof (find_set_any_same l (mkAttr _FillValue vnt 1 (fixed sz v))) as E.
  simpl a_name in E. rewrite E. reflexivity.
Qed.

(** strings: every non-empty string given comes back (up to the caller's buffer length), the others are untouched *)
Lemma put_all_app : forall news1 news2 l, put_all l (news1 ++ news2) = put_all (put_all l news1) news2.
Proof. induction news1 as [|a r IH]; simpl; intros; [reflexivity | apply IH]. Qed.
Lemma find_put_str_other : forall name s l n, n <> name -> find_attr (put_all l (str_attr name s)) n = find_attr l n.
Proof.
  intros name s l n Hn. destruct s as [[|x r]|]; simpl; try reflexivity.
  apply (find_set_any_other l (mkAttr name DFNT_CHAR (zlen (x :: r)) (x :: r))). exact Hn.
Qed.
Lemma find_put_str_same : forall name x r l,
  find_attr (put_all l (str_attr name (Some (x :: r)))) name = Some (mkAttr name DFNT_CHAR (zlen (x :: r)) (x :: r)).
Proof. intros. simpl. apply (find_set_any_same l (mkAttr name DFNT_CHAR (zlen (x :: r)) (x :: r))). Qed.

Lemma strs_roundtrip_lemma : forall l lab u f cs len,
  let l' := spec_setstrs l lab u f cs in
  let expect (name : bytes) (s : option bytes) :=
      match s with
      | Some (x :: r) => cstr (firstn (Z.to_nat (Z.min (zlen (x :: r)) len)) (x :: r))
      | _ => get_str l name len
      end in
  get_str l' _HDF_LongName len = expect _HDF_LongName lab /\ get_str l' _HDF_Units len = expect _HDF_Units u /\
  get_str l' _HDF_Format len = expect _HDF_Format f /\ get_str l' _HDF_CoordSys len = expect _HDF_CoordSys cs.
Proof.
  intros l lab u f cs len. cbv zeta. unfold spec_setstrs, get_str. rewrite !put_all_app.
  repeat split.
  - rewrite (find_put_str_other _HDF_CoordSys) by names_differ. rewrite (find_put_str_other _HDF_Format) by names_differ.
    rewrite (find_put_str_other _HDF_Units) by names_differ.
    destruct lab as [[|x r]|]; try reflexivity. rewrite find_put_str_same. reflexivity.
  - rewrite (find_put_str_other _HDF_CoordSys) by names_differ. rewrite (find_put_str_other _HDF_Format) by names_differ.
    destruct u as [[|x r]|].
    + simpl put_all at 1. rewrite (find_put_str_other _HDF_LongName) by names_differ. reflexivity.
    + rewrite find_put_str_same. reflexivity.
    + simpl put_all at 1. rewrite (find_put_str_other _HDF_LongName) by names_differ. reflexivity.
  - rewrite (find_put_str_other _HDF_CoordSys) by names_differ.
    destruct f as [[|x r]|].
    + simpl put_all at 1. rewrite (find_put_str_other _HDF_Units) by names_differ.
      rewrite (find_put_str_other _HDF_LongName) by names_differ. reflexivity.
    + rewrite find_put_str_same. reflexivity.
    + simpl put_all at 1. rewrite (find_put_str_other _HDF_Units) by names_differ.
      rewrite (find_put_str_other _HDF_LongName) by names_differ. reflexivity.
  - destruct cs as [[|x r]|].
    + simpl put_all at 1. rewrite (find_put_str_other _HDF_Format) by names_differ.
      rewrite (find_put_str_other _HDF_Units) by names_differ. rewrite (find_put_str_other _HDF_LongName) by names_differ. reflexivity.
    + rewrite find_put_str_same. reflexivity.
    + simpl put_all at 1. rewrite (find_put_str_other _HDF_Format) by names_differ.
      rewrite (find_put_str_other _HDF_Units) by names_differ. rewrite (find_put_str_other _HDF_LongName) by names_differ. reflexivity.
Qed.

(* ------------------------------------------------------------------------------------------------------- *)
(** * the implementation model refines the specification *)

Definition nul_free (l : bytes) : Prop := Forall (fun x => x <> 0) l.

Lemma cstr_nul_free : forall l, nul_free l -> cstr l = l.
Proof.
  induction l as [|x l IH]; simpl; intro H; [reflexivity|]. inversion H; subst.
  destruct (x =? 0) eqn:E; [apply Z.eqb_eq in E; contradiction|]. rewrite IH by assumption. reflexivity.
Qed.
Lemma strlen_nul_free : forall l, nul_free l -> strlen l = zlen l.
Proof. intros. unfold strlen. rewrite cstr_nul_free by assumption. reflexivity. Qed.
Lemma beq_length : forall a b, beq a b = true -> length a = length b.
Proof. intros a b H. apply beq_eq in H. subst. reflexivity. Qed.
Lemma beq_sym : forall a b, beq a b = beq b a.
Proof.
  intros a b. destruct (beq a b) eqn:E.
  - apply beq_eq in E. subst. symmetry. apply beq_refl.
  - symmetry. apply beq_neq. intro H. subst. rewrite beq_refl in E. discriminate.
Qed.

(** strncmp over at least max(len)+1 characters, and over exactly len characters of equally long strings, is equality *)
Lemma strncmp_beq : forall a b n, nul_free a -> nul_free b -> (length a < n \/ length a = length b /\ length a <= n)%nat ->
  strncmp_eq a b n = beq a b.
Proof.
  induction a as [|x a IH]; intros b n Ha Hb Hn.
  - destruct b as [|y b].
    + destruct n; reflexivity.
    + destruct n; simpl.
      * simpl in Hn. lia.
      * inversion Hb; subst. destruct (y =? 0) eqn:E; [apply Z.eqb_eq in E; contradiction | reflexivity].
  - inversion Ha; subst. destruct n; [simpl in Hn; lia|].
    destruct b as [|y b]; simpl.
    + destruct (x =? 0) eqn:E; [apply Z.eqb_eq in E; contradiction | reflexivity].
    + inversion Hb; subst. destruct (x =? y) eqn:E; simpl; [|reflexivity].
      destruct (x =? 0) eqn:E0; [apply Z.eqb_eq in E0; contradiction|].
      apply IH; try assumption. simpl in Hn. lia.
Qed.
Lemma strcmp_beq : forall a b, nul_free a -> nul_free b -> strcmp_eq a b = beq a b.
Proof. intros. unfold strcmp_eq. apply strncmp_beq; try assumption. left. lia. Qed.

Lemma name_match_beq : forall name stored, nul_free name -> nul_free stored -> name_match name stored = beq stored name.
Proof.
  intros name stored Hn Hs. unfold name_match. rewrite strlen_nul_free by assumption. unfold zlen.
  destruct (Z.of_nat (length name) =? Z.of_nat (length stored)) eqn:E; simpl.
  - apply Z.eqb_eq in E. apply Nat2Z.inj in E. rewrite Nat2Z.id. rewrite strncmp_beq; try assumption.
    + apply beq_sym.
    + right. lia.
  - symmetry. apply beq_neq. intro H. subst. rewrite Z.eqb_refl in E. discriminate.
Qed.

Definition names_ok (l : list mattr) : Prop := Forall (fun a => nul_free (m_name a)) l.

Lemma nc_findattr_from_findn : forall l name i, names_ok l -> nul_free name ->
  nc_findattr_from l name i = option_map (fun k => (i + k)%nat) (findn (map abs_m l) name).
Proof.
  induction l as [|a l IH]; simpl; intros name i Hl Hn; [reflexivity|]. inversion Hl; subst.
  fold (name_match name (m_name a)). rewrite name_match_beq by assumption.
  destruct (beq (m_name a) name); simpl; [f_equal; lia|].
  rewrite IH by assumption. destruct (findn (map abs_m l) name); simpl; [f_equal; lia | reflexivity].
Qed.

Lemma map_upd : forall (A B : Type) (f : A -> B) l k x, map f (upd l k x) = upd (map f l) k (f x).
Proof. induction l as [|y l IH]; intros [|k] x; simpl; try reflexivity. rewrite IH. reflexivity. Qed.
Lemma set_found : forall p l a k old, findn l (a_name a) = Some k -> nth_error l k = Some old ->
  attr_set p l a = if compatible p old a then Some (upd l k a) else None.
Proof.
  induction l as [|x l IH]; simpl; intros a k old H Hk; [discriminate|].
  destruct (beq (a_name x) (a_name a)) eqn:E.
  - inversion H; subst. simpl in Hk. inversion Hk; subst. reflexivity.
  - destruct (findn l (a_name a)) eqn:F; simpl in H; [|discriminate]. inversion H; subst. simpl in Hk.
    rewrite (IH _ _ _ F Hk). destruct (compatible p old a); reflexivity.
Qed.
Lemma set_not_found : forall p l a, findn l (a_name a) = None -> attr_set p l a = Some (l ++ [a]).
Proof.
  induction l as [|x l IH]; simpl; intros a H; [reflexivity|].
  destruct (beq (a_name x) (a_name a)); [discriminate|].
  destruct (findn l (a_name a)) eqn:F; [discriminate|]. rewrite IH by assumption. reflexivity.
Qed.
Lemma Forall_upd : forall (A : Type) (P : A -> Prop) l k x, Forall P l -> P x -> Forall P (upd l k x).
Proof.
  induction l as [|y l IH]; intros [|k] x Hl Hx; simpl; try constructor; inversion Hl; subst; try assumption.
  apply IH; assumption.
Qed.

Lemma sdi_putattr_refines_lemma : forall l name nt count data,
  nul_free name -> names_ok l -> zlen name <= H4_MAX_NC_NAME -> zlen l < H4_MAX_NC_ATTRS -> nc_type nt <> None ->
  exists l', sdi_putattr (Some l) name nt count data = Some (Some l') /\
             attr_set PAny (map abs_m l) (mkAttr name nt count data) = Some (map abs_m l') /\ names_ok l'.
Proof.
  intros l name nt count data Hn Hl Hlen Hcnt Hty. unfold sdi_putattr.
  destruct (nc_type nt) as [ty|]; [|contradiction]. unfold nc_findattr, nc_new_attr.
  rewrite strlen_nul_free by assumption. rewrite cstr_nul_free by assumption.
  destruct (H4_MAX_NC_NAME <? zlen name) eqn:E1; [apply Z.ltb_lt in E1; lia|].
  rewrite nc_findattr_from_findn by assumption.
  destruct (findn (map abs_m l) name) as [k|] eqn:F; simpl.
  - destruct (findn_sound _ _ _ F) as [old [Hold _]].
    exists (upd l k (mkM name ty nt count data)). split; [reflexivity|]. split.
    + rewrite (set_found PAny _ (mkAttr name nt count data) k old F Hold). simpl. rewrite map_upd. reflexivity.
    + apply Forall_upd; assumption.
  - destruct (H4_MAX_NC_ATTRS <=? zlen l) eqn:E2; [apply Z.leb_le in E2; lia|].
    exists (l ++ [mkM name ty nt count data]). split; [reflexivity|]. split.
    + rewrite (set_not_found PAny _ (mkAttr name nt count data) F). rewrite map_app. reflexivity.
    + apply Forall_app. split; [assumption | constructor; [assumption | constructor]].
Qed.
Lemma sdi_putattr_first_lemma : forall name nt count data,
  nul_free name -> zlen name <= H4_MAX_NC_NAME -> nc_type nt <> None ->
  exists a, sdi_putattr None name nt count data = Some (Some [a]) /\
            attr_set PAny [] (mkAttr name nt count data) = Some [abs_m a] /\ names_ok [a].
Proof.
  intros name nt count data Hn Hlen Hty. unfold sdi_putattr. destruct (nc_type nt) as [ty|]; [|contradiction].
  unfold nc_new_attr. rewrite strlen_nul_free by assumption. rewrite cstr_nul_free by assumption.
  destruct (H4_MAX_NC_NAME <? zlen name) eqn:E1; [apply Z.ltb_lt in E1; lia|].
  exists (mkM name ty nt count data). split; [reflexivity|]. split; [reflexivity|]. constructor; [assumption | constructor].
Qed.
Lemma sdi_putattr_rejects_lemma : forall ap name nt count data,
  (nc_type nt = None \/ (nul_free name /\ H4_MAX_NC_NAME < zlen name)) -> sdi_putattr ap name nt count data = None.
Proof.
  intros ap name nt count data [H | [Hn H]]; unfold sdi_putattr.
  - rewrite H. reflexivity.
  - destruct (nc_type nt); [|reflexivity]. unfold nc_new_attr. rewrite strlen_nul_free by assumption.
    apply Z.ltb_lt in H. rewrite H. destruct ap as [l|]; [|reflexivity].
    destruct (nc_findattr (Some l) name); [reflexivity|]. destruct (H4_MAX_NC_ATTRS <=? zlen l); reflexivity.
Qed.

Lemma sd_observers_refine_lemma : forall l, names_ok l ->
  (forall i, option_map abs_m (sd_attrinfo (Some l) i) = attr_get (map abs_m l) i) /\
  (forall name, nul_free name -> option_map Z.of_nat (sd_findattr (Some l) name) = attr_find (map abs_m l) name).
Proof.
  intros l Hl. split.
  - intro i. unfold sd_attrinfo, attr_get. destruct (i <? 0) eqn:E; simpl; [reflexivity|].
    destruct (zlen l <=? i) eqn:E2.
    + simpl. symmetry. apply nth_error_None. rewrite map_length. apply Z.leb_le in E2. apply Z.ltb_ge in E. unfold zlen in E2. lia.
    + rewrite nth_error_map. reflexivity.
  - intros name Hn. unfold sd_findattr, nc_findattr. rewrite nc_findattr_from_findn by assumption.
    rewrite attr_find_findn. destruct (findn (map abs_m l) name); reflexivity.
Qed.

(** NC_aput in define mode changes the list exactly as SDIputattr does (the HDF type field aside) *)
Lemma nc_aput_indef_lemma : forall l name nt ty count szof data, nc_type nt = Some ty ->
  option_map (option_map (map (fun a => (m_name a, m_type a, m_count a, m_data a)))) (nc_aput true true (Some l) name ty count szof data) =
  option_map (option_map (map (fun a => (m_name a, m_type a, m_count a, m_data a)))) (sdi_putattr (Some l) name nt count data).
Proof.
  intros l name nt ty count szof data Hty. unfold nc_aput, sdi_putattr. rewrite Hty. simpl negb. cbv iota.
  destruct (nc_findattr (Some l) name) as [k|].
  - unfold nc_new_attr. destruct (H4_MAX_NC_NAME <? strlen name); simpl; [reflexivity|]. rewrite !map_upd. reflexivity.
  - destruct (H4_MAX_NC_ATTRS <=? zlen l); [reflexivity|]. unfold nc_new_attr.
    destruct (H4_MAX_NC_NAME <? strlen name); simpl; [reflexivity|]. rewrite !map_app. reflexivity.
Qed.

(* ------------------------------------------------------------------------------------------------------- *)
(** * lookups *)
Lemma first_idx_sound : forall (A : Type) (f : A -> bool) l k, first_idx f l = Some k ->
  exists x, nth_error l k = Some x /\ f x = true /\ forall j y, (j < k)%nat -> nth_error l j = Some y -> f y = false.
Proof.
  induction l as [|z l IH]; simpl; intros k H; [discriminate|].
  destruct (f z) eqn:E.
  - inversion H; subst. exists z. repeat split; try assumption. intros; lia.
  - destruct (first_idx f l) eqn:F; simpl in H; [|discriminate]. inversion H; subst.
    destruct (IH _ eq_refl) as [x [H1 [H2 H3]]]. exists x. repeat split; try assumption.
    intros [|j] y Hj Hy; simpl in Hy; [inversion Hy; subst; assumption | eapply H3; [|exact Hy]; lia].
Qed.
Lemma first_idx_unique : forall (A : Type) (f : A -> bool) l k x, nth_error l k = Some x -> f x = true ->
  (forall j y, nth_error l j = Some y -> f y = true -> j = k) -> first_idx f l = Some k.
Proof.
  induction l as [|z l IH]; intros k x Hk Hx Hu; [destruct k; discriminate|]. simpl.
  destruct k; simpl in Hk.
  - inversion Hk; subst. rewrite Hx. reflexivity.
  - destruct (f z) eqn:E.
    + specialize (Hu O z eq_refl E). discriminate.
    + rewrite (IH k x Hk Hx); [reflexivity|]. intros j y Hj Hy. specialize (Hu (S j) y Hj Hy). lia.
Qed.
Lemma reftoindex_first : forall vs r i, reftoindex_from vs r i = option_map (fun k => (i + k)%nat) (first_idx (fun v => mv_ref v =? r) vs).
Proof.
  induction vs as [|v vs IH]; simpl; intros r i; [reflexivity|].
  destruct (mv_ref v =? r); simpl; [f_equal; lia|]. rewrite IH.
  destruct (first_idx _ vs); simpl; [f_equal; lia | reflexivity].
Qed.
Lemma nametoindex_first : forall vs n i, nametoindex_from vs n i = option_map (fun k => (i + k)%nat) (first_idx (fun v => name_match n (mv_name v)) vs).
Proof.
  induction vs as [|v vs IH]; simpl; intros n i; [reflexivity|].
  destruct (name_match n (mv_name v)); simpl; [f_equal; lia|]. rewrite IH.
  destruct (first_idx _ vs); simpl; [f_equal; lia | reflexivity].
Qed.

Lemma ref_lookups_lemma : forall vs, NoDup (map mv_ref vs) ->
  (forall i r, sd_idtoref vs i = Some r -> sd_reftoindex vs r = Some i) /\
  (forall r i, sd_reftoindex vs r = Some i -> sd_idtoref vs i = Some r).
Proof.
  intros vs Hnd. unfold sd_idtoref, sd_reftoindex. split.
  - intros i r H. destruct (nth_error vs i) as [v|] eqn:Hv; simpl in H; [|discriminate]. inversion H; subst.
    rewrite reftoindex_first. rewrite (first_idx_unique _ _ vs i v Hv); [reflexivity | apply Z.eqb_refl|].
    intros j y Hj Hy. apply Z.eqb_eq in Hy.
    assert (j < length (map mv_ref vs))%nat as Hlt by (rewrite map_length; apply nth_error_Some; congruence).
    apply (proj1 (NoDup_nth_error (map mv_ref vs)) Hnd j i Hlt).
    rewrite (map_nth_error mv_ref _ _ Hj), (map_nth_error mv_ref _ _ Hv). congruence.
  - intros r i H. rewrite reftoindex_first in H.
    destruct (first_idx (fun v => mv_ref v =? r) vs) as [k|] eqn:F; simpl in H; [|discriminate]. inversion H; subst.
    destruct (first_idx_sound _ _ _ _ F) as [x [H1 [H2 _]]]. simpl. rewrite H1. simpl. apply Z.eqb_eq in H2. congruence.
Qed.

Definition vnames_ok (vs : list mvar) : Prop := Forall (fun v => nul_free (mv_name v)) vs.
Lemma name_lookups_lemma : forall vs, vnames_ok vs ->
  (forall n i, nul_free n -> sd_nametoindex vs n = Some i ->
     exists v, nth_error vs i = Some v /\ mv_name v = n /\ forall j w, (j < i)%nat -> nth_error vs j = Some w -> mv_name w <> n) /\
  (NoDup (map mv_name vs) -> forall i v, nth_error vs i = Some v -> sd_nametoindex vs (mv_name v) = Some i).
Proof.
  intros vs Hvs. unfold sd_nametoindex. split.
  - intros n i Hn H. rewrite nametoindex_first in H.
    destruct (first_idx (fun v => name_match n (mv_name v)) vs) as [k|] eqn:F; simpl in H; [|discriminate]. inversion H; subst.
    destruct (first_idx_sound _ _ _ _ F) as [x [H1 [H2 H3]]]. exists x. simpl.
    assert (nul_free (mv_name x)) as Hx by (eapply (proj1 (Forall_forall _ vs) Hvs); eapply nth_error_In; eauto).
    rewrite name_match_beq in H2 by assumption. apply beq_eq in H2. repeat split; try assumption.
    intros j w Hj Hw Heq. specialize (H3 j w Hj Hw).
    assert (nul_free (mv_name w)) as Hw' by (eapply (proj1 (Forall_forall _ vs) Hvs); eapply nth_error_In; eauto).
    rewrite name_match_beq in H3 by assumption. rewrite Heq, beq_refl in H3. discriminate.
  - intros Hnd i v Hv. rewrite nametoindex_first.
    assert (nul_free (mv_name v)) as Hx by (eapply (proj1 (Forall_forall _ vs) Hvs); eapply nth_error_In; eauto).
    rewrite (first_idx_unique _ _ vs i v Hv); [reflexivity | rewrite name_match_beq by assumption; apply beq_refl|].
    intros j y Hj Hy.
    assert (nul_free (mv_name y)) as Hy' by (eapply (proj1 (Forall_forall _ vs) Hvs); eapply nth_error_In; eauto).
    rewrite name_match_beq in Hy by assumption. apply beq_eq in Hy.
    assert (j < length (map mv_name vs))%nat as Hlt by (rewrite map_length; apply nth_error_Some; congruence).
    apply (proj1 (NoDup_nth_error (map mv_name vs)) Hnd j i Hlt).
    rewrite (map_nth_error mv_name _ _ Hj), (map_nth_error mv_name _ _ Hv). congruence.
Qed.

(* ------------------------------------------------------------------------------------------------------- *)
(** * dimension -> coordinate variable *)
Definition is_coord (dn : bytes) (v : mvar) : bool :=
  (mv_rank v =? 1) && name_match dn (mv_name v) && (match mv_vtype v with IS_SDSVAR => false | _ => true end).
Lemma coordvar_first : forall vs dn i, coordvar_from vs dn i = option_map (fun k => (i + k)%nat) (first_idx (is_coord dn) vs).
Proof.
  induction vs as [|v vs IH]; simpl; intros dn i; [reflexivity|]. fold (is_coord dn v).
  destruct (is_coord dn v); simpl; [f_equal; lia|]. rewrite IH.
  destruct (first_idx _ vs); simpl; [f_equal; lia | reflexivity].
Qed.
Lemma first_idx_upd_same : forall (A : Type) (f : A -> bool) l k x y, nth_error l k = Some x -> f y = f x ->
  first_idx f (upd l k y) = first_idx f l.
Proof.
  induction l as [|z l IH]; intros [|k] x y Hk Hf; simpl in *; try discriminate.
  - inversion Hk; subst. rewrite Hf. reflexivity.
  - rewrite (IH k x y Hk Hf). reflexivity.
Qed.
Lemma first_idx_snoc : forall (A : Type) (f : A -> bool) l x, first_idx f l = None -> f x = true ->
  first_idx f (l ++ [x]) = Some (length l).
Proof.
  induction l as [|z l IH]; simpl; intros x H Hx; [rewrite Hx; reflexivity|].
  destruct (f z); [discriminate|]. destruct (first_idx f l) eqn:F; [discriminate|]. rewrite (IH x eq_refl Hx). reflexivity.
Qed.

(** SDIgetcoordvar: the variable it returns is the one every later lookup of that dimension name finds, and a
    second call neither creates another variable nor moves it *)
Lemma getcoordvar_stable_lemma : forall vs dn dimid nt newref, nul_free dn ->
  let '(vs', i) := sd_getcoordvar vs dn dimid nt newref in
  coordvar_from vs' dn 0 = Some i /\
  (forall newref', sd_getcoordvar vs' dn dimid 0 newref' = (vs', i)) /\
  (exists v, nth_error vs' i = Some v /\ is_coord dn v = true) /\
  (forall j w, (j < length vs)%nat -> j <> i -> nth_error vs j = Some w -> nth_error vs' j = Some w).
Proof.
  intros vs dn dimid nt newref Hdn. unfold sd_getcoordvar. rewrite coordvar_first.
  destruct (first_idx (is_coord dn) vs) as [k|] eqn:F; simpl.
  - destruct (first_idx_sound _ _ _ _ F) as [x [H1 [H2 _]]]. rewrite H1.
    set (x' := mkMV (mv_name x) (mv_rank x) (mv_vtype x) nt (mv_ref x) (mv_dim0 x)).
    assert (is_coord dn x' = is_coord dn x) as Hsame by reflexivity.
    destruct (nt =? 0).
    + rewrite coordvar_first, F. simpl. split; [reflexivity|]. split.
      * intro. rewrite H1. reflexivity.
      * split; [exists x; split; assumption|]. intros; assumption.
    + rewrite coordvar_first, (first_idx_upd_same _ _ vs k x x' H1 Hsame), F. simpl. split; [reflexivity|]. split.
      * intro.
        assert (nth_error (upd vs k x') k = Some x') as Hn.
        { clear - H1. revert k H1. induction vs as [|z vs IH]; intros [|k] H; simpl in *; try discriminate; [reflexivity | apply IH; assumption]. }
        rewrite Hn. reflexivity.
      * split.
        -- exists x'. split; [|rewrite Hsame; assumption].
           clear - H1. revert k H1. induction vs as [|z vs IH]; intros [|k] H; simpl in *; try discriminate; [reflexivity | apply IH; assumption].
        -- intros j w _ Hj Hw. clear - Hj Hw. revert k j Hj Hw.
           induction vs as [|z vs IH]; intros [|k] [|j] Hj Hw; simpl in *; try discriminate; try assumption; try lia.
           apply IH; [lia | assumption].
  - set (nv := mkMV dn 1 IS_CRDVAR (if nt =? 0 then DFNT_FLOAT32 else nt) newref dimid).
    assert (is_coord dn nv = true) as Hnv.
    { unfold is_coord, nv. simpl. rewrite name_match_beq by assumption. rewrite beq_refl. reflexivity. }
    rewrite coordvar_first, (first_idx_snoc _ _ vs nv F Hnv). simpl. split; [reflexivity|].
    assert (nth_error (vs ++ [nv]) (length vs) = Some nv) as Hn by (rewrite nth_error_app2 by lia; rewrite Nat.sub_diag; reflexivity).
    split; [intro; rewrite Hn; reflexivity|]. split; [exists nv; split; assumption|].
    intros j w Hj _ Hw. rewrite nth_error_app1 by assumption. assumption.
Qed.

(* ------------------------------------------------------------------------------------------------------- *)
(** * Vdata / Vgroup attribute tables: the attribute-Vdata encoding refines the per-field lists *)
Definition enames_ok (l : list aentry) : Prop := Forall (fun e => nul_free (av_name (ae_vd e))) l.

Lemma abs_field_cons : forall e l fi,
  abs_field (e :: l) fi = if ae_findex e =? fi then abs_e e :: abs_field l fi else abs_field l fi.
Proof. intros. unfold abs_field. simpl. destruct (ae_findex e =? fi); reflexivity. Qed.

Lemma vs_loop_refines : forall fi name nt count data l, nul_free name -> enames_ok l ->
  match vs_replace_loop l fi name nt count data with
  | Some (VOk l') => attr_set PSameTypeCount (abs_field l fi) (mkAttr name nt count data) = Some (abs_field l' fi) /\
                     (forall fj, fj <> fi -> abs_field l' fj = abs_field l fj) /\ enames_ok l' /\ length l' = length l
  | Some VFail => attr_set PSameTypeCount (abs_field l fi) (mkAttr name nt count data) = None
  | None => findn (abs_field l fi) name = None
  end.
Proof.
  intros fi name nt count data l Hn. induction l as [|e l IH]; intro Hl; [reflexivity|].
  inversion Hl as [|? ? He Hl']; subst. specialize (IH Hl'). simpl vs_replace_loop.
  rewrite abs_field_cons. rewrite strcmp_beq by assumption.
  destruct (ae_findex e =? fi) eqn:Ef; simpl andb.
  - destruct (beq (av_name (ae_vd e)) name) eqn:En.
    + simpl attr_set. rewrite En. simpl.
      destruct ((av_type (ae_vd e) =? nt) && (av_order (ae_vd e) =? count)) eqn:Ec; [|reflexivity].
      apply andb_true_iff in Ec. destruct Ec as [E1 E2]. apply Z.eqb_eq in E1. apply Z.eqb_eq in E2. apply beq_eq in En.
      split; [|split; [|split]].
      * rewrite abs_field_cons. simpl ae_findex. rewrite Ef. unfold abs_e at 1. simpl. subst. reflexivity.
      * intros fj Hfj. rewrite !abs_field_cons. simpl ae_findex. apply Z.eqb_eq in Ef. subst.
        destruct (ae_findex e =? fj) eqn:E3; [apply Z.eqb_eq in E3; congruence | reflexivity].
      * constructor; assumption.
      * reflexivity.
    + destruct (vs_replace_loop l fi name nt count data) as [[|l']|].
      * simpl attr_set. rewrite En. rewrite IH. reflexivity.
      * destruct IH as [H1 [H2 [H3 H4]]]. split; [|split; [|split]].
        -- simpl attr_set. rewrite En, H1. rewrite abs_field_cons, Ef. reflexivity.
        -- intros fj Hfj. rewrite !abs_field_cons. rewrite (H2 fj Hfj). reflexivity.
        -- constructor; assumption.
        -- simpl. congruence.
      * simpl. rewrite En, IH. reflexivity.
  - destruct (vs_replace_loop l fi name nt count data) as [[|l']|]; try assumption.
    destruct IH as [H1 [H2 [H3 H4]]]. split; [|split; [|split]].
    + rewrite abs_field_cons, Ef. assumption.
    + intros fj Hfj. rewrite !abs_field_cons. rewrite (H2 fj Hfj). reflexivity.
    + constructor; assumption.
    + simpl. congruence.
Qed.

Lemma firstn_all2_Z : forall (l : bytes) n, zlen l <= n -> firstn (Z.to_nat n) l = l.
Proof. intros. apply firstn_all2. unfold zlen in H. lia. Qed.

Lemma vs_setattr_refines_lemma : forall nf l fi name nt count data sz,
  nul_free name -> zlen name <= VSNAMELENMAX -> enames_ok l ->
  (fi = _HDF_VDATA \/ 0 <= fi < nf) ->
  nt_size nt = Some sz -> 1 <= count <= MAX_ORDER -> count * sz <= MAX_FIELD_SIZE ->
  match vs_setattr true nf l fi name nt count data with
  | VOk l' => attr_set PSameTypeCount (abs_field l fi) (mkAttr name nt count data) = Some (abs_field l' fi) /\
              (forall fj, fj <> fi -> abs_field l' fj = abs_field l fj) /\ enames_ok l'
  | VFail => attr_set PSameTypeCount (abs_field l fi) (mkAttr name nt count data) = None
  end.
Proof.
  intros nf l fi name nt count data sz Hn Hlen Hl Hfi Hsz Hc Hs. unfold vs_setattr, vs_setattr_gen.
  replace (negb (access_ok VSSETATTR_ACCESS_CHECKS true)) with false by (unfold access_ok; destruct (0 <? VSSETATTR_ACCESS_CHECKS); reflexivity).
  assert ((((nf <=? fi) || (fi <? 0)) && negb (fi =? _HDF_VDATA)) = false) as Hchk.
  { destruct Hfi as [Hfi | Hfi].
    - subst. rewrite Z.eqb_refl. simpl. apply andb_false_r.
    - destruct (nf <=? fi) eqn:E1; [apply Z.leb_le in E1; lia|]. destruct (fi <? 0) eqn:E2; [apply Z.ltb_lt in E2; lia|]. reflexivity. }
  rewrite Hchk. pose proof (vs_loop_refines fi name nt count data l Hn Hl) as HL.
  destruct (vs_replace_loop l fi name nt count data) as [[|l']|].
  - assumption.
  - destruct HL as [H1 [H2 [H3 _]]]. repeat split; assumption.
  - unfold store_attr_vdata. rewrite Hsz.
    destruct (count <? 1) eqn:E1; [apply Z.ltb_lt in E1; lia|].
    destruct (MAX_ORDER <? count) eqn:E2; [apply Z.ltb_lt in E2; lia|].
    destruct (MAX_FIELD_SIZE <? count * sz) eqn:E3; [apply Z.ltb_lt in E3; lia|]. simpl orb. cbv iota.
    assert (vs_setname name = name) as Hnm.
    { unfold vs_setname. rewrite cstr_nul_free by assumption. apply firstn_all2_Z. assumption. }
    rewrite Hnm. split; [|split].
    + rewrite (set_not_found PSameTypeCount _ (mkAttr name nt count data) HL).
      unfold abs_field. rewrite filter_app, map_app. simpl. rewrite Z.eqb_refl. reflexivity.
    + intros fj Hfj. unfold abs_field. rewrite filter_app. simpl.
      destruct (fi =? fj) eqn:E4; [apply Z.eqb_eq in E4; congruence|]. rewrite app_nil_r. reflexivity.
    + apply Forall_app. split; [assumption | constructor; [assumption | constructor]].
Qed.

(** the observers of the table are the observers of the per-field list *)
Lemma vs_nth_of_field_abs : forall l fi k, option_map abs_e (vs_nth_of_field l fi k) = nth_error (abs_field l fi) k.
Proof.
  induction l as [|e l IH]; intros fi k; [destruct k; reflexivity|]. simpl vs_nth_of_field. rewrite abs_field_cons.
  destruct (ae_findex e =? fi); [destruct k; simpl; [reflexivity | apply IH] | apply IH].
Qed.
Lemma vs_findattr_abs : forall l fi name i, nul_free name -> enames_ok l ->
  vs_findattr_from l fi name i = option_map (fun k => i + Z.of_nat k) (findn (abs_field l fi) name).
Proof.
  induction l as [|e l IH]; intros fi name i Hn Hl; [reflexivity|]. inversion Hl; subst.
  simpl vs_findattr_from. rewrite abs_field_cons. rewrite strcmp_beq by assumption.
  destruct (ae_findex e =? fi).
  - simpl. destruct (beq (av_name (ae_vd e)) name); simpl; [f_equal; lia|].
    rewrite IH by assumption. destruct (findn (abs_field l fi) name); simpl; [f_equal; lia | reflexivity].
  - apply IH; assumption.
Qed.
Lemma filter_len_le : forall (A : Type) (f : A -> bool) l, (length (filter f l) <= length l)%nat.
Proof. induction l as [|x l IH]; simpl; [lia|]. destruct (f x); simpl; lia. Qed.
Lemma vs_observers_refine_lemma : forall l fi, enames_ok l ->
  vs_fnattrs l fi = zlen (abs_field l fi) /\
  (forall i, 0 <= i < zlen (abs_field l fi) -> option_map abs_e (vs_attrinfo l fi i) = attr_get (abs_field l fi) i) /\
  (forall name, nul_free name -> vs_findattr l fi name = attr_find (abs_field l fi) name).
Proof.
  intros l fi Hl. split; [|split].
  - unfold vs_fnattrs, abs_field, zlen. rewrite map_length. reflexivity.
  - intros i Hi. unfold vs_attrinfo, attr_get.
    destruct (i <? 0) eqn:E; [apply Z.ltb_lt in E; lia|]. simpl orb.
    destruct (zlen l <=? i) eqn:E2.
    + apply Z.leb_le in E2. exfalso.
      assert (zlen (abs_field l fi) <= zlen l).
      { unfold abs_field, zlen. rewrite map_length. apply inj_le. apply filter_len_le. }
      lia.
    + apply vs_nth_of_field_abs.
  - intros name Hn. unfold vs_findattr. rewrite vs_findattr_abs by assumption. rewrite attr_find_findn.
    destruct (findn (abs_field l fi) name); simpl; [f_equal; lia | reflexivity].
Qed.

(* ------------------------------------------------------------------------------------------------------- *)
(** * GR attribute tree (keyed by index) refines the list; a re-set may change the count, never the type *)
Fixpoint gr_wf_from (t : list gattr) (i : Z) : Prop :=
  match t with [] => True | a :: r => g_index a = i /\ nul_free (g_name a) /\ gr_wf_from r (i + 1) end.
Definition gr_wf (t : list gattr) (count_ : Z) : Prop := gr_wf_from t 0 /\ count_ = zlen t.

Lemma gr_search_lemma : forall name t i, nul_free name -> gr_wf_from t i ->
  match gr_search t name with
  | Some old => exists k, findn (map abs_g t) name = Some k /\ nth_error t k = Some old /\ g_index old = i + Z.of_nat k /\
                          forall new, gr_replace t (g_index old) new = upd t k new
  | None => findn (map abs_g t) name = None
  end.
Proof.
  intros name t. induction t as [|a r IH]; intros i Hn Hwf; [reflexivity|].
  destruct Hwf as [Hi [Ha Hr]]. simpl. rewrite strcmp_beq by assumption.
  destruct (beq (g_name a) name) eqn:E.
  - exists O. simpl. split; [reflexivity|]. split; [reflexivity|]. split; [lia|]. intro new. rewrite Z.eqb_refl. reflexivity.
  - specialize (IH (i + 1) Hn Hr). destruct (gr_search r name) as [old|].
    + destruct IH as [k [H1 [H2 [H3 H4]]]]. exists (S k). rewrite H1. simpl. repeat split; try assumption; try lia.
      intro new. destruct (g_index a =? g_index old) eqn:E2; [apply Z.eqb_eq in E2; lia|]. rewrite H4. reflexivity.
    + rewrite IH. reflexivity.
Qed.
Lemma gr_wf_upd : forall t i k old new, gr_wf_from t i -> nth_error t k = Some old -> g_index new = g_index old ->
  nul_free (g_name new) -> gr_wf_from (upd t k new) i.
Proof.
  induction t as [|a r IH]; intros i [|k] old new Hwf Hk Hidx Hnm; simpl in *; try discriminate; destruct Hwf as [H1 [H2 H3]].
  - inversion Hk; subst. repeat split; try assumption; try congruence.
  - repeat split; try assumption. eapply IH; eauto.
Qed.
Lemma gr_wf_snoc : forall t i new, gr_wf_from t i -> g_index new = i + zlen t -> nul_free (g_name new) -> gr_wf_from (t ++ [new]) i.
Proof.
  induction t as [|a r IH]; intros i new Hwf Hidx Hnm; simpl in *.
  - unfold zlen in Hidx. simpl in Hidx. repeat split; try assumption. lia.
  - destruct Hwf as [H1 [H2 H3]]. repeat split; try assumption. apply IH; try assumption.
    unfold zlen in *. simpl length in Hidx. lia.
Qed.

Lemma upd_length : forall (A : Type) (l : list A) k x, length (upd l k x) = length l.
Proof. induction l as [|y l IH]; intros [|k] x; simpl; try reflexivity. rewrite IH. reflexivity. Qed.
Lemma gr_setattr_refines_lemma : forall t c name nt count data sz,
  gr_wf t c -> nul_free name -> nt_size nt = Some sz -> 1 <= count <= MAX_ORDER -> count * sz <= MAX_FIELD_SIZE ->
  match gr_setattr t c name nt count data with
  | Some (t', c') => attr_set PSameType (map abs_g t) (mkAttr name nt count data) = Some (map abs_g t') /\ gr_wf t' c'
  | None => attr_set PSameType (map abs_g t) (mkAttr name nt count data) = None
  end.
Proof.
  intros t c name nt count data sz [Hwf Hc] Hn Hsz Hcnt Hs. unfold gr_setattr. rewrite Hsz.
  destruct (MAX_ORDER <? count) eqn:E1; [apply Z.ltb_lt in E1; lia|].
  destruct (MAX_FIELD_SIZE <? count * sz) eqn:E2; [apply Z.ltb_lt in E2; lia|].
  destruct (count <=? 0) eqn:E3; [apply Z.leb_le in E3; lia|]. simpl orb. cbv iota.
  pose proof (gr_search_lemma name t 0 Hn Hwf) as HS.
  destruct (gr_search t name) as [old|].
  - destruct HS as [k [H1 [H2 [H3 H4]]]].
    assert (nth_error (map abs_g t) k = Some (abs_g old)) as Hm by (apply map_nth_error; assumption).
    rewrite (set_found PSameType _ (mkAttr name nt count data) k (abs_g old) H1 Hm). simpl compatible.
    rewrite (Z.eqb_sym (g_nt old) nt).
    destruct (nt =? g_nt old) eqn:E4; simpl; [|reflexivity]. apply Z.eqb_eq in E4.
    destruct (findn_sound _ _ _ H1) as [x [Hx Hnx]]. rewrite Hm in Hx. inversion Hx; subst x. simpl in Hnx.
    split.
    + rewrite H4, map_upd. unfold abs_g at 3. simpl. rewrite Hnx, <- E4. reflexivity.
    + split.
      * rewrite H4. eapply gr_wf_upd; eauto. simpl. rewrite Hnx. assumption.
      * rewrite H4. unfold zlen. rewrite upd_length. assumption.
  - rewrite (set_not_found PSameType _ (mkAttr name nt count data) HS). rewrite cstr_nul_free by assumption.
    split; [rewrite map_app; reflexivity|]. split.
    + apply gr_wf_snoc; simpl; try assumption; try lia.
    + unfold zlen. rewrite app_length. simpl. unfold zlen in Hc. lia.
Qed.

Lemma find_ext_Z : forall (A : Type) (f g : A -> bool) l, (forall x, f x = g x) -> find f l = find g l.
Proof. induction l as [|x l IH]; simpl; intro H; [reflexivity|]. rewrite H. destruct (g x); [reflexivity | apply IH; assumption]. Qed.
Lemma gr_find_index : forall t i k, gr_wf_from t i ->
  find (fun a => g_index a =? i + Z.of_nat k) t = nth_error t k.
Proof.
  induction t as [|a r IH]; intros i k Hwf; [destruct k; reflexivity|]. destruct Hwf as [H1 [H2 H3]]. simpl.
  destruct k.
  - simpl. rewrite H1, Z.add_0_r, Z.eqb_refl. reflexivity.
  - destruct (g_index a =? i + Z.of_nat (S k)) eqn:E; [apply Z.eqb_eq in E; lia|].
    simpl. rewrite <- (IH (i + 1) k H3). apply find_ext_Z. intro x. f_equal. lia.
Qed.

(** the fall-back branch of SDgetrange, as the source has it (names and their destinations regenerated), is the
    specification's fall-back *)
Lemma attr_at_abs : forall l n, names_ok l -> nul_free n -> option_map abs_m (attr_at (Some l) n) = find_attr (map abs_m l) n.
Proof.
  intros l n Hl Hn. unfold attr_at, nc_findattr, find_attr. rewrite nc_findattr_from_findn by assumption.
  rewrite attr_find_findn. destruct (findn (map abs_m l) n) as [k|]; simpl; [|reflexivity].
  rewrite attr_get_nat, nth_error_map. reflexivity.
Qed.
Lemma getrange_fallback_refines_lemma : forall l vnt sz, names_ok l ->
  sd_getrange_fb (Some l) vnt sz = spec_getrange_fb (map abs_m l) vnt sz.
Proof.
  intros l vnt sz Hl. unfold sd_getrange_fb, spec_getrange_fb.
  change GETRANGE_MAX_NAME with valid_max_name. change GETRANGE_MIN_NAME with valid_min_name.
  assert (nul_free valid_max_name) as N1 by (repeat constructor; discriminate).
  assert (nul_free valid_min_name) as N2 by (repeat constructor; discriminate).
  pose proof (attr_at_abs l valid_max_name Hl N1) as E1. pose proof (attr_at_abs l valid_min_name Hl N2) as E2.
  destruct (attr_at (Some l) valid_max_name) as [a1|]; destruct (attr_at (Some l) valid_min_name) as [a2|];
    simpl in E1, E2; rewrite <- E1; try rewrite <- E2; reflexivity.
Qed.

(** an object attached for reading refuses VSsetattr / Vsetattr (the table is left as it was: no new table is returned);
    SDgetdimscale of an unlimited dimension of an HDF file reads as many values as its coordinate variable has *)
Lemma setattr_refused_for_reading_lemma : forall nf l fi name nt count data,
  vs_setattr false nf l fi name nt count data = VFail /\ vg_setattr false l name nt count data = VFail.
Proof. intros. split; reflexivity. Qed.
Lemma getdimscale_count_lemma : forall size fnr vnr,
  (size <> 0 -> sd_getdimscale_count true size fnr vnr = size) /\ sd_getdimscale_count true 0 fnr vnr = vnr /\
  sd_getdimscale_count false 0 fnr vnr = fnr.
Proof.
  intros. split; [|split; reflexivity]. intro H. unfold sd_getdimscale_count.
  destruct (size =? 0) eqn:E; [apply Z.eqb_eq in E; contradiction | reflexivity].
Qed.
