(** C10 -- proofs: laws of the attribute-list specification, and refinement of the implementation model to it. *)
From Coq Require Import ZArith List Bool Lia.
Require Import H4.gen.Gen_Attr H4.AttrSpec H4.AttrModel.
Import ListNotations.
Local Open Scope Z_scope.

(* ------------------------------------------------------------------------------------------------------- *)
(** * byte-string equality *)
Lemma beq_eq : forall a b, beq a b = true <-> a = b.
Proof.
  induction a as [|x a IH]; destruct b as [|y b]; simpl; split; intro H; try reflexivity; try discriminate.
  - apply andb_true_iff in H. destruct H as [H1 H2]. apply Z.eqb_eq in H1. apply IH in H2. subst. reflexivity.
  - inversion H; subst. rewrite Z.eqb_refl. simpl. apply IH. reflexivity.
Qed.
Lemma beq_refl : forall a, beq a a = true.
Proof. intro a. apply beq_eq. reflexivity. Qed.
Lemma beq_neq : forall a b, a <> b -> beq a b = false.
Proof. intros a b H. destruct (beq a b) eqn:E; [apply beq_eq in E; contradiction | reflexivity]. Qed.
Lemma beq_false_neq : forall a b, beq a b = false -> a <> b.
Proof. intros a b H E. subst. rewrite beq_refl in H. discriminate. Qed.

(* ------------------------------------------------------------------------------------------------------- *)
(** * the specification's list, with natural-number indices *)
Fixpoint findn (l : list attr) (n : bytes) : option nat :=
  match l with
  | [] => None
  | x :: r => if beq (a_name x) n then Some O else option_map S (findn r n)
  end.

Lemma find_from_findn : forall l n i, attr_find_from l n i = option_map (fun k => i + Z.of_nat k) (findn l n).
Proof.
  induction l as [|x l IH]; simpl; intros n i; [reflexivity|].
  destruct (beq (a_name x) n); simpl; [f_equal; lia|].
  rewrite IH. destruct (findn l n); simpl; [f_equal; lia | reflexivity].
Qed.
Lemma attr_find_findn : forall l n, attr_find l n = option_map Z.of_nat (findn l n).
Proof. intros. unfold attr_find. rewrite find_from_findn. destruct (findn l n); reflexivity. Qed.
Lemma attr_get_nat : forall l k, attr_get l (Z.of_nat k) = nth_error l k.
Proof.
  intros. unfold attr_get. destruct (Z.of_nat k <? 0) eqn:E; [apply Z.ltb_lt in E; lia|]. rewrite Nat2Z.id. reflexivity.
Qed.
Lemma attr_get_some_nat : forall l i x, attr_get l i = Some x -> exists k, i = Z.of_nat k /\ nth_error l k = Some x.
Proof.
  unfold attr_get. intros l i x H. destruct (i <? 0) eqn:E; [discriminate|]. apply Z.ltb_ge in E.
  exists (Z.to_nat i). split; [rewrite Z2Nat.id; lia | exact H].
Qed.

Lemma findn_sound : forall l n k, findn l n = Some k -> exists x, nth_error l k = Some x /\ a_name x = n.
Proof.
  induction l as [|y l IH]; simpl; intros n k H; [discriminate|].
  destruct (beq (a_name y) n) eqn:E.
  - inversion H; subst. exists y. split; [reflexivity | apply beq_eq; exact E].
  - destruct (findn l n) eqn:F; simpl in H; [|discriminate]. inversion H; subst. simpl. apply IH. exact F.
Qed.
Lemma findn_first : forall l n k, findn l n = Some k -> forall j y, (j < k)%nat -> nth_error l j = Some y -> a_name y <> n.
Proof.
  induction l as [|x l IH]; simpl; intros n k H j y Hj Hy; [discriminate|].
  destruct (beq (a_name x) n) eqn:E.
  - inversion H; subst. lia.
  - destruct (findn l n) eqn:F; simpl in H; [|discriminate]. inversion H; subst.
    destruct j; simpl in Hy.
    + inversion Hy; subst. apply beq_false_neq. exact E.
    + eapply IH; [exact F | | exact Hy]. lia.
Qed.
Lemma findn_none : forall l n, findn l n = None -> ~ In n (map a_name l).
Proof.
  induction l as [|x l IH]; simpl; intros n H; [tauto|].
  destruct (beq (a_name x) n) eqn:E; [discriminate|].
  destruct (findn l n) eqn:F; [discriminate|]. intros [H1 | H1].
  - apply beq_false_neq in E. contradiction.
  - eapply IH; eauto.
Qed.
Lemma findn_complete_nodup : forall l k x, NoDup (map a_name l) -> nth_error l k = Some x -> findn l (a_name x) = Some k.
Proof.
  induction l as [|y l IH]; intros k x Hnd H; [destruct k; discriminate|].
  simpl in Hnd. inversion Hnd as [|? ? Hni Hnd']; subst.
  destruct k; simpl in *.
  - inversion H; subst. rewrite beq_refl. reflexivity.
  - assert (In (a_name x) (map a_name l)) as Hin by (apply in_map; eapply nth_error_In; eauto).
    rewrite beq_neq by (intro E; rewrite E in Hni; contradiction).
    rewrite (IH _ _ Hnd' H). reflexivity.
Qed.

(** ** attr_set *)
Lemma set_same_n : forall p l a l', attr_set p l a = Some l' ->
  exists k, findn l' (a_name a) = Some k /\ nth_error l' k = Some a.
Proof.
  induction l as [|x l IH]; simpl; intros a l' H.
  - inversion H; subst. exists O. simpl. rewrite beq_refl. split; reflexivity.
  - destruct (beq (a_name x) (a_name a)) eqn:E.
    + destruct (compatible p x a); [|discriminate]. inversion H; subst. exists O. simpl. rewrite beq_refl. split; reflexivity.
    + destruct (attr_set p l a) eqn:F; simpl in H; [|discriminate]. inversion H; subst.
      destruct (IH _ _ F) as [k [H1 H2]]. exists (S k). simpl. rewrite E, H1. split; [reflexivity | exact H2].
Qed.
Lemma set_other_find : forall p l a l' n, attr_set p l a = Some l' -> n <> a_name a -> findn l' n = findn l n.
Proof.
  induction l as [|x l IH]; simpl; intros a l' n H Hn.
  - inversion H; subst. simpl. rewrite beq_neq by congruence. reflexivity.
  - destruct (beq (a_name x) (a_name a)) eqn:E.
    + destruct (compatible p x a); [|discriminate]. inversion H; subst. simpl.
      apply beq_eq in E. rewrite E. reflexivity.
    + destruct (attr_set p l a) eqn:F; simpl in H; [|discriminate]. inversion H; subst. simpl.
      destruct (beq (a_name x) n); [reflexivity|]. rewrite (IH _ _ _ F Hn). reflexivity.
Qed.
Lemma set_nth : forall p l a l', attr_set p l a = Some l' -> forall k x, nth_error l k = Some x ->
  exists y, nth_error l' k = Some y /\ a_name y = a_name x /\ (a_name x <> a_name a -> y = x).
Proof.
  induction l as [|z l IH]; simpl; intros a l' H k x Hk; [destruct k; discriminate|].
  destruct (beq (a_name z) (a_name a)) eqn:E.
  - destruct (compatible p z a); [|discriminate]. inversion H; subst. apply beq_eq in E.
    destruct k; simpl in *.
    + inversion Hk; subst. exists a. split; [reflexivity|]. split; [congruence|]. intro Hne. congruence.
    + exists x. tauto.
  - destruct (attr_set p l a) eqn:F; simpl in H; [|discriminate]. inversion H; subst.
    destruct k; simpl in *.
    + inversion Hk; subst. exists x. tauto.
    + eapply IH; eauto.
Qed.
Lemma set_shape : forall p l a l', attr_set p l a = Some l' ->
  (map a_name l' = map a_name l /\ findn l (a_name a) <> None) \/ (findn l (a_name a) = None /\ l' = l ++ [a]).
Proof.
  induction l as [|x l IH]; simpl; intros a l' H.
  - inversion H; subst. right. split; reflexivity.
  - destruct (beq (a_name x) (a_name a)) eqn:E.
    + destruct (compatible p x a); [|discriminate]. inversion H; subst. left. simpl. apply beq_eq in E. rewrite E.
      split; [reflexivity | discriminate].
    + destruct (attr_set p l a) eqn:F; simpl in H; [|discriminate]. inversion H; subst.
      destruct (IH _ _ F) as [[H1 H2] | [H1 H2]].
      * left. simpl. rewrite H1. split; [reflexivity|]. destruct (findn l (a_name a)); [discriminate | contradiction].
      * right. rewrite H1, H2. split; reflexivity.
Qed.
Lemma set_none : forall p l a, attr_set p l a = None ->
  exists k old, findn l (a_name a) = Some k /\ nth_error l k = Some old /\ compatible p old a = false.
Proof.
  induction l as [|x l IH]; simpl; intros a H; [discriminate|].
  destruct (beq (a_name x) (a_name a)) eqn:E.
  - destruct (compatible p x a) eqn:C; [discriminate|]. exists O, x. repeat split; assumption.
  - destruct (attr_set p l a) eqn:F; simpl in H; [discriminate|].
    destruct (IH _ F) as [k [old [H1 [H2 H3]]]]. exists (S k), old. rewrite H1. repeat split; assumption.
Qed.
Lemma NoDup_snoc : forall (A : Type) (l : list A) x, NoDup l -> ~ In x l -> NoDup (l ++ [x]).
Proof.
  induction l as [|y l IH]; simpl; intros x Hnd Hni.
  - constructor; [tauto | constructor].
  - inversion Hnd; subst. constructor.
    + intro Hin. apply in_app_or in Hin. destruct Hin as [Hin | [Hin | []]]; [contradiction | subst; tauto].
    + apply IH; tauto.
Qed.
Lemma set_nodup : forall p l a l', NoDup (map a_name l) -> attr_set p l a = Some l' -> NoDup (map a_name l').
Proof.
  intros p l a l' Hnd H. destruct (set_shape _ _ _ _ H) as [[H1 _] | [H1 H2]].
  - rewrite H1. exact Hnd.
  - subst. rewrite map_app. simpl. apply NoDup_snoc; [exact Hnd | apply findn_none; exact H1].
Qed.

(** ** the five laws, with the specification's Z indices *)
Lemma attr_get_set_same_lemma : forall p l a l', attr_set p l a = Some l' ->
  exists i, attr_find l' (a_name a) = Some i /\ attr_get l' i = Some a.
Proof.
  intros p l a l' H. destruct (set_same_n _ _ _ _ H) as [k [H1 H2]]. exists (Z.of_nat k).
  rewrite attr_find_findn, H1, attr_get_nat. split; [reflexivity | exact H2].
Qed.
Lemma attr_get_set_other_lemma : forall p l a l' n, attr_set p l a = Some l' -> n <> a_name a ->
  attr_find l' n = attr_find l n /\ (forall i, attr_find l n = Some i -> attr_get l' i = attr_get l i).
Proof.
  intros p l a l' n H Hn. rewrite !attr_find_findn, (set_other_find _ _ _ _ _ H Hn). split; [reflexivity|].
  intros i Hi. destruct (findn l n) as [k|] eqn:F; simpl in Hi; [|discriminate]. inversion Hi; subst.
  rewrite !attr_get_nat. destruct (findn_sound _ _ _ F) as [x [Hx Hnx]].
  destruct (set_nth _ _ _ _ H _ _ Hx) as [y [Hy [_ Hyx]]]. rewrite Hy, Hx. f_equal. apply Hyx. congruence.
Qed.
Lemma attr_index_stable_lemma : forall p l a l', attr_set p l a = Some l' ->
  (forall i x, attr_get l i = Some x ->
     exists y, attr_get l' i = Some y /\ a_name y = a_name x /\ (a_name x <> a_name a -> y = x)) /\
  ((zlen l' = zlen l /\ attr_find l (a_name a) <> None) \/ (attr_find l (a_name a) = None /\ l' = l ++ [a])).
Proof.
  intros p l a l' H. split.
  - intros i x Hi. destruct (attr_get_some_nat _ _ _ Hi) as [k [Hk Hx]]. subst.
    destruct (set_nth _ _ _ _ H _ _ Hx) as [y Hy]. exists y. rewrite attr_get_nat. exact Hy.
  - rewrite attr_find_findn. destruct (set_shape _ _ _ _ H) as [[H1 H2] | [H1 H2]].
    + left. split.
      * unfold zlen. f_equal. rewrite <- (map_length a_name l'), <- (map_length a_name l). rewrite H1. reflexivity.
      * destruct (findn l (a_name a)); [discriminate | contradiction].
    + right. rewrite H1. split; [reflexivity | exact H2].
Qed.
Lemma attr_set_refused_lemma : forall p l a, attr_set p l a = None ->
  exists i old, attr_find l (a_name a) = Some i /\ attr_get l i = Some old /\ compatible p old a = false.
Proof.
  intros p l a H. destruct (set_none _ _ _ H) as [k [old [H1 [H2 H3]]]]. exists (Z.of_nat k), old.
  rewrite attr_find_findn, H1, attr_get_nat. repeat split; assumption.
Qed.
Lemma attr_find_inverse_lemma : forall l,
  (forall n i, attr_find l n = Some i -> exists x, attr_get l i = Some x /\ a_name x = n) /\
  (NoDup (map a_name l) -> forall i x, attr_get l i = Some x -> attr_find l (a_name x) = Some i).
Proof.
  intro l. split.
  - intros n i H. rewrite attr_find_findn in H. destruct (findn l n) as [k|] eqn:F; simpl in H; [|discriminate].
    inversion H; subst. rewrite attr_get_nat. apply findn_sound. exact F.
  - intros Hnd i x H. destruct (attr_get_some_nat _ _ _ H) as [k [Hk Hx]]. subst.
    rewrite attr_find_findn, (findn_complete_nodup _ _ _ Hnd Hx). reflexivity.
Qed.
Lemma pany_never_refuses : forall l a, exists l', attr_set PAny l a = Some l'.
Proof.
  induction l as [|x l IH]; simpl; intro a; [eexists; reflexivity|].
  destruct (beq (a_name x) (a_name a)); [eexists; reflexivity|]. destruct (IH a) as [l' H]. rewrite H. eexists; reflexivity.
Qed.

(* ------------------------------------------------------------------------------------------------------- *)
(** * predefined metadata: what the getter returns is what the setter was given *)
Definition set_any (l : list attr) (a : attr) : list attr := match attr_set PAny l a with Some l' => l' | None => l end.
Lemma find_set_any_same : forall l a, find_attr (set_any l a) (a_name a) = Some a.
Proof.
  intros l a. unfold set_any, find_attr. destruct (pany_never_refuses l a) as [l' H]. rewrite H.
  destruct (attr_get_set_same_lemma _ _ _ _ H) as [i [H1 H2]]. rewrite H1. exact H2.
Qed.
Lemma find_set_any_other : forall l a n, n <> a_name a -> find_attr (set_any l a) n = find_attr l n.
Proof.
  intros l a n Hn. unfold set_any, find_attr. destruct (pany_never_refuses l a) as [l' H]. rewrite H.
  destruct (attr_get_set_other_lemma _ _ _ _ _ H Hn) as [H1 H2]. rewrite H1.
  destruct (attr_find l n) as [i|] eqn:F; [apply H2; reflexivity | reflexivity].
Qed.
Lemma put_all_cons : forall l a r, put_all l (a :: r) = put_all (set_any l a) r.
Proof. reflexivity. Qed.

Ltac names_differ := let H := fresh in intro H; vm_compute in H; discriminate H.

Lemma cal_roundtrip_lemma : forall l cal cale ioff ioffe nt,
  spec_getcal (spec_setcal l cal cale ioff ioffe nt) = Some (cal, cale, ioff, ioffe, int32_bytes nt).
Proof.
  intros. unfold spec_getcal, spec_setcal, cal_attrs. rewrite !put_all_cons. simpl put_all.
  set (a1 := mkAttr _HDF_ScaleFactor DFNT_FLOAT64 1 cal). set (a2 := mkAttr _HDF_ScaleFactorErr DFNT_FLOAT64 1 cale).
  set (a3 := mkAttr _HDF_AddOffset DFNT_FLOAT64 1 ioff). set (a4 := mkAttr _HDF_AddOffsetErr DFNT_FLOAT64 1 ioffe).
  set (a5 := mkAttr _HDF_CalibratedNt DFNT_INT32 1 (int32_bytes nt)).
  assert (find_attr (set_any (set_any (set_any (set_any (set_any l a1) a2) a3) a4) a5) _HDF_CalibratedNt = Some a5) as E5
    by (apply (find_set_any_same _ a5)).
  assert (find_attr (set_any (set_any (set_any (set_any (set_any l a1) a2) a3) a4) a5) _HDF_AddOffsetErr = Some a4) as E4.
  { rewrite (find_set_any_other _ a5) by names_differ. apply (find_set_any_same _ a4). }
  assert (find_attr (set_any (set_any (set_any (set_any (set_any l a1) a2) a3) a4) a5) _HDF_AddOffset = Some a3) as E3.
  { rewrite (find_set_any_other _ a5) by names_differ. rewrite (find_set_any_other _ a4) by names_differ.
    apply (find_set_any_same _ a3). }
  assert (find_attr (set_any (set_any (set_any (set_any (set_any l a1) a2) a3) a4) a5) _HDF_ScaleFactorErr = Some a2) as E2.
  { rewrite (find_set_any_other _ a5) by names_differ. rewrite (find_set_any_other _ a4) by names_differ.
    rewrite (find_set_any_other _ a3) by names_differ. apply (find_set_any_same _ a2). }
  assert (find_attr (set_any (set_any (set_any (set_any (set_any l a1) a2) a3) a4) a5) _HDF_ScaleFactor = Some a1) as E1.
  { rewrite (find_set_any_other _ a5) by names_differ. rewrite (find_set_any_other _ a4) by names_differ.
    rewrite (find_set_any_other _ a3) by names_differ. rewrite (find_set_any_other _ a2) by names_differ.
    apply (find_set_any_same _ a1). }
  fold (set_any l a1). fold (set_any (set_any l a1) a2). fold (set_any (set_any (set_any l a1) a2) a3).
  fold (set_any (set_any (set_any (set_any l a1) a2) a3) a4).
  fold (set_any (set_any (set_any (set_any (set_any l a1) a2) a3) a4) a5).
  rewrite E1, E2, E3, E4, E5. reflexivity.
Qed.

Lemma fixed_length : forall n d, 0 <= n -> length (fixed n d) = Z.to_nat n.
Proof.
  intros n d Hn. unfold fixed. rewrite firstn_length, app_length.
  assert (length (zeros (Z.to_nat n)) = Z.to_nat n) as Hz by (induction (Z.to_nat n); simpl; congruence).
  rewrite Hz. lia.
Qed.
Lemma range_roundtrip_lemma : forall l vnt sz mx mn, 0 <= sz ->
  spec_getrange (spec_setrange l vnt sz mx mn) sz = Some (fixed sz mx, fixed sz mn).
Proof.
  intros l vnt sz mx mn Hsz. unfold spec_getrange, spec_setrange. rewrite put_all_cons. simpl put_all.
  pose proof (find_set_any_same l (mkAttr _HDF_ValidRange vnt 2 (fixed sz mn ++ fixed sz mx))) as E.
  simpl a_name in E. rewrite E. clear E. simpl a_data.
  assert (length (fixed sz mn) = Z.to_nat sz) as L1 by (apply fixed_length; exact Hsz).
  assert (length (fixed sz mx) = Z.to_nat sz) as L2 by (apply fixed_length; exact Hsz).
  f_equal. f_equal.
  - rewrite <- L1 at 2. rewrite skipn_app, skipn_all, Nat.sub_diag. simpl. rewrite <- L2. apply firstn_all.
  - rewrite <- L1. rewrite firstn_app, firstn_all, Nat.sub_diag. simpl. apply app_nil_r.
Qed.
Lemma fill_roundtrip_lemma : forall l vnt sz v, spec_getfill (spec_setfill l vnt sz v) = Some (fixed sz v).
Proof.
  intros. unfold spec_getfill, spec_setfill. rewrite put_all_cons. simpl put_all.
  pose proof (find_set_any_same l (mkAttr _FillValue vnt 1 (fixed sz v))) as E.
  simpl a_name in E. rewrite E. reflexivity.
Qed.

(** strings: every non-empty string given comes back (up to the caller's buffer length), the others are untouched *)
Lemma put_all_app : forall news1 news2 l, put_all l (news1 ++ news2) = put_all (put_all l news1) news2.
Proof. induction news1 as [|a r IH]; simpl; intros; [reflexivity | apply IH]. Qed.
Lemma find_put_str_other : forall name s l n, n <> name -> find_attr (put_all l (str_attr name s)) n = find_attr l n.
Proof.
  intros name s l n Hn. destruct s as [[|x r]|]; simpl; try reflexivity.
  apply (find_set_any_other l (mkAttr name DFNT_CHAR (zlen (x :: r)) (x :: r))). exact Hn.
Qed.
Lemma find_put_str_same : forall name x r l,
  find_attr (put_all l (str_attr name (Some (x :: r)))) name = Some (mkAttr name DFNT_CHAR (zlen (x :: r)) (x :: r)).
Proof. intros. simpl. apply (find_set_any_same l (mkAttr name DFNT_CHAR (zlen (x :: r)) (x :: r))). Qed.

Lemma strs_roundtrip_lemma : forall l lab u f cs len,
  let l' := spec_setstrs l lab u f cs in
  let expect (name : bytes) (s : option bytes) :=
      match s with
      | Some (x :: r) => cstr (firstn (Z.to_nat (Z.min (zlen (x :: r)) len)) (x :: r))
      | _ => get_str l name len
      end in
  get_str l' _HDF_LongName len = expect _HDF_LongName lab /\ get_str l' _HDF_Units len = expect _HDF_Units u /\
  get_str l' _HDF_Format len = expect _HDF_Format f /\ get_str l' _HDF_CoordSys len = expect _HDF_CoordSys cs.
Proof.
  intros l lab u f cs len. cbv zeta. unfold spec_setstrs, get_str. rewrite !put_all_app.
  repeat split.
  - rewrite (find_put_str_other _HDF_CoordSys) by names_differ. rewrite (find_put_str_other _HDF_Format) by names_differ.
    rewrite (find_put_str_other _HDF_Units) by names_differ.
    destruct lab as [[|x r]|]; try reflexivity. rewrite find_put_str_same. reflexivity.
  - rewrite (find_put_str_other _HDF_CoordSys) by names_differ. rewrite (find_put_str_other _HDF_Format) by names_differ.
    destruct u as [[|x r]|].
    + simpl put_all at 1. rewrite (find_put_str_other _HDF_LongName) by names_differ. reflexivity.
    + rewrite find_put_str_same. reflexivity.
    + simpl put_all at 1. rewrite (find_put_str_other _HDF_LongName) by names_differ. reflexivity.
  - rewrite (find_put_str_other _HDF_CoordSys) by names_differ.
    destruct f as [[|x r]|].
    + simpl put_all at 1. rewrite (find_put_str_other _HDF_Units) by names_differ.
      rewrite (find_put_str_other _HDF_LongName) by names_differ. reflexivity.
    + rewrite find_put_str_same. reflexivity.
    + simpl put_all at 1. rewrite (find_put_str_other _HDF_Units) by names_differ.
      rewrite (find_put_str_other _HDF_LongName) by names_differ. reflexivity.
  - destruct cs as [[|x r]|].
    + simpl put_all at 1. rewrite (find_put_str_other _HDF_Format) by names_differ.
      rewrite (find_put_str_other _HDF_Units) by names_differ. rewrite (find_put_str_other _HDF_LongName) by names_differ. reflexivity.
    + rewrite find_put_str_same. reflexivity.
    + simpl put_all at 1. rewrite (find_put_str_other _HDF_Format) by names_differ.
      rewrite (find_put_str_other _HDF_Units) by names_differ. rewrite (find_put_str_other _HDF_LongName) by names_differ. reflexivity.
Qed.
