(** C03 -- abstract specification S: a scientific dataset is one n-dimensional array.
    No proofs in this file (total computable definitions only; extracted to OCaml).

    Values are opaque element bit patterns (Z).  A cell is
      Val v   most recently written value v
      Fill    never written, storage created while fill mode was on  -> reads as the dataset's fill value
      Undef   the property says nothing about its content (no-fill mode, or inside the region of a failed request)
      Unwr    fixed-size dataset whose storage has not been created yet (no write so far)
    The array is kept flat in row-major order.  For an unlimited dataset the first extent is the record count,
    known to lie in [a_lo, a_hi]; the two differ only after a failed or empty write request, for which the
    property fixes the return value / the untouched cells but not the new extent. *)
From Coq Require Import ZArith List Bool.
Import ListNotations.
Local Open Scope Z_scope.

Inductive cell := Val (v : Z) | Fill | Undef | Unwr.
Inductive res := ROk | RFail | RAny.

Record arr := mkArr {
  a_shape : list Z;        (* extents; head is ignored (0) when a_unlim *)
  a_unlim : bool;
  a_lo : Z; a_hi : Z;      (* record count interval (unlimited only) *)
  a_fillmode : bool;       (* SD_FILL (true) / SD_NOFILL *)
  a_userfill : option Z;   (* SDsetfillvalue *)
  a_dfill : Z;             (* default fill value of the number type *)
  a_touched : bool;        (* a write request has been made *)
  a_cells : list cell      (* row-major; records 0..a_lo-1 when unlimited *)
}.

(* ---- slabs -------------------------------------------------------------------------------- *)
Fixpoint zrange (s t : Z) (n : nat) : list Z :=
  match n with O => [] | S k => s :: zrange (s + t) t k end.

(** coordinates selected by (start, stride, count), in row-major order; rank 0 selects the one cell [] *)
Fixpoint slab_cells (start stride count : list Z) : list (list Z) :=
  match start, stride, count with
  | s :: ss, t :: ts, c :: cs =>
      flat_map (fun i => map (cons i) (slab_cells ss ts cs)) (zrange s t (Z.to_nat c))
  | _, _, _ => [[]]
  end.

Definition prod (l : list Z) : Z := fold_right Z.mul 1 l.

(** row-major linear index of a coordinate vector *)
Fixpoint lin_acc (shape c : list Z) (acc : Z) : Z :=
  match shape, c with
  | d :: ds, x :: xs => lin_acc ds xs (acc * d + x)
  | _, _ => acc
  end.
Definition lin (shape c : list Z) : Z := lin_acc shape c 0.

Fixpoint upd_nth {A} (n : nat) (v : A) (l : list A) : list A :=
  match l, n with
  | [], _ => []
  | _ :: t, O => v :: t
  | h :: t, S k => h :: upd_nth k v t
  end.

Definition ones (l : list Z) : list Z := map (fun _ => 1) l.
Definition reach (s t c : Z) : Z := s + (c - 1) * t.   (* last index touched along one dimension *)

Fixpoint all3 (f : Z -> Z -> Z -> bool) (a b c : list Z) : bool :=
  match a, b, c with
  | x :: a', y :: b', z :: c' => f x y z && all3 f a' b' c'
  | _, _, _ => true
  end.
Fixpoint all4 (f : Z -> Z -> Z -> Z -> bool) (a b c d : list Z) : bool :=
  match a, b, c, d with
  | x :: a', y :: b', z :: c', w :: d' => f x y z w && all4 f a' b' c' d'
  | _, _, _, _ => true
  end.

(** a request selects at least one cell along every dimension, with positive strides *)
Definition well_formed (stride count : list Z) : bool :=
  forallb (fun c => 1 <=? c) count && forallb (fun t => 1 <=? t) stride.

Definition dim_in (s t c d : Z) : bool := (0 <=? s) && (reach s t c <? d).

(** all dimensions but a growable first one lie inside the shape *)
Definition inner_in (a : arr) (start stride count : list Z) : bool :=
  if a_unlim a then (0 <=? hd 0 start) && all4 dim_in (tl start) (tl stride) (tl count) (tl (a_shape a))
  else all4 dim_in start stride count (a_shape a).

Definition recsz (a : arr) : Z := prod (tl (a_shape a)).
Definition reach0 (start stride count : list Z) : Z := reach (hd 0 start) (hd 1 stride) (hd 1 count).

Definition fillval (a : arr) : Z := match a_userfill a with Some v => v | None => a_dfill a end.

(* ---- operations ---------------------------------------------------------------------------- *)
Definition set_cells (a : arr) (cs : list cell) (lo hi : Z) : arr :=
  mkArr (a_shape a) (a_unlim a) lo hi (a_fillmode a) (a_userfill a) (a_dfill a) true cs.

Definition create_storage (a : arr) (cs : list cell) : list cell :=
  map (fun x => match x with Unwr => if a_fillmode a then Fill else Undef | y => y end) cs.

Definition nofill_unwr (a : arr) (cs : list cell) : list cell :=
  if a_fillmode a then cs else map (fun x => match x with Unwr => Undef | y => y end) cs.

Definition repeatZ {A} (x : A) (n : Z) : list A := repeat x (Z.to_nat n).

(** assign vals to the slab cells, in row-major order *)
Definition assign (shape : list Z) (cs : list cell) (coords : list (list Z)) (vals : list cell) : list cell :=
  fold_left (fun acc cv => upd_nth (Z.to_nat (lin shape (fst cv))) (snd cv) acc) (combine coords vals) cs.

Definition in_extent (a : arr) (c : list Z) : bool :=
  if a_unlim a then (0 <=? hd 0 c) && (hd 0 c <? a_lo a) &&
                    all3 (fun x d _ => (0 <=? x) && (x <? d)) (tl c) (tl (a_shape a)) (tl c)
  else all3 (fun x d _ => (0 <=? x) && (x <? d)) c (a_shape a) c.

Definition s_write (a : arr) (start stride count vals : list Z) : res * arr :=
  if negb (well_formed stride count) then
    (* empty / ill-formed request: no existing cell changes; the extent may have grown up to start+1 *)
    let hi := if a_unlim a && (0 <=? hd 0 start)
              then Z.max (Z.max (a_hi a) (hd 0 start + 1)) (reach0 start stride count + 1) else a_hi a in
    (RAny, set_cells a (nofill_unwr a (a_cells a)) (a_lo a) hi)
  else if inner_in a start stride count then
    (* valid request: assignment, growing along the unlimited dimension when needed *)
    let r0 := reach0 start stride count in
    let lo' := if a_unlim a then Z.max (a_lo a) (r0 + 1) else a_lo a in
    let hi' := if a_unlim a then Z.max (a_hi a) (r0 + 1) else a_hi a in
    let grown :=
      if a_unlim a then
        repeatZ Undef ((Z.min lo' (a_hi a) - a_lo a) * recsz a) ++
        repeatZ (if a_fillmode a then Fill else Undef) ((lo' - Z.max (a_lo a) (a_hi a)) * recsz a)
      else [] in
    let cs := create_storage a (a_cells a) ++ grown in
    (ROk, set_cells a (assign (a_shape a) cs (slab_cells start stride count) (map Val vals)) lo' hi')
  else
    (* request reaches outside the extent: FAIL; only cells of the requested region may have changed *)
    let region := filter (in_extent a) (slab_cells start stride count) in
    let cs := assign (a_shape a) (nofill_unwr a (a_cells a)) region (map (fun _ => Undef) region) in
    let hi' := if a_unlim a then Z.max (a_hi a) (reach0 start stride count + 1) else a_hi a in
    (RFail, set_cells a cs (a_lo a) hi').

Definition resolve (a : arr) (c : cell) : cell :=
  match c with
  | Val v => Val v
  | Fill => Val (fillval a)
  | Undef => Undef
  | Unwr => if a_fillmode a then Val (fillval a) else Undef
  end.

Definition s_read (a : arr) (start stride count : list Z) : res * list cell :=
  if negb (well_formed stride count) then (RAny, [])
  else if negb (inner_in a start stride count) then (RFail, [])
  else if a_unlim a && (a_hi a <=? reach0 start stride count) then (RFail, [])
  else if a_unlim a && (a_lo a <=? reach0 start stride count) then (RAny, [])
  else (ROk, map (fun c => resolve a (nth (Z.to_nat (lin (a_shape a) c)) (a_cells a) Undef))
                 (slab_cells start stride count)).

Inductive op :=
| OpMode (m : Z) | OpFillv (v : Z) | OpBlock (n : Z)
| OpWrite (us : bool) (start stride count vals : list Z)
| OpRead (us : bool) (start stride count : list Z)
| OpInfo | OpReopen
| OpReopenRO.     (* SDend + SDstart(DFACC_READ): the same array, read-only session *)

Inductive sout :=
| SRet (r : res)
| SRead (r : res) (cells : list cell)
| SInfo (dims : list (Z * Z)) (fv : option Z)     (* every extent as an interval *)
| SNone.

Definition s_init (shape : list Z) (unlim : bool) (dfill : Z) : arr :=
  mkArr shape unlim 0 0 true None dfill false
        (if unlim then [] else repeatZ Unwr (prod shape)).

Definition s_step (a : arr) (o : op) : arr * sout :=
  match o with
  | OpMode m =>
      let fm := if m =? 0 then true else if m =? 256 then false else a_fillmode a in
      (mkArr (a_shape a) (a_unlim a) (a_lo a) (a_hi a) fm (a_userfill a) (a_dfill a) (a_touched a) (a_cells a), SNone)
  | OpFillv v =>
      (* the property only speaks of a fill value set before the first write request *)
      let cs := if a_touched a then map (fun x => match x with Fill | Unwr => Undef | y => y end) (a_cells a)
                else a_cells a in
      (mkArr (a_shape a) (a_unlim a) (a_lo a) (a_hi a) (a_fillmode a) (Some v) (a_dfill a) (a_touched a) cs, SNone)
  | OpBlock _ => (a, SNone)
  | OpWrite us start stride count vals =>
      let st := if us then stride else ones start in
      let (r, a') := s_write a start st count vals in (a', SRet r)
  | OpRead us start stride count =>
      let st := if us then stride else ones start in
      let (r, cs) := s_read a start st count in (a, SRead r cs)
  | OpInfo =>
      let dims := match a_shape a with
                  | d :: ds => (if a_unlim a then (a_lo a, a_hi a) else (d, d)) :: map (fun x => (x, x)) ds
                  | [] => [] end in
      (a, SInfo dims (a_userfill a))
  | OpReopen | OpReopenRO =>
      (mkArr (a_shape a) (a_unlim a) (a_lo a) (a_hi a) true (a_userfill a) (a_dfill a) (a_touched a) (a_cells a), SNone)
  end.

Fixpoint s_run (a : arr) (ops : list op) : list sout :=
  match ops with
  | [] => []
  | o :: r => let (a', out) := s_step a o in out :: s_run a' r
  end.
