(** C13 proofs (see Properties_C13.v for the statements). *)
From Coq Require Import ZArith List Bool Lia.
Require Import H4.gen.Gen_Atom H4.AtomModel.
Import ListNotations.
Local Open Scope Z_scope.

Lemma cache_size_is_4 : ATOM_CACHE_SIZE = 4.
Proof. reflexivity. Qed.
